"""Regenerate Generated/, build the Lean project for one property, audit its theorems."""
import os, re, subprocess, time
from .proto import LEAN_DIR, VERIF

ALLOWED_AXIOMS = {"propext", "Classical.choice", "Quot.sound"}
FORBIDDEN = re.compile(r"\b(sorry|admit|native_decide|bv_decide|implemented_by|maxHeartbeats 0)\b|^\s*axiom\s|\bunsafe\s", re.M)


def _strip_comments(src):
    # remove /- ... -/ (nested not handled beyond one level; our files do not nest) and -- comments
    src = re.sub(r"/-.*?-/", "", src, flags=re.S)
    src = re.sub(r"--.*", "", src)
    return src


def theorems_of(prop_file):
    src = _strip_comments(open(prop_file).read())
    stack, out = [], []
    for ln in src.splitlines():
        m = re.match(r"^namespace\s+(\S+)", ln)
        if m:
            stack.append(m.group(1))
            continue
        m = re.match(r"^end\s+(\S+)", ln)
        if m and stack and stack[-1] == m.group(1):
            stack.pop()
            continue
        m = re.match(r"^theorem\s+(\S+)", ln)
        if m:
            out.append(".".join(stack + [m.group(1)]))
    return out


def prop_modules(pid):
    """Props/<pid>.lean plus any Props/<pid><Suffix>.lean (e.g. C19Container)."""
    d = os.path.join(LEAN_DIR, "BadsProofs", "Props")
    out = [f[:-5] for f in sorted(os.listdir(d)) if f.endswith(".lean") and re.fullmatch(pid + r"[A-Za-z]*", f[:-5])]
    return out


def lean_sources():
    out = []
    for root, _, files in os.walk(LEAN_DIR):
        if ".lake" in root:
            continue
        for f in files:
            if f.endswith(".lean"):
                out.append(os.path.join(root, f))
    return out


def grep_forbidden():
    hits = []
    for f in lean_sources():
        src = _strip_comments(open(f).read())
        for m in FORBIDDEN.finditer(src):
            hits.append(f"{os.path.relpath(f, LEAN_DIR)}: {m.group(0).strip()}")
    return hits


def lake(args, timeout=3000):
    t0 = time.time()
    p = subprocess.run(["lake"] + args, cwd=LEAN_DIR, stdout=subprocess.PIPE, stderr=subprocess.STDOUT, text=True, timeout=timeout)
    return p.returncode, p.stdout, time.time() - t0


def build(pid, extra_targets=()):
    """Build models, driver and this property's proof module.

    Returns dict(ok, model_ok, proof_ok, log, failed_modules)."""
    res = {"model_ok": True, "proof_ok": True, "log": "", "failed": []}
    rc, out, dt = lake(["build", "BadsModel", "Driver", "driver"])
    res["log"] += out[-3000:]
    if rc != 0:
        res["model_ok"] = False
        res["failed"].append("BadsModel/Driver")
        return res
    prop_file = os.path.join(LEAN_DIR, "BadsProofs", "Props", f"{pid}.lean")
    if os.path.exists(prop_file):
        targets = [f"BadsProofs.Props.{m}" for m in prop_modules(pid)] + list(extra_targets)
        rc, out, dt = lake(["build"] + targets)
        res["log"] += out[-3000:]
        if rc != 0:
            res["proof_ok"] = False
            res["failed"] += re.findall(r"^- (\S+)", out, flags=re.M)
            res["errors"] = re.findall(r"^error: (.*)$", out, flags=re.M)[:10]
    else:
        res["proof_ok"] = False
        res["failed"].append(f"missing BadsProofs/Props/{pid}.lean")
    return res


def audit(pid):
    """`#print axioms` on every theorem of Props/<pid>.lean.

    Returns (obligations, discharged, bad: {thm: reason}, axioms_used: sorted list)."""
    mods = prop_modules(pid)
    thms = []
    for m in mods:
        thms += theorems_of(os.path.join(LEAN_DIR, "BadsProofs", "Props", f"{m}.lean"))
    adir = os.path.join(LEAN_DIR, ".lake", "audit")
    os.makedirs(adir, exist_ok=True)
    afile = os.path.join(adir, f"Audit{pid}.lean")
    with open(afile, "w") as f:
        for m in mods:
            f.write(f"import BadsProofs.Props.{m}\n")
        for t in thms:
            f.write(f"#print axioms {t}\n")
    def once():
        p = subprocess.run(["lake", "env", "lean", afile], cwd=LEAN_DIR, stdout=subprocess.PIPE, stderr=subprocess.STDOUT, text=True, timeout=1200)
        out = p.stdout
        bad, used = {}, set()
        seen = set()
        # messages look like: 'Bads.foo' depends on axioms: [propext, Quot.sound]   or   'Bads.foo' does not depend on any axioms
        for m in re.finditer(r"'([^']+)' (depends on axioms: \[([^\]]*)\]|does not depend on any axioms)", out, flags=re.S):
            name = m.group(1)
            seen.add(name)
            axs = set(a.strip() for a in (m.group(3) or "").replace("\n", " ").split(",") if a.strip())
            used |= axs
            extra = axs - ALLOWED_AXIOMS
            if extra:
                bad[name] = "axioms: " + ", ".join(sorted(extra))
        missing = [t for t in thms if t not in seen]
        for t in missing:
            bad[t] = "not checked (missing from audit output)"
        if p.returncode != 0 and not bad:
            bad["<audit>"] = out[-500:]
        return bad, used, missing, p.returncode

    bad, used, missing, rc = once()
    if missing or rc != 0:
        # a concurrent build may have been rewriting the compiled modules: rebuild this property's modules and audit once more
        import time as _t
        _t.sleep(2)
        subprocess.run(["lake", "build"] + [f"BadsProofs.Props.{m}" for m in mods], cwd=LEAN_DIR, stdout=subprocess.PIPE, stderr=subprocess.STDOUT, text=True, timeout=3000)
        bad, used, missing, rc = once()
    for h in grep_forbidden():
        bad["<grep> " + h] = "forbidden token in Lean sources"
    return len(thms), len([t for t in thms if t not in bad]), bad, sorted(used), thms


def leanchecker(pid):
    """Independent re-check of the compiled proof module (thorough tier)."""
    try:
        p = subprocess.run(["lake", "env", "leanchecker", f"BadsProofs.Props.{pid}"], cwd=LEAN_DIR,
                           stdout=subprocess.PIPE, stderr=subprocess.STDOUT, text=True, timeout=1500)
    except (OSError, subprocess.TimeoutExpired) as e:
        return None
    return p.returncode == 0, p.stdout
