"""Entry point of every check:  python -m harness.core Cxx [--tier quick|thorough] [--replay P]

Flow (DESIGN.md 2.1): regenerate + build + audit  ->  correspondence  ->  property predicates on
the implementation's observations  ->  verdict  ->  evidence.
Exit codes: 0 property held on everything explored; 1 + VIOLATION line; 2 machinery error.
"""
import os

for _v in ("OMP_NUM_THREADS", "OPENBLAS_NUM_THREADS", "MKL_NUM_THREADS", "NUMEXPR_NUM_THREADS"):
    os.environ[_v] = "1"
os.environ["PYBADS_VERIF"] = "1"
os.environ.setdefault("MPLBACKEND", "Agg")

import argparse, importlib, json, logging, random, sys, time, traceback, warnings

REPO = os.environ.get("VERIF_REPO", "/repo")      # experiments only (tools/harmless_eval.sh): the registered commands never set it
sys.path.insert(0, REPO)
warnings.filterwarnings("ignore")
logging.disable(logging.CRITICAL)

from . import build as B
from . import translate as T
from .proto import Driver, VERIF
from . import known as K

TRUSTED_BASE = [
    "Lean 4.33.0 kernel; axioms admitted: propext, Classical.choice, Quot.sound (audited by #print axioms on every property theorem on every run)",
    "Mathlib v4.33.0 (proof files only, single modules)",
    "hand-written Lean model of the anchored code, tied to /repo by the correspondence check of this run (differential execution, not a proof)",
    "harness: Python tracer/generators, JSON line protocol, compiled Lean driver executing the model definitions",
    "oracle components not modelled: gpyreg GP fit/predict, SciPy (Sobol, eigh, shapiro, erfc), NumPy kernels and RNG, user target/constraint callables",
    "IEEE-754 facts: exactness of power-of-two scaling/round/compare/min/max on binary64 absent overflow (checked on observed values)",
]


class Report:
    """What a property module hands back to the core."""

    def __init__(self):
        self.violations = []      # dicts: clause, site, summary, case (JSON-able replay data)
        self.disagreements = []   # dicts: corr (name), summary, case
        self.coverage = {}        # evidence coverage keys (evaluations, distinct_nontrivial, rule, samples, ...)
        self.assumptions = []
        self.notes = []

    def violation(self, clause, site, summary, case):
        self.violations.append({"clause": clause, "site": site, "summary": summary, "case": case})

    def disagree(self, corr, summary, case):
        self.disagreements.append({"corr": corr, "summary": summary, "case": case})


class Ctx:
    def __init__(self, pid, tier, seed):
        self.pid, self.tier, self.seed = pid, tier, seed
        self.rng = random.Random(seed)
        self.driver = Driver()
        self.quick = tier == "quick"
        self.t0 = time.time()

    def sub_rng(self, tag):
        return random.Random(f"{self.seed}:{tag}")


def _write_json(path, obj):
    os.makedirs(os.path.dirname(path), exist_ok=True)
    tmp = path + ".tmp"
    with open(tmp, "w") as f:
        json.dump(obj, f, indent=1, default=str)
    os.replace(tmp, path)


OUT = os.environ.get("VERIF_OUT", VERIF)          # experiments only: where replays/ and evidence/ are written


def write_replay(pid, tag, payload):
    path = os.path.join(OUT, "replays", f"{pid}_{tag}.json")
    _write_json(path, payload)
    return os.path.relpath(path, OUT) if OUT == VERIF else path


def corpus_cases(pid, mod):
    """Minimised failing inputs of past (seeded) regressions, kept under corpus/<pid>/: replayed on every run, before the verdict."""
    d = os.path.join(VERIF, "corpus", pid)
    kinds = set(getattr(mod, "CORPUS_KINDS", ()))
    out = []
    if kinds and os.path.isdir(d):
        for fn in sorted(os.listdir(d)):
            if fn.endswith(".json"):
                try:
                    data = json.load(open(os.path.join(d, fn)))
                except ValueError:
                    continue
                if (data.get("case") or {}).get("kind") in kinds:
                    out.append((fn, data))
    return out


def main(argv=None):
    ap = argparse.ArgumentParser()
    ap.add_argument("pid")
    ap.add_argument("--tier", default=os.environ.get("VERIF_TIER", "quick"), choices=["quick", "thorough"])
    ap.add_argument("--replay", default=None)
    args = ap.parse_args(argv)
    pid = args.pid
    seed = int(os.environ.get("VERIF_SEED") or "20260926")
    os.chdir(VERIF)
    t0 = time.time()
    try:
        rc = _run(pid, args.tier, seed, args.replay, t0)
    except SystemExit:
        raise
    except BaseException:
        traceback.print_exc()
        print(f"MACHINERY-ERROR property={pid} (no verdict)")
        sys.exit(2)
    sys.exit(rc)


def _run(pid, tier, seed, replay, t0):
    mod = importlib.import_module(f"harness.props.{pid.lower()}")
    ctx = Ctx(pid, tier, seed)

    # 1. regenerate + build + audit
    gen_changed = T.regenerate()
    b = B.build(pid)
    if not b["model_ok"]:
        print(b["log"][-2000:])
        print(f"MACHINERY-ERROR property={pid}: Lean model/driver does not build")
        return 2
    proof_broken = []
    obligations = discharged = 0
    axioms_used, thms = [], []
    if b["proof_ok"]:
        obligations, discharged, bad, axioms_used, thms = B.audit(pid)
        proof_broken = [f"{k}: {v}" for k, v in bad.items()]
    else:
        proof_broken = [f"proof module does not build: {', '.join(b['failed'])}"] + b.get("errors", [])
        try:
            thms = B.theorems_of(os.path.join(B.LEAN_DIR, "BadsProofs", "Props", f"{pid}.lean"))
            obligations = len(thms)
        except OSError:
            pass
    if tier == "thorough" and b["proof_ok"] and not replay:
        lc = B.leanchecker(pid)
        if lc is not None and not lc[0]:
            proof_broken.append("leanchecker: " + lc[1][-300:])

    # 2./3. correspondence + property predicates on implementation observations
    if replay:
        data = json.load(open(replay))
        rep = mod.replay(ctx, data)
    else:
        rep = mod.run(ctx)
        ncorp = 0
        for fn, data in corpus_cases(pid, mod):
            r2 = mod.replay(Ctx(pid, tier, seed), data)
            ncorp += 1
            for v in r2.violations:
                v["summary"] = f"[corpus {fn}] " + v["summary"]
            rep.violations += r2.violations
            rep.disagreements += r2.disagreements
        rep.coverage["corpus_cases_replayed"] = ncorp

    # 4. verdict
    findings = K.load()
    exit_code = 0
    unknown = []
    known_hit = {}
    for v in rep.violations:
        k = K.match(findings, pid, v)
        if k is not None:
            known_hit.setdefault(k["id"], (k, v))
        else:
            unknown.append(v)
    for kid, (k, v) in sorted(known_hit.items()):
        print(f"KNOWN-FINDING: property={pid} {k['what']} [{kid}]")
    n_viol = 0
    seen_keys = set()
    for v in unknown:
        key = (v["clause"], v["site"])
        if key in seen_keys:
            continue
        seen_keys.add(key)
        n_viol += 1
        path = write_replay(pid, f"{v['clause']}_{len(seen_keys)}", {
            "property": pid, "kind": "failing-input", "clause": v["clause"], "site": v["site"],
            "summary": v["summary"], "seed": seed, "tier": tier, "case": v["case"]})
        print(f"VIOLATION property={pid} replay={path}")
        print(f"  clause={v['clause']} site={v['site']}: {v['summary']}")
        exit_code = 1

    if not unknown and (proof_broken or rep.disagreements) and not replay:
        # a proof obligation or the correspondence no longer checks: widen the search for a failing input
        wid = None
        if hasattr(mod, "widen"):
            wid = mod.widen(ctx, rep)
        found = []
        if wid is not None:
            for v in wid.violations:
                if K.match(findings, pid, v) is None:
                    found.append(v)
        if found:
            v = found[0]
            path = write_replay(pid, f"{v['clause']}_widened", {
                "property": pid, "kind": "failing-input", "clause": v["clause"], "site": v["site"],
                "summary": v["summary"], "seed": seed, "tier": tier, "case": v["case"],
                "broken": {"proof": proof_broken, "correspondence": [d["corr"] for d in rep.disagreements]}})
            print(f"VIOLATION property={pid} replay={path}")
            print(f"  clause={v['clause']} site={v['site']}: {v['summary']}")
            n_viol += 1
        else:
            d0 = rep.disagreements[0] if rep.disagreements else None
            path = write_replay(pid, "unproved", {
                "property": pid, "kind": "no-failing-input-found",
                "broken_theorems": proof_broken,
                "broken_correspondence": [{"corr": d["corr"], "summary": d["summary"], "case": d["case"]} for d in rep.disagreements[:5]],
                "explanation": "the property is no longer shown to hold: a proof obligation and/or the model-code correspondence fails; the failing-input search found no concrete violation",
                "seed": seed, "tier": tier})
            what = proof_broken[0] if proof_broken else f"correspondence {d0['corr']}: {d0['summary']}"
            print(f"  no longer checks: {what}")
            print(f"VIOLATION property={pid} replay={path} no-failing-input-found")
            n_viol += 1
        exit_code = 1
    elif rep.disagreements and replay:
        for d in rep.disagreements[:3]:
            print(f"  correspondence {d['corr']}: {d['summary']}")
        if not unknown:
            print(f"VIOLATION property={pid} replay={replay} no-failing-input-found")
            exit_code = 1

    # 5. evidence
    if not replay:
        cov = dict(rep.coverage)
        cov.setdefault("evaluations", 0)
        cov.setdefault("distinct_nontrivial", 0)
        cov.setdefault("rule", "")
        cov.setdefault("samples", [])
        cov["obligations"] = max(obligations, 1)
        cov["discharged"] = discharged
        cov["theorems"] = thms
        cov["axioms_used"] = axioms_used
        cov["proof_broken"] = proof_broken
        cov["checker_cmd"] = (f"cd lean && lake build BadsProofs.Props.{pid} && lake env lean .lake/audit/Audit{pid}.lean"
                              "  (#print axioms on every theorem; grep for sorry/admit/axiom/native_decide/bv_decide/implemented_by/unsafe)"
                              + ("; lake env leanchecker BadsProofs.Props.%s" % pid if tier == "thorough" else ""))
        cov["trusted_base"] = TRUSTED_BASE
        cov["correspondence_disagreements"] = len(rep.disagreements)
        cov["known_findings_reproduced"] = sorted(known_hit.keys())
        cov["generated_defaults_changed"] = bool(gen_changed)
        ev = {
            "property_id": pid, "tier": tier, "seed": seed, "level": "proof",
            "coverage": cov, "assumptions": rep.assumptions, "wall_s": round(time.time() - t0, 2),
            "violations": n_viol,
        }
        if rep.notes:
            ev["notes"] = rep.notes
        _write_json(os.path.join(OUT, "evidence", f"{pid}.json"), ev)
    if exit_code == 0:
        print(f"OK property={pid} tier={tier} theorems={discharged}/{obligations} "
              f"evaluations={rep.coverage.get('evaluations', 0)} known={len(known_hit)} wall={time.time() - t0:.1f}s")
    return exit_code


if __name__ == "__main__":
    main()
