"""Line protocol to the Lean model driver: exact float <-> text, batch calls."""
import json, math, os, subprocess, tempfile
from fractions import Fraction

VERIF = os.path.dirname(os.path.dirname(os.path.abspath(__file__)))
LEAN_DIR = os.path.join(VERIF, "lean")
DRIVER = os.path.join(LEAN_DIR, ".lake", "build", "bin", "driver")


def enc(x):
    """Exact encoding of a Python/NumPy scalar as a rational string (or inf/-inf/nan)."""
    if isinstance(x, Fraction):
        return str(x.numerator) if x.denominator == 1 else f"{x.numerator}/{x.denominator}"
    if isinstance(x, bool):
        raise TypeError("bool is not a number here")
    if isinstance(x, int):
        return str(x)
    x = float(x)
    if math.isnan(x):
        return "nan"
    if math.isinf(x):
        return "inf" if x > 0 else "-inf"
    n, d = x.as_integer_ratio()
    return str(n) if d == 1 else f"{n}/{d}"


def enc_pt(p):
    return [enc(v) for v in list(p)]


def enc_pts(P):
    return [enc_pt(r) for r in P]


def dec(s):
    """Decode a driver number to a Fraction (or float inf/nan)."""
    if isinstance(s, int):
        return Fraction(s)
    if s == "inf":
        return math.inf
    if s == "-inf":
        return -math.inf
    if s == "nan":
        return math.nan
    return Fraction(s)


def dec_f(s):
    v = dec(s)
    return float(v)


def dec_pt(p):
    return [dec(v) for v in p]


def dec_pts(P):
    return [dec_pt(r) for r in P]


class DriverError(Exception):
    pass


class Driver:
    """Batch interface: send a list of request dicts, get the list of results.

    A result is the value under "ok"; a model-side error raises DriverError (with the
    index of the request), because a request the model cannot parse is a harness bug,
    not a property verdict."""

    def __init__(self, path=DRIVER):
        self.path = path
        self.calls = 0

    def call_many(self, reqs, allow_error=False):
        if not reqs:
            return []
        data = "\n".join(json.dumps(r, separators=(",", ":")) for r in reqs) + "\n"
        with tempfile.TemporaryFile("w+") as fin:
            fin.write(data)
            fin.seek(0)
            p = subprocess.run([self.path], stdin=fin, stdout=subprocess.PIPE, stderr=subprocess.PIPE, text=True)
        if p.returncode != 0:
            raise DriverError(f"driver exited {p.returncode}: {p.stderr[:500]}")
        lines = p.stdout.splitlines()
        if len(lines) != len(reqs):
            raise DriverError(f"driver answered {len(lines)} lines for {len(reqs)} requests: {p.stderr[:300]}")
        out = []
        for i, ln in enumerate(lines):
            j = json.loads(ln)
            if "error" in j:
                if allow_error:
                    out.append({"__error__": j["error"]})
                    continue
                raise DriverError(f"request {i} ({reqs[i].get('cmd')}): {j['error']}")
            out.append(j["ok"])
        self.calls += len(reqs)
        return out

    def call(self, req):
        return self.call_many([req])[0]
