"""Run real BADS(...).optimize() with wrappers installed from outside and record an event trace.

Nothing in /repo is edited: module attributes and class attributes are replaced for the duration
of one run (in a worker process) and restored afterwards.  The trace separates ORACLE fields
(candidate sets, target values, GP estimates, random draws) from DETERMINED fields (filtered sets,
which point is evaluated, counters, mesh exponents, incumbent, history, result); the Lean models
predict the latter from the former."""
import os, sys, traceback, hashlib, pickle, time, json
import numpy as np

ITER_CAP = 20000   # hard stop for a loop that does not terminate (reported as a failing history)


class LoopBoundExceeded(Exception):
    pass


def _f(x):
    """float or None; numpy scalars/0-d/1-element arrays to float."""
    if x is None:
        return None
    try:
        a = np.asarray(x, dtype=float)
    except (TypeError, ValueError):
        return repr(x)
    if a.size == 1:
        return float(a.reshape(-1)[0])
    return [float(v) for v in a.reshape(-1)]


def _rows(A):
    A = np.atleast_2d(np.asarray(A, dtype=float))
    return [[float(v) for v in r] for r in A]


def _vec(a):
    return [float(v) for v in np.asarray(a, dtype=float).reshape(-1)]


class _MarkDict(dict):
    """optim_state with a counter of writes to 'iter' (one per main-loop pass while the tracer's run is inside optimize())."""
    def __init__(self, d, state):
        super().__init__(d)
        self._st = state

    def __setitem__(self, k, v):
        if k == "iter" and self._st.get("in_optimize"):
            self._st["iter_marks"] = self._st.get("iter_marks", 0) + 1
        super().__setitem__(k, v)

    def __reduce__(self):
        return (dict, (dict(self),))


def run_traced(spec, fault=None, gp_faults=None, predict_faults=None, ei_script=None, max_filt_rows=600, want=("call", "filt", "ctl", "hist", "gp"),
               es_script=None, iter_cap=None, update_faults=None, add_faults=None):
    """Execute one run described by `spec`; returns a picklable trace dict."""
    import logging
    # logging stays ENABLED (the display levels 'iter' / 'full' are options like any other and switch code paths on), its output goes nowhere
    logging.disable(logging.NOTSET)
    _root = logging.getLogger()
    for _h in list(_root.handlers):
        _root.removeHandler(_h)
    _root.addHandler(logging.NullHandler())
    _bl = logging.getLogger("BADS")
    for _h in list(_bl.handlers):
        _bl.removeHandler(_h)
    _bl.addHandler(logging.NullHandler())
    _bl.propagate = False
    import warnings
    warnings.filterwarnings("ignore")
    from . import gen
    import pybads.bads.bads as bb
    import pybads.search.es_search as es
    import pybads.search.search_hedge as sh
    import pybads.bads.gaussian_process_train as gpt
    import pybads.poll  # noqa
    pm = sys.modules['pybads.poll.poll_mads_2n']
    from pybads.function_logger import FunctionLogger
    from pybads.utils.iteration_history import IterationHistory
    from pybads import BADS

    fun, x0, lb, ub, plb, pub, cons_fn, opts, aux = gen.build(spec, fault=fault)
    ev = []
    tr = {"spec": spec, "fault": fault, "gp_faults": gp_faults, "predict_faults": predict_faults, "ei_script": ei_script, "es_script": es_script, "update_faults": update_faults, "add_faults": add_faults, "events": ev, "error": None, "result": None,
          "hdr": None, "final": None, "log": None, "constructed": False}
    state = {"phase": ["pre"], "bads": None, "loop": 0, "gpfit_idx": 0, "cons_calls": []}

    cons_wrapped = None
    if cons_fn is not None:
        def cons_wrapped(X):
            C = cons_fn(X)
            state["cons_calls"].append((_rows(X), [float(v) for v in np.asarray(C, dtype=float).reshape(-1)], state["phase"][-1]))
            return C

    saved = []

    def patch(obj, name, new):
        saved.append((obj, name, getattr(obj, name)))
        setattr(obj, name, new)

    # ---- FunctionLogger.__call__ ---------------------------------------------------------
    o_call = FunctionLogger.__call__

    def w_call(self, x, record_duplicate_data=True):
        b = state["bads"]
        if b is None or self is not b.function_logger:
            return o_call(self, x, record_duplicate_data)
        k = aux["calls"]["n"]
        e = {"k": k, "u": _vec(x), "rec": bool(record_duplicate_data), "phase": state["phase"][-1],
             "fc_before": int(self.func_count), "Xn_before": int(self.Xn)}
        try:
            r = o_call(self, x, record_duplicate_data)
        except BaseException as ex:
            e["exc"] = type(ex).__name__
            e["x"] = _vec(aux["calls"]["xs"][k]) if len(aux["calls"]["xs"]) > k else None
            e["fc"] = int(self.func_count)
            e["Xn"] = int(self.Xn)
            ev.append(("CALL", e))
            raise
        e["x"] = _vec(aux["calls"]["xs"][k])
        e["ginv"] = _vec(b.var_transf.ginv(np.atleast_2d(np.asarray(x, dtype=float))))
        e["ncalls_target"] = aux["calls"]["n"] - k
        e["ret"] = [_f(r[0]), _f(r[1]), None if r[2] is None else int(r[2])]
        tr_ = aux["calls"].get("rets", {}).get(k)
        e["tret"] = None if tr_ is None else [_f(tr_[0]), _f(tr_[1])]      # what the TARGET returned at this call (the wrapper's own record)
        e["ret_kind"] = [type(r[0]).__name__, type(r[1]).__name__]
        e["fc"] = int(self.func_count)
        e["Xn"] = int(self.Xn)
        ev.append(("CALL", e))
        return r

    patch(FunctionLogger, "__call__", w_call)

    # ---- contraints_check (both import sites) ---------------------------------------------
    o_cc = bb.contraints_check

    def w_cc(U, lbb, ubb, tol_mesh, function_logger, proj=True, non_box_cons=None):
        out = o_cc(U, lbb, ubb, tol_mesh, function_logger, proj, non_box_cons)
        if "filt" in want:
            Uin = np.atleast_2d(np.asarray(U, dtype=float))
            e = {"site": state["phase"][-1], "proj": bool(proj), "n_in": int(Uin.shape[0]), "n_out": int(len(out)),
                 "lo": _vec(lbb), "hi": _vec(ubb), "tol": float(tol_mesh),
                 "logn": int(function_logger.X_max_idx) + 1, "has_cons": non_box_cons is not None,
                 "sms": float(state["bads"].optim_state["search_mesh_size"]) if state["bads"] is not None else None,
                 "nan_in": bool(np.any(np.isnan(Uin)))}
            if Uin.shape[0] <= max_filt_rows:
                e["U"] = _rows(Uin) if Uin.size else []
                e["out"] = _rows(out) if np.size(out) else []
                e["logX"] = _rows(function_logger.X[: function_logger.X_max_idx + 1]) if function_logger.X_max_idx >= 0 else []
                if non_box_cons is not None and Uin.size:
                    # constraint answers for every box-stage row, asked through the same (deterministic) function
                    if proj:
                        Ub = np.maximum(np.minimum(Uin, np.asarray(ubb, dtype=float)), np.asarray(lbb, dtype=float))
                    else:
                        Ub = Uin
                    Ub = np.unique(Ub, axis=0)
                    Xb = function_logger.variable_transformer.inverse_transf(Ub)
                    C = np.asarray(cons_fn(Xb), dtype=float).reshape(-1)
                    e["cons"] = [[[float(v) for v in r], not bool(c <= 0)] for r, c in zip(Ub, C)]      # the filter keeps a row iff C <= 0 (NaN: dropped)
            else:
                # large ES-internal sets: keep the output only (box / feasibility predicates)
                e["out"] = _rows(out) if np.size(out) else []
                if non_box_cons is not None and np.size(out):
                    Xb = function_logger.variable_transformer.inverse_transf(np.atleast_2d(out))
                    C = np.asarray(cons_fn(Xb), dtype=float).reshape(-1)
                    e["cons"] = [[[float(v) for v in r], not bool(c <= 0)] for r, c in zip(np.atleast_2d(out), C)]
            if cons_fn is not None and np.size(out):
                # feasibility of what the filter lets through, judged by the run's own constraint function - whether or not the
                # filter was handed it
                Xo = function_logger.variable_transformer.inverse_transf(np.atleast_2d(np.asarray(out, dtype=float)))
                Co = np.asarray(cons_fn(Xo), dtype=float).reshape(-1)
                e["out_infeasible"] = int(np.sum(~(Co <= 0)))
            ev.append(("FILT", e))
        return out

    patch(bb, "contraints_check", w_cc)
    patch(es, "contraints_check", w_cc)

    # ---- poll direction generator ----------------------------------------------------------
    o_pm = bb.poll_mads_2n

    class RecRnd:
        """Recorder for the two numpy.random functions poll_mads_2n draws from (delegates; stream undisturbed).  They are swapped on the
        numpy.random module itself for the duration of the call, so it does not matter under which name the code reaches them."""
        def __init__(self):
            self.draws = []
            self.o_randint, self.o_perm = np.random.randint, np.random.permutation
        def randint(self, *a, **k):
            r = self.o_randint(*a, **k)
            self.draws.append(("randint", [_f(v) for v in a], np.asarray(r).tolist()))
            return r
        def permutation(self, M):
            # reproduce np.random.permutation(M) = M[perm] while observing perm
            n = len(M)
            perm = self.o_perm(n)
            self.draws.append(("perm", perm.tolist()))
            return np.asarray(M)[perm]

    def w_pm(dim_x, poll_scale, search_mesh_size, mesh_size):
        rec = RecRnd()
        np.random.randint, np.random.permutation = rec.randint, rec.permutation
        try:
            B = o_pm(dim_x, poll_scale, search_mesh_size, mesh_size)
        finally:
            np.random.randint, np.random.permutation = rec.o_randint, rec.o_perm
        b = state["bads"]
        ev.append(("DIRS", {"D": int(dim_x), "poll_scale": _vec(poll_scale), "sms": float(search_mesh_size),
                            "ms": float(mesh_size), "B": _rows(B), "draws": rec.draws, "u": _vec(b.u)}))
        return B

    if "ctl" in want:
        patch(bb, "poll_mads_2n", w_pm)

    # ---- controller observations -----------------------------------------------------------
    def snap(self):
        fl = self.function_logger
        return {"fc": int(fl.func_count), "nrec": int(np.sum(fl.X_flag)), "sc": int(self.optim_state["search_count"]),
                "ss": int(self.search_success), "spree": int(self.search_spree), "msi": int(self.mesh_size_integer),
                "ssi": int(self.optim_state["search_size_integer"]), "it": int(self.optim_state["iter"]),
                "msg": self.optim_state.get("termination_msg"), "overflows": int(self.mesh_overflows),
                "u": _vec(self.u), "u_best": _vec(self.u_best), "yval": _f(self.yval), "fval": _f(self.fval), "fsd": _f(self.fsd),
                "ms": float(self.optim_state["mesh_size"]), "sms": float(self.optim_state["search_mesh_size"]),
                "unc": int(self.optim_state["uncertainty_handling_level"]),
                "budget": _f(self.options["max_fun_evals"]), "max_iter": _f(self.options["max_iter"]),
                "nfs": _f(self.options["noise_final_samples"]), "stall_iters": _f(self.options["tol_stall_iters"]),
                "tol_fun": _f(self.options["tol_fun"])}

    o_usb = bb.BADS._update_search_bounds_

    def w_usb(self):
        r = o_usb(self)
        state["loop"] += 1
        if state["loop"] > (iter_cap or ITER_CAP):
            raise LoopBoundExceeded(f"main loop exceeded {iter_cap or ITER_CAP} iterations")
        s = snap(self)
        s["lb_search"] = _vec(r[0])
        s["ub_search"] = _vec(r[1])
        ev.append(("ITER", s))
        return r

    o_s = bb.BADS._search_step_

    def w_s(self, gp):
        pre = snap(self)
        state["phase"].append("search")
        n0 = len(state.setdefault("ei", []))
        try:
            r = o_s(self, gp)
        finally:
            state["phase"].pop()
        post = snap(self)
        ev.append(("SRCH", {"pre": pre, "post": post, "ei": state["ei"][n0:], "thr": _f(self.optim_state["search_sufficient_improvement"]),
                            "u_search": _vec(r[0]) if np.size(r[0]) else None, "f_mu": _f(r[2]), "f_sd": _f(r[3])}))
        return r

    o_p = bb.BADS._poll_step_

    def w_p(self, gp):
        pre = snap(self)
        state["phase"].append("poll")
        n0 = len(state.setdefault("ei", []))
        try:
            r = o_p(self, gp)
        finally:
            state["phase"].pop()
        post = snap(self)
        ev.append(("POLL", {"pre": pre, "post": post, "ei": state["ei"][n0:], "thr": _f(self.sufficient_improvement),
                            "fq": _f(getattr(self, "f_q_historic_improvement", None))}))
        return r

    o_ei = bb.BADS._eval_improvement_

    import random as _random
    ei_rng = _random.Random(ei_script["seed"]) if ei_script else None

    def w_ei(self, f_base, f_new, s_base, s_new, q):
        z = o_ei(self, f_base, f_new, s_base, s_new, q)
        if ei_rng is not None and np.size(f_new) == 1 and np.size(z) == 1 and not (state["phase"][-1] == "search" and state.get("es_empty")):
            # ORACLE SCRIPTING: the improvement (a function of GP estimates in the models) is replaced by a scripted value, so that the
            # controller meets outcome sequences natural runs rarely produce (success while stalling, runs of successes, ...)
            thr = float(np.asarray(getattr(self, "sufficient_improvement", 1.0)).reshape(-1)[0])
            tol = float(self.options["tol_fun"])
            wts = list(ei_script.get("weights", [3, 2, 3, 3]))
            # an optional plan of phases [[n_calls, weights], ...] precedes the stationary weights (e.g. a run of successes at the mesh cap,
            # then failures, then successes again)
            k_ei = state.get("ei_k", 0)
            state["ei_k"] = k_ei + 1
            for ph in ei_script.get("plan", []):
                n_ph = ph[0]
                if k_ei < n_ph:
                    # [n, weights] or [n, weights for search-step improvements, weights for poll-step (and other) improvements]
                    if len(ph) == 2:
                        wts = list(ph[1])
                    elif state["phase"][-1] == "search":
                        wts = list(ph[1])
                    elif state["phase"][-1] == "poll":
                        wts = list(ph[2])
                    # (the stall tests of the main loop keep the stationary weights)
                    break
                k_ei -= n_ph
            wts += [1.5, 0.7, 0.7][: max(0, 7 - len(wts))]
            kind = ei_rng.choices(["big", "mid", "tiny", "neg", "tie", "above", "below"], weights=wts)[0]
            # "tie": exactly the sufficient-improvement threshold (success needs STRICTLY more); "above"/"below": one ulp either side
            val = {"big": thr * 4 + 1.0, "mid": min(thr, tol) * 0.5, "tiny": tol * 1e-3, "neg": -1.0, "tie": thr,
                   "above": float(np.nextafter(thr, np.inf)), "below": float(np.nextafter(thr, -np.inf))}[kind]
            z = np.array([val]) if isinstance(z, np.ndarray) else val
        rec = {"f_base": _f(f_base), "f_new": _f(f_new), "s_base": _f(s_base), "s_new": _f(s_new), "z": _f(z),
               "phase": state["phase"][-1], "vec": bool(np.size(f_new) > 1)}
        state.setdefault("ei", []).append(rec)
        if state["phase"][-1] == "pre":
            ev.append(("EI", rec))
        return z

    o_ui = bb.BADS._update_incumbent_

    def w_ui(self, u_new, yval_new, fval_new, fsd_new):
        ev.append(("INC", {"u": _vec(u_new), "yval": _f(yval_new), "fval": _f(fval_new), "fsd": _f(fsd_new), "phase": state["phase"][-1]}))
        return o_ui(self, u_new, yval_new, fval_new, fsd_new)

    o_im = bb.BADS._init_mesh_

    def w_im(self):
        state["phase"].append("init")
        try:
            return o_im(self)
        finally:
            state["phase"].pop()
            ev.append(("INITDONE", snap_init(self)))

    def snap_init(self):
        fl = self.function_logger
        return {"fc": int(fl.func_count), "Xn": int(fl.Xn), "u": _vec(self.u), "yval": _f(getattr(self, "yval", None)),
                "unc": int(self.optim_state["uncertainty_handling_level"]), "fun_eval_start": _f(self.options["fun_eval_start"])}

    o_hedge = sh.ESSearchHedge.__call__

    def w_hedge(self, u, lbb, ubb, func_logger, gp, optim_state):
        state["phase"].append("es")
        try:
            r = o_hedge(self, u, lbb, ubb, func_logger, gp, optim_state)
        finally:
            state["phase"].pop()
        if es_script is not None:
            # ORACLE SCRIPTING of the candidate generator: from the K-th search on (or at scripted positions) the strategy proposes nothing,
            # exactly as when every candidate of every generation is infeasible (es_search.py returns an empty set)
            k = state.setdefault("es_idx", 0)
            state["es_idx"] = k + 1
            after = es_script.get("empty_after")
            if (after is not None and k >= after) or k in (es_script.get("empty_at") or ()):
                D = int(np.atleast_2d(u).shape[1])
                r = (np.empty((0, D)), np.empty((0, 1)))
                ev.append(("ESSCRIPT", {"k": k}))
        state["es_empty"] = np.size(r[0]) == 0        # the improvement of an empty search is not an oracle value: never scripted
        ev.append(("HEDGE", {"prob": _vec(self.prob), "chosen": int(np.asarray(self.chosen_hedge).reshape(-1)[0]), "g": _vec(self.g),
                             "gamma": float(self.gamma), "n": int(self.n_funs), "u_out": _vec(r[0]), "z_out": _f(r[1]),
                             "fcns": [[str(f[0]), int(f[1])] for f in self.search_fcns]}))
        return r

    o_reh = bb.BADS._re_evaluate_history_

    def w_reh(self, gp):
        state["phase"].append("reeval")
        try:
            return o_reh(self, gp)
        finally:
            state["phase"].pop()
            ev.append(("REEVAL", {"fc": int(self.function_logger.func_count)}))

    if "ctl" in want:
        patch(bb.BADS, "_update_search_bounds_", w_usb)
        patch(bb.BADS, "_search_step_", w_s)
        patch(bb.BADS, "_poll_step_", w_p)
        patch(bb.BADS, "_eval_improvement_", w_ei)
        patch(bb.BADS, "_update_incumbent_", w_ui)
        patch(bb.BADS, "_init_mesh_", w_im)
        patch(sh.ESSearchHedge, "__call__", w_hedge)
        patch(bb.BADS, "_re_evaluate_history_", w_reh)

    # ---- iteration history -------------------------------------------------------------------
    HKEYS = {"u", "x", "yval", "fval", "fsd", "mesh_size", "search_mesh_size", "func_count"}
    o_rec = IterationHistory.record

    def w_rec(self, key, value, iteration):
        b = state["bads"]
        if b is not None and self is b.iteration_history and key in HKEYS:
            ev.append(("HIST", {"key": key, "it": int(iteration), "val": _f(value), "phase": state["phase"][-1]}))
        return o_rec(self, key, value, iteration)

    if "hist" in want:
        patch(IterationHistory, "record", w_rec)

    # ---- GP training sets / acquisition -------------------------------------------------------
    if "gp" in want or gp_faults or update_faults or add_faults:
        state["fault_where"] = spec.get("fault_where")      # "late": an injected fit failure happens in the fit's final posterior computation
        _install_gp_wrappers(patch, state, ev, bb, gpt, es, gp_faults, update_faults, add_faults)
    if predict_faults:
        # non-finite GP prediction at the incumbent: the k-th call of _get_target_from_gp_ sees NaN predictions
        import gpyreg as gpr
        o_gt = bb.BADS._get_target_from_gp_
        o_pred = gpr.GP.predict
        state["gt_idx"] = 0
        state["in_gt"] = False

        def w_gt(self, u, gp, hyp_best):
            k = state["gt_idx"]
            state["gt_idx"] += 1
            state["in_gt"] = k in predict_faults
            try:
                return o_gt(self, u, gp, hyp_best)
            finally:
                state["in_gt"] = False

        def w_pred(self, *a, **kw):
            r = o_pred(self, *a, **kw)
            if state["in_gt"]:
                ev.append(("PREDFAULT", {"k": state["gt_idx"] - 1}))
                return tuple(np.full_like(np.asarray(v, dtype=float), np.nan) for v in r)
            return r

        patch(bb.BADS, "_get_target_from_gp_", w_gt)
        patch(gpr.GP, "predict", w_pred)

    t0 = time.time()
    try:
        try:
            b = BADS(fun, x0, lb, ub, plb, pub, non_box_cons=cons_wrapped, options=opts)
            state["bads"] = b
            tr["constructed"] = True
            # an independent count of main-loop passes: every pass starts by writing optim_state['iter'] (the ITER events hang on the refresh of
            # the search bounds, which a change to the loop could skip)
            b.optim_state = _MarkDict(b.optim_state, state)
            vt = b.var_transf
            # reference internal box: a FRESH transformer built from copies of the normalised original bounds (whatever the run does to its
            # own bound arrays later cannot reach it)
            from pybads.variable_transformer import VariableTransformer as _VT
            try:
                _log = np.asarray(vt.apply_log_t).copy()
                vt_ref = _VT(b.D, np.array(vt.orig_lb, dtype=float).copy(), np.array(vt.orig_ub, dtype=float).copy(),
                             np.array(vt.orig_plb, dtype=float).copy(), np.array(vt.orig_pub, dtype=float).copy(), _log)
                lb_ref, ub_ref = _vec(vt_ref.lb), _vec(vt_ref.ub)
            except Exception:
                lb_ref, ub_ref = None, None
            tr["hdr"] = {"D": b.D, "lb": _vec(b.lower_bounds), "ub": _vec(b.upper_bounds), "lb_ref": lb_ref, "ub_ref": ub_ref,
                         "plb": _vec(b.plausible_lower_bounds), "pub": _vec(b.plausible_upper_bounds),
                         "orig_lb": _vec(vt.orig_lb), "orig_ub": _vec(vt.orig_ub), "orig_plb": _vec(vt.orig_plb), "orig_pub": _vec(vt.orig_pub),
                         "log": [bool(v) for v in np.asarray(vt.apply_log_t).reshape(-1)],
                         "tol_mesh": float(b.optim_state["tol_mesh"]), "x0": _vec(b.x0), "u0": _vec(b.u),
                         "unc0": int(b.optim_state["uncertainty_handling_level"]),
                         "calls_at_construction": aux["calls"]["n"],
                         "opts": {k: _f(b.options[k]) if not isinstance(b.options[k], (bool, str, type(None))) else b.options[k]
                                  for k in ("max_fun_evals", "max_iter", "tol_mesh", "tol_fun", "tol_noise", "tol_stall_iters", "search_n_try", "max_poll_grid_number",
                                            "search_grid_multiplier", "search_grid_number", "accelerate_mesh", "accelerate_mesh_steps", "skip_poll_after_search",
                                            "complete_poll", "noise_final_samples", "fun_eval_start", "sloppy_improvement", "improvement_quantile", "stobads",
                                            "search_size_locked", "search_mesh_expand", "poll_mesh_multiplier", "init_mesh_size_integer", "n_search", "n_search_iter",
                                            "final_quantile", "n_train_max", "n_train_min", "buffer_ntrain", "gp_radius", "specify_target_noise", "hedge_gamma", "cache_size",
                                            "force_poll_mesh", "nonlinear_scaling", "noise_size")}}
            state["in_optimize"] = True
            try:
                res = b.optimize()
            finally:
                state["in_optimize"] = False
            tr["result"] = {k: (_f(res[k]) if k in ("x", "x0", "fval", "fsd", "mesh_size", "yval_vec", "ysd_vec") and res[k] is not None else
                                (res[k] if isinstance(res[k], (int, float, str, bool, type(None))) else repr(type(res[k]))))
                            for k in res.keys()}
            tr["result"]["keys"] = sorted(res.keys())
        except BaseException as ex:
            tb = traceback.extract_tb(sys.exc_info()[2])
            _R = os.environ.get("VERIF_REPO", "/repo")
            frames = [(os.path.relpath(fr.filename, _R) if fr.filename.startswith(_R + "/") else fr.filename, fr.lineno, fr.name) for fr in tb]
            inner = [fr for fr in frames if fr[0].startswith("pybads")]
            tr["error"] = {"type": type(ex).__name__, "msg": str(ex)[:300], "frames": frames[-6:],
                           "innermost_pybads": inner[-1] if inner else None,
                           "innermost": frames[-1] if frames else None}
        b = state["bads"]
        if b is not None:
            fl = b.function_logger
            n = fl.Xn + 1
            tr["log"] = {"Xn": int(fl.Xn), "X_max_idx": int(fl.X_max_idx), "func_count": int(fl.func_count),
                         "X": _rows(fl.X[:n]) if n else [], "X_orig": _rows(fl.X_orig[:n]) if n else [],
                         "Y": _vec(fl.Y[:n]), "S": _vec(fl.S[:n]) if fl.noise_flag else None,
                         "n_evals": _vec(fl.n_evals[:n]), "X_flag": [bool(v) for v in fl.X_flag[:n]]}
            tr["final"] = {"target_calls": aux["calls"]["n"], "xs": [_vec(x) for x in aux["calls"]["xs"]],
                           "iter_marks": int(state.get("iter_marks", 0)),
                           "u": _vec(b.u) if hasattr(b, "u") else None,
                           "x": _vec(b.x) if hasattr(b, "x") else None,
                           "x_ginv": _vec(b.var_transf.ginv(np.atleast_2d(np.asarray(b.u, dtype=float)))) if hasattr(b, "x") else None,
                           "fval": _f(getattr(b, "fval", None)), "fsd": _f(getattr(b, "fsd", None)), "yval": _f(getattr(b, "yval", None)),
                           "msg": b.optim_state.get("termination_msg"), "iter": int(b.optim_state["iter"]),
                           "msi": int(b.mesh_size_integer), "mesh_size": float(b.mesh_size),
                           "unc": int(b.optim_state["uncertainty_handling_level"]),
                           "budget": _f(b.options["max_fun_evals"]), "nfs": _f(b.options["noise_final_samples"]),
                           "max_iter": _f(b.options["max_iter"]), "tol_stall_iters": _f(b.options["tol_stall_iters"]),
                           "yval_vec": _f(b.optim_state.get("yval_vec")), "ysd_vec": _f(b.optim_state.get("ysd_vec")),
                           "loops": state["loop"]}
            if cons_fn is not None:
                tr["cons_calls"] = state["cons_calls"]
            # independent re-check of every target input against the user's constraint and the hard bounds
            if cons_fn is not None and aux["calls"]["xs"]:
                C = np.asarray(cons_fn(np.array(aux["calls"]["xs"])), dtype=float).reshape(-1)
                tr["final"]["cons_at_calls"] = [bool(c > 0) for c in C]             # "reports a violation" (C02): value > 0
                tr["final"]["cons_unsat_at_calls"] = [not bool(c <= 0) for c in C]  # "not satisfied" (C17): not (value <= 0), NaN included
        else:
            tr["final"] = {"target_calls": aux["calls"]["n"]}
    finally:
        for obj, name, old in reversed(saved):
            setattr(obj, name, old)
    tr["wall"] = time.time() - t0
    return tr


def _install_gp_wrappers(patch, state, ev, bb, gpt, es, gp_faults, update_faults=None, add_faults=None):
    """GPFIT/ACQ events (C15) and LinAlgError injection into GP.fit (C16)."""
    import gpyreg as gpr
    GP = gpr.GP

    o_ggsn = gpt.get_grid_search_neighbors

    def w_ggsn(function_logger, u, gp, options, optim_state):
        r = o_ggsn(function_logger, u, gp, options, optim_state)
        fl = function_logger
        n = fl.Xn + 1            # every recorded row (X_max_idx is the implementation's own bookkeeping of the same number)
        from pybads.search.grid_functions import udist
        dist = udist(fl.X[:n], u, gp.temporary_data["len_scale"], optim_state["lb"], optim_state["ub"], optim_state["scale"], optim_state["periodic_vars"])
        dist = np.min(dist, axis=1) if dist.ndim > 1 else dist
        radius = options["gp_radius"] * gp.temporary_data["effective_radius"]
        # the same squared distances computed independently of the repository (differences first, then scaling and squaring): what the
        # "nearest / ordered by distance" clauses are judged against; `dist` (the implementation's own metric function) is the model's oracle
        dref = np.sum(((fl.X[:n] - np.atleast_2d(u)) / np.asarray(gp.temporary_data["len_scale"], dtype=float)) ** 2, axis=1) \
            if not np.any(optim_state["periodic_vars"]) and np.atleast_2d(u).shape[0] == 1 else dist
        e = {"u": _vec(u), "n_log": int(n), "dist": _vec(dist), "dist_ref": _vec(dref), "radius2": _f(np.asarray(radius, dtype=float) ** 2),
             "n_min": _f(options["n_train_min"]), "n_max": _f(options["n_train_max"]), "buffer": _f(options["buffer_ntrain"]),
             "X": _rows(r[0]), "Y": _vec(r[1]), "S": None if r[2] is None else _vec(r[2]), "noise_flag": bool(fl.noise_flag),
             "logX": _rows(fl.X[:n]), "logY": _vec(fl.Y[:n]), "logS": _vec(fl.S[:n]) if fl.noise_flag else None,
             "phase": state["phase"][-1], "len_scale": _f(gp.temporary_data["len_scale"]), "x_max_idx": int(fl.X_max_idx)}
        b_ = state.get("bads")
        if b_ is not None and getattr(b_, "u_best", None) is not None:
            e["u_best"] = _vec(b_.u_best)          # the incumbent the run holds at this moment (the selection's reference point must be it)
        ev.append(("NEIGH", e))
        return r

    patch(gpt, "get_grid_search_neighbors", w_ggsn)

    o_lgf = gpt.local_gp_fitting

    def w_lgf(gp, current_point, function_logger, options, optim_state, iteration_history, refit_flag):
        import sys as _sys
        # is the object being refitted the surrogate the run carries on with (the caller's `gp`), or a throw-away copy (`new_gp`, `tmp_gp`:
        # the what-if estimate at a search point of a noisy run, the re-evaluation of the history)?
        try:
            is_main = _sys._getframe(1).f_locals.get("gp") is gp
        except Exception:
            is_main = True
        state["in_lgf"] = True
        try:
            r = o_lgf(gp, current_point, function_logger, options, optim_state, iteration_history, refit_flag)
        finally:
            state["in_lgf"] = False
        g = r[0]
        ev.append(("LOCALFIT", {"refit": bool(refit_flag), "exit": _f(r[1]), "nX": int(g.X.shape[0]), "ny": int(g.y.shape[0]),
                                "s2": None if g.s2 is None else _vec(g.s2), "phase": state["phase"][-1],
                                "X": _rows(g.X), "y": _vec(g.y), "main": bool(is_main)}))
        return r

    patch(gpt, "local_gp_fitting", w_lgf)
    patch(bb, "local_gp_fitting", w_lgf)

    o_add = gpt.add_and_update_gp

    def w_add(function_logger, gp, x_new, y_new, sd_new=None, options=None):
        n0 = gp.X.shape[0]
        r = o_add(function_logger, gp, x_new, y_new, sd_new, options)
        fl = function_logger
        e = {"x_new": _vec(x_new), "y_new": _f(y_new), "sd_new": _f(sd_new), "n_before": int(n0), "n_after": int(r.X.shape[0]),
             "last_X": _vec(r.X[-1]), "last_y": _f(r.y[-1]), "last_s2": None if r.s2 is None or np.size(r.s2) == 0 else _f(np.asarray(r.s2).reshape(-1)[-1]),
             "log_last_X": _vec(fl.X[fl.Xn]), "log_last_Y": _f(fl.Y[fl.Xn]), "log_last_S": _f(fl.S[fl.Xn]) if fl.noise_flag else None,
             "log_last_n": int(np.asarray(fl.n_evals[fl.Xn]).reshape(-1)[0]),
             "specify": bool(options["specify_target_noise"]), "phase": state["phase"][-1]}
        ev.append(("GPADD", e))
        return r

    patch(gpt, "add_and_update_gp", w_add)
    patch(bb, "add_and_update_gp", w_add)

    o_acq_b = bb.acq_fcn_lcb

    def mk_acq(orig, tag):
        def w_acq(xi, func_count, gp, sqrt_beta=None):
            z, f_mu, f_s = orig(xi, func_count, gp, sqrt_beta)
            zz = np.asarray(z, dtype=float).reshape(-1)
            mm = np.asarray(f_mu, dtype=float).reshape(-1)
            ss = np.asarray(f_s, dtype=float).reshape(-1)
            n = len(zz)
            idx = list(range(n)) if n <= 64 else sorted(set([0, n - 1, int(np.argmin(zz))] + list(range(0, n, max(1, n // 32)))))
            ev.append(("ACQ", {"site": tag, "phase": state["phase"][-1], "n": n, "n_xi": int(np.atleast_2d(xi).shape[0]), "D": int(np.atleast_2d(xi).shape[1]), "fc": int(func_count),
                               "sqrt_beta_arg": None if sqrt_beta is None else repr(sqrt_beta),
                               "idx": idx, "z": [float(zz[i]) for i in idx], "mu": [float(mm[i]) for i in idx], "s": [float(ss[i]) for i in idx],
                               "argmin": int(np.argmin(zz)) if n else None,
                               "xi": _rows(np.atleast_2d(xi)) if n <= 700 else None, "zall": _vec(zz) if n <= 700 else None}))
            return z, f_mu, f_s
        return w_acq

    patch(bb, "acq_fcn_lcb", mk_acq(o_acq_b, "bads"))
    patch(es, "acq_fcn_lcb", mk_acq(es.acq_fcn_lcb, "es"))

    o_fit = GP.fit

    def w_fit(self, X=None, y=None, s2=None, hyp0=None, options=None, **kw):
        i = state["gpfit_idx"]
        state["gpfit_idx"] += 1
        e = {"i": i, "nX": None if X is None else int(np.shape(X)[0]), "ny": None if y is None else int(np.shape(y)[0]),
             "ns2": None if s2 is None else int(np.size(s2)), "phase": state["phase"][-1], "fault": False}
        ev.append(("FIT", e))
        if gp_faults and i in gp_faults:
            e["fault"] = True
            if state.get("fault_where") != "late":
                raise np.linalg.LinAlgError("injected: matrix not positive definite")
            # the failure happens at the END of the fit: the hyper-parameter optimisation runs, the Cholesky factorisation of the final posterior fails
            e["late"] = True
            state["late_fault"] = True
            try:
                return o_fit(self, X, y, s2, hyp0=hyp0, options=options, **kw)
            finally:
                state["late_fault"] = False
        try:
            return o_fit(self, X, y, s2, hyp0=hyp0, options=options, **kw)
        except np.linalg.LinAlgError:
            # a GENUINE Cholesky failure of the fitting oracle (not injected): the same oracle outcome as an injected one
            e["fault"] = True
            e["genuine"] = True
            raise

    patch(GP, "fit", w_fit)

    if state.get("fault_where") == "late":
        o_core = GP._GP__core_computation

        def w_core(self, *a, **kw):
            import sys as _sys
            fr = _sys._getframe(1)
            if state.get("late_fault") and fr.f_code.co_name == "update" and fr.f_back is not None and fr.f_back.f_code.co_name == "fit":
                raise np.linalg.LinAlgError("injected: matrix not positive definite (posterior of the fitted hyper-parameters)")
            return o_core(self, *a, **kw)

        patch(GP, "_GP__core_computation", w_core)

    if add_faults:
        # LinAlgError in the k-th posterior update made by add_and_update_gp (adding one evaluated point to the surrogate)
        o_upd_a = GP.update

        def w_upd_a(self, *a, **kw):
            import sys as _sys
            if _sys._getframe(1).f_code.co_name == "add_and_update_gp":
                k = state.setdefault("addupd_idx", 0)
                state["addupd_idx"] = k + 1
                if k in add_faults:
                    ev.append(("ADDFAULT", {"k": k, "phase": state["phase"][-1]}))
                    raise np.linalg.LinAlgError("injected: posterior update failed while adding a point")
            return o_upd_a(self, *a, **kw)

        patch(GP, "update", w_upd_a)

    if update_faults:
        # LinAlgError in the k-th posterior update `gp.update(hyp=...)` made inside local_gp_fitting (Cholesky failure of the posterior)
        o_upd = GP.update

        def w_upd(self, *a, **kw):
            import sys as _sys
            caller = _sys._getframe(1).f_code.co_name
            if state.get("in_lgf") and "hyp" in kw and caller == "local_gp_fitting":      # the posterior update at the end of local_gp_fitting itself
                k = state.setdefault("upd_idx", 0)
                state["upd_idx"] = k + 1
                if k in update_faults:
                    ev.append(("UPDFAULT", {"k": k}))
                    raise np.linalg.LinAlgError("injected: posterior update failed")
            return o_upd(self, *a, **kw)

        patch(GP, "update", w_upd)


# ------------------------------------------------------------------------------------------------
# pools

def repo_hash():
    h = hashlib.sha256()
    for root in (os.path.join(os.environ.get("VERIF_REPO", "/repo"), "pybads"), os.path.dirname(os.path.abspath(__file__))):
        for dp, dn, fn in sorted(os.walk(root)):
            dn.sort()
            if "testing" in dp or "__pycache__" in dp or "/props" in dp:
                continue
            for f in sorted(fn):
                if f.endswith((".py", ".ini")):
                    p = os.path.join(dp, f)
                    h.update(os.path.relpath(p, root).encode())
                    h.update(open(p, "rb").read())
    return h.hexdigest()[:20]


def _job(args):
    spec, kw = args
    try:
        return run_traced(spec, **kw)
    except BaseException as ex:   # machinery failure inside the tracer itself
        return {"spec": spec, "tracer_error": "".join(traceback.format_exception(type(ex), ex, ex.__traceback__))[-1500:]}


def run_many(jobs, procs=None):
    """jobs: list of (spec, kwargs). Runs in a fork pool with single-threaded BLAS."""
    import multiprocessing as mp
    procs = procs or min(16, os.cpu_count() or 4, max(1, len(jobs)))
    if len(jobs) <= 1 or procs == 1:
        return [_job(j) for j in jobs]
    ctx = mp.get_context("fork")
    with ctx.Pool(procs, maxtasksperchild=8) as p:
        return p.map(_job, jobs, chunksize=1)


def cached(tag, seed, tier, make_jobs):
    """Trace pool cache keyed by the content hash of /repo's pybads sources + harness + seed + tier."""
    from .proto import VERIF
    cdir = os.path.join(VERIF, ".cache")
    os.makedirs(cdir, exist_ok=True)
    jobs = list(make_jobs())
    jh = hashlib.sha256(json.dumps(jobs, sort_keys=True, default=str).encode()).hexdigest()[:10]     # the jobs themselves (generated in props/)
    key = f"{tag}_{repo_hash()}_{jh}_{seed}_{tier}.pkl"
    path = os.path.join(cdir, key)
    if os.environ.get("VERIF_NOCACHE"):          # experiments only (coverage measurement): neither read nor write the cache
        return run_many(jobs)
    if os.path.exists(path):
        try:
            with open(path, "rb") as f:
                return pickle.load(f)
        except Exception:
            pass
    traces = run_many(jobs)
    # drop stale entries of the same tag (never another process's temporary file: checks may run concurrently)
    for fn in os.listdir(cdir):
        if fn.startswith(tag + "_") and fn.endswith(".pkl") and fn != key:
            try:
                fp = os.path.join(cdir, fn)
                if time.time() - os.path.getmtime(fp) > 1800:     # recent entries may belong to a concurrent check (other tier / seed)
                    os.remove(fp)
            except OSError:
                pass
    tmp = path + f".{os.getpid()}.tmp"
    try:
        with open(tmp, "wb") as f:
            pickle.dump(traces, f)
        os.replace(tmp, path)
    except OSError:
        pass            # the cache is an optimisation only
    return traces
