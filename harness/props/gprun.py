"""Run-level replay of the surrogate's training set (C15, C16): the event sequence of one traced run - initial training, every local
re-selection with its fit attempts, every posterior update - is executed by the state machines `GP.sstep` (`gp.run`; the log snapshots of
the run are oracle) and `SurRun.jstep` (`sur.jrun`; the evaluation log is DERIVED by the logger model from the run's target calls), and
the model's training set is compared with the implementation's after every event.

Values are compared exactly when the run did the same exact operations as the model (no merge of repeated observations), with a
relative tolerance of 1e-9 where the logger averaged (the model averages rationals, the code binary64 numbers)."""
import math
from ..proto import enc, enc_pt, dec_f

CORR_SEQ = "GP.srun ~ surrogate over the run (initial fit, local refits with retries, posterior updates)"
CORR_JOINT = "SurRun.jrun ~ evaluation log + surrogate over the run"


def _fin(v):
    return v is not None and isinstance(v, (int, float)) and math.isfinite(v)


def _obs_list(logX, logY, logS, n):
    return [{"x": enc_pt(logX[i]), "y": enc(logY[i]), "s": (enc(logS[i]) if logS is not None and _fin(logS[i]) else None)} for i in range(n)]


def _groups(fits):
    """consecutive fit attempts split into groups that end with the first success (a failure is followed by its retry)"""
    out, cur = [], []
    for f in fits:
        cur.append(f)
        if not f["fault"]:
            out.append(cur)
            cur = []
    if cur:
        out.append(cur)
    return out


def seq_request(t):
    """-> (request for `gp.run`, expectations) or None when the run holds values the model's numbers cannot carry."""
    evs, exp = [], []
    events = t["events"]
    removeAfter = 1
    initdone = next((e for k, e in events if k == "INITDONE"), None)
    first_neigh = next((e for k, e in events if k == "NEIGH"), None)
    pending = None          # NEIGH waiting for its LOCALFIT
    fits = []
    started = False
    pre_fits = []
    i = 0
    for k, e in events:
        if k == "FIT":
            if pending is None and not started:
                pre_fits.append(e)
            else:
                fits.append(e)
        elif k == "NEIGH":
            if not started:
                started = True
                # the initial training set: the whole log as it was when the initial design was done
                if initdone is not None and first_neigh is not None and pre_fits and first_neigh["n_log"] == initdone["Xn"] + 1 \
                        and all(_fin(v) for v in first_neigh["logY"]):
                    evs.append({"ev": "initial", "log": _obs_list(first_neigh["logX"], first_neigh["logY"], first_neigh["logS"], first_neigh["n_log"]),
                                "fails": [bool(f["fault"]) for f in pre_fits]})
                    exp.append(("initial", pre_fits))
            if e["phase"] not in ("search", "poll", "pre"):
                pending = None      # selections made while re-evaluating the history do not rebuild the run's surrogate
                continue
            pending = e
            fits = []
        elif k == "LOCALFIT":
            if pending is None:
                continue
            ne = pending
            pending = None
            if not e.get("main", True):
                fits = []           # a throw-away copy was refitted (what-if estimate at a search point, history re-evaluation): the run's surrogate is untouched
                continue
            if not (all(_fin(d) for d in ne["dist"]) and all(_fin(v) for v in ne["logY"])):
                return None
            base = {"ev": "select", "log": _obs_list(ne["logX"], ne["logY"], ne["logS"], ne["n_log"]), "dist": [enc(d) for d in ne["dist"]],
                    "radius2": enc(ne["radius2"] if not isinstance(ne["radius2"], list) else ne["radius2"][0]),
                    "nMin": int(ne["n_min"]), "nMax": int(ne["n_max"]), "buffer": int(ne["buffer"]), "nTry": 10, "removeAfter": removeAfter}
            gs = _groups(fits) or [[]]
            for gi, g in enumerate(gs):
                drops = [max(0, a["nX"] - b["nX"]) for a, b in zip(g, g[1:])]
                evs.append(dict(base, fails=[bool(f["fault"]) for f in g], drops=drops))
                exp.append(("select", g, ne, e if gi == len(gs) - 1 else None))
            fits = []
        elif k == "GPADD":
            if not _fin(e["y_new"]):
                return None
            sd = e["sd_new"] if (e["specify"] and _fin(e.get("sd_new"))) else None
            evs.append({"ev": "add", "x": enc_pt(e["x_new"]), "y": enc(e["y_new"]), "sd": (enc(sd) if sd is not None else None)})
            exp.append(("add", e))
    if not evs:
        return None
    return {"cmd": "gp.run", "events": evs}, exp


def _same_pairs(mt, X, Y, tol=0.0):
    a = sorted((tuple(dec_f(v) for v in r["x"]), dec_f(r["y"])) for r in mt)
    b = sorted((tuple(float(v) for v in x), float(y)) for x, y in zip(X, Y))
    if len(a) != len(b):
        return False
    for (xa, ya), (xb, yb) in zip(a, b):
        if xa != xb or abs(ya - yb) > tol * max(1.0, abs(yb)):
            return False
    return True


def seq_compare(m, exp, t):
    """-> list of differences (strings) between the model's run and the implementation's"""
    out = []
    steps = m["steps"]
    if len(steps) != len(exp):
        return [f"model made {len(steps)} steps for {len(exp)} events"]
    all_fits = []
    n_prev = 0
    selected_since = False
    for st, ex in zip(steps, exp):
        kind = ex[0]
        if kind == "initial":
            fits = ex[1]
            all_fits += fits
            if fits and st["n"] != fits[-1]["nX"]:
                out.append(f"initial training: the model conditions on {st['n']} log rows, the run fitted {fits[-1]['nX']}")
            selected_since = True
        elif kind == "select":
            _, g, ne, lf = ex
            all_fits += g
            selected_since = True
            if lf is not None:
                if st["n"] != lf["nX"]:
                    out.append(f"after the local fit ({ne['phase']} step) the model's surrogate holds {st['n']} training rows, the run's {lf['nX']} (selected {len(ne['X'])}, "
                               f"fit attempts {[(f['nX'], bool(f['fault'])) for f in g]})")
                elif not _same_pairs(st["train"], lf["X"], lf["y"]):
                    # ties at the cut-off distance may be broken differently
                    dd = sorted(ne["dist"])
                    cut = dd[len(lf["X"]) - 1] if lf["X"] else None
                    if len([d for d in ne["dist"] if d == cut]) <= 1:
                        out.append(f"after the local fit ({ne['phase']} step) the model's training set and the run's differ ({st['n']} rows each)")
        else:
            e = ex[1]
            if selected_since or n_prev:
                if e["n_before"] != n_prev:
                    out.append(f"posterior update: the run's surrogate held {e['n_before']} rows before the update, the model's {n_prev}")
                if e["n_after"] != st["n"]:
                    out.append(f"posterior update: the run's surrogate holds {e['n_after']} rows after the update, the model's {st['n']}")
                last = st["last"]
                if last is not None and ([dec_f(v) for v in last["x"]] != [float(v) for v in e["last_X"]] or dec_f(last["y"]) != float(e["last_y"])):
                    out.append("posterior update: the appended training pair differs")
        n_prev = st["n"]
        if len(out) > 3:
            break
    # every fit attempt of the run, in order
    ma = [(a["nX"], a["nY"]) for a in m["attempts"]]
    ia = [(f["nX"], f["ny"]) for f in all_fits]
    if ma != ia:
        k = next((j for j, (a, b) in enumerate(zip(ma, ia)) if a != b), min(len(ma), len(ia)))
        out.append(f"fit attempts: the model's sequence of array sizes and the run's differ from attempt #{k} on (model {ma[k:k + 4]}, run {ia[k:k + 4]}; {len(ma)} vs {len(ia)} attempts)")
    return out


# ---------------------------------------------------------------------------------------------------------------------------
def joint_request(t):
    """-> (request for `sur.jrun`, expectations, merges) or None.  The log is derived: only the run's target calls and the distances are given."""
    hdr = t["hdr"]
    he = bool(hdr["opts"].get("specify_target_noise"))
    events = t["events"]
    evs, exp = [], []
    started = False
    pending_call = None
    seen = set()
    merges = 0

    def flush_call(with_add, gpadd=None):
        nonlocal pending_call, merges
        c = pending_call
        pending_call = None
        if c is None:
            return True
        tr = c["tret"]
        if he:
            if not (isinstance(tr, (list, tuple)) and len(tr) == 2 and _fin(tr[0]) and _fin(tr[1]) and tr[1] > 0):
                return False
            out = {"k": "pair", "y": enc(tr[0]), "sd": enc(tr[1])}
        else:
            v = tr[0] if isinstance(tr, (list, tuple)) else tr
            if not _fin(v):
                return False
            out = {"k": "scalar", "y": enc(v)}
        key = tuple(c["u"])
        if c["rec"]:
            if key in seen and he:
                merges += 1
            seen.add(key)
        if with_add:
            evs.append({"ev": "eval", "xo": enc_pt(c["x"]), "x": enc_pt(c["u"]), "out": out})
            exp.append(("eval", c, gpadd))
        else:
            evs.append({"ev": "evalOnly", "xo": enc_pt(c["x"]), "x": enc_pt(c["u"]), "out": out, "rd": bool(c["rec"])})
            exp.append(("evalOnly", c, None))
        return True

    pend_neigh = None
    for k, e in events:
        if k == "CALL":
            if not flush_call(False):
                return None
            if e.get("ret") is None:
                return None            # the target failed: the run ends here (C10)
            pending_call = e
        elif k == "GPADD":
            if pending_call is None or pending_call["u"] != e["x_new"]:
                return None
            if not flush_call(True, e):
                return None
        elif k == "FIT" and not started and e["phase"] == "pre":
            if not flush_call(False):
                return None
            if not (evs and evs[-1]["ev"] == "initial"):
                evs.append({"ev": "initial"})
                exp.append(("initial", e, None))
        elif k == "NEIGH":
            if not flush_call(False):
                return None
            started = True
            if e["phase"] not in ("search", "poll", "pre"):
                pend_neigh = None
                continue
            pend_neigh = e
        elif k == "LOCALFIT":
            if pend_neigh is None:
                continue
            ne = pend_neigh
            pend_neigh = None
            if not e.get("main", True):
                continue
            if not all(_fin(d) for d in ne["dist"]):
                return None
            evs.append({"ev": "select", "dist": [enc(d) for d in ne["dist"]], "radius2": enc(ne["radius2"] if not isinstance(ne["radius2"], list) else ne["radius2"][0]),
                        "nMin": int(ne["n_min"]), "nMax": int(ne["n_max"]), "buffer": int(ne["buffer"])})
            exp.append(("select", ne, e))
    if not flush_call(False):
        return None
    if not evs:
        return None
    return {"cmd": "sur.jrun", "cache": int(hdr["opts"].get("cache_size", 500)), "noise": he, "he": he, "events": evs}, exp, merges


def joint_compare(m, exp, merges):
    out = []
    steps = m["steps"]
    if steps and "err" in steps[-1]:
        return [f"the model's logger rejects call #{len(steps) - 1} of the run ({steps[-1]['err']}), the run went on"]
    if len(steps) != len(exp):
        return [f"model made {len(steps)} steps for {len(exp)} events"]
    tol = 1e-9 if merges else 0.0
    for st, ex in zip(steps, exp):
        kind = ex[0]
        if kind in ("eval", "evalOnly"):
            c = ex[1]
            if st["rows"] != c["Xn"] + 1:
                out.append(f"after call #{c['k']} the model's log holds {st['rows']} records, the run's {c['Xn'] + 1}")
            if st["fc"] != c["fc"]:
                out.append(f"after call #{c['k']} the model counts {st['fc']} evaluations, the run {c['fc']}")
            if kind == "eval":
                g = ex[2]
                if st["n"] != g["n_after"]:
                    out.append(f"after the posterior update for call #{c['k']} the model's surrogate holds {st['n']} rows, the run's {g['n_after']}")
                last = st["last"]
                if [dec_f(v) for v in last["x"]] != [float(v) for v in g["last_X"]] or abs(dec_f(last["y"]) - float(g["last_y"])) > tol * max(1.0, abs(g["last_y"])):
                    out.append(f"after the posterior update for call #{c['k']} the appended training pair differs (model y={dec_f(last['y'])}, run y={g['last_y']})")
                if g["specify"] and g.get("last_s2") is not None and last["s2"] is not None and abs(dec_f(last["s2"]) - g["last_s2"]) > 1e-12 * max(1.0, abs(g["last_s2"])):
                    out.append(f"after the posterior update for call #{c['k']} the appended noise entry differs (model {dec_f(last['s2'])}, run {g['last_s2']})")
        elif kind == "select":
            ne, lf = ex[1], ex[2]
            if st["rows"] != ne["n_log"]:
                out.append(f"at a selection ({ne['phase']} step) the model's log holds {st['rows']} records, the run's {ne['n_log']}")
            elif st["n"] != lf["nX"]:
                out.append(f"after the local fit ({ne['phase']} step) the model's surrogate holds {st['n']} rows, the run's {lf['nX']}")
            elif not _same_pairs(st["train"], lf["X"], lf["y"], tol):
                dd = sorted(ne["dist"])
                cut = dd[len(lf["X"]) - 1] if lf["X"] else None
                if len([d for d in ne["dist"] if d == cut]) <= 1:
                    out.append(f"after the local fit ({ne['phase']} step) the model's training set (selected from the model's own log) and the run's differ ({st['n']} rows each)")
            elif ne["S"] is not None and lf.get("s2") is not None and all(r["s2"] is not None for r in st["train"]):
                a = sorted(dec_f(r["s2"]) for r in st["train"])
                b = sorted(float(v) for v in lf["s2"])
                if len(a) == len(b) and any(abs(x - y) > 1e-9 * max(1.0, abs(y)) for x, y in zip(a, b)):
                    out.append(f"after the local fit ({ne['phase']} step) the noise entries of the model's training set (1/precision of its own records) and the run's differ")
        if len(out) > 3:
            break
    return out


def replay_runs(ctx, rep, traces, stats, case_of, tag_of):
    reqs, owners = [], []
    for t in traces:
        if not t.get("constructed") or t.get("error") is not None:
            continue
        if t.get("add_faults") or t.get("predict_faults"):
            continue
        r = seq_request(t)
        if r is not None:
            reqs.append(r[0])
            owners.append(("seq", t, r[1], None))
        else:
            stats["seq_skipped"] = stats.get("seq_skipped", 0) + 1
        j = joint_request(t)
        if j is not None:
            reqs.append(j[0])
            owners.append(("joint", t, j[1], j[2]))
        else:
            stats["joint_skipped"] = stats.get("joint_skipped", 0) + 1
    res = ctx.driver.call_many(reqs)
    for (kind, t, exp, merges), m in zip(owners, res):
        if kind == "seq":
            stats["seq_runs"] = stats.get("seq_runs", 0) + 1
            stats["seq_events"] = stats.get("seq_events", 0) + len(exp)
            stats["seq_attempts"] = stats.get("seq_attempts", 0) + len(m["attempts"])
            diffs = seq_compare(m, exp, t)
            corr = CORR_SEQ
        else:
            stats["joint_runs"] = stats.get("joint_runs", 0) + 1
            stats["joint_events"] = stats.get("joint_events", 0) + len(exp)
            stats["joint_runs_with_merges"] = stats.get("joint_runs_with_merges", 0) + bool(merges)
            diffs = joint_compare(m, exp, merges)
            corr = CORR_JOINT
        if diffs:
            rep.disagree(corr, diffs[0] + "; " + tag_of(t), case_of(t))
