"""Shared trace pool (real optimize() runs traced from outside) and the run-level
correspondence / predicate checks built on it."""
import math
from .. import gen, tracer
from ..proto import enc, enc_pt, enc_pts, dec_pts


def pool_specs(seed, tier):
    import random
    rng = random.Random(f"pool:{seed}")
    specs = []
    n_rand = 28 if tier == "quick" else 260
    # systematic corner: every mode x every geometry at least once
    combos = [(m, g) for m in gen.MODES for g in gen.GEOMS]
    rng.shuffle(combos)
    for (m, g) in (combos[:20] if tier == "quick" else combos * 2):
        sp = gen.make_spec(rng, geom=g, mode=m, cons="rand")
        sp["options"] = gen.small_options(rng, sp["D"], m)
        specs.append(sp)
    for _ in range(n_rand):
        sp = gen.make_spec(rng, cons="rand")
        sp["options"] = gen.small_options(rng, sp["D"], sp["mode"])
        specs.append(sp)
    # deterministic boundary-optimum runs (projected candidates collapse onto visited bound points)
    for _ in range(4 if tier == "quick" else 30):
        sp = gen.make_spec(rng, mode="det", geom=rng.choice(["box", "tight", "logbox"]), opt_loc=rng.choice(["on_bound", "outside"]), cons=None)
        sp["options"] = gen.small_options(rng, sp["D"], "det")
        specs.append(sp)
    return specs


def get_pool(ctx):
    if getattr(ctx, "_pool", None) is None:
        ctx._pool = tracer.cached("pool", ctx.seed, ctx.tier, lambda: [(sp, {}) for sp in pool_specs(ctx.seed, ctx.tier)])
    bad = [t for t in ctx._pool if "tracer_error" in t]
    if bad:
        raise RuntimeError("tracer failure: " + bad[0]["tracer_error"])
    return ctx._pool


def extra_pool(ctx, tag, make_specs, kw=None):
    """Property-specific additional traced runs (cached like the shared pool), appended to the pool a check reads."""
    kw = kw or {}
    tr = tracer.cached(tag, ctx.seed, ctx.tier, lambda: [(sp, dict(kw)) for sp in make_specs()])
    bad = [t for t in tr if "tracer_error" in t]
    if bad:
        raise RuntimeError("tracer failure: " + bad[0]["tracer_error"])
    return tr


def with_extra(ctx, tag, make_specs, kw=None):
    """Shared pool + extra runs; installs the union as the pool this ctx sees."""
    base = get_pool(ctx)
    extra = extra_pool(ctx, tag, make_specs, kw)
    ctx._pool = list(base) + list(extra)
    return ctx._pool


def scripted_controller_runs(ctx, tag, n, want=("ctl",), force_options=None, weights=None, plan=None):
    """Runs in which every scalar improvement value is replaced by a scripted one (oracle scripting): the loop controller and the mesh
    rule are driven through arbitrary sequences of search/poll outcomes and stall flags.  Only the controller-level checks (C03, C13) read them."""
    rng = ctx.sub_rng(tag)
    jobs = []
    for i in range(n):
        mode = rng.choice(["det", "det", "decl"])
        sp = gen.make_spec(rng, D=rng.choice([1, 2, 3]), geom=rng.choice(["box", "tight"]), mode=mode, cons=None, target="quad")
        sp["options"] = {"n_search": 32, "max_fun_evals": (sp["D"] + 60) if mode == "det" else 110, "noise_final_samples": 0}
        if rng.random() < 0.3:
            sp["options"]["accelerate_mesh"] = False
        if rng.random() < 0.3:
            sp["options"]["tol_mesh"] = rng.choice([1e-2, 1e-3])
        w = weights or rng.choice([[3, 2, 3, 3], [6, 1, 2, 1], [1, 1, 6, 4], [2, 4, 4, 1]])
        if force_options:
            sp["options"].update(force_options)
        kw = {"ei_script": {"seed": rng.randint(0, 10 ** 6), "weights": w}, "want": tuple(want)}
        if plan:
            kw["ei_script"]["plan"] = plan(rng) if callable(plan) else plan
        if i % 3 == 2 and not plan:
            # the candidate generator is scripted too: from the K-th search step on the strategy proposes nothing (as when every ES
            # candidate is infeasible), at any position within a round of searches; a loop that stops progressing is cut at iter_cap
            kw["es_script"] = {"empty_after": rng.choice([0, 1, 2, 3, 4, 5, 6, 9])}
            kw["iter_cap"] = 3000
            sp["options"]["max_iter"] = 40        # keeps the proved bound (n_try + 1)(max_iter + budget) + 1 well below iter_cap
        jobs.append((sp, kw))
    tr = tracer.cached(tag, ctx.seed, ctx.tier, lambda: jobs)
    bad = [t for t in tr if "tracer_error" in t]
    if bad:
        raise RuntimeError("tracer failure: " + bad[0]["tracer_error"])
    base = get_pool(ctx)
    ctx._pool = list(base) + list(tr)
    return tr


def spec_tag(sp):
    return f"D={sp['D']} {sp['geom']} {sp['mode']} cons={sp['cons']} {sp['target']} opt={sp['opt_loc']} opts={sp['options']} seed={sp['seed']}"


def pool_distribution(traces):
    d = {"modes": {}, "geoms": {}, "D": {}, "cons": {}, "outcome": {}, "msg": {}}
    for t in traces:
        sp = t["spec"]
        for k, v in (("modes", sp["mode"]), ("geoms", sp["geom"]), ("D", str(sp["D"])), ("cons", str(sp["cons"]))):
            d[k][v] = d[k].get(v, 0) + 1
        if t["error"]:
            o = t["error"]["type"] + (" (construction)" if not t["constructed"] else "")
        else:
            o = "completed"
            m = msg_kind(t["final"]["msg"])
            d["msg"][m] = d["msg"].get(m, 0) + 1
        d["outcome"][o] = d["outcome"].get(o, 0) + 1
    return d


def msg_kind(msg):
    if msg is None:
        return "none"
    for k in ("max_fun_evals", "max_iter", "tol_mesh", "tol_fun"):
        if "options['%s']" % k in msg:
            return k
    return "none" if msg == "" else "?"


# ------------------------------------------------------------------------------------------------
# C17 / C01 / C02 : FILT events

def filter_events(ctx, rep, want_clauses=("in_box", "distinct", "fresh", "feasible", "sub_input")):
    from . import c17
    traces = get_pool(ctx)
    cases, owners = [], []
    for ti, t in enumerate(traces):
        for ei, (k, e) in enumerate(t["events"]):
            if k != "FILT" or "U" not in e:
                continue
            c = {"U": e["U"], "lo": e["lo"], "hi": e["hi"], "tol": e["tol"], "logX": e["logX"], "proj": e["proj"],
                 "cons_table": e.get("cons"), "out": e["out"], "site": e["site"], "has_cons": e["has_cons"]}
            cases.append(c)
            owners.append((ti, ei))
    reqs, reqs_p = [], []
    for c in cases:
        base = {"U": enc_pts(c["U"]), "lo": [enc(v) for v in c["lo"]], "hi": [enc(v) for v in c["hi"]], "tol": enc(c["tol"]),
                "logX": enc_pts(c["logX"]), "proj": c["proj"]}
        if c["has_cons"]:
            base["cons"] = [{"p": enc_pt(p), "v": v} for p, v in (c["cons_table"] or [])]
        r1 = dict(base); r1["cmd"] = "filter"
        r2 = dict(base); r2["cmd"] = "prop.filter"; r2["out"] = enc_pts(c["out"])
        reqs.append(r1); reqs_p.append(r2)
    res = ctx.driver.call_many(reqs)
    resp = ctx.driver.call_many(reqs_p)
    nontrivial = 0
    sites = {}
    hist = {}
    for c, m, pr, (ti, ei) in zip(cases, res, resp, owners):
        sites[c["site"]] = sites.get(c["site"], 0) + 1
        mo = sorted(tuple(r) for r in m["out"])
        io = sorted(tuple(enc_pt(p)) for p in c["out"])
        sp = traces[ti]["spec"]
        if mo != io:
            rep.disagree("Filter.filterCode ~ contraints_check (traced run)", f"site={c['site']} model {len(mo)} rows vs impl {len(io)} rows; {spec_tag(sp)}",
                         {"kind": "filter_run", "spec": sp, "event_index": ei})
        if len(c["out"]) != len(c["U"]):
            nontrivial += 1
        for clause, ok in pr.items():
            if clause in want_clauses and not ok:
                hist[clause] = hist.get(clause, 0) + 1
                site = c17.SITE_FRESH if clause == "fresh" else c17.SITE
                rep.violation(clause, site, f"traced run, filter call at site '{c['site']}' violates '{clause}'; {spec_tag(sp)}",
                              {"kind": "filter_run", "spec": sp, "event_index": ei})
    return {"runs": len(traces), "filter_events": len(cases), "nontrivial": nontrivial, "sites": sites, "clause_failures_on_impl": hist,
            "pool": pool_distribution(traces)}


def replay_filter_run(ctx, rep, case):
    t = tracer.run_traced(case["spec"], **(case.get("kw") or {}))
    ctx._pool = [t]
    filter_events(ctx, rep)


# ------------------------------------------------------------------------------------------------
# C03 / C13 : controller replay

def _same_num(a, b):
    """equality of two observed numbers; NaN equals NaN (a degenerate surrogate hands NaN estimates on unchanged)"""
    try:
        if isinstance(a, float) and isinstance(b, float) and math.isnan(a) and math.isnan(b):
            return True
    except TypeError:
        pass
    return a == b


def ctl_extract(t):
    """Per-iteration oracle outcomes and observed states of one trace. Returns None if the run did not reach the loop."""
    ev = t["events"]
    iters, cur = [], None
    hist = {"fval": {}, "fsd": {}}
    for k, e in ev:
        if k == "ITER":
            cur = {"start": e, "srch": None, "poll": None, "ei_main": [], "pcalls": []}
            iters.append(cur)
        elif k == "HIST" and e["key"] in hist:
            hist[e["key"]][e["it"]] = e["val"]
        elif cur is not None:
            if k == "SRCH":
                cur["srch"] = e
            elif k == "POLL":
                cur["poll"] = e
                cur["hist_at_poll"] = {kk: dict(vv) for kk, vv in hist.items()}
            elif k == "EI":
                cur["ei_main"].append(e)
            elif k == "CALL" and e.get("phase") == "poll" and "exc" not in e:
                cur["pcalls"].append(e)
    if t["error"] is not None and iters:
        iters = iters[:-1]      # the run died inside (or after) its last iteration: that one is incomplete
    if not iters:
        return None
    h = t["hdr"]["opts"]
    s0 = iters[0]["start"]
    tol_mesh = t["hdr"]["tol_mesh"]
    # the internal tolerance is a power of the poll-mesh multiplier (2 unless the user chose another base); the controller model works on the
    # integer exponents, whatever the base
    import numpy as _np
    mult_ = float(h.get("poll_mesh_multiplier", 2.0) or 2.0)
    if not (mult_ > 1.0 and tol_mesh > 0):
        return None
    tol_exp = round(math.log(tol_mesh) / math.log(mult_))
    if float(_np.float64(mult_) ** _np.float64(tol_exp)) != tol_mesh:
        return None
    opts = {"D": t["hdr"]["D"], "nTry": int(h["search_n_try"]), "budget": max(0, int(s0["budget"])), "maxIter": max(0, int(s0["max_iter"])),
            "skip": bool(h["skip_poll_after_search"]), "cap": int(h["max_poll_grid_number"]), "sgm": int(h["search_grid_multiplier"]),
            "sgn": int(h["search_grid_number"]), "locked": bool(h["search_size_locked"]), "accel": bool(h["accelerate_mesh"]),
            "accelSteps": int(h["accelerate_mesh_steps"]), "stallIters": int(s0["stall_iters"]), "tolExp": tol_exp,
            "expand": int(h["search_mesh_expand"]), "incr": 1}
    tol_fun = s0["tol_fun"]
    outs, obs = [], []
    nan_zs = 0
    for k, it in enumerate(iters):
        o = {"search": None, "zs": [], "newRows": 0, "thr": "0", "stallMesh": False, "stallStop": False}
        ob = {"start": it["start"], "ranSearch": it["srch"] is not None, "ranPoll": it["poll"] is not None}
        if it["srch"] is not None:
            pre, post = it["srch"]["pre"], it["srch"]["post"]
            n = post["fc"] - pre["fc"]
            if n == 0:
                o["search"] = "empty"
            else:
                o["search"] = {"newRow": post["nrec"] - pre["nrec"] > 0, "st": "success" if post["ss"] > pre["ss"] else "failure"}
            ob["search_evals"] = n
        if it["poll"] is not None:
            p = it["poll"]
            n = p["post"]["fc"] - p["pre"]["fc"]
            zs = [e["z"] for e in p["ei"] if e["phase"] == "poll"]
            # a NaN improvement (non-finite GP prediction: degenerate surrogate) compares False with everything, exactly like -1 against the
            # non-negative threshold and against 0: the controller model gets -1
            nan_zs += sum(1 for z in zs[:n] if isinstance(z, float) and math.isnan(z))
            o["zs"] = [enc(z) if not (isinstance(z, float) and math.isnan(z)) else "-1" for z in zs[:n]]
            o["newRows"] = p["post"]["nrec"] - p["pre"]["nrec"]
            o["thr"] = enc(p["thr"])
            o["stallMesh"] = bool(len(zs) > n and zs[n] < tol_fun)
            ob["poll_evals"] = n
            ob["poll_post"] = p["post"]
            ob["n_ei"] = len(zs)
            eis = [e for e in p["ei"] if e["phase"] == "poll"]
            ob["ei_inputs_bad"] = None
            if not t.get("ei_script"):
                if it["start"]["unc"] > 0:
                    # noisy modes (declared, specified or auto-detected): success is judged on the GP estimate at the polled point, not on
                    # the raw observation (which comes without an SD).  A predictive SD of exactly 0 alone is not enough to tell (the GP's
                    # posterior variance can underflow to 0 for tiny noise_size): the value must also BE the raw observation of that call
                    pc = it.get("pcalls") or []
                    for j, e in enumerate(eis[:n]):
                        raw = pc[j]["ret"][0] if j < len(pc) else None
                        if (e["s_new"] is None or e["s_new"] == 0) and (raw is None or e["f_new"] == raw):
                            ob["ei_inputs_bad"] = ("judged_on_gp_estimate", f"noisy run (uncertainty level {it['start']['unc']}): a poll improvement was computed from (f_new, s_new)=({e['f_new']}, {e['s_new']}), "
                                                   "i.e. from the raw observation instead of the GP estimate at the polled point")
                            break
                for e in (eis[:n] if ob["ei_inputs_bad"] is None else []):
                    if not _same_num(e["f_base"], p["pre"]["fval"]) or (e["s_base"] is not None and not _same_num(e["s_base"], p["pre"]["fsd"])):
                        ob["ei_inputs_bad"] = ("improvement_inputs", f"poll improvement computed against ({e['f_base']}, {e['s_base']}) but the incumbent estimate at poll start is ({p['pre']['fval']}, {p['pre']['fsd']})")
                        break
                if it["start"]["unc"] == 0 and ob["ei_inputs_bad"] is None:
                    # deterministic runs: the improvement of an evaluated poll point is the incumbent's value minus the value the TARGET returned
                    # at that call (the wrapper's own record, as a float) - whatever numeric type the target returned it in
                    pc = it.get("pcalls") or []
                    for j, e in enumerate(eis[:n]):
                        tr_ = pc[j].get("tret") if j < len(pc) else None
                        if tr_ is None or tr_[0] is None or not isinstance(e["z"], (int, float)) or not isinstance(p["pre"]["fval"], (int, float)):
                            continue
                        want_z = float(p["pre"]["fval"]) - float(tr_[0])
                        if not (math.isnan(want_z) or _same_num(float(e["z"]), want_z)):
                            ob["ei_inputs_bad"] = ("improvement_of_observed_values", f"deterministic run: the poll improvement of the point evaluated at call #{pc[j]['k']} is {e['z']}, "
                                                   f"but the incumbent's value {p['pre']['fval']} minus the value the target returned there ({tr_[0]}) is {want_z}")
                            break
                if len(eis) > n and ob["ei_inputs_bad"] is None:
                    a = eis[n]
                    hb = it.get("hist_at_poll", {"fval": {}, "fsd": {}})
                    idx = p["pre"]["it"] - int(h["accelerate_mesh_steps"])
                    want = (hb["fval"].get(idx), hb["fsd"].get(idx), p["post"]["fval"], p["post"]["fsd"])
                    got = (a["f_base"], a["s_base"], a["f_new"], a["s_new"])
                    if want[0] is not None and not all(_same_num(g_, w_) for g_, w_ in zip(got, want)):
                        ob["ei_inputs_bad"] = ("stall_inputs", f"stalling judged on (f_base, s_base, f_new, s_new)={got}; the estimates recorded {int(h['accelerate_mesh_steps'])} iterations ago and the current incumbent estimate are {want}")
        # termination stall test: the scalar _eval_improvement_ call made in the main loop body
        sc = [e for e in it["ei_main"] if not e["vec"]]
        if sc:
            o["stallStop"] = bool(sc[0]["z"] < tol_fun)
        outs.append(o)
        obs.append(ob)
    # calls after the loop (final re-sampling) are CALL events after the last ITER in phase 'pre'
    last_iter_idx = max(i for i, (k, _) in enumerate(ev) if k == "ITER")
    tail_calls = [e for k, e in ev[last_iter_idx:] if k == "CALL" and e["phase"] == "pre"]
    return {"nan_zs": nan_zs, "opts": opts, "init": {"fc": s0["fc"], "nRec": s0["nrec"], "msi": s0["msi"]}, "outs": outs, "obs": obs,
            "tail_calls": tail_calls, "iters": len(iters)}


def ctl_replay(ctx, rep, pid):
    """Replay every traced run through Ctl.step; compare determined fields; evaluate C03/C13 predicates."""
    traces = get_pool(ctx)
    items = []
    for ti, t in enumerate(traces):
        if not t["constructed"] or t["hdr"] is None:
            continue
        # loop structure: the passes the tracer sees (one ITER event per refresh of the search bounds) against an independent count of
        # passes (writes of optim_state['iter']: one per pass, one more per completed poll)
        marks = (t.get("final") or {}).get("iter_marks")
        n_iter_ev = sum(1 for k, _ in t["events"] if k == "ITER")
        case0 = {"kind": "ctl_run", "spec": t["spec"], "kw": {k: t[k] for k in ("ei_script", "es_script") if t.get(k)}}
        if marks is not None and t["error"] is None and not (n_iter_ev <= marks <= 2 * n_iter_ev):
            rep.disagree("Ctl.step ~ optimize loop (one refresh of the search mesh and bounds per pass)",
                         f"the main loop made {marks} writes of optim_state['iter'] but refreshed the search bounds {n_iter_ev} times; {spec_tag(t['spec'])}", case0)
        if pid == "C13":
            # the meshes the poll steps actually worked with (as handed to the direction generator): the search mesh never exceeds the poll mesh
            for k, e in t["events"]:
                if k == "DIRS" and e["sms"] > e["ms"]:
                    rep.violation("search_mesh_le_mesh", "bads.py:optimize", f"a poll step ran with search mesh {e['sms']} > poll mesh {e['ms']}; {spec_tag(t['spec'])}", case0)
                    break
        x = ctl_extract(t)
        if x is None:
            continue
        items.append((ti, x))
    res = ctx.driver.call_many([{"cmd": "ctl.replay", "opts": x["opts"], "init": x["init"], "outs": x["outs"]} for _, x in items])
    stats = {"runs": 0, "iterations": 0, "polls": 0, "searches": 0, "poll_success": 0, "poll_fail": 0, "quartered": 0, "skipped_polls": 0,
             "msgs": {}, "empty_search": 0, "nan_improvements": sum(x.get("nan_zs", 0) for _, x in items)}
    samples = []
    for (ti, x), r in zip(items, res):
        t = traces[ti]
        sp = t["spec"]
        tag = spec_tag(sp)
        case = {"kind": "ctl_run", "spec": sp, "kw": {k: t[k] for k in ("ei_script", "es_script") if t.get(k)}}
        if t.get("es_script"):
            case["kw"]["iter_cap"] = 3000
        stats["runs"] += 1
        stats["scripted_runs"] = stats.get("scripted_runs", 0) + bool(t.get("ei_script"))
        states = r["states"]
        n = len(states)
        completed = t["error"] is None
        # the reserve for the final re-sampling (l.1071-1080) as the model of C03 assumes it: min(nfs, B - func_count)
        s0 = x["obs"][0]["start"]
        if s0["unc"] > 0:
            B0, nfs0 = int(t["hdr"]["opts"]["max_fun_evals"]), int(t["hdr"]["opts"]["noise_final_samples"])
            want_res = min(nfs0, B0 - x["init"]["fc"])
            if (int(s0["nfs"]), int(s0["budget"])) != (want_res, B0 - want_res):
                rep.disagree("C03 reserve: min(noise_final_samples, max_fun_evals - func_count)",
                             f"model reserve {want_res} (budget {B0}, {x['init']['fc']} calls before the loop, noise_final_samples {nfs0}) but the run uses reserve {s0['nfs']} / loop budget {s0['budget']}; {tag}", case)
        for k, (st, ob, o) in enumerate(zip(states, x["obs"], x["outs"])):
            stats["iterations"] += 1
            last = k == n - 1
            if st["ranSearch"] != ob["ranSearch"] or st["ranPoll"] != ob["ranPoll"]:
                rep.disagree("Ctl.step ~ optimize loop", f"iteration {k}: model ranSearch/ranPoll={st['ranSearch']}/{st['ranPoll']} observed {ob['ranSearch']}/{ob['ranPoll']}; {tag}", case)
                break
            stats["searches"] += ob["ranSearch"]
            stats["polls"] += ob["ranPoll"]
            if o["search"] == "empty":
                stats["empty_search"] += 1
            if ob["ranPoll"]:
                pp = ob["poll_post"]
                dm = pp["msi"] - ob["start"]["msi"]
                if dm >= 0:
                    stats["poll_success"] += 1
                elif dm == -1:
                    stats["poll_fail"] += 1
                else:
                    stats["quartered"] += 1
                if (st["msi"], st["ssi"], st["overflows"]) != (pp["msi"], pp["ssi"], pp["overflows"]):
                    rep.disagree("Ctl.mstep ~ _poll_step_ mesh update", f"iteration {k}: model (msi,ssi,overflows)=({st['msi']},{st['ssi']},{st['overflows']}) observed ({pp['msi']},{pp['ssi']},{pp['overflows']}); {tag}", case)
                    break
            elif ob["start"]["sc"] != 0 or True:
                pass
            if not last:
                nxt = x["obs"][k + 1]["start"]
                mod = (st["fc"], st["nRec"], st["sc"], st["ss"], st["spree"], st["msi"], st["pollIter"], st["ssiNextStart"], st["finished"])
                obsv = (nxt["fc"], nxt["nrec"], nxt["sc"], nxt["ss"], nxt["spree"], nxt["msi"], nxt["it"], nxt["ssi"], False)
                if mod != obsv:
                    rep.disagree("Ctl.step ~ optimize loop", f"iteration {k}: model (fc,nRec,sc,ss,spree,msi,iter,ssi,finished)={mod} observed {obsv}; {tag}", case)
                    break
                if pid == "C13" and not ob["ranPoll"] and nxt["msi"] != ob["start"]["msi"]:
                    rep.violation("changes_only_in_poll", "bads.py:optimize", f"mesh_size_integer changed from {ob['start']['msi']} to {nxt['msi']} in iteration {k} without a poll; {tag}", case)
            elif completed:
                f = t["final"]
                fc_exit = t["log"]["func_count"] - len(x["tail_calls"])
                mk = msg_kind(f["msg"])
                mod = (st["fc"], st["msi"], st["pollIter"], st["finished"], st["msg"])
                obsv = (fc_exit, f["msi"], f["iter"], True, mk)
                stats["msgs"][mk] = stats["msgs"].get(mk, 0) + 1
                if mod != obsv:
                    rep.disagree("Ctl.step ~ optimize loop (exit)", f"last iteration {k}: model (fc,msi,iter,finished,msg)={mod} observed {obsv}; {tag}", case)
                    break
        # ---- property predicates on the OBSERVED run --------------------------------------------
        if pid == "C03":
            _c03_predicates(rep, t, x, r, case, tag, completed)
        elif pid == "C13":
            _c13_predicates(rep, t, x, case, tag, completed)
        if len(samples) < 3:
            samples.append({"spec": sp, "opts": x["opts"], "init": x["init"], "outs": x["outs"][:6], "model_states": states[:3]})
    return stats, samples


def _c03_predicates(rep, t, x, r, case, tag, completed):
    h = t["hdr"]["opts"]
    f = t["final"]
    B = int(h["max_fun_evals"])           # the user's budget (as constructed)
    init_fc = x["init"]["fc"]
    ncalls = f["target_calls"]
    valid_calls = sum(1 for k, e in t["events"] if k == "CALL" and "exc" not in e)
    if t["log"]["func_count"] != valid_calls or (completed and ncalls != valid_calls):
        rep.violation("count_honest", "function_logger.py:__call__", f"func_count={t['log']['func_count']} but {valid_calls} valid target calls ({ncalls} total); {tag}", case)
    if completed and t["result"]["func_count"] != ncalls:
        rep.violation("count_honest", "optimize_result.py:func_count", f"reported func_count={t['result']['func_count']} true calls={ncalls}; {tag}", case)
    if init_fc <= B and ncalls > B:
        rep.violation("budget", "bads.py:optimize", f"{ncalls} target calls exceed max_fun_evals={B} (initial design {init_fc}); {tag}", case)
    if x["iters"] > r["bound"]:
        rep.violation("terminates", "bads.py:optimize", f"{x['iters']} loop iterations exceed the proved bound {r['bound']}; {tag}", case)
    if t["error"] and t["error"]["type"] == "LoopBoundExceeded":
        rep.violation("terminates", "bads.py:optimize", f"main loop did not terminate within {tracer.ITER_CAP} iterations; {tag}", case)
    max_iter = int(h["max_iter"])
    npolls = sum(1 for ob in x["obs"] if ob["ranPoll"])
    if npolls > max(max_iter, 1):
        rep.violation("max_iter", "bads.py:optimize", f"{npolls} poll iterations exceed max_iter={max_iter}; {tag}", case)
    idle = [k for k, ob in enumerate(x["obs"]) if not ob["ranSearch"] and not ob["ranPoll"]]
    if idle:
        rep.violation("no_idle", "bads.py:optimize", f"loop iteration {idle[0]} ran neither a search nor a poll; {tag}", case)
    if completed:
        mk = msg_kind(f["msg"])
        budget_loop = x["opts"]["budget"]
        fc_exit = t["log"]["func_count"] - len(x["tail_calls"])
        ok = {"max_fun_evals": fc_exit >= budget_loop, "max_iter": f["iter"] >= x["opts"]["maxIter"] - 1,
              # ... below the tolerance the USER set, not merely below whatever the run derived from it
              "tol_mesh": f["mesh_size"] < (min(t["hdr"]["tol_mesh"], float(h["tol_mesh"])) if h.get("tol_mesh") is not None and float(h["tol_mesh"]) > 0 else t["hdr"]["tol_mesh"]),
              "tol_fun": f["iter"] > x["opts"]["stallIters"] - 1 and x["outs"][-1]["stallStop"], "none": False, "?": False}[mk]
        if not ok:
            rep.violation("msg_sound", "bads.py:optimize", f"termination message '{mk}' names a condition that does not hold at exit (fc={fc_exit}, budget={budget_loop}, iter={f['iter']}, mesh={f['mesh_size']}); {tag}", case)


def _c13_predicates(rep, t, x, case, tag, completed):
    cap = x["opts"]["cap"]
    mult = t["hdr"]["opts"]["poll_mesh_multiplier"]
    for k, ob in enumerate(x["obs"]):
        s = ob["start"]
        ms, sms = s["ms"], s["sms"]
        if ob.get("ei_inputs_bad"):
            rep.violation(ob["ei_inputs_bad"][0], "bads.py:_poll_step_", f"iteration {k}: {ob['ei_inputs_bad'][1]}; {tag}", case)
            return
        if ms != float(mult) ** s["msi"] or ms > 1.0 or math.log2(ms) != int(math.log2(ms)):
            rep.violation("power_of_two_le_one", "bads.py:optimize", f"iteration {k}: mesh_size={ms} (msi={s['msi']}) is not a power of two <= 1; {tag}", case)
            return
        if sms > ms:
            rep.violation("search_mesh_le_mesh", "bads.py:optimize", f"iteration {k}: search mesh {sms} exceeds poll mesh {ms}; {tag}", case)
            return
        if ob["ranPoll"]:
            pp = ob["poll_post"]
            n = ob["poll_evals"]
            zs = [float(_dec(z)) for z in x["outs"][k]["zs"]]
            thr = float(_dec(x["outs"][k]["thr"]))
            good = any(z > thr for z in zs)
            dm = pp["msi"] - s["msi"]
            if good and dm != min(s["msi"] + 1, cap) - s["msi"]:
                rep.violation("success_doubles", "bads.py:_poll_step_", f"iteration {k}: poll with sufficient improvement changed msi by {dm}; {tag}", case)
                return
            if not good:
                # what the USER asked for decides (an explicit accelerate_mesh=False must switch the quartering off), not what ended up in b.options
                accel = t["spec"].get("options", {}).get("accelerate_mesh", x["opts"]["accel"])
                stall = x["outs"][k]["stallMesh"] and accel and s["it"] > x["opts"]["accelSteps"]
                want = -2 if stall else -1
                if dm != want:
                    rep.violation("failure_shrinks", "bads.py:_poll_step_", f"iteration {k}: failed poll changed msi by {dm}, expected {want}; {tag}", case)
                    return
    # ... below the tolerance the USER set (options['tol_mesh']), not merely below whatever the run derived from it
    user_tol = t["hdr"]["opts"].get("tol_mesh")
    tol_ref = min(t["hdr"]["tol_mesh"], float(user_tol)) if user_tol is not None and float(user_tol) > 0 else t["hdr"]["tol_mesh"]
    if completed and msg_kind(t["final"]["msg"]) == "tol_mesh" and not t["final"]["mesh_size"] < tol_ref:
        rep.violation("tolmesh_msg", "bads.py:optimize", f"stopped by tol_mesh with mesh_size={t['final']['mesh_size']} >= {tol_ref} (options['tol_mesh'] = {user_tol}); {tag}", case)


def _dec(s):
    from fractions import Fraction
    return Fraction(s)


# ------------------------------------------------------------------------------------------------
# C01 / C02 : call provenance through Pipe.step + box / feasibility predicates on observed calls

def pipe_extract(t):
    hdr = t["hdr"]
    ev = t["events"]
    steps, calls = [], []
    last = {}          # site -> index into steps of the latest FILT step of that site
    cons_tbl = {}
    u0 = None
    problems = []
    for k, e in ev:
        if k == "FILT":
            if "U" not in e:
                last[e["site"]] = None      # too large to replay (default-size ES population)
                continue
            steps.append({"t": "filt", "proj": e["proj"], "h": enc(e["sms"]), "U": enc_pts(e["U"]), "logX": enc_pts(e["logX"]), "picks": [],
                          "_lo": e["lo"], "_hi": e["hi"], "_site": e["site"], "_out": e["out"]})
            last[e["site"]] = len(steps) - 1
            for p, v in (e.get("cons") or []):
                cons_tbl[tuple(enc_pt(p))] = v
        elif k == "CALL":
            if "exc" in e and e.get("x") is None:
                continue
            c = {"u": enc_pt(e["u"]), "x": enc_pt(e["x"]), "ginv": enc_pt(e.get("ginv", e["x"])), "_e": e}
            calls.append(c)
            if u0 is None:
                u0 = e["u"]
                continue
            ph = e["phase"]
            if not e["rec"]:
                steps.append({"t": "revisit", "u": enc_pt(e["u"])})
            elif ph in ("init", "search", "poll"):
                si = last.get(ph)
                if si is None:
                    problems.append(f"call #{e['k']} in phase {ph} without a preceding filtered set")
                    steps.append({"t": "revisit", "u": enc_pt(e["u"])})
                else:
                    steps[si]["picks"].append(enc_pt(e["u"]))
                    # calls appended to an earlier step: keep evaluation order by splitting the step
                    if si != len(steps) - 1:
                        # a later step was inserted in between (ES-internal filter calls never are; polls interleave
                        # GP-only work) - re-emit as a fresh step with the same inputs so that order is preserved
                        st = dict(steps[si])
                        st["picks"] = [steps[si]["picks"].pop()]
                        steps.append(st)
                        last[ph] = len(steps) - 1
            else:
                problems.append(f"recorded call #{e['k']} in unexpected phase {ph}")
                steps.append({"t": "revisit", "u": enc_pt(e["u"])})
    return u0, steps, calls, cons_tbl, problems


def pipe_replay(ctx, rep, pid):
    traces = get_pool(ctx)
    reqs, owners = [], []
    for ti, t in enumerate(traces):
        if not t["constructed"]:
            continue
        u0, steps, calls, cons_tbl, problems = pipe_extract(t)
        if u0 is None:
            continue
        hdr = t["hdr"]
        if pid == "C01" and hdr.get("lb_ref") is not None and (hdr["lb_ref"] != hdr["lb"] or hdr["ub_ref"] != hdr["ub"]):
            # the run's own internal bounds are no longer the transform of its (normalised) original bounds
            bad = [i for i in range(len(hdr["lb"])) if hdr["lb"][i] != hdr["lb_ref"][i] or hdr["ub"][i] != hdr["ub_ref"][i]]
            rep.disagree("Pipe.Env ~ internal hard bounds are the transform of the original bounds",
                         f"coordinate(s) {bad}: lower_bounds/upper_bounds of the run {hdr['lb']},{hdr['ub']} differ from a fresh transform of the original bounds "
                         f"{hdr['lb_ref']},{hdr['ub_ref']}; {spec_tag(t['spec'])}", {"kind": "pipe_run", "spec": t["spec"]})
        # the box the model and the C01 predicates work with is the REFERENCE transform of the original bounds
        blb = hdr["lb_ref"] if pid == "C01" and hdr.get("lb_ref") is not None else hdr["lb"]
        bub = hdr["ub_ref"] if pid == "C01" and hdr.get("ub_ref") is not None else hdr["ub"]
        req = {"cmd": "pipe.run",
               "env": {"lb": [enc(v) for v in blb], "ub": [enc(v) for v in bub], "origLo": [enc(v) for v in hdr["orig_lb"]],
                       "origHi": [enc(v) for v in hdr["orig_ub"]], "tol": enc(hdr["tol_mesh"])},
               "u0": enc_pt(u0),
               "steps": [{k: v for k, v in s.items() if not k.startswith("_")} for s in steps],
               "calls": [{k: v for k, v in c.items() if not k.startswith("_")} for c in calls]}
        if t["spec"]["cons"]:
            req["cons"] = [{"p": list(p), "v": v} for p, v in cons_tbl.items()]
        if t["final"].get("x") is not None and t["final"].get("x_ginv") is not None:
            req["calls"].append({"u": enc_pt(t["final"]["u"]), "x": enc_pt(t["final"]["x"]), "ginv": enc_pt(t["final"]["x_ginv"])})
        reqs.append(req)
        owners.append((ti, steps, calls, problems))
    res = ctx.driver.call_many(reqs)
    stats = {"runs": 0, "calls": 0, "filter_steps": 0, "revisits": 0, "clamped_calls": 0, "on_bound_calls": 0, "log_coord_calls": 0,
             "cons_runs": 0, "infeasible_candidates_dropped": 0}
    samples = []
    for (ti, steps, calls, problems), r in zip(owners, res):
        t = traces[ti]
        sp = t["spec"]
        tag = spec_tag(sp)
        case = {"kind": "pipe_run", "spec": sp}
        stats["runs"] += 1
        hdr = t["hdr"]
        stats["cons_runs"] += bool(sp["cons"])
        for pr in problems:
            rep.disagree("Pipe.step ~ call provenance", f"{pr}; {tag}", case)
        # correspondence: search-box bounds, provenance, evaluated sequence
        okc = True
        for s, info in zip(steps, r["steps"]):
            if s["t"] == "filt":
                stats["filter_steps"] += 1
                if [enc(v) for v in s["_lo"]] != info["lo"] or [enc(v) for v in s["_hi"]] != info["hi"]:
                    rep.disagree("Mesh.searchLo/searchHi ~ _update_search_bounds_", f"site {s['_site']}: model bounds {info['lo']},{info['hi']} observed {s['_lo']},{s['_hi']}; {tag}", case)
                    okc = False
                    break
                if not info["found"]:
                    rep.disagree("Pipe.step ~ call provenance", f"a point evaluated in phase {s['_site']} is not a row of the model's filtered set; {tag}", case)
                    okc = False
                    break
                stats["infeasible_candidates_dropped"] += max(0, len(s["U"]) - info["nOut"]) if sp["cons"] else 0
            else:
                stats["revisits"] += 1
                if not info["found"]:
                    rep.disagree("Pipe.step ~ call provenance", f"an unrecorded evaluation revisits a point that was never evaluated; {tag}", case)
                    okc = False
                    break
        if okc:
            obs = [c["u"] for c in calls]
            if r["evals"] != obs:
                rep.disagree("Pipe.run ~ sequence of evaluated points", f"model evaluates {len(r['evals'])} points, run {len(obs)} (first difference at "
                             f"{next((i for i, (a, b) in enumerate(zip(r['evals'], obs)) if a != b), min(len(obs), len(r['evals'])))}); {tag}", case)
        # predicates on observed calls
        ncalls = len(calls)
        for i, cr in enumerate(r["calls"]):
            what = f"target call #{i}" if i < ncalls else "returned solution"
            if i < ncalls:
                stats["calls"] += 1
                e = calls[i]["_e"]
                if e.get("ginv") is not None and e["ginv"] != e["x"]:
                    stats["clamped_calls"] += 1
                if any(a == b for a, b in zip(e["x"], hdr["orig_lb"])) or any(a == b for a, b in zip(e["x"], hdr["orig_ub"])):
                    stats["on_bound_calls"] += 1
                stats["log_coord_calls"] += any(hdr["log"])
            if pid == "C01":
                if not cr["x_in"]:
                    rep.violation("orig_box", "variables_transformer.py:inverse_transf", f"{what}: original-space point outside the hard bounds; {tag}", case)
                    break
                if not cr["u_in"]:
                    rep.violation("internal_box", "bads.py:candidate filtering", f"{what}: internal point outside the transformed box; {tag}", case)
                    break
                if not cr["x_eq"]:
                    rep.disagree("Pipe.inverse ~ inverse_transf", f"{what}: x is not clamp(ginv(u)); {tag}", case)
                    break
        if pid == "C01" and t.get("result") and t["result"].get("x") is not None and t["error"] is None:
            rx = t["result"]["x"] if isinstance(t["result"]["x"], list) else [t["result"]["x"]]
            if any(not (lo <= v <= hi) for v, lo, hi in zip(rx, hdr["orig_lb"], hdr["orig_ub"])):
                rep.violation("orig_box", "optimize_result.py:x", f"the x of the returned OptimizeResult ({rx}) lies outside the hard bounds; {tag}", case)
            elif t["final"].get("x") is not None and [float(v) for v in rx] != [float(v) for v in t["final"]["x"]]:
                rep.disagree("Pipe.inverse ~ result['x']", f"result['x'] = {rx} differs from the optimizer's final point {t['final']['x']}; {tag}", case)
        if pid == "C01":
            # constraint function inputs and the logged pairs
            for X, C, ph in t.get("cons_calls", []):
                for row in X:
                    if any(not (lo <= v <= hi) for v, lo, hi in zip(row, hdr["orig_lb"], hdr["orig_ub"])):
                        rep.violation("orig_box_cons", "constraints_check.py:non_box_cons input", f"constraint function called outside the hard bounds in phase {ph}; {tag}", case)
                        break
            lg = t["log"]
            if lg and lg["X"]:
                byu = {}
                for c in calls:
                    byu.setdefault(tuple(c["u"]), c["x"])
                for Xi, Xo in zip(lg["X"], lg["X_orig"]):
                    want = byu.get(tuple(enc_pt(Xi)))
                    if want is not None and want != enc_pt(Xo):
                        rep.violation("log_pair", "function_logger.py:_record", f"logged original-space point is not the image of the logged internal point; {tag}", case)
                        break
                    if any(not (lo <= v <= hi) for v, lo, hi in zip(Xi, hdr["lb"], hdr["ub"])):
                        rep.violation("internal_box", "function_logger.py:_record", f"logged internal point outside the transformed box; {tag}", case)
                        break
        if pid == "C02" and sp["cons"]:
            bad = [i for i, v in enumerate(t["final"].get("cons_at_calls", [])) if v]
            if bad:
                rep.violation("infeasible_call", "bads.py:candidate filtering", f"target called at an infeasible point (call #{bad[0]} of {len(t['final']['cons_at_calls'])}); {tag}", case)
            if t["final"].get("x") is not None and t["error"] is None:
                from .. import gen as _g
                _, _, _, _, _, _, cons_fn, _, _ = _g.build(sp)
                import numpy as np
                # both the optimizer's own final point and the x of the OptimizeResult handed to the caller
                xs_ret = [("the optimizer's final point", t["final"]["x"])]
                if t.get("result") and t["result"].get("x") is not None:
                    rx = t["result"]["x"]
                    xs_ret.append(("result['x']", rx if isinstance(rx, list) else [rx]))
                for what_x, xv in xs_ret:
                    if float(np.asarray(cons_fn(np.array([xv], dtype=float))).reshape(-1)[0]) > 0:
                        rep.violation("infeasible_result", "bads.py:optimize result / optimize_result.py", f"returned x ({what_x} = {xv}) violates the non-box constraint; {tag}", case)
                        break
        if len(samples) < 2:
            samples.append({"spec": sp, "n_steps": len(steps), "n_calls": len(calls), "first_steps": [{k: v for k, v in s.items() if not k.startswith("_") and k not in ("U", "logX")} for s in steps[:4]]})
    return stats, samples


# ------------------------------------------------------------------------------------------------
# C05 / C19 : incumbent / history / final-estimate bookkeeping through Noisy.iterStep

def _finite(*vals):
    import math as _m
    for v in vals:
        if v is None or isinstance(v, (list, str)) or not _m.isfinite(v):
            return False
    return True


def _calls_until_group(t, k):
    """Number of target calls made by the end of the k-th main-loop iteration (0-based) of a traced run."""
    n = g = 0
    for kk, e in t["events"]:
        if kk == "ITER":
            g += 1
            if g > k + 1:
                break
        elif kk == "CALL":
            n += 1
    return n


def noisy_extract(t):
    """Oracle inputs per loop iteration + observed states. None if the run has non-finite estimates or no loop."""
    ev = t["events"]
    groups, cur = [], None
    for k, e in ev:
        if k == "ITER":
            cur = {"start": e, "ev": []}
            groups.append(cur)
        elif cur is not None:
            cur["ev"].append((k, e))
    if t["error"] is not None and groups:
        groups = groups[:-1]
    if not groups:
        return None
    s0 = groups[0]["start"]
    if not _finite(s0["yval"], s0["fval"], s0["fsd"]):
        return None
    init = {"u": enc_pt(s0["u"]), "yval": enc(s0["yval"]), "fval": enc(s0["fval"]), "fsd": enc(s0["fsd"])}
    iters, obs = [], []
    ohist = {"u": {}, "yval": {}, "fval": {}, "fsd": {}, "x": {}, "func_count": {}, "mesh_size": {}, "search_mesh_size": {}}
    recorded = []       # (it, u, x, yval, fval, fsd, func_count) at loop-end record time
    unc = t["final"]["unc"]
    for gi, g in enumerate(groups):
        last = gi == len(groups) - 1
        it = {"it": g["start"]["it"], "finished": bool(last and t["error"] is None)}
        calls_s, calls_p = [], []
        srch = poll = None
        reeval = None
        rec_now = {}
        for k, e in g["ev"]:
            if k == "CALL" and "exc" not in e:
                if e["phase"] == "search":
                    calls_s.append(e)
                elif e["phase"] == "poll":
                    calls_p.append(e)
            elif k == "SRCH":
                srch = e
            elif k == "POLL":
                poll = e
            elif k == "HIST":
                if e["phase"] == "reeval":
                    if reeval is not None:
                        reeval.setdefault(e["key"], {})[e["it"]] = e["val"]
                    ohist[e["key"]][e["it"]] = e["val"]
                elif e["phase"] == "pre":
                    ohist[e["key"]][e["it"]] = e["val"]
                    rec_now[e["key"]] = e["val"]
            elif k == "REEVAL":
                g["ohist_at_reeval"] = {kk: dict(vv) for kk, vv in ohist.items()}
        # REEVAL events mark the end of a re-evaluation; HIST(reeval) precede them: collect them now
        re_idx = [i for i, (k, e) in enumerate(g["ev"]) if k == "REEVAL"]
        if srch is not None:
            if calls_s:
                c = calls_s[0]
                if not _finite(srch["f_mu"], srch["f_sd"], c["ret"][0]):
                    return None
                it["search"] = {"u": enc_pt(c["u"]), "y": enc(c["ret"][0]), "f": enc(srch["f_mu"]), "sd": enc(srch["f_sd"])}
            else:
                it["search"] = None
        if poll is not None:
            eis = [x for x in poll["ei"] if x["phase"] == "poll"]
            cs = []
            for c, x in zip(calls_p, eis):
                if not _finite(x["f_new"], x["s_new"], c["ret"][0]):
                    return None
                cs.append({"u": enc_pt(c["u"]), "y": enc(c["ret"][0]), "f": enc(x["f_new"]), "sd": enc(x["s_new"])})
            it["poll"] = cs
        if re_idx and not last or (re_idx and last and poll is not None and g["start"]["it"] > 0 and unc > 0 and _reeval_in_loop(g["ev"], re_idx[0])):
            vals = _reeval_vals(g["ev"], re_idx[0])
            if vals is None:
                return None
            it["reVals"] = vals
        iters.append(it)
        if "u" in rec_now:
            recorded.append({"it": g["start"]["it"], **rec_now})
        nxt = groups[gi + 1]["start"] if not last else None
        obs.append(nxt)
    # final block
    final = None
    if t["error"] is None:
        lastg = groups[-1]
        re_idx = [i for i, (k, e) in enumerate(lastg["ev"]) if k == "REEVAL"]
        tail = [e for k, e in lastg["ev"] if k == "CALL" and e["phase"] == "pre" and not e["rec"]]
        final = {"samples": [enc(e["ret"][0]) for e in tail], "_tail": tail}
        if unc > 0 and t["final"]["iter"] > 0 and re_idx:
            vals = _reeval_vals(lastg["ev"], re_idx[-1])
            if vals is None:
                return None
            from scipy.special import erfcinv
            import numpy as np
            sm = np.sqrt(2) * erfcinv(2 * t["hdr"]["opts"]["final_quantile"])
            n = t["final"]["iter"] + 1
            oh = lastg.get("ohist_at_reeval", ohist)
            try:
                fv = np.array([oh["fval"][i] for i in range(n)], dtype=float)
                fs = np.array([oh["fsd"][i] for i in range(n)], dtype=float)
            except (KeyError, TypeError):
                return None
            q = fv + sm * fs
            if not np.all(np.isfinite(q)):
                return None
            final["select"] = {"reVals": vals, "qs": [enc(v) for v in q]}
    return {"init": init, "iters": iters, "obs": obs, "final": final, "recorded": recorded, "ohist": ohist, "tolFun": enc(s0["tol_fun"])}


def _reeval_in_loop(evs, idx):
    # a REEVAL inside the loop body is followed by the vector-valued improvement computation
    return any(k == "EI" and e["vec"] for k, e in evs[idx:])


def _reeval_vals(evs, idx):
    """(fval, fsd) per history index written by the re-evaluation that ended at evs[idx]."""
    fv, fs = {}, {}
    j = idx - 1
    while j >= 0 and evs[j][0] in ("HIST", "NEIGH", "LOCALFIT", "FIT", "ACQ", "GPADD"):
        k, e = evs[j]
        if k == "HIST" and e["phase"] == "reeval":
            (fv if e["key"] == "fval" else fs)[e["it"]] = e["val"]
        elif k == "HIST":
            break
        j -= 1
    if not fv:
        return []
    n = max(fv) + 1
    out = []
    for i in range(n):
        if i not in fv or i not in fs or not _finite(fv[i], fs[i]):
            return None
        out.append([enc(fv[i]), enc(fs[i])])
    return out


def noisy_replay(ctx, rep, pid):
    traces = get_pool(ctx)
    items = []
    skipped = 0
    for t in traces:
        if not t["constructed"] or not any(k == "ITER" for k, _ in t["events"]):
            continue
        x = noisy_extract(t)
        if x is None:
            skipped += 1
            continue
        items.append((t, x))
    reqs = []
    for t, x in items:
        r = {"cmd": "noisy.run", "tolFun": x["tolFun"], "init": x["init"], "iters": x["iters"]}
        if x["final"] is not None:
            r["final"] = {k: v for k, v in x["final"].items() if not k.startswith("_")}
        reqs.append(r)
    res = ctx.driver.call_many(reqs)
    stats = {"runs": 0, "iterations": 0, "moves": 0, "swaps": 0, "reevals": 0, "final_selects": 0, "skipped_nonfinite": skipped,
             "by_mode": {}, "nfs": {}}
    samples = []
    for (t, x), r in zip(items, res):
        sp = t["spec"]
        tag = spec_tag(sp)
        case = {"kind": "noisy_run", "spec": sp}
        stats["runs"] += 1
        stats["by_mode"][sp["mode"]] = stats["by_mode"].get(sp["mode"], 0) + 1
        ok = True
        prev_u = x["init"]["u"]
        # the incumbent model transcribes the DEFAULT update policy; runs with options['stobads'] are checked against the property's own
        # predicates only (what is recorded must have been observed), not against the model
        default_policy = not t["hdr"]["opts"].get("stobads")
        for k, (st, ob, it) in enumerate(zip(r["states"], x["obs"], x["iters"]) if default_policy else []):
            stats["iterations"] += 1
            stats["reevals"] += "reVals" in it
            if st["u"] != prev_u:
                stats["moves"] += 1
            prev_u = st["u"]
            if ob is None:
                continue
            mod = (st["u"], st["uBest"], st["yval"], st["fval"], st["fsd"])
            obv = (enc_pt(ob["u"]), enc_pt(ob["u_best"]), enc(ob["yval"]), enc(ob["fval"]), enc(ob["fsd"]))
            if mod != obv:
                rep.disagree("Noisy.iterStep ~ optimize loop incumbent/history bookkeeping",
                             f"iteration {k}: model (u,u_best,yval,fval,fsd)={mod} observed {obv}; {tag}", dict(case, iter_hint=it.get("it", k), calls_hint=_calls_until_group(t, k)))
                ok = False
                break
        if ok and default_policy and t["error"] is None and r["final"] is not None:
            f = r["final"]
            stats["final_selects"] += x["final"].get("select") is not None
            fin = t["final"]
            if f["state"]["u"] != enc_pt(fin["u"]):
                rep.disagree("Noisy.finalChoice ~ final selection", f"model returns u={f['state']['u']} run u={fin['u']}; {tag}", case)
            elif x["final"]["samples"]:
                import numpy as np
                yv = [float(v) for v in np.asarray(fin["yval_vec"], dtype=float).reshape(-1)] if fin["yval_vec"] is not None else []
                if [enc(v) for v in yv] != f["yvec"]:
                    rep.disagree("Noisy.yvalVec ~ yval_vec", f"model {f['yvec']} run {yv}; {tag}", case)
                else:
                    from fractions import Fraction
                    m = float(Fraction(f["mean"]))
                    n = len(yv)
                    sem = (float(Fraction(f["sqdev"])) ** 0.5) / n
                    if not (abs(m - fin["fval"]) <= 1e-12 * max(1, abs(m))) or not (abs(sem - fin["fsd"]) <= 1e-12 * max(1, abs(sem))):
                        rep.disagree("Noisy.meanOf/sqDev ~ final fval/fsd", f"model mean={m} sem={sem} run fval={fin['fval']} fsd={fin['fsd']}; {tag}", case)
        nfs = t["final"].get("nfs")
        stats["nfs"][str(nfs)] = stats["nfs"].get(str(nfs), 0) + 1
        if pid == "C05":
            _c05_predicates(rep, t, x, case, tag)
        elif pid == "C19":
            _c19_predicates(rep, t, x, case, tag)
        if len(samples) < 2 and sp["mode"] != "det":
            samples.append({"spec": sp, "init": x["init"], "iters": x["iters"][:2], "final": {k: v for k, v in (x["final"] or {}).items() if not k.startswith("_")}})
    return stats, samples


def _calls(t):
    return [e for k, e in t["events"] if k == "CALL" and "exc" not in e]


def _c05_predicates(rep, t, x, case, tag):
    import numpy as np
    sp = t["spec"]
    if t["error"] is not None:
        return
    fin, res = t["final"], t["result"]
    calls = _calls(t)
    noisy = fin["unc"] > 0
    # noise detection rule
    c0 = calls[0]
    if sp["mode"] in ("det", "auto") and len(calls) > 1 and calls[1]["phase"] == "init" and not calls[1]["rec"]:
        y1, y2 = calls[0]["ret"][0], calls[1]["ret"][0]
        want = abs(y1 - y2) > t["hdr"]["opts"]["tol_noise"]
        if want != noisy:
            rep.violation("noise_detection", "bads.py:_init_mesh_", f"|y1-y2|={abs(y1 - y2)} tol_noise={t['hdr']['opts']['tol_noise']} but target treated as {'stochastic' if noisy else 'deterministic'}; {tag}", case)
    elif sp["mode"] in ("det", "auto") and t["hdr"].get("unc0", 0) < 1 and int(t["hdr"]["opts"]["max_fun_evals"]) > 1:
        # a target not DECLARED noisy is evaluated twice at the starting point (the second time unrecorded), whatever spelling the
        # uncertainty_handling option was left / set to False with
        rep.violation("noise_detection", "bads.py:_init_mesh_", "the target is not declared noisy but the second evaluation at the starting point (the noise test) was not made; "
                      f"target treated as {'stochastic' if noisy else 'deterministic'}; {tag}", case)
    if not noisy:
        return
    if "stochastic" not in str(res["target_type"]):
        rep.violation("target_type", "optimize_result.py", f"target_type={res['target_type']} for a stochastic target; {tag}", case)
    nfs = int(fin["nfs"])
    # what the USER configured decides (an explicit noise_final_samples - 0 included - must not be replaced by the default): the number of final
    # samples the run worked with is the configured one, capped by the remaining budget
    u_nfs = sp.get("options", {}).get("noise_final_samples")
    if u_nfs is not None and nfs > max(0, int(u_nfs)):
        rep.violation("final_samples_as_configured", "bads.py:final re-sampling", f"the run re-samples the returned point {nfs} times but the user set noise_final_samples={u_nfs}; {tag}", case)
        return
    tail = x["final"]["_tail"] if x["final"] else []
    xres = res["x"] if isinstance(res["x"], list) else [res["x"]]
    body = calls[: len(calls) - len(tail)]
    if not any(c["x"] == xres for c in body):
        rep.violation("x_evaluated_earlier", "bads.py:final selection", f"returned x was not evaluated earlier in the run; {tag}", case)
    if nfs > 0:
        if len(tail) != nfs or any(c["x"] != xres or c["rec"] for c in tail):
            rep.violation("final_calls_at_x", "bads.py:final re-sampling", f"the last {nfs} target calls are not unrecorded calls at the returned x ({len(tail)} trailing unrecorded calls); {tag}", case)
            return
        yv = list(np.asarray(fin["yval_vec"], dtype=float).reshape(-1)) if fin["yval_vec"] is not None else None
        fresh = [(c["tret"][0] if c.get("tret") else c["ret"][0]) for c in tail]         # the values as the target itself returned them
        if yv is None or yv[: len(fresh)] != fresh:
            rep.violation("yval_vec", "bads.py:final re-sampling", f"yval_vec {yv} does not consist of the fresh observations {fresh}; {tag}", case)
            return
        if nfs == 1:
            earlier = [c["ret"][0] for c in body if c["x"] == xres]
            if len(yv) != 2 or yv[1] not in earlier:
                rep.violation("yval_vec_supplement", "bads.py:final re-sampling", f"single final sample not supplemented by an earlier observation at x: yval_vec={yv}, earlier={earlier[:4]}; {tag}", case)
                return
        elif len(yv) != nfs:
            rep.violation("yval_vec", "bads.py:final re-sampling", f"yval_vec has {len(yv)} entries for noise_final_samples={nfs}; {tag}", case)
            return
        m = float(np.mean(yv)); sem = float(np.std(yv) / np.sqrt(len(yv)))
        if not (abs(res["fval"] - m) <= 1e-12 * max(1, abs(m))) or not (abs(res["fsd"] - sem) <= 1e-12 * max(1, abs(sem))):
            rep.violation("fval_mean_fsd_sem", "bads.py:final re-sampling", f"fval={res['fval']} fsd={res['fsd']} but mean/SEM of yval_vec = {m}/{sem}; {tag}", case)
        if sp["mode"] == "he":
            ysd = list(np.asarray(fin["ysd_vec"], dtype=float).reshape(-1)) if fin["ysd_vec"] is not None else None
            rsd = [(c["tret"][1] if c.get("tret") else c["ret"][1]) for c in tail]      # the SDs as the target itself reported them
            if ysd is None or ysd[: len(rsd)] != rsd:
                rep.violation("ysd_vec", "bads.py:final re-sampling", f"ysd_vec {ysd} does not hold the SDs the target reported {rsd}; {tag}", case)
            elif nfs == 1:
                lg = t["log"]
                rows = [i for i, Xo in enumerate(lg["X_orig"]) if Xo == xres]
                sds_at_x = [lg["S"][i] for i in rows]
                if len(ysd) != 2 or ysd[1] not in sds_at_x:
                    rep.violation("ysd_vec_supplement", "bads.py:final re-sampling (nfs=1, specified noise)",
                                  f"second entry of ysd_vec ({ysd[1] if len(ysd) > 1 else None}) is not the SD logged for the returned point ({sds_at_x}); {tag}", case)
    else:
        if res["yval_vec"] is not None:
            rep.violation("yval_vec", "optimize_result.py", f"yval_vec present although noise_final_samples=0; {tag}", case)


def _c19_predicates(rep, t, x, case, tag):
    import numpy as np
    sp = t["spec"]
    calls = _calls(t)
    he = sp["mode"] == "he"
    by_x = {}
    for c in calls:
        by_x.setdefault(tuple(c["x"]), []).append(c)
    raw = t["final"]["xs"]
    # raw target observations per x (for specified noise the logged value is a precision-weighted mean)
    hx = [(e["it"], e["val"]) for k, e in t["events"] if k == "HIST" and e["key"] == "x" and e["phase"] == "pre"]
    hy = {e["it"]: e["val"] for k, e in t["events"] if k == "HIST" and e["key"] == "yval" and e["phase"] == "pre"}
    hfc = [(e["it"], e["val"]) for k, e in t["events"] if k == "HIST" and e["key"] == "func_count"]
    for it, xv in hx:
        xv = xv if isinstance(xv, list) else [xv]
        cs = by_x.get(tuple(xv))
        if not cs:
            rep.violation("hist_x_evaluated", "bads.py:iteration history", f"iteration {it}: recorded x was never evaluated; {tag}", case)
            return
        yv = hy.get(it)
        vals = [c["ret"][0] for c in cs]
        if yv is None:
            continue
        if he:
            # the observations as the TARGET returned them (the wrapper's own record; the logger's return value is the merged estimate
            # that this clause is about)
            raws = [(c["tret"][0] if c.get("tret") else c["ret"][0]) for c in cs]
            lo, hi = min(raws), max(raws)
            if not (lo - 1e-12 * max(1, abs(lo)) <= yv <= hi + 1e-12 * max(1, abs(hi))):
                rep.violation("hist_yval_observed", "bads.py:noisy incumbent bookkeeping", f"iteration {it}: recorded yval={yv} is outside the range of the observations at the recorded x {sorted(set(vals))[:4]}; {tag}", case)
                return
        elif yv not in vals:
            rep.violation("hist_yval_observed", "bads.py:noisy incumbent bookkeeping", f"iteration {it}: recorded yval={yv} was never observed at the recorded x (observed there: {sorted(set(vals))[:4]}); {tag}", case)
            return
    fcs = [v for _, v in sorted(hfc, key=lambda p: p[0])]
    if any(b < a for a, b in zip(fcs, fcs[1:])):
        rep.violation("hist_fc_monotone", "bads.py:iteration history", f"recorded func_count decreases: {fcs}; {tag}", case)
    if t["error"] is None:
        res = t["result"]
        if fcs and fcs[-1] > res["func_count"]:
            rep.violation("hist_fc_le_final", "bads.py:iteration history", f"recorded func_count {fcs[-1]} exceeds the final count {res['func_count']}; {tag}", case)
        xres = res["x"] if isinstance(res["x"], list) else [res["x"]]
        its = [xv if isinstance(xv, list) else [xv] for _, xv in hx]
        if its and xres not in its:
            rep.violation("result_x_is_iterate", "bads.py:final selection", f"returned x is not one of the recorded iterates; {tag}", case)
        if t["final"]["unc"] == 0 and its:
            last_it = max(i for i, _ in hx)
            xl = [xv for i, xv in hx if i == last_it][-1]
            xl = xl if isinstance(xl, list) else [xl]
            if xl != xres or hy.get(last_it) != res["fval"]:
                rep.violation("det_result_is_last_iterate", "bads.py:optimize result", f"deterministic run: returned (x, fval) differs from the last recorded iterate; {tag}", case)
        # result fields vs problem and final state
        fin = t["final"]
        exp_keys = ["algorithm", "fsd", "fun", "func_count", "fval", "iterations", "mesh_size", "message", "non_box_cons", "overhead", "problem_type",
                    "random_seed", "status", "success", "target_type", "total_time", "version", "x", "x0", "yval_vec", "ysd_vec"]
        got = res["keys"]
        if not set(got) <= set(exp_keys):
            rep.violation("result_keys", "optimize_result.py", f"unexpected result fields {sorted(set(got) - set(exp_keys))}; {tag}", case)
        x0 = res["x0"] if isinstance(res["x0"], list) else [res["x0"]]
        if x0 != t["hdr"]["x0"] or res["random_seed"] != sp["seed"] or res["func_count"] != fin["target_calls"] or res["mesh_size"] != fin["mesh_size"]:
            rep.violation("result_fields", "optimize_result.py", f"x0/random_seed/func_count/mesh_size disagree with the problem and the final state; {tag}", case)
        want_tt = "deterministic" if fin["unc"] == 0 else ("stochastic (specified noise)" if sp["mode"] == "he" else "stochastic")
        if res["target_type"] != want_tt:
            rep.violation("result_target_type", "optimize_result.py", f"target_type={res['target_type']!r} but the run treated the target as {want_tt!r} (final uncertainty level {fin['unc']}); {tag}", case)
        want_pt = "non-box constraints" if sp["cons"] else ("unconstrained" if sp["geom"] == "unbounded" else "bound constraints")
        if res["problem_type"] != want_pt:
            rep.violation("result_fields", "optimize_result.py", f"problem_type={res['problem_type']} expected {want_pt}; {tag}", case)


# ------------------------------------------------------------------------------------------------
# deterministic runs replayed through the COMPOSED model Det.step (DetRun.lean)

def _base_two(t):
    """the composed models (Det / Full / Opt) snap candidates to a DYADIC mesh exactly (Rat arithmetic): only runs whose poll-mesh base is 2 are
    replayed through them; other bases are covered by the controller model alone (exponents)"""
    try:
        return float(t["hdr"]["opts"].get("poll_mesh_multiplier", 2.0) or 2.0) == 2.0
    except (TypeError, ValueError, KeyError):
        return False


def det_extract(t):
    """Oracle stream and initial state of one deterministic traced run for `det.replay` (None if not applicable)."""
    x = ctl_extract(t) if _base_two(t) else None
    if x is None or x.get("nan_zs"):
        return None
    ev = t["events"]
    ftab, init_log, iters, cur = {}, [], [], None
    for k, e in ev:
        if k == "CALL" and "exc" not in e:
            ftab[tuple(enc_pt(e["u"]))] = enc(e["ret"][0])
            if e["rec"]:
                if cur is None:
                    init_log.append({"u": enc_pt(e["u"]), "y": enc(e["ret"][0])})
                elif e["phase"] == "search":
                    cur["searchPick"] = enc_pt(e["u"])
                    cur["evals"].append(enc_pt(e["u"]))
                elif e["phase"] == "poll":
                    cur["pollPicks"].append(enc_pt(e["u"]))
                    cur["evals"].append(enc_pt(e["u"]))
                else:
                    cur["odd"] = f"recorded call #{e['k']} in phase {e['phase']} inside the loop"
            elif cur is not None:
                cur["odd"] = f"unrecorded call #{e['k']} inside the loop of a deterministic run"
        elif k == "ITER":
            cur = {"h": enc(e["sms"]), "searchU": [], "searchPick": None, "pollU": [], "pollPicks": [], "evals": [], "thr_s": None, "start": e}
            iters.append(cur)
        elif cur is not None:
            if k == "FILT" and e["site"] in ("search", "poll"):
                if "U" not in e:
                    cur["odd"] = "candidate set too large to be recorded"
                elif e["site"] == "search":
                    cur["searchU"] = enc_pts(e["U"])
                else:
                    if cur["pollU"]:
                        cur["odd"] = "two poll candidate sets in one iteration"
                    cur["pollU"] = enc_pts(e["U"])
            elif k == "SRCH":
                cur["thr_s"] = enc(e["thr"])
    iters = iters[: x["iters"]]
    orcs = []
    for it, o in zip(iters, x["outs"]):
        if it.get("odd"):
            return {"skip": it["odd"]}
        thr = o["thr"] if o["zs"] or it["thr_s"] is None else it["thr_s"]
        if it["thr_s"] is not None and o["zs"] and it["thr_s"] != o["thr"]:
            return {"skip": "search and poll thresholds differ within an iteration"}
        orcs.append({"h": it["h"], "searchU": it["searchU"], "searchPick": it["searchPick"], "pollU": it["pollU"], "pollPicks": it["pollPicks"],
                     "thr": thr, "stallMesh": o["stallMesh"], "stallStop": o["stallStop"]})
    s0 = iters[0]["start"]
    hdr = t["hdr"]
    req = {"cmd": "det.replay",
           "env": {"lb": [enc(v) for v in hdr["lb"]], "ub": [enc(v) for v in hdr["ub"]], "origLo": [enc(v) for v in hdr["orig_lb"]],
                   "origHi": [enc(v) for v in hdr["orig_ub"]], "tol": enc(hdr["tol_mesh"])},
           "opts": x["opts"], "f": [{"u": list(p), "y": y} for p, y in ftab.items()],
           "init": {"log": init_log, "inc": {"u": enc_pt(s0["u"]), "fval": enc(s0["fval"])}, "fc": x["init"]["fc"], "nRec": x["init"]["nRec"], "msi": x["init"]["msi"]},
           "orcs": orcs}
    if t["spec"]["cons"]:
        _u0, _steps, _calls, cons_tbl, _problems = pipe_extract(t)
        req["cons"] = [{"p": list(p), "v": v} for p, v in cons_tbl.items()]
    return {"req": req, "iters": iters, "x": x}


def det_replay(ctx, rep):
    """Every deterministic traced run through Det.step: evaluated points, derived improvements, incumbent and counters per iteration."""
    traces = [t for t in get_pool(ctx) if t["constructed"] and t["hdr"] is not None and t["spec"]["mode"] == "det" and t.get("final")
              and t["final"].get("unc") == 0 and not t.get("ei_script") and not t.get("es_script") and not t.get("add_faults")]
    items, skipped = [], {}
    for t in traces:
        d = det_extract(t)
        if d is None:
            skipped["no loop / non-dyadic tol_mesh"] = skipped.get("no loop / non-dyadic tol_mesh", 0) + 1
        elif "skip" in d:
            skipped[d["skip"]] = skipped.get(d["skip"], 0) + 1
        else:
            items.append((t, d))
    res = ctx.driver.call_many([d["req"] for _, d in items])
    stats = {"runs": 0, "iterations": 0, "evaluations": 0, "improvements_compared": 0, "constrained_runs": 0, "skipped": skipped}
    for (t, d), r in zip(items, res):
        sp = t["spec"]
        tag = spec_tag(sp)
        case = {"kind": "det_run", "spec": sp}
        stats["runs"] += 1
        stats["constrained_runs"] += bool(sp["cons"])
        x, iters = d["x"], d["iters"]
        states = r["states"]
        completed = t["error"] is None
        for k, (st, it, o) in enumerate(zip(states, iters, x["outs"])):
            stats["iterations"] += 1
            c = st["ctl"]
            if not st["searchFound"] or not st["pollFound"]:
                rep.disagree("Det.step ~ evaluated points are rows of the filtered candidate sets", f"iteration {k}: an evaluated {'search' if not st['searchFound'] else 'poll'} point is not in the model's filtered set; {tag}", case)
                break
            if it["searchPick"] is None and st["searchWouldEvaluate"] and it["thr_s"] is not None:
                rep.disagree("Det.step ~ search evaluates a surviving candidate", f"iteration {k}: the search step evaluated nothing although a candidate survived the filter; {tag}", case)
                break
            if st["newEvals"] != it["evals"]:
                rep.disagree("Det.step ~ sequence of evaluated points", f"iteration {k}: model evaluates {len(st['newEvals'])} points, run {len(it['evals'])}; {tag}", case)
                break
            stats["evaluations"] += len(it["evals"])
            if o["zs"]:
                stats["improvements_compared"] += len(o["zs"])
                if st["zs"] != o["zs"]:
                    rep.disagree("Det.outOf ~ _eval_improvement_ (deterministic: fval - y)", f"iteration {k}: derived poll improvements {st['zs'][:4]} observed {o['zs'][:4]}; {tag}",
                                 dict(case, iter_hint=int(it["start"]["it"]) + 1, calls_hint=int(it["start"]["fc"]) + len(it["evals"])))
                    break
            last = k == len(iters) - 1
            if not last:
                nxt = iters[k + 1]["start"]
                mod = (c["fc"], c["nRec"], c["sc"], c["ss"], c["msi"], c["pollIter"], c["finished"], st["incU"], st["incF"])
                obsv = (nxt["fc"], nxt["nrec"], nxt["sc"], nxt["ss"], nxt["msi"], nxt["it"], False, enc_pt(nxt["u"]), enc(nxt["fval"]))
                if mod != obsv:
                    rep.disagree("Det.step ~ optimize loop (deterministic run)", f"iteration {k}: model (fc,nRec,sc,ss,msi,iter,finished,u,fval)={mod} observed {obsv}; {tag}",
                                 dict(case, iter_hint=int(it["start"]["it"]) + 1, calls_hint=int(it["start"]["fc"]) + len(it["evals"])))
                    break
            elif completed:
                f = t["final"]
                mod = (c["fc"], c["msi"], c["finished"], st["incU"], st["incF"])
                obsv = (t["log"]["func_count"] - len(x["tail_calls"]), f["msi"], True, enc_pt(f["u"]), enc(t["result"]["fval"]))
                if mod != obsv:
                    rep.disagree("Det.step ~ optimize loop (exit, deterministic run)", f"last iteration {k}: model (fc,msi,finished,u,fval)={mod} observed {obsv}; {tag}", case)
                    break
    return stats


# ------------------------------------------------------------------------------------------------
# runs in ANY noise mode replayed through the composed model Full.step (FullRun.lean)

def full_extract(t):
    x = ctl_extract(t) if _base_two(t) else None
    nx = noisy_extract(t) if x is not None else None
    if x is None or nx is None or x.get("nan_zs"):
        return None
    ev = t["events"]
    init_pairs, iters, cur = [], [], None
    for k, e in ev:
        if k == "CALL" and "exc" not in e:
            if cur is None:
                init_pairs.append({"u": enc_pt(e["u"]), "y": enc(e["ret"][0])})
            elif e["rec"] and e["phase"] in ("search", "poll"):
                cur["calls"].append((e["phase"], enc_pt(e["u"]), e["Xn"] != e["Xn_before"]))
            elif e["rec"]:
                cur["odd"] = f"recorded call #{e['k']} in phase {e['phase']} inside the loop"
        elif k == "ITER":
            cur = {"h": enc(e["sms"]), "searchU": [], "pollU": [], "calls": [], "thr_s": None, "start": e}
            iters.append(cur)
        elif cur is not None:
            if k == "FILT" and e["site"] in ("search", "poll"):
                if "U" not in e:
                    cur["odd"] = "candidate set too large to be recorded"
                elif e["site"] == "search":
                    cur["searchU"] = enc_pts(e["U"])
                else:
                    if cur["pollU"]:
                        cur["odd"] = "two poll candidate sets in one iteration"
                    cur["pollU"] = enc_pts(e["U"])
            elif k == "SRCH":
                cur["thr_s"] = enc(e["thr"])
    n = min(x["iters"], len(nx["iters"]))
    iters = iters[:n]
    orcs = []
    for it, o, ni in zip(iters, x["outs"], nx["iters"]):
        if it.get("odd"):
            return {"skip": it["odd"]}
        sc = [c for c in it["calls"] if c[0] == "search"]
        pc = [c for c in it["calls"] if c[0] == "poll"]
        q = {"h": it["h"], "searchU": it["searchU"], "pollU": it["pollU"], "searchPick": None, "searchVal": None,
             "pollPicks": [c[1] for c in pc], "pollVals": [], "stallMesh": o["stallMesh"], "stallStop": o["stallStop"]}
        if sc:
            sv = ni.get("search")
            if sv is None or sv["u"] != sc[0][1]:
                return {"skip": "search evaluation without recorded estimates"}
            q["searchPick"] = sc[0][1]
            q["searchVal"] = {"y": sv["y"], "f": sv["f"], "sd": sv["sd"], "newRow": sc[0][2]}
        pvals = ni.get("poll") or []
        if len(pvals) != len(pc) or any(v["u"] != c[1] for v, c in zip(pvals, pc)):
            return {"skip": "poll evaluations without recorded estimates"}
        q["pollVals"] = [{"y": v["y"], "f": v["f"], "sd": v["sd"], "newRow": c[2]} for v, c in zip(pvals, pc)]
        if it["thr_s"] is not None and o["zs"] and it["thr_s"] != o["thr"]:
            return {"skip": "search and poll thresholds differ within an iteration"}
        q["thr"] = o["thr"] if o["zs"] or it["thr_s"] is None else it["thr_s"]
        if "reVals" in ni:
            q["reVals"] = ni["reVals"]
        orcs.append(q)
    s0 = iters[0]["start"]
    hdr = t["hdr"]
    req = {"cmd": "full.replay",
           "env": {"lb": [enc(v) for v in hdr["lb"]], "ub": [enc(v) for v in hdr["ub"]], "origLo": [enc(v) for v in hdr["orig_lb"]],
                   "origHi": [enc(v) for v in hdr["orig_ub"]], "tol": enc(hdr["tol_mesh"])},
           "opts": x["opts"], "tolFun": nx["tolFun"],
           "init": {"pairs": init_pairs, "ns": nx["init"], "fc": x["init"]["fc"], "nRec": x["init"]["nRec"], "msi": x["init"]["msi"]},
           "orcs": orcs}
    if t["spec"]["cons"]:
        _u0, _steps, _calls, cons_tbl, _problems = pipe_extract(t)
        req["cons"] = [{"p": list(p), "v": v} for p, v in cons_tbl.items()]
    return {"req": req, "iters": iters, "x": x, "nx": nx}


def _compare_full_states(rep, d, states, stats, tag, case, t=None):
    """Per-iteration comparison of a run replayed through Full.step (shared by full.replay and whole.replay). False at the first disagreement."""
    x, iters = d["x"], d["iters"]
    for k, (st, it, o) in enumerate(zip(states, iters, x["outs"])):
        stats["iterations"] += 1
        c, ns = st["ctl"], st["ns"]
        if not st["searchFound"] or not st["pollFound"]:
            rep.disagree("Full.step ~ evaluated points are rows of the filtered candidate sets", f"iteration {k}: an evaluated {'search' if not st['searchFound'] else 'poll'} point is not in the model's filtered set; {tag}", case)
            return False
        obs_evals = [c_[1] for c_ in it["calls"]]
        if st["newEvals"] != obs_evals:
            rep.disagree("Full.step ~ sequence of evaluated points", f"iteration {k}: model evaluates {len(st['newEvals'])} points, run {len(obs_evals)}; {tag}", case)
            return False
        stats["evaluations"] += len(obs_evals)
        if o["zs"]:
            stats["improvements_compared"] += len(o["zs"])
            if st["zs"] != o["zs"]:
                rep.disagree("Full.outOf ~ _eval_improvement_ (q = 0.5: difference of the estimates)", f"iteration {k}: derived poll improvements {st['zs'][:4]} observed {o['zs'][:4]}; {tag}", case)
                return False
        if st["it"] != it["start"]["it"]:
            rep.disagree("Full.iterOf ~ recording index", f"iteration {k}: model records at index {st['it']}, run's poll_iteration is {it['start']['it']}; {tag}", case)
            return False
        if k < len(iters) - 1:
            nxt = iters[k + 1]["start"]
            mod = (c["fc"], c["nRec"], c["sc"], c["ss"], c["msi"], c["pollIter"], c["finished"], ns["u"], ns["yval"], ns["fval"], ns["fsd"])
            obsv = (nxt["fc"], nxt["nrec"], nxt["sc"], nxt["ss"], nxt["msi"], nxt["it"], False, enc_pt(nxt["u"]), enc(nxt["yval"]), enc(nxt["fval"]), enc(nxt["fsd"]))
            if mod != obsv:
                rep.disagree("Full.step ~ optimize loop", f"iteration {k}: model (fc,nRec,sc,ss,msi,iter,finished,u,yval,fval,fsd)={mod} observed {obsv}; {tag}", case)
                return False
            # the search-mesh exponent the next pass starts with and the search spree (the mesh state the whole-call theorems of C13 speak of)
            if "ssiNextStart" in c and "ssi" in nxt and (c["ssiNextStart"], c.get("spree")) != (nxt["ssi"], nxt.get("spree", c.get("spree"))):
                rep.disagree("Full.step ~ optimize loop (search mesh)", f"iteration {k}: model (ssi at next loop start, spree)={(c['ssiNextStart'], c.get('spree'))} "
                             f"observed {(nxt['ssi'], nxt.get('spree'))}; {tag}", case)
                return False
        elif t is not None and t.get("error") is None and t.get("final") and "msg" in c:
            # loop exit: mesh exponent, finished flag and the KIND of the termination message, all derived by the composed model
            f = t["final"]
            mod = (c["msi"], c["finished"], c["msg"])
            obsv = (f["msi"], True, msg_kind(f["msg"]))
            stats["exits_compared"] = stats.get("exits_compared", 0) + 1
            if mod != obsv:
                rep.disagree("Full.step ~ optimize loop (exit)", f"last iteration {k}: model (msi,finished,msg)={mod} observed {obsv}; {tag}", case)
                return False
    return True


def full_replay(ctx, rep, modes=("det", "auto", "decl", "he")):
    """Every traced run (all noise modes) through Full.step: evaluated points, derived improvements, incumbent estimate, recording index,
    counters and mesh per iteration."""
    traces = [t for t in get_pool(ctx) if t["constructed"] and t["hdr"] is not None and t.get("final") and t["spec"]["mode"] in modes
              and not t.get("ei_script") and not t.get("es_script") and not t.get("gp_faults") and not t.get("predict_faults") and not t.get("fault")
              and not t["hdr"]["opts"].get("stobads")]
    items, skipped = [], {}
    for t in traces:
        d = full_extract(t)
        if d is None:
            skipped["no loop / non-finite estimates / non-dyadic tol_mesh"] = skipped.get("no loop / non-finite estimates / non-dyadic tol_mesh", 0) + 1
        elif "skip" in d:
            skipped[d["skip"]] = skipped.get(d["skip"], 0) + 1
        else:
            items.append((t, d))
    res = ctx.driver.call_many([d["req"] for _, d in items])
    stats = {"runs": 0, "iterations": 0, "evaluations": 0, "improvements_compared": 0, "by_mode": {}, "skipped": skipped}
    for (t, d), r in zip(items, res):
        sp = t["spec"]
        tag = spec_tag(sp)
        case = {"kind": "full_run", "spec": sp}
        stats["runs"] += 1
        stats["by_mode"][sp["mode"]] = stats["by_mode"].get(sp["mode"], 0) + 1
        _compare_full_states(rep, d, r["states"], stats, tag, case, t)
    return stats


# ------------------------------------------------------------------------------------------------
# ONE WHOLE CALL of optimize(): Opt.init + Full.step + Opt.finish (Optimize.lean)

def whole_extract(t):
    """Request for `whole.replay`: on top of full_extract, the inputs of the initial phase (start point, returned values, snapped design)
    and of the final phase (re-estimates, quantile values, fresh samples).  What the model then DERIVES and the harness compares: the
    calls of the initial phase, the uncertainty level, the number of final samples, the loop budget, the doubled stall limit, the first
    incumbent, the counters at loop entry, and the complete call sequence and yval_vec of the run."""
    d = full_extract(t)
    if d is None or "skip" in d:
        return d
    hdr, ev = t["hdr"], t["events"]
    pre = []
    for k, e in ev:
        if k == "ITER":
            break
        if k == "CALL":
            if "exc" in e:
                return {"skip": "target fault in the initial phase"}
            pre.append(e)
    unc0 = hdr.get("unc0")
    if unc0 is None or not pre:
        return {"skip": "no header"}
    design = None
    for k, e in ev:
        if k == "ITER":
            break
        if k == "FILT" and e["site"] in ("init", "pre"):
            if "U" not in e:
                return {"skip": "initial design too large to be recorded"}
            design = enc_pts(e["U"])
    n0 = 1 + (1 if unc0 < 1 else 0)
    if len(pre) < n0:
        return {"skip": "run ended inside the initial phase"}
    dcalls = pre[n0:]
    o = hdr["opts"]
    if any(o.get(k) is None for k in ("max_fun_evals", "tol_stall_iters", "noise_final_samples", "fun_eval_start", "tol_noise")):
        return {"skip": "options missing from the header"}
    req = dict(d["req"])
    req["cmd"] = "whole.replay"
    req.pop("init", None)
    opts = dict(req["opts"])
    opts["budget"] = max(0, int(o["max_fun_evals"]))            # the USER's budget; the model derives the loop's
    opts["stallIters"] = max(0, int(o["tol_stall_iters"]))      # as configured; the model doubles it for noisy targets
    req["opts"] = opts
    s0 = d["iters"][0]["start"]
    ns = d["nx"]["init"]
    req["whole"] = {"unc0": int(unc0), "tolNoise": enc(o["tol_noise"]), "funEvalStart": max(0, int(o["fun_eval_start"])),
                    "nfs": max(0, int(o["noise_final_samples"])), "noiseSize": enc(1.0 if o.get("noise_size") is None else o["noise_size"]),
                    "h0": enc(s0["sms"]), "msi0": d["x"]["init"]["msi"]}
    req["initOrc"] = {"u0": enc_pt(pre[0]["u"]), "y0": enc(pre[0]["ret"][0]), "y0bis": enc(pre[1]["ret"][0]) if unc0 < 1 else "0",
                      "design": design or [], "vals": [{"y": enc(c["ret"][0]), "newRow": c["Xn"] != c["Xn_before"]} for c in dcalls],
                      "sdAtMin": ns["fsd"]}
    fin = d["nx"].get("final") or {}
    sel = fin.get("select") or {}
    req["finalOrc"] = {"reVals": sel.get("reVals", []), "qs": sel.get("qs", []), "samples": fin.get("samples", [])}
    d = dict(d)
    d["req"] = req
    d["pre"] = pre
    return d


WHOLE_PLAIN_OPTIONS = {"n_search", "max_fun_evals", "noise_final_samples", "tol_mesh", "accelerate_mesh", "tol_stall_iters", "max_iter", "fun_eval_start", "tol_fun",
                       "tol_noise", "n_train_max", "n_train_min", "display", "search_n_try", "n_search_iter", "random_seed"}


def whole_replay(ctx, rep, modes=("det", "auto", "decl", "he"), plain_only=False, allow_fit_faults=False):
    """Every traced run through Opt.init / Full.step / Opt.finish: the initial phase and the final re-sampling are derived by the model.
    `plain_only`: leave out runs whose options switch on logic the whole-call model does not transcribe (pools that toggle every boolean option)."""
    traces = [t for t in get_pool(ctx) if (not plain_only or (set(t["spec"].get("options") or {}) <= WHOLE_PLAIN_OPTIONS and not t["spec"].get("np_options"))) and t["constructed"] and t["hdr"] is not None and t.get("final") and t["spec"]["mode"] in modes
              and not t.get("ei_script") and not t.get("es_script") and (allow_fit_faults or not t.get("gp_faults")) and not t.get("predict_faults") and not t.get("fault")
              and not t.get("update_faults") and not t["hdr"]["opts"].get("stobads") and t["error"] is None]
    items, skipped = [], {}
    for t in traces:
        d = whole_extract(t)
        if d is None:
            skipped["no loop / non-finite estimates / non-dyadic tol_mesh"] = skipped.get("no loop / non-finite estimates / non-dyadic tol_mesh", 0) + 1
        elif "skip" in d:
            skipped[d["skip"]] = skipped.get(d["skip"], 0) + 1
        else:
            items.append((t, d))
    res = ctx.driver.call_many([d["req"] for _, d in items])
    stats = {"runs": 0, "iterations": 0, "evaluations": 0, "improvements_compared": 0, "calls_compared": 0, "final_samples": 0, "by_mode": {}, "skipped": skipped,
             "noise_detected": 0, "design_points": 0}
    for (t, d), r in zip(items, res):
        sp = t["spec"]
        tag = spec_tag(sp)
        case = {"kind": "whole_run", "spec": sp}
        stats["runs"] += 1
        stats["by_mode"][sp["mode"]] = stats["by_mode"].get(sp["mode"], 0) + 1
        mi, x, nx = r["init"], d["x"], d["nx"]
        # ---- initial phase ----
        obs_calls = [{"u": enc_pt(e["u"]), "rec": bool(e["rec"])} for e in d["pre"]]
        if mi["calls"] != obs_calls:
            rep.disagree("Opt.init ~ calls of the initial phase (_init_mesh_)", f"model makes {len(mi['calls'])} calls (Sobol points drawn: {mi['sobolCount']} for a request of {mi['nDesign']}), "
                         f"the run {len(obs_calls)}; {tag}", case)
            continue
        stats["design_points"] += len(obs_calls)
        stats["noise_detected"] += int(t["hdr"]["unc0"] < 1 and mi["unc"] == 1)
        s0 = d["iters"][0]["start"]
        mod = (mi["unc"], mi["fc"], mi["nRec"], mi["budgetLoop"], mi["stallIters"], mi["ns"]["u"], mi["ns"]["yval"], mi["ns"]["fval"], mi["ns"]["fsd"])
        obsv = (int(s0["unc"]), x["init"]["fc"], x["init"]["nRec"], x["opts"]["budget"], x["opts"]["stallIters"], nx["init"]["u"], nx["init"]["yval"], nx["init"]["fval"], nx["init"]["fsd"])
        if mod != obsv:
            rep.disagree("Opt.init ~ state at loop entry (_init_mesh_, _init_optimization_)",
                         f"model (unc, func_count, rows, loop budget, stall limit, u, yval, fval, fsd)={mod} observed {obsv}; {tag}", case)
            continue
        # ---- loop ----
        if not _compare_full_states(rep, d, r["states"], stats, tag, case, t):
            continue
        if len(r["states"]) != len(d["iters"]):
            continue         # the model stopped earlier/later: reported by the controller correspondence
        # ---- whole run ----
        rr = r["result"]
        all_calls = [{"u": enc_pt(e["u"]), "rec": bool(e["rec"])} for k, e in t["events"] if k == "CALL" and "exc" not in e]
        stats["calls_compared"] += len(all_calls)
        if rr["calls"] != all_calls:
            n = next((i for i, (a, b) in enumerate(zip(rr["calls"], all_calls)) if a != b), min(len(rr["calls"]), len(all_calls)))
            rep.disagree("Opt.optimize ~ complete sequence of target calls", f"model makes {len(rr['calls'])} calls, the run {len(all_calls)} (first difference at call #{n}; "
                         f"final samples in the model: {mi['nfsEff']}); {tag}", case)
            continue
        stats["final_samples"] += mi["nfsEff"]
        if rr["funcCount"] != t["result"]["func_count"]:
            rep.disagree("Opt.finish ~ func_count", f"model {rr['funcCount']} result {t['result']['func_count']}; {tag}", case)
            continue
        if rr["u"] != enc_pt(t["final"]["u"]):
            rep.disagree("Opt.finish ~ returned point", f"model u={rr['u']} run u={t['final']['u']}; {tag}", case)
            continue
        if mi["nfsEff"] > 0:
            yv = t["result"].get("yval_vec")
            yv = yv if isinstance(yv, list) else [yv]
            yv = [v[0] if isinstance(v, list) else v for v in yv]
            if rr["yvec"] != [enc(v) for v in yv]:
                rep.disagree("Opt.finish ~ yval_vec", f"model {rr['yvec']} run {yv}; {tag}", case)
    return stats
