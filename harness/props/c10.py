"""C10 - target failures and invalid values surface immediately and unchanged.

Fault enumeration: for small-budget runs in each noise mode the target misbehaves at its k-th call (start point,
noise test, initial design, search steps, poll steps, final re-sampling) in each of the fault kinds the property
names.  The Lean model (Log.runCalls, theorems stops_at_first_fault / fc_counts_valid_only) says what to expect
at each k; compared: exception type, calls after the fault, func_count, no log row for call k."""
import random
from ..core import Report
from .. import gen, tracer
from . import runlevel

EXC_KINDS = ["raise", "raise_noargs", "raise_assert", "raise_keyerror", "raise_stopiteration", "raise_generatorexit"]
KINDS_ALL = EXC_KINDS + ["nan", "posinf", "neginf", "complex", "vector", "none", "wrapped_nan", "wrapped_inf", "wrapped_complex", "wrapped_nan_array"]
EXC_OF = {"raise": "InjectedFault", "raise_noargs": "InjectedFault", "raise_assert": "AssertionError", "raise_keyerror": "KeyError",
          "raise_stopiteration": "StopIteration", "raise_generatorexit": "RuntimeError"}
KINDS_HE = ["notpair", "sdzero", "sdneg", "sdnan", "sdinf"]
KINDS_SCALAR = ["pair", "pair_bad_sd"]          # only invalid when the noise is not user-specified
SITE = "function_logger.py:__call__ / bads.py target call sites"

# case kinds of corpus/ entries (failing inputs of past regressions) that this module replays on every run
CORPUS_KINDS = ('fault_run',)



def base_specs(seed, tier):
    rng = random.Random(f"c10:{seed}")
    specs = []
    for mode in gen.MODES:
        for _ in range(1 if tier == "quick" else 3):
            sp = gen.make_spec(rng, D=rng.choice([1, 2, 3]), geom=rng.choice(["box", "tight", "logbox"]), mode=mode, cons=rng.choice([None, None, "ball"]),
                               target=rng.choice(["quad", "abs"]))
            sp["options"] = {"n_search": 32, "max_fun_evals": (D_budget(sp["D"], mode)), "noise_final_samples": rng.choice([1, 3]) if mode != "det" else 10}
            specs.append(sp)
    # the display levels (basic option): 'iter' and 'full' switch the per-iteration / per-evaluation reporting on
    for mode, disp in (("det", "full"), ("he", "full"), ("auto", "iter")):
        sp = gen.make_spec(rng, D=rng.choice([1, 2]), geom="box", mode=mode, cons=None, target="quad")
        sp["options"] = {"n_search": 32, "max_fun_evals": D_budget(sp["D"], mode), "noise_final_samples": 2, "display": disp}
        specs.append(sp)
    return specs


def D_budget(D, mode):
    return (D + 14) if mode == "det" else 46


def positions(t, rng, tier):
    """Call indices to hit: one per phase at least (quick), or every index (thorough)."""
    calls = [e for k, e in t["events"] if k == "CALL"]
    n = len(calls)
    if tier != "quick":
        return list(range(n)), calls
    by_phase = {}
    for e in calls:
        ph = e["phase"] + ("" if e["rec"] else "/norec")
        by_phase.setdefault(ph, []).append(e["k"])
    ks = {0, n - 1}
    for ph, lst in by_phase.items():
        ks.add(lst[0]); ks.add(rng.choice(lst)); ks.add(lst[-1])
    return sorted(ks), calls


def run(ctx):
    rep = Report()
    rng = ctx.sub_rng("c10")
    specs = base_specs(ctx.seed, ctx.tier)
    clean = tracer.cached("c10clean", ctx.seed, ctx.tier, lambda: [(sp, {"want": ("ctl",)}) for sp in specs])
    jobs, meta = [], []
    for sp, t in zip(specs, clean):
        if "tracer_error" in t:
            raise RuntimeError(t["tracer_error"])
        if t["error"] is not None:
            continue      # C09's business
        ks, calls = positions(t, rng, ctx.tier)
        kinds = KINDS_ALL + (KINDS_HE if sp["mode"] == "he" else KINDS_SCALAR)
        for k in ks:
            use = kinds if ctx.tier != "quick" else rng.sample(kinds, min(len(kinds), 6)) + rng.sample(EXC_KINDS, 3) + ([rng.choice(KINDS_SCALAR)] if sp["mode"] != "he" else [])
            for kind in sorted(set(use)):
                jobs.append((sp, {"fault": {k: kind}, "want": ("ctl",)}))
                phase = next((e["phase"] + ("" if e["rec"] else "/norec") for e in calls if e["k"] == k), "?")
                meta.append((sp, k, kind, phase, t))
    faulted = tracer.cached("c10fault", ctx.seed, ctx.tier, lambda: jobs)
    # model expectation: Log.runCalls over the outcomes of the clean run with the fault substituted at k
    stats = {"faulted_runs": 0, "by_kind": {}, "by_phase": {}, "modes": {}}
    for (sp, k, kind, phase, t0), t in zip(meta, faulted):
        if "tracer_error" in t:
            raise RuntimeError(t["tracer_error"])
        stats["faulted_runs"] += 1
        stats["by_kind"][kind] = stats["by_kind"].get(kind, 0) + 1
        stats["by_phase"][phase] = stats["by_phase"].get(phase, 0) + 1
        stats["modes"][sp["mode"]] = stats["modes"].get(sp["mode"], 0) + 1
        tag = f"fault '{kind}' at target call #{k} (phase {phase}); {runlevel.spec_tag(sp)}"
        case = {"kind": "fault_run", "spec": sp, "fault": {str(k): kind}}
        want_exc = EXC_OF.get(kind, "ValueError")
        err = t["error"]
        calls = [e for kk, e in t["events"] if kk == "CALL"]
        ncalls = t["final"]["target_calls"]
        # (1) the same exception type propagates out of optimize()
        if err is None:
            rep.violation("fault_propagates", SITE, f"optimize() returned normally although the target misbehaved: {tag}", case)
            continue
        if err["type"] != want_exc:
            rep.violation("fault_type", SITE, f"{err['type']} ({err['msg'][:60]}) propagated instead of {want_exc}: {tag}", case)
            continue
        # (2) raised at that call: the target is not called again
        if ncalls != k + 1:
            rep.violation("not_called_again", SITE, f"target called {ncalls - k - 1} more time(s) after the faulty call: {tag}", case)
            continue
        # (3) func_count counts only the calls that returned valid values
        if t["log"] is not None and t["log"]["func_count"] != k:
            rep.violation("func_count_valid_only", "function_logger.py:__call__", f"func_count={t['log']['func_count']} after {k} valid calls: {tag}", case)
            continue
        # (4) nothing invalid logged: the log equals the clean run's log after its first k calls
        if t["log"] is not None:
            rec_before = [e for e in [c for kk, c in t0["events"] if kk == "CALL"][:k]]
            xn_clean = rec_before[-1]["Xn"] if rec_before else -1
            if t["log"]["Xn"] != xn_clean:
                rep.violation("nothing_invalid_logged", "function_logger.py:_record", f"log has {t['log']['Xn'] + 1} records, {xn_clean + 1} expected after {k} valid calls: {tag}", case)
                continue
            import math
            if any(not math.isfinite(v) for v in t["log"]["Y"]):
                rep.violation("nothing_invalid_logged", "function_logger.py:_record", f"non-finite value in the log: {tag}", case)
        # correspondence with the model's prediction (same k, same error class) is what (1)-(3) state; the prefix of the
        # run must also be the clean run's prefix (the fault changes nothing before it happens)
        pre_f = [(e["u"], e["rec"]) for e in calls[:k]]
        pre_c = [(e["u"], e["rec"]) for e in [c for kk, c in t0["events"] if kk == "CALL"][:k]]
        if pre_f != pre_c:
            rep.disagree("Log.runCalls ~ faulted run prefix", f"the calls before the fault differ from the clean run's: {tag}", case)
    # model side: drive Log.call with each fault kind once per mode (the table of call_error_kind / call_invalid)
    reqs = []
    table = []
    for he in (False, True):
        for out, want in (({"k": "raises"}, "target"), ({"k": "scalar", "y": None}, "ValueError"), ({"k": "other"}, "ValueError"),
                          ({"k": "pair", "y": None, "sd": "1"}, "ValueError"), ({"k": "pair", "y": "1", "sd": None}, "ValueError"),
                          ({"k": "scalar", "y": "1"}, "ValueError" if he else None), ({"k": "pair", "y": "1", "sd": "1"}, None if he else "ValueError")):
            reqs.append({"cmd": "log.run", "cache": 2, "noise": he, "he": he, "ops": [{"op": "call", "xo": ["0"], "x": ["0"], "out": out, "rd": True}]})
            table.append((he, out, want))
    for (he, out, want), r in zip(table, ctx.driver.call_many(reqs)):
        got = r[0].get("err")
        if got != want:
            rep.disagree("Log.call error table", f"he={he} outcome {out}: model {got} expected {want}", {"kind": "table"})
    rep.coverage = {
        "evaluations": stats["faulted_runs"], "distinct_nontrivial": stats["faulted_runs"],
        "rule": "one evaluation = one real optimize() run in which the target misbehaves at call k with one fault kind; k covers every phase (start point, noise test, initial design, search, poll, final re-sampling) - "
                "every call index in the thorough tier; every (run, k, kind) triple is distinct; expectation from Log.runCalls (stops_at_first_fault, fc_counts_valid_only, failed_call_logs_nothing)",
        "samples": [{"spec": meta[0][0], "k": meta[0][1], "kind": meta[0][2]}] if meta else [], "stats": stats,
        "traces_validated_against_impl": stats["faulted_runs"], "exhaustive": ctx.tier != "quick",
    }
    rep.assumptions = ["fault kinds are exactly those the property names; exotic SD forms such as (value, None) are not demanded to raise ValueError"]
    return rep


def replay(ctx, data):
    rep = Report()
    c = data["case"]
    if c.get("kind") != "fault_run":
        return rep
    fault = {int(k): v for k, v in c["fault"].items()}
    t0 = tracer.run_traced(c["spec"], want=("ctl",))
    t = tracer.run_traced(c["spec"], fault=fault, want=("ctl",))
    k, kind = next(iter(fault.items()))
    want_exc = EXC_OF.get(kind, "ValueError")
    err = t["error"]
    case = c
    if err is None:
        rep.violation("fault_propagates", SITE, "optimize() returned normally although the target misbehaved", case)
    elif err["type"] != want_exc:
        rep.violation("fault_type", SITE, f"{err['type']} propagated instead of {want_exc}", case)
    elif t["final"]["target_calls"] != k + 1:
        rep.violation("not_called_again", SITE, "target called again after the faulty call", case)
    elif t["log"] is not None and t["log"]["func_count"] != k:
        rep.violation("func_count_valid_only", "function_logger.py:__call__", f"func_count={t['log']['func_count']} after {k} valid calls", case)
    return rep


def widen(ctx, rep0):
    return Report()
