"""C14 - poll directions: poll_mads_2n under an enumerating random source vs Poll.basis; the C14 predicates
(Lean) on the implementation's basis; DIRS events and poll-step calls of traced runs."""
import itertools, sys
from fractions import Fraction
import numpy as np
from ..core import Report
from ..proto import enc, enc_pt
from . import runlevel

SITE = "poll_mads_2n.py:poll_mads_2n"


class Scripted:
    def __init__(self, mat, sg, perm):
        self.mat, self.sg, self.perm = mat, sg, perm
        self.calls = []
    def randint(self, lo, hi=None, size=None):
        self.calls.append(("randint", lo, hi, size))
        if isinstance(size, tuple):
            return np.array(self.mat, dtype=int)
        return np.array(self.sg, dtype=int)
    def permutation(self, M):
        self.calls.append(("perm",))
        return np.asarray(M)[np.array(self.perm, dtype=int)]

# case kinds of corpus/ entries (failing inputs of past regressions) that this module replays on every run
CORPUS_KINDS = ('poll_run', 'dirs', 'pollset')



def outcomes(D, nmax, rng, limit):
    lower = [(i, j) for i in range(D) for j in range(i)]
    vals = list(range(1, 2 * nmax))
    total = (len(vals) ** len(lower)) * (2 ** D) * len(list(itertools.permutations(range(D))))
    def all_outcomes():
        for fill in itertools.product(vals, repeat=len(lower)):
            for sg in itertools.product([1, 2], repeat=D):
                for perm in itertools.permutations(range(D)):
                    yield fill, sg, perm
    if total <= limit:
        src, exhaustive = all_outcomes(), True
    else:
        perms = list(itertools.permutations(range(D)))
        src = ((tuple(rng.choice(vals) for _ in lower), tuple(rng.choice([1, 2]) for _ in range(D)), rng.choice(perms)) for _ in range(limit))
        exhaustive = False
    for fill, sg, perm in src:
        mat = [[rng.choice(vals) for _ in range(D)] for _ in range(D)]     # upper part and diagonal are discarded by np.tril(., -1)
        for (i, j), v in zip(lower, fill):
            mat[i][j] = v
        yield mat, list(sg), list(perm)
    return exhaustive


def function_level(ctx, rep, only=None):
    pm = sys.modules.get("pybads.poll.poll_mads_2n")
    if pm is None:
        import pybads.poll  # noqa
        pm = sys.modules["pybads.poll.poll_mads_2n"]
    rng = ctx.sub_rng("c14")
    cases = []
    exhaustive_scopes = []
    for D in (1, 2, 3, 4, 5, 6):
        for ratio in (1, 2, 4, 1.5, 2.5, 3.7, 0.5, 0.3, 8):
            limit = (3000 if D <= 2 else 250 if D == 3 else 60) if ctx.quick else (20000 if D <= 3 else 400)
            if ratio not in (1, 2, 4):
                # non-integer / other mesh ratios (poll_mesh_multiplier, search_grid_multiplier away from their defaults): sampled
                limit = min(limit, 40 if ctx.quick else 400)
            nmax = max(1, int(round(ratio)))        # Python's round = half-to-even, as np.round in the code
            total = ((2 * nmax - 1) ** (D * (D - 1) // 2)) * (2 ** D) * int(np.prod(range(1, D + 1)))
            if total <= limit:
                exhaustive_scopes.append(f"D={D},ratio={ratio} ({total} outcomes)")
            for mat, sg, perm in outcomes(D, nmax, rng, limit):
                ms = 2.0 ** -rng.randint(0, 6)
                sms = ms * ratio
                ps = np.array([rng.choice([1.0, 0.5, 2.0, 1.0 / 3.0, 0.7]) for _ in range(D)])
                cases.append((D, sms, ms, ps, mat, sg, perm))
    if only is not None:
        cases = [(c["D"], c["sms"], c["ms"], np.array(c["poll_scale"], dtype=float), c["draw"], c["sgn"], c["perm"]) for c in only]
    old = (np.random.randint, np.random.permutation)
    impl = []
    try:
        for D, sms, ms, ps, mat, sg, perm in cases:
            # the scripted source replaces the two numpy.random functions on the module itself (whatever alias the code uses)
            sc = Scripted(mat, sg, perm)
            np.random.randint, np.random.permutation = sc.randint, sc.permutation
            B = pm.poll_mads_2n(D, ps, sms, ms)
            impl.append(np.asarray(B) * ps)       # the caller multiplies by poll_scale again
    finally:
        np.random.randint, np.random.permutation = old
    reqs = [{"cmd": "poll.dirs", "n": D, "sms": enc(sms), "ms": enc(ms), "draw": mat, "sgn": sg, "perm": perm} for D, sms, ms, ps, mat, sg, perm in cases]
    res = ctx.driver.call_many(reqs)
    rows = [[[Fraction(float(np.round(v, 9))).limit_denominator(10 ** 6) for v in r] for r in B] for B in impl]
    preqs = [{"cmd": "prop.dirs", "B": [[enc(v) for v in r] for r in R], "nmax": m["nmax"]} for R, m in zip(rows, res)]
    pres = ctx.driver.call_many(preqs)
    hist = {}
    for (D, sms, ms, ps, mat, sg, perm), B, R, m, pr in zip(cases, impl, rows, res, pres):
        case = {"kind": "dirs", "D": D, "sms": sms, "ms": ms, "poll_scale": [float(v) for v in ps], "draw": mat, "sgn": sg, "perm": perm}
        mb = [[int(v) for v in r] for r in m["B"]]
        ib = [[float(v) for v in r] for r in B]
        if len(mb) != len(ib) or any(not (abs(a - b) <= 1e-9 * max(1, abs(a))) for ra, rb in zip(mb, ib) for a, b in zip(ra, rb)):
            rep.disagree("Poll.basis ~ poll_mads_2n", f"D={D} ratio={sms / ms}: model {mb} impl {ib}", case)
        for clause in ("integer", "plus_minus", "bounded", "nonsingular", "square"):
            if not pr[clause]:
                hist[clause] = hist.get(clause, 0) + 1
                rep.violation(clause, SITE, f"D={D} mesh ratio {sms / ms}: generated basis violates '{clause}' (det={pr['det']}): {ib}", case)
        if m["nmax"] == 1 and not pr["signed_unit"]:
            hist["signed_unit"] = hist.get("signed_unit", 0) + 1
            rep.violation("signed_unit", SITE, f"D={D} default mesh ratio: directions are not signed coordinate directions: {ib}", case)
    return len(cases), exhaustive_scopes, hist


def mesh_expand_specs(ctx):
    """Runs with options['search_mesh_expand'] > 0: the mesh is also enlarged after successful searches (outside poll steps), so the
    poll that follows has to pick up the new mesh size."""
    from .. import gen
    rng = ctx.sub_rng("c14expand")
    specs = []
    for _ in range(6 if ctx.quick else 40):
        sp = gen.make_spec(rng, D=rng.choice([1, 2, 2, 3]), mode=rng.choice(["det", "det", "decl"]), geom=rng.choice(["box", "tight", "unbounded"]), cons=None,
                           opt_loc=rng.choice(["inside", "on_bound"]), target=rng.choice(["quad", "abs"]))
        sp["options"] = {"n_search": 32, "max_fun_evals": (sp["D"] + 55) if sp["mode"] == "det" else 100, "search_mesh_expand": rng.choice([1, 1, 2]), "noise_final_samples": 0}
        specs.append(sp)
    return specs


def complete_poll_specs(ctx):
    """complete_poll = True with the optimum in a corner / behind a constraint: many poll steps have fewer than 2D candidates left after the
    box (and constraint) filter, and each of them still polls every surviving direction exactly once."""
    from .. import gen
    rng = ctx.sub_rng("c14complete")
    specs = []
    for i in range(5 if ctx.quick else 40):
        sp = gen.make_spec(rng, D=rng.choice([2, 2, 3]), mode=["det", "det", "decl"][i % 3], geom=rng.choice(["box", "tight"]), cons=rng.choice([None, None, "halfspace"]),
                           opt_loc=rng.choice(["outside", "on_bound"]), target=rng.choice(["quad", "abs"]))
        sp["options"] = {"n_search": 32, "complete_poll": True, "max_fun_evals": (sp["D"] + 60) if sp["mode"] == "det" else 110, "noise_final_samples": 0}
        if rng.random() < 0.4:
            sp["options"].update({"search_grid_multiplier": 0, "search_grid_number": rng.choice([1, 2])})      # mesh ratio 2 / 4
        specs.append(sp)
    return specs


def fine_mesh_specs(ctx):
    """Runs with a tiny specified (or no) noise that go on until the mesh is very fine (2^-16 and below): poll candidates then lie within
    ~1e-5 relative of points evaluated earlier."""
    from .. import gen
    rng = ctx.sub_rng("c14fine")
    specs = []
    for mode in (("he", "he", "det") if ctx.quick else ("he", "he", "he", "det", "decl", "he", "det", "he")):
        sp = gen.make_spec(rng, D=2, mode=mode, geom="box", cons=None, opt_loc="inside", target="quad")
        sp["c_unit"] = [rng.choice([-0.7, 0.65, 0.8]), rng.choice([0.55, -0.75])]          # internal coordinates of the optimum well away from 0
        sp["noise"] = 1e-3
        sp["sd_jitter"] = False
        sp["options"] = {"max_fun_evals": 170 if mode != "det" else 130, "noise_final_samples": 0}
        specs.append(sp)
    return specs


def poll_set_level(ctx, rep, only=None):
    """The poll set after the box filter (contraints_check with proj=False, as `_poll_step_` calls it): every surviving row must be one of the
    candidates `incumbent + mesh_size * direction` EXACTLY - candidates that overshoot a hard bound, by however little, are dropped, never
    moved.  Incumbents sit on, or within a tiny distance of, a bound; meshes from 1 down to 2^-30."""
    import types
    from pybads.function_logger.constraints_check import contraints_check
    rng = ctx.sub_rng("c14pollset")
    cases = only or []
    if only is None:
        for _ in range(150 if ctx.quick else 2000):
            D = rng.randint(1, 4)
            ms = 2.0 ** -rng.randint(0, 30)
            lb = [-1.5 - rng.random() for _ in range(D)]
            ub = [1.5 + rng.random() for _ in range(D)]
            u = []
            for i in range(D):
                k = rng.random()
                eps = rng.choice([0.0, 1e-12, 1e-9, 1e-7, 2.5e-6, 1e-5, ms / 3, ms * 0.999])
                u.append(ub[i] - eps if k < 0.4 else (lb[i] + eps if k < 0.7 else rng.uniform(lb[i], ub[i])))
            scale = [rng.choice([1.0, 1.0, 0.5, 2.0]) for _ in range(D)]
            cases.append({"kind": "pollset", "D": D, "ms": ms, "lb": lb, "ub": ub, "u": u, "scale": scale})
    n = 0
    for c in cases:
        D, ms = c["D"], c["ms"]
        u = np.array(c["u"], dtype=float)
        B = np.vstack((np.eye(D), -np.eye(D))) * np.array(c["scale"], dtype=float)
        cand = u + ms * B
        fl = types.SimpleNamespace(X=np.zeros((0, D)), X_max_idx=-1, variable_transformer=types.SimpleNamespace(inverse_transf=lambda v: v))
        out = np.atleast_2d(contraints_check(cand.copy(), np.array(c["lb"]), np.array(c["ub"]), 2.0 ** -30, fl, False, None))
        n += 1
        rows = {tuple(r) for r in cand.tolist()}
        moved = [r for r in out.tolist() if tuple(r) not in rows] if out.size else []
        inside = [r for r in cand.tolist() if all(l <= v <= h for v, l, h in zip(r, c["lb"], c["ub"]))]
        if moved:
            rep.violation("poll_point_form", "constraints_check.py:contraints_check (poll set)", f"a poll candidate was moved instead of dropped: surviving row {moved[0]} is not incumbent + mesh_size * direction "
                          f"(incumbent {c['u']}, mesh {ms}, bounds {c['lb']}..{c['ub']})", c)
        elif sorted(map(tuple, out.tolist() if out.size else [])) != sorted(set(map(tuple, inside))):
            rep.disagree("poll set = candidates inside the box", f"survivors {out.tolist() if out.size else []} vs candidates inside the box {inside}", c)
    return n


def run_level(ctx, rep):
    if not getattr(ctx, "_replaying", False):
        runlevel.with_extra(ctx, "c14expand", lambda: mesh_expand_specs(ctx))
        runlevel.with_extra(ctx, "c14fine", lambda: fine_mesh_specs(ctx))
        runlevel.with_extra(ctx, "c14complete", lambda: complete_poll_specs(ctx))
    traces = runlevel.get_pool(ctx)
    stats = {"polls": 0, "poll_calls": 0, "runs": 0, "nmax_gt_1": 0}
    preqs, owners = [], []
    for ti, t in enumerate(traces):
        if not t["constructed"]:
            continue
        ev = t["events"]
        D = t["hdr"]["D"]
        stats["runs"] += 1
        cur = None
        last_iter = None
        for k, e in ev:
            if k == "ITER":
                last_iter = e
            if k == "DIRS":
                if cur is not None and "two_bases" not in cur:
                    # a second direction basis generated inside the SAME poll step: the directions of a poll step are ONE set {+-d_1..+-d_D}
                    cur["two_bases"] = True
                    rep.violation("each_dir_once", "bads.py:_poll_step_", f"a poll step generated a second direction basis after polling {len(cur['calls'])} point(s) of the first "
                                  f"(directions can then be polled twice); {runlevel.spec_tag(t['spec'])}", {"kind": "poll_run", "spec": t["spec"]})
                cur = {"e": e, "calls": [], "iter": last_iter}
                stats["polls"] += 1
                Bs = np.array(e["B"]) * np.array(e["poll_scale"])
                rows = [[Fraction(float(np.round(v, 9))).limit_denominator(10 ** 6) for v in r] for r in Bs]
                nmax = max(1, int(np.round(e["sms"] / e["ms"])))
                stats["nmax_gt_1"] += nmax > 1
                preqs.append({"cmd": "prop.dirs", "B": [[enc(v) for v in r] for r in rows], "nmax": nmax})
                owners.append((ti, cur, Bs, nmax))
            elif k == "CALL" and e["phase"] == "poll" and cur is not None and "exc" not in e:
                cur["calls"].append(e)
                stats["poll_calls"] += 1
            elif k == "POLL":
                cur = None
    pres = ctx.driver.call_many(preqs)
    for (ti, cur, Bs, nmax), pr in zip(owners, pres):
        t = traces[ti]
        sp = t["spec"]
        tag = runlevel.spec_tag(sp)
        case = {"kind": "poll_run", "spec": sp}
        D = t["hdr"]["D"]
        e = cur["e"]
        for clause in ("integer", "plus_minus", "bounded", "nonsingular", "square"):
            if not pr[clause]:
                rep.violation(clause, SITE, f"traced run: poll basis violates '{clause}'; {tag}", case)
        if nmax == 1 and not pr["signed_unit"]:
            rep.violation("signed_unit", SITE, f"traced run, default mesh ratio: directions are not signed coordinate directions; {tag}", case)
        if len(cur["calls"]) > 2 * D:
            rep.violation("at_most_2n", "bads.py:_poll_step_", f"{len(cur['calls'])} points polled in one poll step (D={D}); {tag}", case)
        # the mesh size the poll works with must be the run's current mesh size (poll_mesh_multiplier ** mesh_size_integer, as reported)
        if cur["iter"] is not None:
            true_ms = float(t["hdr"]["opts"]["poll_mesh_multiplier"]) ** cur["iter"]["msi"]
            if e["ms"] != true_ms:
                rep.violation("poll_uses_current_mesh", "bads.py:_poll_step_", f"the poll step scales its directions by {e['ms']} while the run's mesh size is {true_ms} "
                              f"(mesh_size_integer {cur['iter']['msi']}); {tag}", case)
                continue
        used = []
        u = np.array(e["u"])
        tol = 1e-6 + (0.5 * e["sms"] / e["ms"] if t["hdr"]["opts"].get("force_poll_mesh") else 0.0)
        olb, oub = np.array(t["hdr"]["orig_lb"], dtype=float), np.array(t["hdr"]["orig_ub"], dtype=float)
        for c in cur["calls"]:
            # the point the TARGET was evaluated at is the image of the polled internal point (nothing substituted on the way)
            if c.get("ginv") is not None and c.get("x") is not None:
                want_x = np.minimum(np.maximum(np.array(c["ginv"], dtype=float).reshape(-1), olb), oub)
                got_x = np.array(c["x"], dtype=float).reshape(-1)
                if want_x.shape == got_x.shape and not np.all(np.abs(want_x - got_x) <= 1e-12 * np.maximum(1.0, np.abs(want_x))):
                    rep.violation("poll_point_form", "function_logger.py:__call__ (poll evaluation)", f"the target was evaluated at {got_x.tolist()} while the polled point "
                                  f"incumbent + mesh_size * direction maps to {want_x.tolist()}; {tag}", case)
                    break
            off = (np.array(c["u"]) - u) / e["ms"]
            idx = [i for i, b in enumerate(Bs) if np.allclose(off, b, rtol=0, atol=tol)]
            if not idx:
                rep.violation("poll_point_form", "bads.py:_poll_step_", f"polled point is not incumbent + mesh_size * direction (offset/mesh = {off.tolist()}); {tag}", case)
                break
            if idx[0] in used:
                rep.violation("each_dir_once", "bads.py:_poll_step_", f"direction {idx[0]} polled twice in one poll step; {tag}", case)
                break
            used.append(idx[0])
    return stats


def run(ctx):
    rep = Report()
    n, scopes, hist = function_level(ctx, rep)
    n += poll_set_level(ctx, rep)
    stats = run_level(ctx, rep)
    # ONE WHOLE CALL of optimize() (Opt.init + Full.step + Opt.finish, the model of Props/C14Opt.lean): the points each search / poll step evaluates are
    # DERIVED by the model from the candidate sets and the acquisition picks, and compared with the run per iteration (runs with plain options)
    wstats = runlevel.whole_replay(ctx, rep, plain_only=True)
    rep.coverage = {
        "whole_run_model": wstats,
        "evaluations": n + stats["polls"], "distinct_nontrivial": n,
        "rule": "function level: poll_mads_2n under a scripted random source - every outcome (strictly-lower fill x signs x permutation) for the scopes listed in 'exhaustive_scopes', sampled for the others "
                "(D<=6, mesh ratios 1,2,4), random poll_scale; all cases are distinct outcomes; run level: every poll step of the traced runs (basis predicates, polled points = incumbent + mesh*direction, each direction once, <= 2D)",
        "samples": [{"D": 3, "note": "see harness/props/c14.py outcomes()"}], "exhaustive_scopes": scopes, "clause_failures_on_impl": hist, "run_level": stats,
        "traces_validated_against_impl": stats["runs"], "exhaustive": False,
    }
    rep.assumptions = ["the division by poll_scale in the generator and the multiplication in the caller cancel up to rounding (offsets compared with 1e-6 tolerance in mesh units)"]
    return rep


def replay(ctx, data):
    rep = Report()
    c = data["case"]
    if c.get("kind") == "poll_run":
        from .. import tracer
        ctx._pool = [tracer.run_traced(c["spec"])]
        ctx._replaying = True
        run_level(ctx, rep)
    elif c.get("kind") == "pollset":
        poll_set_level(ctx, rep, only=[c])
    elif c.get("kind") == "dirs" and "draw" in c:
        function_level(ctx, rep, only=[c])
    else:
        function_level(ctx, rep)
    return rep


def singular_hunt(ctx, rep, n_per_scope=30000):
    """Failing-input search for the non-singularity clause in the scopes no enumeration reaches (D = 4..6, mesh ratios >= 2): many random
    outcomes of the generator's draws, the implementation's basis computed under the scripted source, its determinant taken numerically;
    only singular ones are handed to the Lean predicate and reported."""
    pm = sys.modules.get("pybads.poll.poll_mads_2n")
    if pm is None:
        import pybads.poll  # noqa
        pm = sys.modules["pybads.poll.poll_mads_2n"]
    rng = ctx.sub_rng("c14hunt")
    old = (np.random.randint, np.random.permutation)
    found = []
    try:
        for D in (4, 5, 6):
            perms = None
            for ratio in (2, 4, 3):
                nmax = ratio
                vals = list(range(1, 2 * nmax))
                for _ in range(n_per_scope):
                    mat = [[rng.choice(vals) for _ in range(D)] for _ in range(D)]
                    sg = [rng.choice([1, 2]) for _ in range(D)]
                    perm = list(range(D)); rng.shuffle(perm)
                    sc = Scripted(mat, sg, perm)
                    np.random.randint, np.random.permutation = sc.randint, sc.permutation
                    ps = np.ones(D)
                    B = np.asarray(pm.poll_mads_2n(D, ps, float(ratio), 1.0))
                    if abs(np.linalg.det(B[:D])) < 0.5:
                        found.append((D, float(ratio), 1.0, ps, mat, sg, perm))
                        break
                if len(found) >= 3:
                    break
            if len(found) >= 3:
                break
    finally:
        np.random.randint, np.random.permutation = old
    if found:
        function_level(ctx, rep, only=[{"D": D, "sms": sms, "ms": ms, "poll_scale": [float(v) for v in ps], "draw": mat, "sgn": sg, "perm": perm} for D, sms, ms, ps, mat, sg, perm in found])
    return len(found)


def widen(ctx, rep0):
    rep = Report()
    sub = type(ctx)(ctx.pid, "thorough", ctx.seed + 3)
    function_level(sub, rep)
    if not rep.violations:
        singular_hunt(sub, rep)
    return rep
