"""C03 - termination within the budget, honest count, sound message: Ctl model replay on traced runs."""
from ..core import Report
from . import runlevel

# case kinds of corpus/ entries (failing inputs of past regressions) that this module replays on every run
CORPUS_KINDS = ('ctl_run',)



def budget_stress_specs(ctx):
    """Budgets at and just above the size of the initial design, every noise mode, default and small noise_final_samples, small max_iter."""
    from .. import gen
    rng = ctx.sub_rng("c03stress")
    specs = []
    for mode in gen.MODES:
        for extra in ((0, 1, 4, 9) if ctx.quick else (0, 1, 2, 3, 4, 6, 8, 9, 10, 12)):
            D = rng.choice([1, 2, 3])
            init = (D + 2) if mode == "det" else 34
            sp = gen.make_spec(rng, D=D, geom=rng.choice(["box", "tight"]), mode=mode, cons=None)
            sp["options"] = {"n_search": 32, "max_fun_evals": init + extra}
            if mode != "det" and rng.random() < 0.3:
                sp["options"]["noise_final_samples"] = rng.choice([1, 3])
            if rng.random() < 0.2:
                sp["options"]["max_iter"] = rng.choice([1, 2, 3])
            specs.append(sp)
    # one-dimensional runs under specified noise: the poll steps back onto already logged points, whose repeated observations are merged
    # into the existing record - every one of them is a target call and has to be counted
    for _ in range(4 if ctx.quick else 20):
        sp = gen.make_spec(rng, D=1, geom=rng.choice(["box", "tight"]), mode="he", cons=None, opt_loc="inside", target=rng.choice(["quad", "abs"]))
        sp["options"] = {"n_search": 32, "max_fun_evals": rng.choice([70, 90]), "noise_final_samples": rng.choice([0, 3])}
        specs.append(sp)
    # max_iter binding (budget ample), with the usual and with small search_n_try (search and poll in the same loop pass)
    for mi in ((1, 2, 4) if ctx.quick else (1, 2, 3, 4, 6, 9)):
        for nt in (None, 1, 0):
            mode = rng.choice(["det", "det", "decl"])
            sp = gen.make_spec(rng, D=rng.choice([1, 2]), geom="box", mode=mode, cons=None, target="quad")
            sp["options"] = {"n_search": 32, "max_fun_evals": 200, "max_iter": mi, "noise_final_samples": 0}
            if nt is not None:
                sp["options"]["search_n_try"] = nt
            specs.append(sp)
    return specs


def other_base_specs(ctx):
    """poll_mesh_multiplier other than 2 (a documented advanced option): the mesh is then a power of that base, and so must be the internal mesh
    tolerance derived from tol_mesh; runs long enough to stop on the mesh tolerance."""
    from .. import gen
    rng = ctx.sub_rng("c03base")
    specs = []
    for mult, mode in (((1.5, "det"), (2.0 ** 0.5, "det"), (4.0, "det")) if ctx.quick else
                       ((1.5, "det"), (2.0 ** 0.5, "det"), (4.0, "det"), (1.5, "decl"), (3.0, "det"), (1.25, "det"), (1.5, "auto"), (2.5, "det"))):
        sp = gen.make_spec(rng, D=rng.choice([1, 2]), geom=rng.choice(["box", "tight"]), mode=mode, cons=None, opt_loc="inside", target=rng.choice(["quad", "abs"]))
        sp["options"] = {"n_search": 32, "poll_mesh_multiplier": mult, "tol_mesh": rng.choice([1e-3, 1e-2, 5e-4]), "tol_stall_iters": 60,
                         "max_fun_evals": 260 if mode == "det" else 320, "noise_final_samples": 0}
        specs.append(sp)
    return specs


def run(ctx):
    rep = Report()
    if ctx.pid == "C03":
        runlevel.with_extra(ctx, "c03base", lambda: other_base_specs(ctx))
        runlevel.with_extra(ctx, "c03stress", lambda: budget_stress_specs(ctx))
        runlevel.scripted_controller_runs(ctx, "c03script", 12 if ctx.quick else 120)
    stats, samples = runlevel.ctl_replay(ctx, rep, ctx.pid)
    traces = runlevel.get_pool(ctx)
    # ONE WHOLE CALL of optimize() (Opt.init + Full.step + Opt.finish): size of the initial phase, reserve, loop budget, complete call sequence
    wstats = runlevel.whole_replay(ctx, rep) if ctx.pid == "C03" else None
    rep.coverage = {
        "whole_run_model": wstats,
        "evaluations": stats["iterations"], "distinct_nontrivial": stats["searches"] + stats["polls"],
        "rule": "one evaluation = one main-loop iteration of a traced real run replayed through Ctl.step (oracle: search outcome, per-evaluation poll improvements, stall tests; "
                "determined and compared: func_count, recorded rows, search_count, search_success, search_spree, mesh exponents, poll_iteration, finished, message); "
                "non-trivial = iterations that ran a search or a poll (counted separately)",
        "samples": samples, "traces_validated_against_impl": stats["runs"], "controller": stats,
        "pool": runlevel.pool_distribution(traces),
    }
    rep.assumptions = ["termination of the implementation also needs every oracle call (GP fit, ES, user target) to return: outside the model",
                       "budget clause is stated for budgets at least the size of the initial design (as the property does)"]
    return rep


def replay(ctx, data):
    rep = Report()
    from .. import tracer
    ctx._pool = [tracer.run_traced(data["case"]["spec"], **(data["case"].get("kw") or {}))]
    runlevel.ctl_replay(ctx, rep, "C03")
    return rep


def widen(ctx, rep0):
    rep = Report()
    sub = type(ctx)(ctx.pid, "thorough", ctx.seed + 7)
    specs = runlevel.pool_specs(sub.seed, "quick") + [d["case"]["spec"] for d in rep0.disagreements if "spec" in d.get("case", {})][:10]
    from .. import tracer
    sub._pool = tracer.run_many([(sp, {}) for sp in specs])
    runlevel.ctl_replay(sub, rep, ctx.pid)
    return rep
