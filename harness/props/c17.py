"""C17 - candidate filtering: function-level differential of contraints_check against
Filter.filterCode, the C17 predicates evaluated (by the Lean definitions) on the
implementation's outputs, and FILT events of traced runs."""
import itertools, types
import numpy as np
from ..core import Report
from ..proto import enc, enc_pt, enc_pts, dec_pts

SITE = "constraints_check.py:contraints_check"
SITE_FRESH = "constraints_check.py:remove-previously-evaluated"

# case kinds of corpus/ entries (failing inputs of past regressions) that this module replays on every run
CORPUS_KINDS = ('filter', 'filter_run')



def _impl(case):
    from pybads.function_logger.constraints_check import contraints_check
    D = len(case["lo"])
    U = np.array(case["U"], dtype=float).reshape(-1, D)
    logX = np.array(case["logX"], dtype=float).reshape(-1, D)
    fl = types.SimpleNamespace(
        X=logX, X_max_idx=len(logX) - 1,
        variable_transformer=types.SimpleNamespace(inverse_transf=lambda u: u))
    cons = _cons_fn(case.get("cons"))
    out = contraints_check(U, np.array(case["lo"], dtype=float), np.array(case["hi"], dtype=float),
                           case["tol"], fl, case["proj"], cons)
    return [list(map(float, r)) for r in out]


def _cons_fn(spec):
    """Scripted deterministic constraint functions (violation > 0), several return types."""
    if spec is None:
        return None
    kind, c, ret = spec
    def f(X):
        X = np.atleast_2d(X)
        if kind == "sum_gt":
            v = np.sum(X, axis=1) - c
        elif kind == "first_gt":
            v = X[:, 0] - c
        elif kind == "ball":
            v = np.sum(X ** 2, axis=1) - c
        elif kind == "nan_half":        # NaN on part of the domain (e.g. a square root of a negative number)
            with np.errstate(all="ignore"):
                v = X[:, -1] - c - np.sqrt(X[:, 0] + c)
        elif kind == "all":
            v = np.ones(len(X))
        else:
            v = -np.ones(len(X))
        if ret == "bool":
            return v > 0
        if ret == "tiny":           # violations reported as very small positive numbers: still violations (> 0)
            return v * 1e-10
        return v
    return f


def _violated(spec, p):
    f = _cons_fn(spec)
    with np.errstate(all="ignore"):
        r = f(np.array([p], dtype=float))[0]
    return not bool(r <= 0)        # the filter keeps a row iff its constraint value is <= 0: a NaN value is "not satisfied"


def _req(case, cmd, table=None, out=None):
    r = {"cmd": cmd, "U": enc_pts(case["U"]), "lo": [enc(v) for v in case["lo"]], "hi": [enc(v) for v in case["hi"]],
         "tol": enc(case["tol"]), "logX": enc_pts(case["logX"]), "proj": case["proj"]}
    if table is not None:
        r["cons"] = table
    if out is not None:
        r["out"] = enc_pts(out)
    return r


def gen_cases(ctx):
    rng = ctx.sub_rng("c17")
    cases = []
    # (a) exhaustive small integer lattices: D=1 fully, D=2 (quick: sampled; thorough: larger sweep)
    lat = [0.0, 1.0, 2.0]
    for proj in (True, False):
        for lo, hi in ((0.0, 2.0), (1.0, 2.0), (0.0, 1.0), (-np.inf, np.inf), (1.0, 1.0)):
            for n in range(0, 4):
                for U in itertools.product([-1.0, 0.0, 1.0, 2.0, 3.0, 0.25], repeat=n):
                    for logn in (0, 1, 2):
                        for L in itertools.combinations(lat, logn):
                            if ctx.quick and rng.random() > 0.06:
                                continue
                            cases.append({"U": [[u] for u in U], "lo": [lo], "hi": [hi], "tol": 1.0,
                                          "logX": [[l] for l in L], "proj": proj, "cons": None, "kind": "lattice1"})
    pts2 = [list(p) for p in itertools.product(lat, repeat=2)]
    n2 = 400 if ctx.quick else 6000
    for _ in range(n2):
        n = rng.randint(0, 4)
        U = [list(rng.choice(pts2 + [[-1.0, 1.0], [3.0, 0.0], [0.5, 0.5], [1.0, 2.5]])) for _ in range(n)]
        L = [list(rng.choice(pts2)) for _ in range(rng.randint(0, 3))]
        lo = rng.choice([[0.0, 0.0], [1.0, 0.0], [-np.inf, -np.inf], [0.0, -np.inf]])
        hi = rng.choice([[2.0, 2.0], [1.0, 2.0], [np.inf, np.inf], [2.0, np.inf]])
        if lo[1] == -np.inf:
            hi = [hi[0], np.inf]
        if hi[1] == np.inf:
            lo = [lo[0], -np.inf]
        cons = rng.choice([None, None, ("sum_gt", 2.0, "float"), ("first_gt", 1.0, "bool"), ("ball", 2.0, "float"), ("all", 0, "bool"), ("none", 0, "float"), ("sum_gt", 2.0, "tiny"), ("ball", 2.0, "tiny"), ("nan_half", 0.5, "float")])
        cases.append({"U": U, "lo": lo, "hi": hi, "tol": rng.choice([1.0, 0.5, 2.0]), "logX": L,
                      "proj": rng.random() < 0.6, "cons": cons, "kind": "lattice2"})
    # (b) random dyadic candidates on the search mesh, D <= 5, with near-coincidences
    n3 = 300 if ctx.quick else 4000
    for _ in range(n3):
        D = rng.randint(1, 5)
        h = 2.0 ** (-rng.randint(0, 10))
        tol = rng.choice([2.0 ** -19, h, h / 4, 2 * h])
        def pt():
            return [h * rng.randint(-6, 6) + (rng.choice([0, 0, 0, tol / 8, -tol / 8, tol / 2, tol])) for _ in range(D)]
        base = [pt() for _ in range(rng.randint(1, 5))]
        U = [list(rng.choice(base)) if rng.random() < 0.4 else pt() for _ in range(rng.randint(0, 9))]
        L = [list(rng.choice(base)) if rng.random() < 0.5 else pt() for _ in range(rng.randint(0, 5))]
        bounded = rng.random() < 0.8
        lo = [(-h * rng.randint(1, 5)) if bounded else -np.inf for _ in range(D)]
        hi = [(h * rng.randint(1, 5)) if bounded else np.inf for _ in range(D)]
        cons = rng.choice([None, None, ("sum_gt", 0.0, "float"), ("first_gt", 0.0, "bool"), ("ball", (3 * h) ** 2, "float"), ("sum_gt", 0.0, "tiny"), ("nan_half", h, "float")])
        cases.append({"U": U, "lo": lo, "hi": hi, "tol": tol, "logX": L, "proj": rng.random() < 0.6,
                      "cons": cons, "kind": "dyadic"})
    return cases


def check_cases(ctx, cases, rep, tag="function"):
    drv = ctx.driver
    # phase 1: model box/key stages (to know which rows the constraint function is asked about)
    res1 = drv.call_many([_req(c, "filter") for c in cases])
    tables = []
    for c, r in zip(cases, res1):
        if c.get("cons") is None:
            tables.append(None)
        else:
            rows = dec_pts(r["pre_cons"])
            tables.append([{"p": enc_pt(p), "v": _violated(c["cons"], [float(x) for x in p])} for p in rows])
    impl = []
    for c in cases:
        impl.append(_impl(c))
    # the box stage rows may include points the implementation asked about but the model did not list:
    # add the implementation's own output rows to the table (asked through the same function)
    for c, t, out in zip(cases, tables, impl):
        if t is not None:
            have = {tuple(e["p"]) for e in t}
            for p in out:
                k = tuple(enc_pt(p))
                if k not in have:
                    t.append({"p": list(k), "v": _violated(c["cons"], p)})
                    have.add(k)
    res2 = drv.call_many([_req(c, "filter", table=t) for c, t in zip(cases, tables)])
    res3 = drv.call_many([_req(c, "prop.filter", table=t, out=o) for c, t, o in zip(cases, tables, impl)])
    nontrivial = set()
    hist = {"in_box": 0, "distinct": 0, "fresh": 0, "feasible": 0, "sub_input": 0}
    for c, m, pr, out in zip(cases, res2, res3, impl):
        mo = sorted(tuple(enc_pt(p)) for p in dec_pts(m["out"]))
        io = sorted(tuple(enc_pt(p)) for p in out)
        if mo != io:
            rep.disagree("Filter.filterCode ~ contraints_check", f"{tag}: model {len(mo)} rows vs impl {len(io)} rows",
                         {"input": _jsonable(c), "model": m["out"], "impl": enc_pts(out)})
        if len(out) != len(c["U"]) or mo != sorted(tuple(enc_pt(p)) for p in c["U"]):
            nontrivial.add(repr(_jsonable(c)))
        for clause, ok in pr.items():
            if not ok:
                hist[clause] += 1
                site = SITE_FRESH if clause == "fresh" else SITE
                rep.violation(clause, site, f"{tag}: filter output violates '{clause}' (D={len(c['lo'])}, {len(c['U'])} candidates, {len(c['logX'])} logged)",
                              {"kind": "filter", "input": _jsonable(c), "impl_out": enc_pts(out)})
    return len(cases), len(nontrivial), hist


def _jsonable(c):
    d = dict(c)
    d["lo"] = [enc(v) for v in c["lo"]]
    d["hi"] = [enc(v) for v in c["hi"]]
    d["U"] = enc_pts(c["U"])
    d["logX"] = enc_pts(c["logX"])
    d["tol"] = enc(c["tol"])
    return d


def _unjson(d):
    from ..proto import dec_f
    c = dict(d)
    c["lo"] = [dec_f(v) for v in d["lo"]]
    c["hi"] = [dec_f(v) for v in d["hi"]]
    c["U"] = [[dec_f(v) for v in r] for r in d["U"]]
    c["logX"] = [[dec_f(v) for v in r] for r in d["logX"]]
    c["tol"] = dec_f(d["tol"])
    if c.get("cons") is not None:
        c["cons"] = tuple(c["cons"])
    return c


def evaluated_sets(ctx, rep):
    """The sets actually handed on for evaluation (initial design, each poll step): the points the target was called at, per step, must be
    pairwise distinct (after rounding to half the mesh tolerance), inside the internal box and feasible - whatever happened between
    filtering and evaluation."""
    from fractions import Fraction
    from . import runlevel
    traces = runlevel.get_pool(ctx)
    nsets = 0
    for t in traces:
        if not t["constructed"] or t["hdr"] is None:
            continue
        sp = t["spec"]
        tag = runlevel.spec_tag(sp)
        case = {"kind": "filter_run", "spec": sp, "event_index": -1}
        half = Fraction(t["hdr"]["tol_mesh"]) / 2
        # the internal box from a FRESH transform of the original bounds (not whatever box the run handed to its filter)
        lb, ub = t["hdr"].get("lb_ref") or t["hdr"]["lb"], t["hdr"].get("ub_ref") or t["hdr"]["ub"]
        infeasible = (t["final"].get("cons_unsat_at_calls") or t["final"].get("cons_at_calls")) if t.get("final") else None
        groups, cur, it = {}, None, 0
        for k, e in t["events"]:
            if k == "CALL" and "exc" not in e and e["rec"] and e["k"] > 0:
                if e["phase"] == "init":
                    groups.setdefault("initial design", []).append(e)
                elif e["phase"] == "poll" and cur is not None:
                    cur.append(e)
                elif e["phase"] == "search":
                    groups.setdefault(f"search steps of iteration {it}", []).append(e)
            elif k == "ITER":
                it += 1
            elif k == "DIRS":
                cur = []
                groups[f"poll step #{len(groups)}"] = cur
            elif k == "POLL":
                cur = None
        for name, calls in groups.items():
            if not calls:
                continue
            nsets += 1
            keys = [tuple(round(Fraction(v) / half) for v in c["u"]) for c in calls]
            # (successive search steps of one iteration are separate filter calls: distinctness is per handed-on set, so not asked across them)
            if len(set(keys)) != len(keys) and not name.startswith("search"):
                rep.violation("distinct", "bads.py:" + _site(name),
                              f"{name}: two of the {len(calls)} evaluated points coincide within half the mesh tolerance; {tag}", case)
                break
            if any(not (l <= v <= u) for c in calls for v, l, u in zip(c["u"], lb, ub)):
                rep.violation("in_box", "bads.py:" + _site(name), f"{name}: an evaluated point lies outside the internal box; {tag}", case)
                break
            if infeasible is not None and any(infeasible[c["k"]] for c in calls if c["k"] < len(infeasible)):
                rep.violation("feasible", "bads.py:" + _site(name), f"{name}: an evaluated point violates the non-box constraint; {tag}", case)
                break
    return nsets


def _site(name):
    return "_init_mesh_" if name == "initial design" else "_search_step_" if name.startswith("search") else "_poll_step_"


SITE_TWICE = "bads.py:evaluation-of-a-filtered-candidate"


def evaluated_once(ctx, rep):
    """The property's consequence, on whole runs: a deterministic target is never evaluated twice at the same point, except for the single
    repeat of the starting point that implements the noise test (the 2nd call, not recorded).  Each repeat found is tagged with whether the
    repeated point came out of a contraints_check call of the same iteration although it was already in the log handed to that call
    (`passed_by_filter`: the consequence of the known finding C17-fresh) or reached the target some other way (never explained by it)."""
    from . import runlevel
    traces = runlevel.get_pool(ctx)
    nruns = nrep = 0
    for t in traces:
        if not t["constructed"] or t["hdr"] is None or t["spec"]["mode"] != "det":
            continue
        nruns += 1
        seen = {}
        reported = set()
        filt_out = []          # outputs of the filter calls since the last iteration boundary
        for idx, (k, e) in enumerate(t["events"]):
            if k == "ITER":
                filt_out = []
            elif k == "FILT":
                filt_out.append((idx, {tuple(r) for r in e.get("out", [])}, e.get("logn", 0)))
            elif k == "CALL" and "exc" not in e:
                key = tuple(e["u"])
                if e["k"] == 1 and not e["rec"] and key in seen:
                    continue                      # the noise test
                if key in seen:
                    via = [i for i, out, logn in filt_out if key in out and logn > 0]
                    tags = {"passed_by_filter": bool(via)}
                    if tags["passed_by_filter"] in reported:
                        continue               # one report per run and kind (explained by the known filter defect / not explained)
                    reported.add(tags["passed_by_filter"])
                    nrep += 1
                    rep.violation("evaluated_once", SITE_TWICE,
                                  f"deterministic target evaluated again at a point it was already evaluated at (call #{e['k']} repeats call #{seen[key]}, phase {e['phase']}); "
                                  + ("the point came out of contraints_check although it was in the log" if via else "the point did NOT come out of a filter call of this iteration")
                                  + f"; {runlevel.spec_tag(t['spec'])}",
                                  {"kind": "filter_run", "spec": t["spec"], "event_index": via[-1] if via else -1, "tags": tags, "call": e["k"], "first_call": seen[key]})
                    continue
                seen[key] = e["k"]
    return nruns, nrep


def run(ctx):
    rep = Report()
    from . import runlevel as _rl, c02 as _c02
    _rl.with_extra(ctx, "c02coarse", lambda: _c02.coarse_specs(ctx))
    nsets = evaluated_sets(ctx, rep)
    n_det, n_rep = evaluated_once(ctx, rep)
    cases = gen_cases(ctx)
    n, nt, hist = check_cases(ctx, cases, rep)
    kinds = {}
    for c in cases:
        kinds[c["kind"]] = kinds.get(c["kind"], 0) + 1
    run_cov = {}
    try:
        from . import runlevel
        run_cov = runlevel.filter_events(ctx, rep)
        # ONE WHOLE CALL (Props/C17Opt.lean): the rows each search / poll step evaluates are DERIVED by the whole-call model from the filtered candidate
        # sets (`filterCode`) and compared with the run per iteration (runs with plain options)
        run_cov["whole_run_model"] = runlevel.whole_replay(ctx, rep, plain_only=True)
    except ImportError:
        pass
    rep.coverage = {
        "evaluations": n + run_cov.get("filter_events", 0),
        "distinct_nontrivial": nt + run_cov.get("nontrivial", 0),
        "rule": "function level: 1-D integer lattices (all candidate tuples of length<=3 over 6 values x boxes x logs; sampled in quick tier), "
                "2-D lattice multisets, random dyadic mesh points D<=5 with near-coincidences at tol/8, tol/2; "
                "non-trivial = the filter changed the candidate set (dropped, projected or reordered); distinct by full input. "
                "run level: every contraints_check call of traced runs (site init/es/search/poll).",
        "samples": [_jsonable(c) for c in cases[:: max(1, len(cases) // 4)][:4]],
        "input_kinds": kinds,
        "clause_failures_on_impl": hist,
        "traces_validated_against_impl": run_cov.get("runs", 0), "evaluated_sets_checked": nsets, "deterministic_runs_checked_for_repeats": n_det, "runs_with_a_repeated_evaluation": n_rep,
        "run_level": run_cov,
        "exhaustive": not ctx.quick,
    }
    rep.assumptions = ["candidate rows are NaN-free (asserted on every observed set)",
                       "constraint function deterministic and row-wise"]
    return rep


def replay(ctx, data):
    rep = Report()
    case = data["case"]
    if case.get("kind") == "filter":
        check_cases(ctx, [_unjson(case["input"])], rep, tag="replay")
    else:
        from . import runlevel
        runlevel.replay_filter_run(ctx, rep, case)
        evaluated_sets(ctx, rep)
        evaluated_once(ctx, rep)
    return rep


def widen(ctx, rep0):
    rep = Report()
    sub = type(ctx)(ctx.pid, "thorough", ctx.seed + 1)
    cases = [_unjson(d["case"]["input"]) for d in rep0.disagreements if "input" in d.get("case", {})][:50]
    cases += gen_cases(sub)[:3000]
    check_cases(ctx, cases, rep, tag="widened")
    return rep
