"""C19 - iteration history and OptimizeResult are consistent records of the run.
Run level: bookkeeping replayed through Noisy.iterStep, clauses on the run's own call log.
Container level: random record/overwrite sequences (mutable values mutated after recording) on the real
IterationHistory / OptimizeResult vs Hist.record / Res.set."""
import copy
import numpy as np
from ..core import Report
from . import runlevel

SITE_C = "iteration_history.py:IterationHistory"

# case kinds of corpus/ entries (failing inputs of past regressions) that this module replays on every run
CORPUS_KINDS = ('noisy_run', 'full_run')



def container_level(ctx, rep):
    from pybads.utils.iteration_history import IterationHistory
    from pybads.bads.optimize_result import OptimizeResult
    rng = ctx.sub_rng("c19c")
    nseq = 60 if ctx.quick else 600
    reqs, runs = [], []
    stats = {"ops": 0, "errors": 0, "overwrites": 0, "mutations_after_record": 0, "extensions": 0}
    for _ in range(nseq):
        keys = rng.sample(["u", "x", "fval", "fsd", "yval", "gp", "iter", "mesh_size"], rng.randint(1, 5))
        h = IterationHistory(keys)
        ops, obs = [], []
        live = []        # mutable values handed to record(), mutated later by the 'caller'
        seen = set()
        for _ in range(rng.randint(3, 40)):
            key = rng.choice(keys + ["not_a_key"]) if rng.random() < 0.9 else "bogus"
            it = rng.choice([0, 0, 1, 2, 3, 5, 9, -1]) if rng.random() < 0.9 else rng.randint(-3, 20)
            kind = rng.choice(["int", "float", "list", "array", "dict"])
            val = {"int": rng.randint(0, 99), "float": rng.random(), "list": [rng.randint(0, 9), [1, 2]],
                   "array": np.array([rng.random(), 2.0]), "dict": {"a": [rng.randint(0, 9)]}}[kind]
            sval = repr(val)
            try:
                h.record(key, val, it)
                res = "ok"
                if (key, it) in seen:
                    stats["overwrites"] += 1
                seen.add((key, it))
            except ValueError:
                res = "ValueError"
                stats["errors"] += 1
            except Exception as ex:
                res = type(ex).__name__
            ops.append({"key": key, "val": sval, "it": it})
            if res == "ok" and kind in ("list", "array", "dict"):
                live.append(val)
            # the caller keeps using (mutating) every value it ever handed over
            for v in live:
                stats["mutations_after_record"] += 1
                if isinstance(v, list):
                    v[1].append(7); v[0] = -1
                elif isinstance(v, dict):
                    v["a"].append(5)
                else:
                    v += 1.0
            dump = {}
            for k in keys:
                arr = h[k]
                if arr is not None:
                    dump[k] = [None if e is None else repr(e) for e in arr]
            obs.append((res, dump))
            stats["ops"] += 1
        reqs.append({"cmd": "hist.run", "keys": keys, "ops": ops})
        runs.append((keys, ops, obs))
    res = ctx.driver.call_many(reqs)
    for (keys, ops, obs), mres in zip(runs, res):
        for i, ((r, dump), m) in enumerate(zip(obs, mres)):
            case = {"kind": "container", "keys": keys, "ops": ops[: i + 1]}
            merr = m.get("err")
            if (r != "ok") != (merr is not None) or (merr is not None and merr != r):
                if r not in ("ok", "ValueError"):
                    rep.violation("record_errors", SITE_C, f"op {i} {ops[i]}: raised {r} (ValueError expected for a negative iteration / undeclared key)", case)
                else:
                    rep.disagree("Hist.record ~ IterationHistory.record", f"op {i} {ops[i]}: model {merr or 'ok'} impl {r}", case)
                break
            if m["data"] != dump:
                # which clause? a slot other than the one written changed -> frame; the written slot differs -> read-back/copy
                key, it = ops[i]["key"], ops[i]["it"]
                wrote = dump.get(key, [None] * (it + 1))[it] if r == "ok" and it >= 0 and key in dump and it < len(dump[key]) else None
                clause = "stored_copy_immutable" if any(m["data"].get(k) != dump.get(k) for k in dump if k != key) or (r == "ok" and wrote == ops[i]["val"]) else "get_record"
                rep.violation(clause, SITE_C, f"op {i} {ops[i]}: container holds {dump} but the recorded history is {m['data']}", case)
                break
    # OptimizeResult
    allowed = list(OptimizeResult._keys)
    n_res = 0
    rreqs, robs = [], []
    for _ in range(20 if ctx.quick else 200):
        r = OptimizeResult()
        ops, obs = [], []
        for _ in range(rng.randint(3, 25)):
            key = rng.choice(allowed + ["nope", "xx"])
            op = rng.choice(["set", "getitem", "getattr"])
            if op == "set":
                val = [rng.randint(0, 9)]
                try:
                    r[key] = val
                    o = "ok"
                except ValueError:
                    o = "ValueError"
                except Exception as ex:
                    o = type(ex).__name__
                ops.append({"op": op, "key": key, "val": repr(val)})
                val.append(99)        # caller mutates afterwards
            else:
                try:
                    v = r[key] if op == "getitem" else getattr(r, key)
                    o = {"val": repr(v)}
                except KeyError:
                    o = "KeyError"
                except AttributeError:
                    o = "AttributeError"
                except Exception as ex:
                    o = type(ex).__name__
                ops.append({"op": op, "key": key})
            obs.append(o)
            n_res += 1
        rreqs.append({"cmd": "res.run", "allowed": allowed, "ops": ops})
        robs.append((ops, obs))
    rres = ctx.driver.call_many(rreqs)
    for (ops, obs), m in zip(robs, rres):
        for i, (o, mo) in enumerate(zip(obs, m)):
            if o != mo:
                case = {"kind": "result_container", "ops": ops[: i + 1]}
                if ops[i]["op"] == "set" and ops[i]["key"] not in allowed and o != "ValueError":
                    rep.violation("unknown_key_rejected", "optimize_result.py:__setitem__", f"unknown key {ops[i]['key']} not rejected with ValueError (got {o})", case)
                elif isinstance(o, dict) and isinstance(mo, dict):
                    rep.violation("stored_copy_immutable", "optimize_result.py:__setitem__", f"field {ops[i]['key']} reads {o['val']} after the caller mutated the object it had passed (stored {mo['val']})", case)
                else:
                    rep.disagree("Res.set/get ~ OptimizeResult", f"op {i} {ops[i]}: model {mo} impl {o}", case)
                break
    stats["result_ops"] = n_res
    return stats


def edge_seed_specs(ctx):
    """Runs whose random_seed is an edge value (0, 1, 2^32 - 1): the result must report the seed the problem specified."""
    from .. import gen
    rng = ctx.sub_rng("c19seed")
    specs = []
    for seed in ([0, 0, 2 ** 32 - 1] if ctx.quick else [0, 0, 0, 1, 2 ** 31 - 1, 2 ** 32 - 1]):
        mode = rng.choice(["det", "decl", "auto"])
        sp = gen.make_spec(rng, D=rng.choice([1, 2]), mode=mode, geom=rng.choice(["box", "tight", "x0_absent"]), cons=None, target="quad", seed=seed)
        sp["options"] = {"n_search": 32, "max_fun_evals": (sp["D"] + 25) if mode == "det" else 60, "noise_final_samples": 2}
        specs.append(sp)
    return specs


def stobads_specs(ctx):
    """Noisy runs with options['stobads'] (a different incumbent-update policy, where a poll may 'move' the incumbent onto itself): the
    recorded (x, yval) pairs must still be pairs that were observed.  Checked against the property's predicates only."""
    from .. import gen
    rng = ctx.sub_rng("c19sto")
    specs = []
    for _ in range(24 if ctx.quick else 120):
        mode = rng.choice(["decl", "decl", "he", "auto"])
        sp = gen.make_spec(rng, D=rng.choice([1, 1, 2]), mode=mode, geom=rng.choice(["box", "tight"]), cons=None, target=rng.choice(["quad", "abs"]))
        sp["options"] = {"n_search": 32, "max_fun_evals": rng.randint(45, 130), "stobads": True, "noise_final_samples": rng.choice([0, 2])}
        specs.append(sp)
    return specs


def he_repeat_specs(ctx):
    """One-dimensional runs under specified noise whose reported SD differs from call to call: repeats of a logged point are merged into its
    record, and the merged value (which becomes the recorded yval) must stay within the range of what was observed there."""
    from .. import gen
    rng = ctx.sub_rng("c19he")
    specs = []
    for _ in range(6 if ctx.quick else 40):
        sp = gen.make_spec(rng, D=1, mode="he", geom=rng.choice(["box", "tight"]), cons=None, opt_loc="inside", target=rng.choice(["quad", "abs"]))
        sp["sd_jitter"] = True
        sp["noise"] = rng.choice([0.3, 1.0])
        sp["options"] = {"n_search": 32, "max_fun_evals": rng.choice([90, 130]), "noise_final_samples": rng.choice([0, 2])}
        specs.append(sp)
    return specs


def start_point_is_a_snapshot(ctx, rep):
    """`result.x0` is the start point the problem was CONSTRUCTED with: a caller that re-uses its start vector for something else between
    construction and the end of the run (a multi-start driver filling one buffer) must not change what the run reports."""
    from pybads import BADS
    import numpy as np
    rng = ctx.sub_rng("c19x0")
    n = 0
    for shape in ("1d", "2d", "1d", "list"):
        D = rng.choice([1, 2, 3])
        start = [round(rng.uniform(-1.5, 2.5), 3) for _ in range(D)]
        x0 = np.array(start) if shape == "1d" else np.array([start]) if shape == "2d" else list(start)
        calls = []
        def f(x):
            calls.append([float(v) for v in np.ravel(x)])
            return float(np.sum(np.asarray(x) ** 2))
        b = BADS(f, x0, np.full(D, -4.0), np.full(D, 6.0), np.full(D, -2.0), np.full(D, 3.0), options={"display": "off", "max_fun_evals": D + 14, "random_seed": 3})
        if shape != "list":
            x0[...] = 5.5                      # the caller's buffer is re-used after construction
        res = b.optimize()
        n += 1
        got = [float(v) for v in np.ravel(res["x0"])]
        case = {"kind": "x0_snapshot", "D": D, "shape": shape, "start": start}
        if got != start:
            rep.violation("x0_is_the_start", "bads.py:__init__ / optimize_result.py", f"result.x0 = {got} for a problem constructed with the start point {start} "
                          f"(given as a {shape} array that the caller overwrote after construction; first evaluation at {calls[0] if calls else None})", case)
    return n


def seed_reported_is_the_seed_used(ctx, rep):
    """`result.random_seed` agrees with the problem as it was RUN: the seed set on the instance's options before optimize() (given at
    construction, set or replaced afterwards, or removed) is the one the run applies to the generator and the one the result reports."""
    from pybads import BADS
    import numpy as np
    rng = ctx.sub_rng("c19seed2")
    n = 0
    for at_construction, later in ((None, 11), (5, 11), (5, "remove"), (7, 7), (None, 0)):
        D = rng.choice([1, 2])
        opts = {"display": "off", "max_fun_evals": D + 12}
        if at_construction is not None:
            opts["random_seed"] = at_construction
        b = BADS(lambda x: float(np.sum(np.asarray(x) ** 2)), np.full(D, 0.3), np.full(D, -4.0), np.full(D, 6.0), np.full(D, -2.0), np.full(D, 3.0), options=opts)
        if later == "remove":
            b.options["random_seed"] = None
        else:
            b.options["random_seed"] = later
        want = None if later == "remove" else later
        applied = []
        o_seed = np.random.seed
        def spy(*a, **k):
            applied.append(a[0] if a else None)
            return o_seed(*a, **k)
        np.random.seed = spy
        try:
            res = b.optimize()
        finally:
            np.random.seed = o_seed
        n += 1
        case = {"kind": "seed_report", "D": D, "at_construction": at_construction, "later": later}
        got = res["random_seed"]
        if got != want:
            rep.violation("result_random_seed", "bads.py:_init_optimization_ / optimize_result.py", f"result.random_seed = {got!r} for a run whose options['random_seed'] was {want!r} when optimize() was "
                          f"called (seed at construction: {at_construction!r}; the run applied seed {applied[:1]} to the generator)", case)
    return n


class _CountingTarget:
    """a stateful callable object (a model with a cache / an evaluation counter), picklable and deep-copyable"""
    def __init__(self, shift):
        self.shift, self.n_calls, self.trace = shift, 0, []

    def __call__(self, x):
        import numpy as np
        self.n_calls += 1
        self.trace.append(float(np.sum(np.asarray(x))))
        return float(np.sum((np.asarray(x) - self.shift) ** 2))


class _CountingCons:
    def __init__(self):
        self.n_calls = 0

    def __call__(self, X):
        import numpy as np
        self.n_calls += 1
        return np.sum(np.atleast_2d(X) ** 2, axis=1) > 25.0


def result_holds_copies_of_callables(ctx, rep):
    """`result.fun` / `result.non_box_cons` for a target / constraint given as stateful callable OBJECTS: what the result holds is a copy
    as of the end of the run - using the objects again afterwards (the caller evaluating its model once more, a second optimize()) must not
    change what the first result reports."""
    from pybads import BADS
    import numpy as np
    rng = ctx.sub_rng("c19callable")
    n = 0
    for later in ("call", "second_run", "call"):
        D = rng.choice([1, 2])
        tgt, cons = _CountingTarget(0.4), (_CountingCons() if later != "call" or rng.random() < 0.5 else None)
        b = BADS(tgt, np.full(D, 0.3), np.full(D, -4.0), np.full(D, 6.0), np.full(D, -2.0), np.full(D, 3.0), non_box_cons=cons,
                 options={"display": "off", "max_fun_evals": D + 14, "random_seed": 3})
        res = b.optimize()
        n += 1
        case = {"kind": "result_callable", "D": D, "later": later, "constrained": cons is not None}
        before = (getattr(res["fun"], "n_calls", None), len(getattr(res["fun"], "trace", [])), getattr(res["non_box_cons"], "n_calls", None) if cons is not None else None)
        if later == "call":
            tgt(np.full(D, 0.1)); tgt(np.full(D, 0.2))
            if cons is not None:
                cons(np.full((1, D), 0.1))
        else:
            try:
                b.optimize()
            except Exception:
                pass
        after = (getattr(res["fun"], "n_calls", None), len(getattr(res["fun"], "trace", [])), getattr(res["non_box_cons"], "n_calls", None) if cons is not None else None)
        if after != before:
            rep.violation("result_holds_copies", "optimize_result.py:__setitem__", f"the (calls, trace length, constraint calls) state of result.fun / result.non_box_cons changed from {before} to {after} "
                          f"after the run that produced the result had ended ({'the caller used its target object again' if later == 'call' else 'optimize() was called a second time'}): the result holds the live objects, not copies", case)
    return n


def run(ctx):
    rep = Report()
    cstats = container_level(ctx, rep)
    cstats["callable_copies"] = result_holds_copies_of_callables(ctx, rep)
    cstats["x0_snapshots"] = start_point_is_a_snapshot(ctx, rep)
    cstats["seed_reports"] = seed_reported_is_the_seed_used(ctx, rep)
    runlevel.with_extra(ctx, "c19he", lambda: he_repeat_specs(ctx))
    runlevel.with_extra(ctx, "c19sto", lambda: stobads_specs(ctx))
    runlevel.with_extra(ctx, "c19seed", lambda: edge_seed_specs(ctx))
    stats, samples = runlevel.noisy_replay(ctx, rep, ctx.pid)
    fstats = runlevel.full_replay(ctx, rep)
    # ONE WHOLE CALL of optimize() (Opt.init + Full.step + Opt.finish, the model of Props/C19Opt.lean): every pool run through the whole-call model
    wstats = runlevel.whole_replay(ctx, rep)
    rep.coverage = {
        "whole_run_model": wstats,
        "composed_model": fstats,
        "evaluations": stats["iterations"] + stats["final_selects"] + cstats["ops"] + cstats["result_ops"],
        "distinct_nontrivial": stats["moves"] + stats["reevals"] + stats["final_selects"] + cstats["overwrites"] + cstats["errors"],
        "rule": "run level: one evaluation = one loop iteration / final selection of a traced run replayed through Noisy.iterStep (see C05); every recorded iterate checked against the run's own call log "
                "(x evaluated, yval observed there / within the range of the observations there under specified noise), func_count monotone, returned x is a recorded iterate, result fields vs problem and final state. "
                "container level: random record/overwrite/invalid sequences with mutable values mutated after recording on IterationHistory, set/get-by-key/get-by-attribute on OptimizeResult; "
                "non-trivial = incumbent moves + re-estimations + overwrites + rejected operations; composed model: every run (all noise modes) replayed through Full.step "
                "(candidate sets, picks, returned values and GP estimates in; evaluated points, derived improvements, incumbent estimate, recording index, counters and mesh out)",
        "samples": samples, "traces_validated_against_impl": stats["runs"], "stats": stats, "container": cstats,
    }
    rep.assumptions = ["deep-copy (aliasing) behaviour is heap behaviour: covered by the differential, not by a theorem"]
    return rep


def replay(ctx, data):
    rep = Report()
    c = data["case"]
    if c.get("kind") in ("container", "result_container"):
        container_level(ctx, rep)
        return rep
    if c.get("kind") == "x0_snapshot":
        start_point_is_a_snapshot(ctx, rep)
        return rep
    if c.get("kind") == "result_callable":
        result_holds_copies_of_callables(ctx, rep)
        return rep
    if c.get("kind") == "seed_report":
        seed_reported_is_the_seed_used(ctx, rep)
        return rep
    from .. import tracer
    ctx._pool = [tracer.run_traced(c["spec"])]
    runlevel.noisy_replay(ctx, rep, ctx.pid)
    return rep


from .c05 import widen  # noqa: E402  (same widened search, property id from ctx)
