"""C15 - the GP surrogate is conditioned on real, nearby observations: every training-set selection, posterior
update and acquisition call of the traced runs vs GP.neighbors / addPoint / lcb."""
import math
import numpy as np
from fractions import Fraction
from ..core import Report
from ..proto import enc, enc_pt
from . import runlevel

SITE_N = "gaussian_process_train.py:get_grid_search_neighbors"
SITE_A = "gaussian_process_train.py:add_and_update_gp"
SITE_Q = "acq_fcn_lcb.py:acq_fcn_lcb"

# case kinds of corpus/ entries (failing inputs of past regressions) that this module replays on every run
CORPUS_KINDS = ('gp_run',)



def sqrt_beta(D, fc):
    t = fc + 1
    return math.sqrt(0.2 * 2 * math.log(D * t ** 2 * math.pi ** 2 / (6 * 0.1)))


def he_specs(ctx):
    from .. import gen
    rng = ctx.sub_rng("c15he")
    specs = []
    for _ in range(5 if ctx.quick else 40):
        sp = gen.make_spec(rng, D=rng.choice([1, 1, 2]), mode="he", geom=rng.choice(["box", "tight", "logbox"]), cons=None, opt_loc="inside", target=rng.choice(["quad", "abs"]))
        sp["options"] = {"n_search": 32, "max_fun_evals": rng.choice([90, 120]), "noise_final_samples": rng.choice([0, 3])}
        specs.append(sp)
    return specs


def configured_beta_specs(ctx):
    """search_acq_fcn with a user-supplied annealing schedule sqrt_beta(t, D) (and a fixed scalar) instead of the built-in one."""
    from .. import gen
    rng = ctx.sub_rng("c15beta")
    specs = []
    for c in ("lambda t, d: np.sqrt(0.4 * np.log(d * t ** 2 * 1.6449 / 0.1))", "lambda t, d: 3.0 / np.sqrt(t)", "1.5", "0", "0.0") + \
            (() if ctx.quick else ("lambda t, d: 1.0 + 0.01 * t", "lambda t, d: np.log(t + d)", "0.25")):
        sp = gen.make_spec(rng, D=rng.choice([1, 2]), mode=rng.choice(["det", "decl"]), geom="box", cons=None, opt_loc="inside", target="quad")
        sp["options"] = {"n_search": 32, "max_fun_evals": 40 if sp["mode"] == "det" else 70}
        sp["np_options"] = {"search_acq_fcn": f"('acq_LCB', {c})"}
        specs.append(sp)
    return specs


def far_basin_specs(ctx):
    """Hard bounds far wider than the plausible box, optimum and start ~1e4 plausible half-widths out, narrow basin: the incumbent has large
    coordinates in length-scale units while the logged points around it are close together (fine mesh)."""
    from .. import gen
    rng = ctx.sub_rng("c15far")
    specs = []
    for _ in range(3 if ctx.quick else 20):
        D = rng.choice([2, 2, 3])
        sp = gen.make_spec(rng, D=D, mode="det", geom="farbasin", cons=None, opt_loc="inside", target="cauchy")
        sp["c_abs"] = [rng.choice([-1, 1]) * round(rng.uniform(1.5e4, 6e4), 3) for _ in range(D)]
        sp["w_abs"] = [rng.choice([0.3, 0.1, 0.03]) for _ in range(D)]
        sp["options"] = {"max_fun_evals": rng.choice([150, 200])}
        specs.append(sp)
    return specs


def long_log_specs(ctx):
    """Logs several times longer than the training-set limit (small n_train_max / n_train_min, enough evaluations): the surrogate is then conditioned
    on a small part of the log, and the selection - nearest first, ordered by distance, capped - is exercised where a selection over a LONG log could
    take a different code path than over a short one."""
    from .. import gen
    rng = ctx.sub_rng("c15long")
    specs = []
    for mode, ntmax, ntmin in ((("det", 10, 5), ("det", 8, 4), ("decl", 12, 6)) if ctx.quick else
                               (("det", 10, 5), ("det", 8, 4), ("decl", 12, 6), ("he", 12, 6), ("det", 15, 15), ("auto", 10, 5), ("det", 16, 4), ("det", 12, 10))):
        sp = gen.make_spec(rng, D=rng.choice([1, 2, 2]), geom=rng.choice(["box", "tight", "unbounded"]), mode=mode, cons=None, target=rng.choice(["quad", "abs"]))
        sp["options"] = {"n_search": 32, "n_train_max": ntmax, "n_train_min": ntmin, "max_fun_evals": 110 if mode == "det" else 140, "noise_final_samples": 0}
        specs.append(sp)
    return specs


def checks(ctx, rep):
    if getattr(ctx, "_c15_extra", True) and not getattr(ctx, "_replaying", False):
        runlevel.with_extra(ctx, "c15he", lambda: he_specs(ctx))
        runlevel.with_extra(ctx, "c15far", lambda: far_basin_specs(ctx))
        runlevel.with_extra(ctx, "c15long", lambda: long_log_specs(ctx))
        runlevel.with_extra(ctx, "c15beta", lambda: configured_beta_specs(ctx))
        # runs with LinAlgError injected into GP.fit (C16's pool): the surrogate must stay conditioned on the selected set through the retries
        from . import c16
        _meta, faulted = c16.fault_pool(ctx)
        ctx._pool = list(ctx._pool) + [t for t in faulted if "tracer_error" not in t]
        # runs in which one posterior update inside local_gp_fitting fails (Cholesky failure): the fallback must keep the freshly selected set
        from .. import gen, tracer
        rng = ctx.sub_rng("c15upd")
        jobs = []
        # schedules: every 2nd / 3rd / 4th posterior update fails (so that some failures fall on the first fit after a poll, when the log has
        # grown since the surrogate was last rebuilt), and single failures
        scheds = [list(range(1, 120, 2)), list(range(0, 120, 3)), list(range(2, 120, 4)), [2], [5], [8]]
        if not ctx.quick:
            scheds += [[k] for k in (1, 3, 4, 6, 11, 15)] + [list(range(k, 120, 5)) for k in range(5)]
        for sched in scheds:
            for mode in ("det", "decl"):
                sp = gen.make_spec(rng, D=rng.choice([1, 2, 3]), mode=mode, geom=rng.choice(["box", "tight"]), cons=None, target=rng.choice(["quad", "abs"]))
                sp["options"] = {"n_search": 32, "max_fun_evals": (sp["D"] + 35) if mode == "det" else 75, "noise_final_samples": 0}
                jobs.append((sp, {"update_faults": sched}))
        upd = tracer.cached("c15upd", ctx.seed, ctx.tier, lambda: jobs)
        ctx._pool = list(ctx._pool) + [t for t in upd if "tracer_error" not in t]
    traces = runlevel.get_pool(ctx)
    reqs, owners = [], []
    stats = {"runs": 0, "neigh": 0, "gpadd": 0, "acq": 0, "neigh_truncated": 0, "noise_sets": 0, "repeated_point_logs": 0, "per_coord_len_scale": 0,
             "merged_adds": 0, "localfits": 0, "localfits_in_faulted_runs": 0}
    for t in traces:
        if not t["constructed"]:
            continue
        sp = t["spec"]
        tag = runlevel.spec_tag(sp)
        case = {"kind": "gp_run", "spec": sp}
        if t.get("gp_faults"):
            case["gp_faults"] = t["gp_faults"]
        if t.get("update_faults"):
            case["update_faults"] = t["update_faults"]
        stats["runs"] += 1
        D = t["hdr"]["D"]
        reported = set()
        def viol(clause, site, msg):
            if clause not in reported:
                reported.add(clause)
                rep.violation(clause, site, msg + "; " + tag, case)
        last_neigh = None
        after_poll = False
        for k, e in t["events"]:
            if k == "POLL":
                after_poll = True
            if k == "LOCALFIT":
                stats["localfits"] += 1
                stats["localfits_in_faulted_runs"] += bool(t.get("gp_faults"))
                if last_neigh is not None:
                    a = sorted((tuple(r), y) for r, y in zip(last_neigh["X"], last_neigh["Y"]))
                    b = sorted((tuple(r), y) for r, y in zip(e["X"], e["y"]))
                    if a != b:
                        viol("fitted_on_selected_set", "gaussian_process_train.py:local_gp_fitting",
                             f"the surrogate returned by the local fit holds {len(b)} training pairs, the selected neighbourhood of the incumbent has {len(a)}"
                             + (f" (LinAlgError injected at GP.fit invocations {t.get('gp_faults')})" if t.get("gp_faults") else "")
                             + (f" (LinAlgError injected at posterior update #{t.get('update_faults')} of local_gp_fitting)" if t.get("update_faults") else ""))
            if k == "NEIGH":
                last_neigh = e
                stats["neigh"] += 1
                n = e["n_log"]
                logX, logY, logS = e["logX"], e["logY"], e["logS"]
                X, Y, S = e["X"], e["Y"], e["S"]
                dist = e["dist"]
                stats["noise_sets"] += S is not None
                stats["repeated_point_logs"] += len({tuple(r) for r in logX}) < n
                stats["per_coord_len_scale"] += isinstance(e["len_scale"], list)
                stats["neigh_truncated"] += len(X) < n
                # ---- the reference point of the selection is the CURRENT incumbent (not whatever point the caller handed over) ----
                # (checked at the first selection after a poll step: within a round of searches the centre deliberately stays where the round began)
                # ... and at EVERY selection made inside a poll step (the incumbent does not move before the poll step ends)
                if e.get("u_best") is not None and ((e["phase"] in ("search", "poll") and after_poll) or e["phase"] == "poll"):
                    after_poll = False
                    stats["ref_point_checked"] = stats.get("ref_point_checked", 0) + 1
                    if e["u_best"] != e["u"]:
                        viol("centred_on_incumbent", SITE_N, f"the training set is selected around {e['u']} while the current incumbent is {e['u_best']} ({e['phase']} step)")
                # ---- clauses on the implementation's training set ----
                rows = {}
                for i in range(n):
                    rows.setdefault((tuple(logX[i]), logY[i]), []).append(i)
                idxs = []
                ok = True
                for j in range(len(X)):
                    cand = rows.get((tuple(X[j]), Y[j]))
                    if not cand:
                        viol("pairs_are_log_rows", SITE_N, f"training pair #{j} (x,y) is not a row of the evaluation log")
                        ok = False
                        break
                    i = next((c for c in cand if c not in idxs), cand[0])
                    idxs.append(i)
                    if S is not None:
                        want = logS[i] ** 2
                        if math.isnan(want) and math.isnan(S[j]):
                            continue        # unknown-noise mode: no SD is logged (NaN), none reaches the GP
                        if not (abs(S[j] - want) <= 1e-12 * max(1.0, abs(want))):
                            viol("noise_as_variance", SITE_N, f"training noise entry {S[j]} is not the logged SD squared ({logS[i]}^2 = {want})")
                            ok = False
                            break
                if ok:
                    # judged in the length-scaled metric computed by the harness (differences first); relative slack 1e-6 for rounding
                    dr = e.get("dist_ref") or dist
                    ds = [dr[i] for i in idxs]
                    if any(b < a * (1 - 1e-6) for a, b in zip(ds, ds[1:])):
                        viol("ordered_by_distance", SITE_N, f"training set not ordered by distance: {ds[:6]}")
                    rest = [dr[i] for i in range(n) if i not in set(idxs)]
                    if rest and ds and min(rest) < max(ds) * (1 - 1e-6):
                        viol("nearest", SITE_N, f"a logged point at distance {min(rest)} is left out while one at {max(ds)} is in the training set")
                    nmin, nmax = int(e["n_min"]), int(e["n_max"])
                    if not (min(nmin, n) <= len(X) <= min(nmax, n)):
                        viol("size", SITE_N, f"training set size {len(X)} outside [min({nmin},{n}), min({nmax},{n})]")
                # ---- model request ----
                if all(math.isfinite(d) for d in dist) and all(math.isfinite(v) for v in logY):
                    reqs.append({"cmd": "gp.neighbors", "log": [{"x": enc_pt(logX[i]), "y": enc(logY[i]), "s": (enc(logS[i]) if logS is not None and math.isfinite(logS[i]) else None)} for i in range(n)],
                                 "dist": [enc(d) for d in dist], "radius2": enc(e["radius2"] if not isinstance(e["radius2"], list) else e["radius2"][0]),
                                 "nMin": int(e["n_min"]), "nMax": int(e["n_max"]), "buffer": int(e["buffer"])})
                    owners.append((case, tag, X, Y, S, dist))
            elif k == "GPADD":
                stats["gpadd"] += 1
                if e["n_after"] != e["n_before"] + 1:
                    viol("add_one_row", SITE_A, f"posterior update changed the training set size from {e['n_before']} to {e['n_after']}")
                if e["last_X"] != e["x_new"] or e["last_y"] != e["y_new"]:
                    viol("added_pair_is_evaluated", SITE_A, "the appended training pair is not the evaluated point with its value")
                # merged into an existing record: the record is another row, or it is the last row and holds more than one observation
                merged = e["log_last_X"] != e["x_new"] or e.get("log_last_n", 1) > 1
                stats["merged_adds"] += merged
                if not merged and e["log_last_Y"] != e["y_new"]:
                    viol("added_pair_is_log_row", SITE_A, f"appended value {e['y_new']} differs from the logged value {e['log_last_Y']}")
                if e["specify"] and e["sd_new"] is not None and e["last_s2"] is not None:
                    want = e["sd_new"] ** 2
                    if not (abs(e["last_s2"] - want) <= 1e-12 * max(1.0, abs(want))):
                        viol("noise_as_variance", SITE_A, f"appended noise entry {e['last_s2']} is not the reported SD squared ({e['sd_new']}^2 = {want})")
                if e["specify"] and not merged and e["last_s2"] is not None and e.get("log_last_S") is not None and math.isfinite(e["log_last_S"]):
                    # ... and it is the LOGGED SD of that evaluation squared (whatever the caller handed to the update as "its SD")
                    want = e["log_last_S"] ** 2
                    if not (abs(e["last_s2"] - want) <= 1e-12 * max(1.0, abs(want))):
                        viol("noise_as_variance", SITE_A, f"appended noise entry {e['last_s2']} is not the logged SD squared ({e['log_last_S']}^2 = {want})")
                if merged and e["specify"]:
                    # the observation was merged into an existing record: the log now holds ONE record (x, merged Y, merged S) for this point,
                    # the GP gets a second row for x whose noise entry is the single observation's
                    if "merged_add" not in reported:
                        reported.add("merged_add")
                        rep.violation("merged_add_is_log_row", SITE_A, "after a repeated observation was merged into its record under specified noise, the posterior update appends a second training row "
                                      f"for the same point (noise {e['last_s2']}) instead of conditioning on the merged record; the stale pre-merge row stays until the next local refit; {tag}",
                                      dict(case, tags={"merged_add": True}))
            elif k == "ACQ":
                stats["acq"] += 1
                cfg = (sp.get("np_options") or {}).get("search_acq_fcn") if e["site"] == "es" else None
                if cfg and eval(cfg, {"np": np})[1] is None:
                    cfg = None
                if cfg or e["sqrt_beta_arg"] not in (None, "None"):
                    # a configured confidence parameter (search_acq_fcn = ('acq_LCB', c) / ('acq_LCB', schedule)): the documented meaning of a
                    # schedule is sqrt_beta(t, D) with t = func_count + 1, the same t as the built-in schedule uses.  What counts is what the
                    # USER configured for the search stage, not what reached the acquisition function
                    if not cfg:
                        continue
                    par = eval(cfg, {"np": np})[1]
                    sb = float(par(e["fc"] + 1, e["D"])) if callable(par) else float(par)
                    stats["configured_beta_acq"] = stats.get("configured_beta_acq", 0) + 1
                else:
                    sb = sqrt_beta(e["D"], e["fc"])
                for z, mu, s in zip(e["z"], e["mu"], e["s"]):
                    if not all(math.isfinite(v) for v in (z, mu, s)):
                        continue
                    want = mu - sb * s
                    if abs(z - want) > 1e-9 * max(1.0, abs(want)):
                        viol("lcb_formula", SITE_Q, f"acquisition value {z} != mean - sqrt(beta_t)*sd = {want} (t={e['fc'] + 1}, D={e['D']})")
                        break
    # ---- the surrogate over the WHOLE RUN: event sequence replayed through GP.sstep (log snapshots given) and SurRun.jstep (log derived) ----
    from . import gprun

    def case_of(t):
        c = {"kind": "gp_run", "spec": t["spec"]}
        for key in ("gp_faults", "update_faults"):
            if t.get(key):
                c[key] = t[key]
        return c
    gprun.replay_runs(ctx, rep, [t for t in traces if t["constructed"]], stats, case_of, lambda t: runlevel.spec_tag(t["spec"]))
    res = ctx.driver.call_many(reqs)
    for (case, tag, X, Y, S, dist), m in zip(owners, res):
        mt = m["train"]
        if len(mt) != len(X):
            rep.disagree("GP.neighbors ~ get_grid_search_neighbors", f"model picks {len(mt)} points, run {len(X)}; {tag}", case)
            continue
        # compare as multisets of (x, y) (ties in distance may be ordered differently)
        a = sorted((tuple(r["x"]), r["y"]) for r in mt)
        b = sorted((tuple(enc_pt(x)), enc(y)) for x, y in zip(X, Y))
        if a != b:
            # tolerate tie at the cut-off distance
            dd = sorted(dist)
            cut = dd[len(X) - 1] if X else None
            ties = [d for d in dist if d == cut]
            if len(ties) <= 1:
                rep.disagree("GP.neighbors ~ get_grid_search_neighbors", f"model and run pick different training points; {tag}", case)
    return stats


def run(ctx):
    rep = Report()
    stats = checks(ctx, rep)
    rep.coverage = {
        "evaluations": stats["neigh"] + stats["gpadd"] + stats["acq"], "distinct_nontrivial": stats["neigh_truncated"] + stats["noise_sets"] + stats["gpadd"],
        "rule": "every get_grid_search_neighbors call (training-set selection incl. history re-evaluation), every add_and_update_gp call and every acq_fcn_lcb call of the traced runs; selection compared with GP.neighbors "
                "on the same log snapshot and distances (udist output is oracle); clauses evaluated on the implementation's arrays; non-trivial = selections that dropped logged points + sets with a noise vector + posterior updates; "
                "in addition the event sequence of every run (initial training, every local re-selection with its fit attempts, every posterior update) is replayed through the state machines GP.srun "
                "(log snapshots given) and SurRun.jrun (evaluation log derived by the logger model from the run's target calls) and the training set compared after every event (stats seq_*/joint_*)",
        "samples": [{"see": "NEIGH/GPADD/ACQ events in harness/tracer.py"}], "traces_validated_against_impl": stats["runs"], "stats": stats,
    }
    rep.assumptions = ["distances (udist), GP predictions and sqrt(beta_t) are oracle values; beta_t is recomputed from the documented schedule with numpy"]
    return rep


def replay(ctx, data):
    rep = Report()
    from .. import tracer
    ctx._pool = [tracer.run_traced(data["case"]["spec"], gp_faults=data["case"].get("gp_faults"), update_faults=data["case"].get("update_faults"))]
    ctx._replaying = True
    checks(ctx, rep)
    return rep


def widen(ctx, rep0):
    return Report()
