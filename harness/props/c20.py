"""C20 - options: user settings win, unknown names rejected, no leaks between instances, caller's objects untouched.

BADS.options after construction vs Opt.load (the model returns provenance terms: 'user:k' or 'default:<expression>|D=..|sees=<user names visible>');
defaults are evaluated independently by the harness from the ini text; multi-instance orders; aliasing of the caller's dict/arrays."""
import copy, math, os
import numpy as np
from ..core import Report

SITE = "options.py:Options / bads.py:__init__"


def files():
    import pybads.bads.options as om
    from pybads.bads.options import _read_config_file
    base = os.path.join(os.path.dirname(om.__file__), "option_configs")
    b = [(r[0], r[1]) for r in _read_config_file(os.path.join(base, "basic_bads_options.ini"))]
    a = [(r[0], r[1]) for r in _read_config_file(os.path.join(base, "advanced_bads_options.ini"))]
    return b, a


def eval_default(expr, D, final):
    class S:
        def get(self, k, d=None):
            return final.get(k, d)
    return eval(expr, {"np": np, "D": D, "self": S()})


def same(a, b):
    if callable(a) and callable(b):
        return True
    try:
        if isinstance(a, np.ndarray) or isinstance(b, np.ndarray):
            return np.array_equal(np.asarray(a), np.asarray(b), equal_nan=True)
        if isinstance(a, float) and isinstance(b, float) and math.isnan(a) and math.isnan(b):
            return True
        return type(a) == type(b) and a == b or (a == b and not isinstance(a, bool) and not isinstance(b, bool))
    except Exception:
        return a is b


def override_value(key, default, rng):
    """A distinct, type-compatible value for an option (so that the run of the constructor still makes sense)."""
    special = {"display": "off", "init_fun": "init_sobol", "gp_mean_fun": "zero", "search_method": [("ES-ell", 1)], "poll_acq_fcn": ("acq_LCB", None),
               "search_acq_fcn": ("acq_LCB", None), "periodic_vars": None, "fun_values": {}, "f_vals": None, "output_fcn": None, "plot": False,
               "uncertainty_handling": True, "specify_target_noise": False, "random_seed": 12345, "noise_size": 0.7, "stobads": False, "gp_cov_fun": 1}
    if key in special:
        return special[key]
    if isinstance(default, bool):
        return not default
    if isinstance(default, (int, np.integer)):
        return int(default) + rng.choice([1, 2, 7])
    if isinstance(default, (float, np.floating)):
        return float(default) * rng.choice([0.5, 2.0, 3.0]) if math.isfinite(default) and default != 0 else 0.25
    if isinstance(default, str):
        return default
    if isinstance(default, np.ndarray):
        return default + 1
    return default


def construct(D, user, rng_seed=0, geom="linear", row=False, x0_kind="inside"):
    from pybads import BADS
    x0 = np.linspace(0.1, 0.5, D)
    lb, ub, plb, pub = np.full(D, -5.0), np.full(D, 5.0), np.full(D, -2.0), np.full(D, 2.0)
    if geom == "log":          # every second coordinate positive over more than a decade: log-transformed internally
        for i in range(0, D, 2):
            lb[i], ub[i], plb[i], pub[i] = 1e-3, 10.0, 0.05, 5.0
    # start points that the constructor has to move (on a hard bound / within the 0.1% margin of it / outside the plausible box):
    # the moved copy is BADS's own business, the caller's array must stay as it was
    if x0_kind == "on_bound":
        x0[0] = lb[0]; x0[-1] = ub[-1]
    elif x0_kind == "near_bound":
        x0[0] = lb[0] + 1e-6 * (ub[0] - lb[0]); x0[-1] = ub[-1] - 1e-5 * (ub[-1] - lb[-1])
    elif x0_kind == "outside_plausible":
        x0[-1] = 0.5 * (pub[-1] + ub[-1])
    elif x0_kind == "matrix_row":
        M = np.vstack([x0, x0 + 0.1, x0])
        M[1, 0] = lb[0]
        x0 = M[1]
    if row:
        x0, lb, ub, plb, pub = (np.atleast_2d(a) for a in (x0, lb, ub, plb, pub))
    keep = {"x0": x0.copy(), "lb": lb.copy(), "ub": ub.copy(), "plb": plb.copy(), "pub": pub.copy()}
    ucopy = copy.deepcopy({k: v for k, v in user.items() if not callable(v)})
    b = BADS(lambda x: float(np.sum(np.asarray(x) ** 2)), x0, lb, ub, plb, pub, options=user)
    mutated = [k for k, (arr, old) in {"x0": (x0, keep["x0"]), "lb": (lb, keep["lb"]), "ub": (ub, keep["ub"]), "plb": (plb, keep["plb"]), "pub": (pub, keep["pub"])}.items()
               if not np.array_equal(arr, old)]
    dict_changed = [k for k in ucopy if not same(ucopy[k], user.get(k))] + [k for k in user if k not in ucopy and not callable(user[k])]
    return b, mutated, dict_changed


# options that `_init_optimization_` / `_init_mesh_` deliberately rescale from the supplied value when the target is noisy (bads.py l.1050-1076, l.962)
NOISY_RESCALED = ("tol_stall_iters", "n_train_max", "n_train_min", "mesh_overflow_warning", "min_failed_poll_steps", "mesh_noise_multiplier",
                  "noise_final_samples", "max_fun_evals", "fun_eval_start")


def mutable_values_through_a_run(ctx, rep):
    """User options whose values are mutable objects (lists, arrays) shared by the caller's dict and by several instances built from it:
    running one instance must leave the caller's dict, its own options and the other instance's options exactly as supplied."""
    from pybads import BADS
    rng = ctx.sub_rng("c20mut")
    n = 0
    variants = [{"search_method": [("ES-ell", 1), ("ES-wcm", 1)]}, {"search_method": [("ES-ell", 1), ("ES-wcm", 1), ("ES-ell", 0)]},
                {"noise_nudge": np.array([1.0, 0.0])}, {"search_method": [("ES-wcm", 1), ("ES-ell", 1)], "fun_values": {}}]
    # ... and falsy scalar values that are legitimate settings (0 samples, noise size 0, switches off), in the noise mode that reads them
    variants += [{"noise_size": 0, "specify_target_noise": True, "uncertainty_handling": True}, {"noise_final_samples": 0, "uncertainty_handling": True},
                 {"accelerate_mesh": False, "nonlinear_scaling": False, "complete_poll": False}]
    # every float-valued option supplied as a 0-d NumPy array holding its default value (a caller that computes its settings with NumPy), with three
    # ES iterations per search so that the strategies' adaptation steps run; deterministic and declared-noisy
    try:
        b0 = BADS(lambda x: 0.0, np.full(2, 0.3), np.full(2, -4.0), np.full(2, 6.0), np.full(2, -2.0), np.full(2, 3.0), options={"display": "off"})
        basic, adv = files()
        arr = {k: np.array(float(b0.options[k])) for k, _ in basic + adv
               if isinstance(b0.options[k], (float, np.floating)) and not isinstance(b0.options[k], bool) and np.isfinite(b0.options[k])}
        variants += [dict(arr, n_search_iter=3), dict(arr, n_search_iter=3, uncertainty_handling=True)]
    except Exception:
        pass
    for v in variants:
        D = rng.choice([1, 2])
        noisy = bool(v.get("uncertainty_handling"))
        user = dict(copy.deepcopy(v), display="off", max_fun_evals=(D + 22) if not noisy else 48, n_search=32, random_seed=rng.randint(1, 99))
        keep = copy.deepcopy(user)
        if v.get("specify_target_noise"):
            tf = lambda x: (float(np.sum(np.asarray(x) ** 2)) + 0.1 * np.random.randn(), 0.1)
        elif noisy:
            tf = lambda x: float(np.sum(np.asarray(x) ** 2)) + 0.1 * np.random.randn()
        else:
            tf = lambda x: float(np.sum(np.asarray(x) ** 2))
        mk = lambda: BADS(tf, np.full(D, 0.3), np.full(D, -4.0), np.full(D, 6.0), np.full(D, -2.0), np.full(D, 3.0), options=user)
        a, b = mk(), mk()
        try:
            a.optimize()
        except Exception as ex:
            rep.disagree("Opt.load ~ BADS (run with mutable option values)", f"optimize() raised {type(ex).__name__}: {str(ex)[:80]} with options {sorted(v)}", {"kind": "options_run", "user_keys": sorted(v)})
            continue
        n += 1
        case = {"kind": "options_run", "D": D, "user_keys": sorted(v)}
        for k in v:
            if not same(user[k], keep[k]):
                rep.violation("caller_dict_untouched", "bads.py / search_hedge.py (during optimize)", f"running an instance changed the caller's options dict: {k} = {user[k]!r}, supplied {keep[k]!r}", case)
            elif noisy and k in NOISY_RESCALED:
                pass        # documented run-time adjustment of the instance's OWN setting for noisy targets (the supplied value is the input of the rescaling)
            elif not same(a.options[k], keep[k]):
                rep.violation("user_value_kept", "options.py", f"after the run the instance's own option {k} = {a.options[k]!r} differs from the supplied {keep[k]!r}", case)
            elif not same(b.options[k], keep[k]):
                rep.violation("no_leak_between_instances", "options.py", f"running one instance changed option {k} of another instance built from the same dict: {b.options[k]!r}, supplied {keep[k]!r}", case)
    return n


def stobads_setting_kept(ctx, rep):
    """A user who switches the stochastic poll rule on (stobads=True) without declaring the noise (uncertainty_handling left unset: the
    start-up test decides) keeps that setting through construction, and through the run when the target turns out to be noisy."""
    from pybads import BADS
    n = 0
    for D, noisy_target, uh in ((1, True, None), (2, True, None), (2, True, True), (2, False, None)):
        user = {"stobads": True, "display": "off", "max_fun_evals": 60, "n_search": 32, "random_seed": 5}
        if uh is not None:
            user["uncertainty_handling"] = uh
        tf = (lambda x: float(np.sum(np.asarray(x) ** 2)) + 0.3 * np.random.randn()) if noisy_target else (lambda x: float(np.sum(np.asarray(x) ** 2)))
        b = BADS(tf, np.full(D, 0.3), np.full(D, -4.0), np.full(D, 6.0), np.full(D, -2.0), np.full(D, 3.0), options=dict(user))
        case = {"kind": "options_run", "D": D, "user_keys": sorted(user), "stobads": True}
        n += 1
        if b.options["stobads"] is not True:
            rep.violation("user_wins", SITE, f"D={D}: stobads=True supplied (uncertainty_handling={uh!r}) but after construction the instance has stobads={b.options['stobads']!r}", case)
            continue
        try:
            b.optimize()
        except Exception as ex:
            rep.disagree("Opt.load ~ BADS (run with stobads=True)", f"optimize() raised {type(ex).__name__}: {str(ex)[:80]}", case)
            continue
        if noisy_target and b.options["stobads"] is not True:
            rep.violation("user_value_kept", "bads.py:_init_optimization_", f"D={D}: stobads=True supplied for a target that the run treats as stochastic, but after the run the instance has "
                          f"stobads={b.options['stobads']!r}", case)
    return n


def seed_option_effective_when_interleaved(ctx, rep):
    """options['random_seed'] of an instance takes effect for ITS run whatever other instances (with their own seeds) were constructed or
    run between its construction and its optimize(): the points it evaluates are those of the same instance constructed and run alone."""
    from pybads import BADS
    rng = ctx.sub_rng("c20seed")
    n = 0
    for order in (("cA", "cB", "rA"), ("cA", "cB", "rB", "rA"), ("cB", "cA", "rB", "rA")) if ctx.quick else \
            (("cA", "cB", "rA"), ("cA", "cB", "rB", "rA"), ("cB", "cA", "rB", "rA"), ("cA", "cB", "rA", "rB"), ("cB", "rB", "cA", "rA"), ("cA", "cB", "cB", "rA")):
        D = rng.choice([1, 2, 2])
        sA, sB = rng.randint(1, 10 ** 5), rng.randint(1, 10 ** 5)
        noisy = rng.random() < 0.3

        def mk(seed, log, shift):
            def tf(x):
                log.append([float(v) for v in np.ravel(x)])
                return float(np.sum((np.asarray(x) - shift) ** 2)) + (0.1 * np.random.randn() if noisy else 0.0)
            o = {"display": "off", "max_fun_evals": (D + 30) if not noisy else 60, "n_search": 32, "random_seed": seed, "noise_final_samples": 0}
            if noisy:
                o["uncertainty_handling"] = True
            return BADS(tf, np.full(D, 0.3), np.full(D, -4.0), np.full(D, 6.0), np.full(D, -2.0), np.full(D, 3.0), options=o)
        case = {"kind": "options_run", "D": D, "user_keys": ["random_seed"], "order": list(order)}
        try:
            ref = []
            mk(sA, ref, 0.7).optimize()
            got, other = [], []
            inst = {}
            for step in order:
                if step == "cA":
                    inst["A"] = mk(sA, got, 0.7)
                elif step == "cB":
                    inst["B"] = mk(sB, other, -0.4)
                elif step == "rA":
                    inst["A"].optimize()
                else:
                    inst["B"].optimize()
        except Exception as ex:
            rep.disagree("Opt.load ~ BADS (interleaved instances)", f"{type(ex).__name__}: {str(ex)[:80]}", case)
            continue
        n += 1
        if got != ref:
            k = next((i for i, (a, b) in enumerate(zip(got, ref)) if a != b), min(len(got), len(ref)))
            rep.violation("user_wins", "bads.py:random_seed", f"D={D}: instance A (random_seed={sA}) constructed and run in the order {'-'.join(order)} with another instance B (random_seed={sB}) "
                          f"evaluates other points than A constructed and run alone (first difference at evaluation #{k}: {got[k] if k < len(got) else None} vs {ref[k] if k < len(ref) else None}): "
                          f"its own random_seed did not take effect for its run", case)
    return n


def options_survive_faulted_runs(ctx, rep):
    """Runs in which GP fits fail (and, with use_slice_sampler=True, the sampler that supplies the restart point fails too): whatever the
    recovery paths do, the options the user supplied still hold the supplied values afterwards."""
    from pybads import BADS
    import gpyreg as gpr
    import pybads.bads.gaussian_process_train as gpt
    rng = ctx.sub_rng("c20fault")
    n = 0
    variants = [{"use_slice_sampler": True}, {"use_slice_sampler": True, "gp_warnings": True, "double_refit": True},
                {"remove_points_after_tries": 1, "noise_nudge": np.array([1.0, 0.0])}, {"use_slice_sampler": True, "uncertainty_handling": True}]
    for v in variants:
        D = rng.choice([1, 2])
        noisy = bool(v.get("uncertainty_handling"))
        user = dict(copy.deepcopy(v), display="off", max_fun_evals=(D + 26) if not noisy else 52, n_search=32, random_seed=rng.randint(1, 99))
        keep = copy.deepcopy(user)
        tf = (lambda x: float(np.sum(np.asarray(x) ** 2)) + 0.1 * np.random.randn()) if noisy else (lambda x: float(np.sum(np.asarray(x) ** 2)))
        o_fit, o_ss, cnt = gpr.GP.fit, gpt.SliceSampler, [0, 0]
        fit_faults, ss_faults = {2, 3, 5, 8, 9}, {0, 2}

        def f_fit(self, *a, **k):
            i = cnt[0]; cnt[0] += 1
            if i in fit_faults:
                raise np.linalg.LinAlgError("injected: matrix not positive definite")
            return o_fit(self, *a, **k)

        class FaultySampler(o_ss):
            def sample(self, *a, **k):
                i = cnt[1]; cnt[1] += 1
                if i in ss_faults:
                    raise np.linalg.LinAlgError("injected: sampler failed")
                return super().sample(*a, **k)

        gpr.GP.fit, gpt.SliceSampler = f_fit, FaultySampler
        try:
            a = BADS(tf, np.full(D, 0.3), np.full(D, -4.0), np.full(D, 6.0), np.full(D, -2.0), np.full(D, 3.0), options=user)
            try:
                a.optimize()
            except Exception as ex:
                rep.disagree("Opt.load ~ BADS (run with failing GP fits)", f"optimize() raised {type(ex).__name__}: {str(ex)[:80]} with options {sorted(v)}", {"kind": "options_run", "user_keys": sorted(v)})
                continue
        finally:
            gpr.GP.fit, gpt.SliceSampler = o_fit, o_ss
        n += 1
        case = {"kind": "options_run", "D": D, "user_keys": sorted(v), "faulted": True}
        for k in v:
            if not same(user[k], keep[k]):
                rep.violation("caller_dict_untouched", "gaussian_process_train.py (recovery paths)", f"a run with failing GP fits changed the caller's options dict: {k} = {user[k]!r}, supplied {keep[k]!r}", case)
            elif noisy and k in NOISY_RESCALED:
                pass
            elif not same(a.options[k], keep[k]):
                rep.violation("user_value_kept", "gaussian_process_train.py (recovery paths)", f"after a run with failing GP fits (fit invocations {sorted(fit_faults)}, sampler calls {sorted(ss_faults)}) "
                              f"the instance's option {k} = {a.options[k]!r} differs from the supplied {keep[k]!r}", case)
    return n


def run(ctx):
    rep = Report()
    nmut = mutable_values_through_a_run(ctx, rep) + options_survive_faulted_runs(ctx, rep) + stobads_setting_kept(ctx, rep) + seed_option_effective_when_interleaved(ctx, rep)
    rng = ctx.sub_rng("c20")
    basic, adv = files()
    names = [k for k, _ in basic] + [k for k, _ in adv]
    defaults3, _, _ = None, None, None
    stats = {"constructions": 0, "override_subsets": 0, "names_overridden": set(), "unknown_rejected": 0, "dependent_checks": 0, "multi_instance_orders": 0, "runs_between": 0}
    bj = [{"k": k, "tok": t} for k, t in basic]
    aj = [{"k": k, "tok": t} for k, t in adv]
    # (1) every option name overridden (in random subsets), several D
    subsets = []
    pool = [n for n in names]
    rng.shuffle(pool)
    chunk = 6
    for i in range(0, len(pool), chunk):
        subsets.append(pool[i:i + chunk])
    for _ in range(10 if ctx.quick else 80):
        subsets.append(rng.sample(names, rng.randint(1, 12)))
    subsets += [["tol_fun"], ["tol_fun", "tol_noise"], ["tol_fun", "hedge_beta"], []]
    reqs, owners = [], []
    for sub in subsets:
        D = rng.randint(1, 6)
        base, _, _ = construct(D, {"display": "off"})
        user = {"display": "off"}
        for k in sub:
            user[k] = override_value(k, base.options[k], rng)
        if user.get("specify_target_noise"):
            user["uncertainty_handling"] = True
        case = {"kind": "options", "D": D, "user_keys": sorted(user)}
        try:
            b, mutated, dict_changed = construct(D, user, geom=rng.choice(["linear", "log", "log"]), row=rng.random() < 0.5,
                                                x0_kind=rng.choice(["inside", "on_bound", "near_bound", "outside_plausible", "matrix_row"]))
        except Exception as ex:
            rep.disagree("Opt.load ~ BADS.__init__", f"construction with overrides {sorted(user)} raised {type(ex).__name__}: {str(ex)[:80]}", case)
            continue
        stats["constructions"] += 1
        stats["override_subsets"] += 1
        stats["names_overridden"].update(sub)
        if mutated:
            rep.violation("caller_arrays_untouched", "bads.py:__init__", f"caller's arrays mutated: {mutated}", case)
        if dict_changed:
            rep.violation("caller_dict_untouched", "bads.py:__init__", f"caller's options dict changed: {dict_changed}", case)
        reqs.append({"cmd": "opt.load", "D": D, "basic": bj, "adv": aj, "user": sorted(user)})
        owners.append((case, D, user, dict(b.options)))
    for (case, D, user, got), m in zip(owners, ctx.driver.call_many(reqs)):
        if m["invalid"] is not None:
            rep.disagree("Opt.validate ~ validate_option_names", f"model rejects {m['invalid']} but construction succeeded", case)
            continue
        for k, term in m["options"].items():
            if term.startswith("user:"):
                if not same(got.get(k), user[k]) and not (k in ("stobads", "specify_target_noise", "uncertainty_handling") and got.get(k) in (False, None)):
                    rep.violation("user_wins", SITE, f"D={D}: user option {k}={user[k]!r} but the instance has {got.get(k)!r}", case)
            else:
                expr = term[len("default:"):].split("|D=")[0]
                try:
                    want = eval_default(expr, D, got)
                except Exception:
                    continue
                stats["dependent_checks"] += "self.get" in expr
                if k in ("stobads", "specify_target_noise", "uncertainty_handling"):
                    continue      # __init__ normalises None to False for these (unset by the user)
                if not same(got.get(k), want):
                    rep.violation("default_for_own_dimension", SITE, f"D={D}: option {k} = {got.get(k)!r}, its documented default ({expr}) evaluates to {want!r} (user overrides: {sorted(user)})", case)
        extra = set(got) - set(m["options"]) - {"useroptions"}
        if extra:
            rep.disagree("Opt.load ~ Options", f"implementation holds options the model does not: {sorted(extra)}", case)
    # (2) unknown names
    from pybads import BADS
    for bad in ["max_fun_eval", "tolmesh", "MaxFunEvals", "foo", "Display", "random seed"] + [n + "_" for n in rng.sample(names, 4)]:
        case = {"kind": "unknown", "name": bad}
        calls = [0]
        def f(x):
            calls[0] += 1
            return 0.0
        try:
            BADS(f, np.zeros(2), -np.ones(2), np.ones(2), -np.ones(2) / 2, np.ones(2) / 2, options={"display": "off", bad: 1})
            rep.violation("unknown_rejected", SITE, f"unknown option name {bad!r} accepted", case)
        except ValueError:
            stats["unknown_rejected"] += 1
        except Exception as ex:
            rep.violation("unknown_rejected", SITE, f"unknown option name {bad!r} raised {type(ex).__name__} instead of ValueError", case)
        m = ctx.driver.call({"cmd": "opt.load", "D": 2, "basic": bj, "adv": aj, "user": ["display", bad]})
        if m["invalid"] != bad:
            rep.disagree("Opt.validate ~ validate_option_names", f"model verdict for {bad!r}: {m['invalid']}", case)
    # (3) no leaks between instances: orders of constructing / running instances with different D and overrides
    for _ in range(6 if ctx.quick else 40):
        stats["multi_instance_orders"] += 1
        specs = [(rng.randint(1, 5), {"display": "off", **({"tol_fun": rng.choice([1e-2, 1e-4])} if rng.random() < 0.5 else {}),
                  **({"max_fun_evals": rng.randint(15, 30)} if rng.random() < 0.7 else {}), **({"n_search": 32} if rng.random() < 0.5 else {})}) for _ in range(rng.randint(2, 4))]
        solo = [dict(construct(D, dict(u))[0].options) for D, u in specs]
        insts = [construct(D, dict(u))[0] for D, u in specs]
        order = list(range(len(specs)))
        rng.shuffle(order)
        for i in order:
            if rng.random() < 0.5 and insts[i].options["max_fun_evals"] <= 30:
                insts[i].optimize()
                stats["runs_between"] += 1
            for j, inst in enumerate(insts):
                if j == i:
                    continue
                ran = getattr(inst, "_ran_", False)
                for k in solo[j]:
                    if k == "useroptions" or (ran and k in ("max_fun_evals", "noise_size", "fun_eval_start")):
                        continue
                    if not same(inst.options.get(k), solo[j][k]) and not getattr(inst, "_ran_", False):
                        rep.violation("no_leak_between_instances", SITE, f"option {k} of instance {j} (D={specs[j][0]}) changed from {solo[j][k]!r} to {inst.options.get(k)!r} after work on instance {i} (D={specs[i][0]})",
                                      {"kind": "multi", "specs": [[D, sorted(u)] for D, u in specs], "order": order})
                        break
            insts[i]._ran_ = True
    stats["names_overridden"] = len(stats["names_overridden"])
    rep.coverage = {
        "evaluations": stats["constructions"] + stats["unknown_rejected"] + stats["multi_instance_orders"], "distinct_nontrivial": stats["override_subsets"],
        "rule": "every option name of both files overridden at least once (random subsets, D in 1..6) - the instance's options vs Opt.load's provenance (user value / default expression evaluated independently for the instance's D, "
                "dependent defaults seeing user values); unknown names; orders of constructing and running several instances with different D and overrides; caller's dict and arrays compared before/after",
        "samples": [{"user": sorted(o[2]), "D": o[1]} for o in owners[:3]], "stats": stats, "option_names": len(names),
    }
    rep.assumptions = ["aliasing of the caller's objects is heap behaviour: covered by the differential, not by a theorem",
                       "options are observed after construction (optimize() itself rewrites budget-related options under noise)"]
    return rep


def replay(ctx, data):
    return run(ctx)


def widen(ctx, rep0):
    return Report()
