"""C07 - fixed random_seed makes runs reproducible, independent of process history (PARTIAL).

The model (Rng.lean) predicts EQUAL observable behaviour for a history pair; the harness executes each pair on the
real code - the same problem run in a fresh process and run after a generated foreign history (other BADS instances
with other D/options, raw np.random consumption, construction of other instances between constructing and running the
instance under test) - and compares the full call log and the result bit for bit.  It also checks the discipline the
model assumes: the first use of NumPy's global generator in __init__ and in optimize() is seed(random_seed)."""
import os, random
from ..core import Report
from .. import gen, tracer
from . import runlevel

# case kinds of corpus/ entries (failing inputs of past regressions) that this module replays on every run
CORPUS_KINDS = ('history_pair', 'process_pair')



def _foreign(rng_seed, kind, D=None):
    """Foreign activity in the same process (its results are discarded)."""
    import numpy as np
    r = random.Random(rng_seed)
    if kind == "sibling":
        # other BADS objects for a problem of the SAME dimension with different option values (after one of another dimension):
        # whatever they compute from their options must not reach the instance under test
        from pybads import BADS
        D = D or 2
        for d, o in ((D + 1, {}), (D, {"tol_fun": r.choice([1e-1, 1e-5, 1.0]), "tol_mesh": r.choice([1e-3, 1e-8]), "n_search": r.choice([32, 256]),
                                       "noise_final_samples": r.choice([3, 20]), "max_fun_evals": r.choice([40, 90])})):
            o = dict(o, display=r.choice(["off", "iter", "full"]))      # another display level than the instance under test
            b = BADS(lambda x: float(np.sum(np.asarray(x) ** 2)), np.full(d, 0.3), np.full(d, -4.0), np.full(d, 6.0), np.full(d, -2.0), np.full(d, 3.0), options=o)
        if r.random() < 0.4:
            try:
                b.optimize()
            except Exception:
                pass
        return
    if kind == "hardonly":
        # another problem defined by hard bounds only (no plausible bounds: the constructor derives them and reports what it did), and one whose
        # plausible box touches the hard box
        from pybads import BADS
        d = r.choice([1, 2, 3])
        f = lambda x: float(np.sum(np.asarray(x) ** 2))
        for kw in ({}, {"plausible_lower_bounds": np.full(d, -4.0), "plausible_upper_bounds": np.full(d, 6.0)}):
            try:
                b = BADS(f, np.full(d, 0.3), np.full(d, -4.0), np.full(d, 6.0), options={"display": r.choice(["off", "iter"])}, **kw)
            except Exception:
                pass
        return
    if kind == "onbound":
        # another problem whose start point lies ON a hard bound (the constructor moves it inside and says so)
        from pybads import BADS
        d = r.choice([1, 2, 3])
        x0 = np.full(d, 0.3); x0[0] = -4.0
        try:
            BADS(lambda x: float(np.sum(np.asarray(x) ** 2)), x0, np.full(d, -4.0), np.full(d, 6.0), np.full(d, -2.0), np.full(d, 3.0), options={"display": r.choice(["off", "iter"])})
        except Exception:
            pass
        return
    if kind == "pyrandom":
        # the standard library's global generator (not reset by random_seed): reseeded and advanced by other code of the process
        random.seed(r.randint(0, 10 ** 6))
        for _ in range(r.randint(1, 20)):
            random.random(); random.gauss(0.0, 1.0)
        return
    if kind == "draws":
        np.random.seed(r.randint(0, 10 ** 6))
        for _ in range(r.randint(1, 5)):
            np.random.rand(r.randint(1, 50)); np.random.randn(3); np.random.randint(0, 10, 4); np.random.permutation(5)
    elif kind in ("run", "construct"):
        sp = gen.make_spec(r, D=r.choice([1, 2, 4]), geom=r.choice(["box", "logbox", "unbounded"]), mode=r.choice(["det", "decl"]), cons=None)
        # other search settings than the instance under test (population sizes, ES iterations, step parameters): a run with them must leave
        # nothing behind that a later instance picks up
        sp["options"] = {"n_search": r.choice([16, 48, 64, 128]), "n_search_iter": r.choice([1, 2, 3]), "max_fun_evals": 30 if sp["mode"] == "det" else 50,
                         "es_start": r.choice([0.25, 0.1, 0.5]), "poll_mesh_multiplier": r.choice([2.0, 4.0]), "search_n_try": r.choice([1, 2, 3])}
        if r.random() < 0.5:
            sp["options"].pop("random_seed", None)
            sp["seed"] = None
        fun, x0, lb, ub, plb, pub, cons, opts, aux = gen.build(sp)
        opts["display"] = r.choice(["off", "iter", "full"])
        if sp["seed"] is None:
            opts.pop("random_seed", None)
        from pybads import BADS
        b = BADS(fun, x0 if r.random() < 0.7 else None, lb, ub, plb, pub, options=opts)
        if kind == "run":
            try:
                b.optimize()
            except Exception:
                pass


def _job(args):
    """Run spec after a foreign history; returns (call log, result fields, seeding discipline)."""
    import logging, warnings
    # logging stays enabled (the process-wide "BADS" logger level is state that instances share), its output goes to a null handler
    logging.disable(logging.NOTSET)
    for _lg in (logging.getLogger(), logging.getLogger("BADS")):
        for _h in list(_lg.handlers):
            _lg.removeHandler(_h)
        _lg.addHandler(logging.NullHandler())
    logging.getLogger("BADS").propagate = False
    warnings.filterwarnings("ignore")
    import numpy as np
    spec, pre, mid, hseed = args
    from pybads import BADS
    fun, x0, lb, ub, plb, pub, cons, opts, aux = gen.build(spec)
    for i, k in enumerate(pre):
        if k == "twin":
            # another instance defined by the VERY SAME argument objects (a multi-start loop, a benchmark script): constructed, sometimes run
            tw = BADS(lambda x: float(np.sum(np.asarray(x) ** 2)), x0, lb, ub, plb, pub, non_box_cons=cons, options={"display": "off", "max_fun_evals": 12, "random_seed": hseed})
            if (hseed + i) % 2:
                try:
                    tw.optimize()
                except Exception:
                    pass
            continue
        _foreign(hseed * 100 + i, k, spec["D"])
    # seeding discipline: record the order of global-generator uses
    log = []
    o_seed, o_uniform, o_rand, o_randn, o_normal, o_randint, o_perm = (np.random.seed, np.random.uniform, np.random.rand, np.random.randn, np.random.normal,
                                                                         np.random.randint, np.random.permutation)
    def w(name, f):
        def g(*a, **k):
            if len(log) < 6:
                log.append(name if name != "seed" else ("seed", a[0] if a else None))
            return f(*a, **k)
        return g
    np.random.seed, np.random.uniform, np.random.rand = w("seed", o_seed), w("uniform", o_uniform), w("rand", o_rand)
    np.random.randn, np.random.normal, np.random.randint, np.random.permutation = w("randn", o_randn), w("normal", o_normal), w("randint", o_randint), w("permutation", o_perm)
    try:
        try:
            b = BADS(fun, x0, lb, ub, plb, pub, non_box_cons=cons, options=opts)
        except Exception as ex:      # the same definition is constructible in a fresh process: a failure here is a difference between the two runs
            return {"calls": [], "ys": [], "out": {"error": "construction: " + type(ex).__name__ + ": " + str(ex)[:80]}, "log_init": list(log), "log_opt": []}
        log_init = list(log); del log[:]
        np.random.seed, np.random.uniform, np.random.rand = o_seed, o_uniform, o_rand
        np.random.randn, np.random.normal, np.random.randint, np.random.permutation = o_randn, o_normal, o_randint, o_perm
        for i, k in enumerate(mid):
            _foreign(hseed * 100 + 50 + i, k, spec["D"])
        np.random.seed, np.random.uniform, np.random.rand = w("seed", o_seed), w("uniform", o_uniform), w("rand", o_rand)
        np.random.randn, np.random.normal, np.random.randint, np.random.permutation = w("randn", o_randn), w("normal", o_normal), w("randint", o_randint), w("permutation", o_perm)
        # the GP fitting oracle fails (LinAlgError, as for a nearly singular training set) at scheduled invocations - the SAME schedule in both
        # runs of a pair - so that the retry paths (restart from a draw from the hyper-parameter priors) are taken
        faults = set(spec.get("gp_fit_faults") or [])
        if faults:
            import gpyreg as gpr
            o_fit, cnt = gpr.GP.fit, [0]
            def f_fit(self, *a, **k):
                i = cnt[0]; cnt[0] += 1
                if i in faults:
                    raise np.linalg.LinAlgError("injected: matrix not positive definite")
                return o_fit(self, *a, **k)
            gpr.GP.fit = f_fit
        try:
            try:
                res = b.optimize()
            finally:
                if faults:
                    gpr.GP.fit = o_fit
            out = {"x": [float(v) for v in np.ravel(res["x"])], "fval": float(res["fval"]), "fsd": float(res["fsd"]), "func_count": int(res["func_count"]),
                   "message": res["message"], "x0": [float(v) for v in np.ravel(res["x0"])]}
        except Exception as ex:
            out = {"error": type(ex).__name__ + ": " + str(ex)[:80]}
        log_opt = list(log)
    finally:
        np.random.seed, np.random.uniform, np.random.rand = o_seed, o_uniform, o_rand
        np.random.randn, np.random.normal, np.random.randint, np.random.permutation = o_randn, o_normal, o_randint, o_perm
    calls = [[float(v) for v in x] for x in aux["calls"]["xs"]]
    return {"calls": calls, "ys": [float(v) for v in aux["calls"]["ys"]], "out": out, "log_init": log_init, "log_opt": log_opt}


def _other_process(spec, hashseed):
    """The run in a SEPARATE interpreter with its own hash randomisation (PYTHONHASHSEED): same problem, options and seed."""
    import json, subprocess, sys
    from ..proto import VERIF
    code = ("import sys, json, os; sys.path.insert(0, %r); sys.path.insert(0, os.environ.get('VERIF_REPO', '/repo'))\n"
            "import warnings; warnings.filterwarnings('ignore')\n"
            "from harness.props import c07\n"
            "r = c07._job((json.loads(sys.stdin.read()), [], [], 0))\n"
            "print('RESULT' + json.dumps({'calls': r['calls'], 'out': r['out']}))\n") % VERIF
    env = dict(os.environ, PYTHONHASHSEED=str(hashseed), OMP_NUM_THREADS="1")
    p = subprocess.run([sys.executable, "-c", code], input=json.dumps(spec), capture_output=True, text=True, env=env, timeout=900)
    for line in p.stdout.splitlines():
        if line.startswith("RESULT"):
            return json.loads(line[6:])
    raise RuntimeError("cross-process job failed: " + p.stderr[-400:])


def cross_process(ctx, rep):
    """Two interpreters with different hash randomisation: high dimension and a start point on the plausible bound (long start-point
    strings seed the Sobol design)."""
    rng = ctx.sub_rng("c07x")
    specs = []
    for D, on_plb in ((8, False), (2, True), (3, True)) if ctx.quick else ((8, False), (9, False), (2, True), (3, True), (4, False), (8, True)):
        sp = gen.make_spec(rng, D=D, geom="box", mode=rng.choice(["det", "decl"]), cons=None, target="quad")
        if on_plb:
            sp["x0_unit"][0] = -1.0
        sp["options"] = {"n_search": 32, "max_fun_evals": (D + 12) if sp["mode"] == "det" else 45, "noise_final_samples": 0}
        specs.append(sp)
    import concurrent.futures as cf
    with cf.ThreadPoolExecutor(max_workers=8) as ex:
        futs = [(sp, ex.submit(_other_process, sp, 101), ex.submit(_other_process, sp, 202)) for sp in specs]
        for sp, fa, fb in futs:
            a, b = fa.result(), fb.result()
            case = {"kind": "process_pair", "spec": sp}
            if a["calls"] != b["calls"]:
                n = next((i for i, (x, y) in enumerate(zip(a["calls"], b["calls"])) if x != y), min(len(a["calls"]), len(b["calls"])))
                rep.violation("same_points_across_processes", "bads.py:random seeding", f"two interpreter processes (PYTHONHASHSEED 101 / 202) evaluate different points with the same problem, options and "
                              f"random_seed (first difference at call #{n}); {runlevel.spec_tag(sp)}", case)
            elif a["out"] != b["out"]:
                rep.violation("same_result_across_processes", "bads.py:random seeding", f"two interpreter processes return different results: {a['out']} vs {b['out']}; {runlevel.spec_tag(sp)}", case)
    return len(specs)


def run(ctx):
    rep = Report()
    nx = cross_process(ctx, rep)
    rng = ctx.sub_rng("c07")
    import multiprocessing as mp
    specs = []
    for _ in range(8 if ctx.quick else 40):
        sp = gen.make_spec(rng, geom=rng.choice(["box", "logbox", "x0_absent", "x0_absent", "unbounded", "tight"]), cons=rng.choice([None, None, "ball"]))
        sp["options"] = gen.small_options(rng, sp["D"], sp["mode"])
        specs.append(sp)
    # log-scaled problems whose bound vectors are shared with an instance constructed earlier ("twin" history)
    for _ in range(2 if ctx.quick else 8):
        sp = gen.make_spec(rng, D=rng.choice([1, 2, 3]), geom="logbox", mode=rng.choice(["det", "det", "decl"]), cons=None)
        sp["options"] = gen.small_options(rng, sp["D"], sp["mode"])
        specs.append(sp)
    # problems whose start point lies on a hard bound, after another such problem was constructed in the same process ("onbound" history)
    for _ in range(2 if ctx.quick else 6):
        sp = gen.make_spec(rng, D=rng.choice([1, 2, 3]), geom="x0_on_bound", mode=rng.choice(["det", "det", "decl"]), cons=None)
        sp["options"] = gen.small_options(rng, sp["D"], sp["mode"])
        specs.append(sp)
    for sp, sd in zip(specs, [0, 2 ** 31 - 1, 1]):       # boundary seed values: 0 is a valid seed
        sp["seed"] = sd
    # runs in which GP fits fail and are retried (every 2nd / 3rd invocation, or single failures)
    n_plain = len(specs)
    for i in range(3 if ctx.quick else 12):
        sp = gen.make_spec(rng, D=rng.choice([1, 2, 3]), geom=rng.choice(["box", "logbox", "tight"]), mode=rng.choice(["det", "det", "decl"]), cons=None, target=rng.choice(["quad", "abs"]))
        # gp_train_n_init(_final) = 0: the hyper-parameter optimisation starts from the supplied point only (no random design), so the restart
        # point after a failed fit decides the fitted hyper-parameters
        sp["options"] = {"n_search": 32, "max_fun_evals": (sp["D"] + 30) if sp["mode"] == "det" else 60, "noise_final_samples": 0,
                         "gp_train_n_init": 0, "gp_train_n_init_final": 0}
        sp["gp_fit_faults"] = [list(range(0, 200, 2)), list(range(1, 200, 3)), [0, 1, 2, 5, 6, 9]][i % 3]
        specs.append(sp)
    jobs, meta = [], []
    for si, sp in enumerate(specs):
        jobs.append((sp, [], [], 0)); meta.append((si, "fresh", [], []))
        for v in range(2 if ctx.quick else 4):
            pre = [rng.choice(["draws", "run", "construct", "sibling", "pyrandom", "hardonly"]) for _ in range(rng.randint(0, 3))]
            mid = [rng.choice(["draws", "run", "construct", "sibling", "pyrandom", "hardonly"]) for _ in range(rng.randint(0, 2))]
            if v == 1 and si < n_plain:
                mid = ["hardonly"] + mid[:1]
            if v == 0:
                pre = ["sibling"] + pre[:1]
            if v == 1 and sp["geom"] in ("logbox", "box", "tight") and si % 2 == 0:
                pre = ["twin"] + pre[:1]
            if sp["geom"] == "x0_on_bound":
                pre = ["onbound"] + pre[:1]
            if si >= n_plain and v == 1:
                pre = ["pyrandom"] + pre[:1]
            if not pre and not mid:
                pre = ["draws"]
            jobs.append((sp, pre, mid, si * 10 + v + 1)); meta.append((si, "history", pre, mid))
    mpctx = mp.get_context("fork")
    with mpctx.Pool(min(16, os.cpu_count() or 4), maxtasksperchild=1) as pool:
        results = pool.map(_job, jobs, chunksize=1)
    base = {}
    stats = {"pairs": 0, "drawn_x0": 0, "noisy": 0, "with_mid_history": 0, "history_kinds": {}}
    for (si, kind, pre, mid), r in zip(meta, results):
        sp = specs[si]
        if kind == "fresh":
            base[si] = r
            # seeding discipline assumed by the model
            case = {"kind": "discipline", "spec": sp}
            li, lo = r["log_init"], r["log_opt"]
            if not li or li[0] != ("seed", sp["seed"]):
                rep.violation("seed_first_in_init", "bads.py:__init__", f"first use of the global generator in __init__ is {li[:2]} instead of seed({sp['seed']}); {runlevel.spec_tag(sp)}", case)
            if not lo or lo[0] != ("seed", sp["seed"]):
                rep.violation("seed_first_in_optimize", "bads.py:_init_optimization_", f"first use of the global generator in optimize() is {lo[:2]} instead of seed({sp['seed']}); {runlevel.spec_tag(sp)}", case)
            continue
        stats["pairs"] += 1
        stats["drawn_x0"] += sp["geom"] == "x0_absent"
        stats["noisy"] += sp["mode"] != "det"
        stats["with_mid_history"] += bool(mid)
        for k in pre + mid:
            stats["history_kinds"][k] = stats["history_kinds"].get(k, 0) + 1
        b = base[si]
        case = {"kind": "history_pair", "spec": sp, "pre": pre, "mid": mid}
        tag = f"history before construction {pre}, between construction and run {mid}; {runlevel.spec_tag(sp)}"
        if r["calls"] != b["calls"]:
            n = next((i for i, (a, c) in enumerate(zip(r["calls"], b["calls"])) if a != c), min(len(r["calls"]), len(b["calls"])))
            rep.violation("same_points", "bads.py:random seeding", f"the sequence of evaluated points differs from the fresh-process run (first difference at call #{n}); {tag}", case)
        elif r["out"] != b["out"]:
            rep.violation("same_result", "bads.py:random seeding", f"result differs from the fresh-process run: {r['out']} vs {b['out']}; {tag}", case)
    rep.coverage = {
        "evaluations": stats["pairs"] + nx, "distinct_nontrivial": stats["pairs"] + nx, "cross_process_pairs": nx,
        "rule": "one evaluation = one history pair: the same problem/options/seed run in a fresh process and after a generated foreign history (raw np.random consumption, use of the standard library's global generator, other BADS constructions and runs with other D/options, a twin instance constructed from the very same argument objects, another problem with its start point on a hard bound, "
                "before the construction and between construction and run; sibling instances of the same dimension with other option values), plus pairs of SEPARATE interpreter processes "
                "with different hash randomisation (PYTHONHASHSEED), compared bit for bit (every evaluated point, x, fval, fsd, func_count, message, x0); plus the seeding discipline (first generator use in __init__ and optimize() is seed(s))",
        "samples": [{"spec": specs[0], "pre": meta[1][2], "mid": meta[1][3]}], "stats": stats, "traces_validated_against_impl": stats["pairs"],
        "explanation": "PARTIAL: the theorem covers entropy flowing through NumPy's global generator; other entropy sources are covered only as far as these pairs exercise them (testing)",
    }
    rep.assumptions = ["entropy outside NumPy's global generator (hash randomisation, BLAS threading, wall clock, library-private generators) is not in the model; "
                       "hash randomisation is exercised by the cross-process pairs (testing, not proof)"]
    return rep


def replay(ctx, data):
    rep = Report()
    c = data["case"]
    if c.get("kind") == "process_pair":
        a, b = _other_process(c["spec"], 101), _other_process(c["spec"], 202)
        if a["calls"] != b["calls"] or a["out"] != b["out"]:
            rep.violation("same_points_across_processes", "bads.py:random seeding", "two interpreter processes (PYTHONHASHSEED 101 / 202) differ with the same problem, options and random_seed", c)
        return rep
    if c.get("kind") != "history_pair":
        return run(ctx)
    import multiprocessing as mp
    mpctx = mp.get_context("fork")
    with mpctx.Pool(2, maxtasksperchild=1) as pool:
        b, r = pool.map(_job, [(c["spec"], [], [], 0), (c["spec"], c["pre"], c["mid"], 1)], chunksize=1)
    if r["calls"] != b["calls"]:
        rep.violation("same_points", "bads.py:random seeding", "the sequence of evaluated points differs from the fresh-process run", c)
    elif r["out"] != b["out"]:
        rep.violation("same_result", "bads.py:random seeding", "result differs from the fresh-process run", c)
    return rep


def widen(ctx, rep0):
    return Report()
