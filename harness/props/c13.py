"""C13 - mesh size update rule: Ctl model replay on traced runs."""
from ..core import Report
from . import runlevel


def run(ctx):
    rep = Report()
    stats, samples = runlevel.ctl_replay(ctx, rep, "C13")
    traces = runlevel.get_pool(ctx)
    rep.coverage = {
        "evaluations": stats["iterations"], "distinct_nontrivial": stats["searches"] + stats["polls"],
        "rule": "one evaluation = one main-loop iteration of a traced real run replayed through Ctl.step (oracle: search outcome, per-evaluation poll improvements, stall tests; "
                "determined and compared: func_count, recorded rows, search_count, search_success, search_spree, mesh exponents, poll_iteration, finished, message); "
                "non-trivial = iterations that ran a search or a poll (counted separately)",
        "samples": samples, "traces_validated_against_impl": stats["runs"], "controller": stats,
        "pool": runlevel.pool_distribution(traces),
    }
    rep.assumptions = ["termination of the implementation also needs every oracle call (GP fit, ES, user target) to return: outside the model",
                       "budget clause is stated for budgets at least the size of the initial design (as the property does)"]
    return rep


def replay(ctx, data):
    rep = Report()
    from .. import tracer
    ctx._pool = [tracer.run_traced(data["case"]["spec"])]
    runlevel.ctl_replay(ctx, rep, "C13")
    return rep


def widen(ctx, rep0):
    rep = Report()
    sub = type(ctx)(ctx.pid, "thorough", ctx.seed + 7)
    specs = runlevel.pool_specs(sub.seed, "quick") + [d["case"]["spec"] for d in rep0.disagreements if "spec" in d.get("case", {})][:10]
    from .. import tracer
    sub._pool = tracer.run_many([(sp, {}) for sp in specs])
    runlevel.ctl_replay(sub, rep, ctx.pid)
    return rep
