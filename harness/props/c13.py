"""C13 - mesh size update rule: Ctl model replay on traced runs."""
from ..core import Report
from . import runlevel

# case kinds of corpus/ entries (failing inputs of past regressions) that this module replays on every run
CORPUS_KINDS = ('ctl_run',)



def stalling_noisy_specs(ctx):
    """Noisy small-unit objectives: improvements and history differences are of the order of tol_fun, so polls that succeed on the
    GP estimate while the run counts as stalling (and failed polls that are quartered) are frequent."""
    from .. import gen
    rng = ctx.sub_rng("c13stall")
    specs = []
    for _ in range(10 if ctx.quick else 80):
        sp = gen.make_spec(rng, D=rng.choice([1, 2, 2, 3]), geom=rng.choice(["box", "tight"]), mode=rng.choice(["decl", "auto", "he"]), cons=None, target=rng.choice(["quad", "abs"]))
        sp["yscale"] = rng.choice([0.02, 0.05, 0.1])
        sp["noise"] = rng.choice([0.3, 1.0])
        sp["options"] = {"n_search": 32, "max_fun_evals": rng.choice([110, 150]), "noise_final_samples": 0}
        specs.append(sp)
    return specs


def dyadic_tol_specs(ctx):
    """tol_mesh given as an exact power of two (so that the mesh can land exactly ON the tolerance), runs long enough to stop on it."""
    from .. import gen
    rng = ctx.sub_rng("c13dyadic")
    specs = []
    for e, accel, mode in ((-2, True, "det"), (-4, False, "det"), (-3, True, "decl"), (-7, False, "det"), (-5, True, "det"), (-3, False, "he")) + \
            (() if ctx.quick else tuple((-rng.randint(1, 9), rng.random() < 0.5, rng.choice(["det", "det", "decl", "auto"])) for _ in range(30))):
        sp = gen.make_spec(rng, D=rng.choice([1, 2, 2, 3]), geom=rng.choice(["box", "tight", "unbounded"]), mode=mode, cons=None, opt_loc="inside", target=rng.choice(["quad", "abs"]))
        sp["options"] = {"n_search": 32, "tol_mesh": 2.0 ** e, "accelerate_mesh": accel, "max_fun_evals": 160 if mode == "det" else 220, "noise_final_samples": 0}
        specs.append(sp)
    return specs


def typed_dyadic_tol_specs(ctx):
    """tol_mesh an exact power of two given as a single-precision NumPy number (np.float32(2**-15), ...): the internal tolerance is derived through
    log(tol_mesh)/log(2), which must not be taken in single precision; runs long enough to stop on the mesh tolerance."""
    from .. import gen
    rng = ctx.sub_rng("c13typed")
    specs = []
    for e, mode in ((-15, "det"), (-15, "det"), (-19, "det")) + (() if ctx.quick else ((-15, "decl"), (-19, "det"), (-23, "det"), (-15, "det"), (-12, "det"), (-16, "det"))):
        sp = gen.make_spec(rng, D=rng.choice([1, 1, 2]), geom=rng.choice(["box", "tight"]), mode=mode, cons=None, opt_loc="inside", target=rng.choice(["quad", "abs"]))
        sp["options"] = {"n_search": 32, "accelerate_mesh": True, "tol_fun": 1e-14, "tol_stall_iters": 200, "max_fun_evals": 400 if mode == "det" else 500, "noise_final_samples": 0}
        sp["np_options"] = {"tol_mesh": f"np.float32(2.0 ** {e})"}
        specs.append(sp)
    return specs


def unlocked_search_mesh_specs(ctx):
    """search_size_locked = False (the search mesh is then only tightened after failed polls, and turned into a size at the top of the loop),
    runs long enough for the poll mesh to fall below the initial search mesh (2^-10)."""
    from .. import gen
    rng = ctx.sub_rng("c13unlocked")
    specs = []
    for mode in (("det", "det", "decl") if ctx.quick else ("det",) * 8 + ("decl", "auto", "he")):
        sp = gen.make_spec(rng, D=rng.choice([1, 2]), geom=rng.choice(["box", "tight"]), mode=mode, cons=None, opt_loc="inside", target=rng.choice(["quad", "abs"]))
        sp["options"] = {"n_search": 32, "search_size_locked": False, "max_fun_evals": 180 if mode == "det" else 220, "noise_final_samples": 0, "tol_stall_iters": 60}
        specs.append(sp)
    return specs


def typed_value_specs(ctx):
    """Deterministic integer-valued targets that return their value as a NumPy scalar of a non-float real type (counts, discrete losses as
    np.uint64 / np.uint8 / np.int32 ...): differences of such values wrap around in their own type, so a WORSE polled point would look like a huge
    improvement - and double the mesh - if the values reached the improvement arithmetic unconverted.  The whole-call model derives every
    improvement from the logged values (`Fl.sub`), so the mesh after such a poll is compared with what the true values imply."""
    from .. import gen
    rng = ctx.sub_rng("c13ydtype")
    specs = []
    for dt in (("uint64", "uint8", "int32") if ctx.quick else ("uint64", "uint8", "uint16", "uint32", "int64", "int32", "float32", "uint64")):
        sp = gen.make_spec(rng, D=rng.choice([1, 2]), mode="det", geom="box", opt_loc="inside", cons=None, target=rng.choice(["plateau", "ties"]))
        sp["x0_unit"] = [0.9 if c < 0 else -0.9 for c in sp["c_unit"]]        # start far from the optimum
        sp["ydtype"] = dt
        sp["options"] = {"n_search": 32, "max_fun_evals": 70, "accelerate_mesh": rng.random() < 0.5}
        specs.append(sp)
    return specs


def run(ctx):
    rep = Report()
    runlevel.with_extra(ctx, "c13ydtype", lambda: typed_value_specs(ctx))
    runlevel.with_extra(ctx, "c13unlocked", lambda: unlocked_search_mesh_specs(ctx))
    runlevel.with_extra(ctx, "c13stall", lambda: stalling_noisy_specs(ctx))
    runlevel.with_extra(ctx, "c13dyadic", lambda: dyadic_tol_specs(ctx))
    runlevel.with_extra(ctx, "c13typed", lambda: typed_dyadic_tol_specs(ctx))
    runlevel.scripted_controller_runs(ctx, "c13script", 12 if ctx.quick else 120)
    # stalling runs with mesh acceleration explicitly switched OFF (mostly tiny / negative scripted improvements, so that polls fail while
    # the history stalls): a failed poll must halve the mesh, never quarter it
    runlevel.scripted_controller_runs(ctx, "c13noaccel", 5 if ctx.quick else 40, force_options={"accelerate_mesh": False, "tol_mesh": 1e-6},
                                      weights=[0.4, 0.3, 6, 3, 0.3, 0.2, 0.2])
    # a long run of successes while the mesh sits at its cap (the overflow counter passes its warning level), then failures, then successes
    # again BELOW the cap: those must double the mesh like any other
    runlevel.scripted_controller_runs(ctx, "c13cap", 4 if ctx.quick else 30, force_options={"max_fun_evals": 200, "tol_stall_iters": 60}, weights=[1, 0, 0, 0, 0, 0, 0],
                                      plan=lambda r: [[r.choice([40, 60, 80]), [0, 0, 1, 3, 0, 0, 0], [1, 0, 0, 0, 0, 0, 0]],      # searches fail, every poll succeeds at once
                                                      [r.choice([6, 10, 14]), [0, 0, 1, 3, 0, 0, 0]],                          # everything fails
                                                      [80, [0, 0, 1, 2, 0, 0, 0], [4, 0, 1, 1, 0, 0, 0]]])                     # polls mostly succeed again
    stats, samples = runlevel.ctl_replay(ctx, rep, "C13")
    traces = runlevel.get_pool(ctx)
    # ONE WHOLE CALL of optimize() (Opt.init + Full.step + Opt.finish, the model of Props/C13Opt.lean): the loop is entered in the state the model
    # DERIVES, the poll outcome is derived from the estimates of the evaluated candidates; mesh exponent compared after every iteration
    wstats = runlevel.whole_replay(ctx, rep)
    rep.coverage = {
        "whole_run_model": wstats,
        "evaluations": stats["iterations"], "distinct_nontrivial": stats["searches"] + stats["polls"],
        "rule": "one evaluation = one main-loop iteration of a traced real run replayed through Ctl.step (oracle: search outcome, per-evaluation poll improvements, stall tests; "
                "determined and compared: func_count, recorded rows, search_count, search_success, search_spree, mesh exponents, poll_iteration, finished, message); "
                "non-trivial = iterations that ran a search or a poll (counted separately)",
        "samples": samples, "traces_validated_against_impl": stats["runs"], "controller": stats,
        "pool": runlevel.pool_distribution(traces),
    }
    rep.assumptions = ["termination of the implementation also needs every oracle call (GP fit, ES, user target) to return: outside the model",
                       "budget clause is stated for budgets at least the size of the initial design (as the property does)"]
    return rep


def replay(ctx, data):
    rep = Report()
    from .. import tracer
    ctx._pool = [tracer.run_traced(data["case"]["spec"], **(data["case"].get("kw") or {}))]
    runlevel.ctl_replay(ctx, rep, "C13")
    return rep


def widen(ctx, rep0):
    rep = Report()
    sub = type(ctx)(ctx.pid, "thorough", ctx.seed + 7)
    specs = runlevel.pool_specs(sub.seed, "quick") + [d["case"]["spec"] for d in rep0.disagreements if "spec" in d.get("case", {})][:10]
    from .. import tracer
    sub._pool = tracer.run_many([(sp, {}) for sp in specs])
    runlevel.ctl_replay(sub, rep, ctx.pid)
    return rep
