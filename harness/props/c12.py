"""C12 - the evaluation log records exactly what was observed, where it was observed.

Operation sequences on the real FunctionLogger (scripted target) vs Log.step (Lean model), state
compared after every operation; the property's clauses are evaluated on the implementation's state
against the abstract log (point -> list of observations) kept by the harness."""
import math
from fractions import Fraction
import numpy as np
from ..core import Report
from ..proto import enc, enc_pt

SITE = "function_logger.py:_record"


class Raised(Exception):
    pass

# case kinds of corpus/ entries (failing inputs of past regressions) that this module replays on every run
CORPUS_KINDS = ('logger_seq',)



def py_outcome(o, rng):
    """Python return value realising an abstract outcome."""
    k = o["k"]
    if k == "raises":
        return Raised
    if k == "other":
        return (1.0, 2.0, 3.0)
    def val(v, bad):
        if v is not None:
            ch = [float(v), np.float64(v), np.array([v]), np.array(v), np.float32(v)]        # (all generated values are exact in float32)
            if float(v).is_integer() and 0 <= v < 200:
                ch += [np.uint8(v), np.int32(v), np.uint64(v), int(v)]                       # integer-typed spellings of integral values / SDs
            return rng.choice(ch)
        return bad
    if k == "scalar":
        return val(o["y"], rng.choice([float("nan"), float("inf"), float("-inf"), complex(1, 1), np.array([1.0, 2.0]), None]))
    y = val(o["y"], rng.choice([float("nan"), float("inf"), np.array([1.0, 2.0]), complex(0, 1)]))
    sd = val(o["sd"], rng.choice([0.0, -1.0, float("nan"), float("inf")]))
    return (y, sd)


def gen_seq(rng, quick):
    D = rng.randint(1, 3)
    he = rng.random() < 0.5
    noise = he or rng.random() < 0.3
    cache = rng.randint(1, 4)
    use_tr = rng.random() < 0.4
    reuse = rng.random() < 0.35
    alpha = [rng.sample([-1.0, -0.5, 0.0, 0.25, 0.5, 1.0], rng.randint(2, 4)) for _ in range(D)]
    n = rng.randint(5, 60 if quick else 400)
    pts = []
    ops = []
    for _ in range(n):
        r = rng.random()
        if pts and r < 0.3:
            x = list(rng.choice(pts))                     # exact repeat
        elif pts and r < 0.5 and D > 1:
            x = list(rng.choice(pts))                     # share k < D coordinates with a logged point
            j = rng.randrange(D)
            x[j] = rng.choice(alpha[j])
        elif pts and r < 0.6:
            x = list(rng.choice(pts))                     # a DIFFERENT point within ~1e-7 (relative) / 1e-10 (absolute) of a logged one
            x = [v * (1 + rng.choice([1e-7, -1e-7, 3e-9])) if v != 0 else rng.choice([1e-10, -1e-10]) for v in x]
        else:
            x = [rng.choice(alpha[i]) for i in range(D)]
        pts.append(x)
        r = rng.random()
        y = rng.choice([1.0, 2.5, -3.0, 0.125, 7.0]) + rng.randint(0, 8) / 8
        sd = rng.choice([0.5, 1.0, 2.0, 0.25, 3.0])
        if r < 0.07:
            op = {"op": "add", "x": x, "y": y if rng.random() < 0.9 else None}
            if noise and rng.random() < 0.7:
                op["sd"] = sd if rng.random() < 0.85 else None
            ops.append(op)
            continue
        rr = rng.random()
        if rr < 0.04:
            out = {"k": "raises"}
        elif rr < 0.06:
            out = {"k": "other"}
        elif he:
            if rr < 0.10:
                out = {"k": "scalar", "y": y}
            elif rr < 0.14:
                out = {"k": "pair", "y": None, "sd": sd}
            elif rr < 0.19:
                out = {"k": "pair", "y": y, "sd": None}
            else:
                out = {"k": "pair", "y": y, "sd": sd}
        else:
            if rr < 0.10:
                out = {"k": "scalar", "y": None}
            elif rr < 0.13:
                out = {"k": "pair", "y": y, "sd": sd}
            else:
                out = {"k": "scalar", "y": y}
        ops.append({"op": "call", "x": x, "out": out, "rd": rng.random() < 0.75})
    # a target that modifies the array it is handed (x -= c, x[x < 0] = 0, ...): what is logged is where the evaluation was ASKED
    mutate = rng.random() < 0.2
    return {"D": D, "he": he, "noise": noise, "cache": cache, "use_tr": use_tr, "reuse": reuse, "mutate": mutate, "ops": ops}


def run_impl(seq, rng):
    """Run the sequence on the real FunctionLogger; returns per-op (result, snapshot)."""
    from pybads.function_logger import FunctionLogger
    from pybads.variable_transformer import VariableTransformer
    D = seq["D"]
    vt = vt_ref = None
    if seq["use_tr"]:
        vt = VariableTransformer(D, np.full((1, D), -2.0), np.full((1, D), 6.0), np.full((1, D), -1.0), np.full((1, D), 3.0))
        # the harness computes the expected original-space point with its OWN transformer instance (the logger's one is left alone)
        vt_ref = VariableTransformer(D, np.full((1, D), -2.0), np.full((1, D), 6.0), np.full((1, D), -1.0), np.full((1, D), 3.0))
    q = []
    work = np.zeros(D)          # seq["reuse"]: the caller keeps ONE working array and overwrites it in place between operations

    def fun(xo):
        v = q.pop(0)
        if seq.get("mutate") and isinstance(xo, np.ndarray):
            xo += 1.0               # in place
        if v is Raised:
            raise Raised("scripted")
        return v

    fl = FunctionLogger(fun, D, seq["noise"], 2 if seq["he"] else (1 if seq["noise"] else 0), seq["cache"], vt)
    res = []
    for op in seq["ops"]:
        x = np.array(op["x"], dtype=float)
        xo = vt_ref.inverse_transf(np.atleast_2d(x.copy()))[0] if vt_ref is not None else x
        op["xo"] = [float(v) for v in xo]
        if seq.get("reuse"):
            work[:] = x
            x = work
        try:
            if op["op"] == "call":
                q[:] = [py_outcome(op["out"], rng)]
                r = fl(x, op["rd"])
            else:
                if "sd" in op:
                    r = fl.add(x, op["y"] if op["y"] is not None else float("nan"), op["sd"] if op["sd"] is not None else -1.0)
                else:
                    r = fl.add(x, op["y"] if op["y"] is not None else float("nan"))
            out = ("ok", r)
        except Raised:
            out = ("err", "target")
        except ValueError:
            out = ("err", "ValueError")
        except Exception as ex:       # any other exception type is itself an observation
            out = ("err", type(ex).__name__)
        n = fl.Xn + 1
        snap = {"X": fl.X[:n].copy(), "Xo": fl.X_orig[:n].copy(), "Y": fl.Y[:n, 0].copy(), "Yo": fl.Y_orig[:n, 0].copy(),
                "S": fl.S[:n, 0].copy() if fl.noise_flag else None, "n": fl.n_evals[:n, 0].copy(), "cap": fl.X.shape[0],
                "xMaxIdx": int(fl.X_max_idx), "fc": int(fl.func_count), "cc": int(fl.cache_count), "flag": fl.X_flag[:n].copy(),
                "tail_clean": bool(np.all(np.isnan(fl.X[n:]))) and bool(np.all(~fl.X_flag[n:])), "vt": vt}
        res.append((out, snap))
    return res


def op_json(op):
    j = {"op": op["op"], "x": enc_pt(op["x"]), "xo": enc_pt(op["xo"])}
    if op["op"] == "call":
        o = dict(op["out"])
        for k in ("y", "sd"):
            if k in o and o[k] is not None:
                o[k] = enc(o[k])
        j["out"] = o
        j["rd"] = op["rd"]
    else:
        j["y"] = enc(op["y"]) if op["y"] is not None else None
        if "sd" in op:
            j["sd"] = enc(op["sd"]) if op["sd"] is not None else None
    return j


def close(a, b, rel=1e-9):
    return abs(a - b) <= rel * max(1.0, abs(a), abs(b))


def compare(seq, impl, model, rep, tag):
    """model-vs-implementation after every op; returns number of compared states."""
    for i, ((out, snap), m) in enumerate(zip(impl, model)):
        st = m["state"]
        where = f"{tag} op#{i} {seq['ops'][i]['op']}"
        def bad(msg):
            rep.disagree("Log.step ~ FunctionLogger", f"{where}: {msg}", {"kind": "logger_seq", "seq": seq_json(seq), "op_index": i})
        if ("err" in m) != (out[0] == "err") or ("err" in m and m["err"] != out[1]):
            bad(f"model {'err ' + m.get('err', '') if 'err' in m else 'ok'} vs impl {out}")
            return i
        rows = st["rows"]
        if len(rows) != len(snap["X"]):
            bad(f"model has {len(rows)} rows, impl {len(snap['X'])}")
            return i
        if (st["cap"], st["xMaxIdx"], st["fc"], st["cacheCount"]) != (snap["cap"], snap["xMaxIdx"], snap["fc"], snap["cc"]):
            bad(f"model (cap,xMaxIdx,fc,cache)={(st['cap'], st['xMaxIdx'], st['fc'], st['cacheCount'])} impl={(snap['cap'], snap['xMaxIdx'], snap['fc'], snap['cc'])}")
            return i
        for j, r in enumerate(rows):
            if [Fraction(v) for v in r["x"]] != [Fraction(float(v)) for v in snap["X"][j]] or \
               [Fraction(v) for v in r["xo"]] != [Fraction(float(v)) for v in snap["Xo"][j]]:
                bad(f"row {j}: coordinates differ")
                return i
            if not close(float(Fraction(r["y"])), float(snap["Y"][j])) or Fraction(r["yo"]) != Fraction(float(snap["Yo"][j])) or int(r["n"]) != int(snap["n"][j]):
                bad(f"row {j}: model (y,yo,n)=({float(Fraction(r['y']))},{float(Fraction(r['yo']))},{r['n']}) impl=({snap['Y'][j]},{snap['Yo'][j]},{snap['n'][j]})")
                return i
            if snap["S"] is not None:
                s = float(snap["S"][j])
                if r["tau"] is None:
                    if not math.isnan(s):
                        bad(f"row {j}: model has no SD, impl S={s}")
                        return i
                elif math.isnan(s) or not close(float(Fraction(r["tau"])) * s * s, 1.0):
                    bad(f"row {j}: model tau={float(Fraction(r['tau']))} impl S={s}")
                    return i
        if "ok" in m:
            rv = out[1]
            mo = m["ok"]
            fv = float(np.asarray(rv[0]).reshape(-1)[0])
            if not close(float(Fraction(mo["fval"])), fv) or (mo["idx"] is None) != (rv[2] is None) or (mo["idx"] is not None and int(mo["idx"]) != int(rv[2])):
                bad(f"return value: model {mo} impl {rv}")
                return i
    return len(impl)


def clauses(seq, impl, rep, tag):
    """The property's clauses on the IMPLEMENTATION's states against the abstract log."""
    alog = []          # [(x tuple, xo tuple, [(y, sd)])] in first-recorded order
    counts = {}        # x tuple -> number of evaluations made there that the log accounts for
    fc = 0
    prev = None
    hist = {}
    for i, ((out, snap), op) in enumerate(zip(impl, seq["ops"])):
        x = tuple(op["x"])
        case = {"kind": "logger_seq", "seq": seq_json(seq), "op_index": i}
        def viol(clause, msg):
            hist[clause] = hist.get(clause, 0) + 1
            rep.violation(clause, SITE, f"{tag} op#{i} ({op['op']} at {list(x)}): {msg}", case)
        ok = out[0] == "ok"
        is_call = op["op"] == "call"
        merged_into = None
        if ok:
            if is_call:
                fc += 1
                y = op["out"]["y"]
                sd = op["out"].get("sd") if seq["he"] else None
                rec = op["rd"]
            else:
                y, sd, rec = op["y"], (op.get("sd", 1.0) if seq["noise"] else None), True
            if rec:
                # merged only WITH SPECIFIED NOISE (the property's exception); a pre-evaluated addition to an unknown-noise logger is a new record
                idx = next((k for k, e in enumerate(alog) if e[0] == x), None) if (sd is not None and seq["he"]) else None
                if idx is not None:
                    alog[idx][2].append((y, sd))
                    merged_into = idx
                else:
                    alog.append((x, tuple(op["xo"]), [(y, sd)]))
                counts_key = len(alog) - 1 if idx is None else idx
                counts[counts_key] = counts.get(counts_key, 0) + 1
            else:
                last = max((k for k, e in enumerate(alog) if e[0] == x), default=None)
                if last is not None:
                    counts[last] = counts.get(last, 0) + 1
        # ---- clauses ----
        if snap["fc"] != fc:
            viol("counts", f"func_count={snap['fc']} but {fc} calls returned valid values")
            return hist
        if len(snap["X"]) != len(alog):
            viol("call_order", f"log has {len(snap['X'])} records, {len(alog)} recorded evaluations at distinct/new points")
            return hist
        for k, (ax, axo, obs) in enumerate(alog):
            if tuple(float(v) for v in snap["X"][k]) != ax or tuple(float(v) for v in snap["Xo"][k]) != axo:
                viol("coords", f"record {k}: stored coordinates differ from the point evaluated {k}-th")
                return hist
            if snap["vt"] is not None:
                back = snap["vt"].inverse_transf(np.atleast_2d(snap["X"][k]))[0]
                if not np.array_equal(back, snap["Xo"][k]):
                    viol("coords", f"record {k}: X_orig is not the inverse transform of X")
                    return hist
            if len(obs) == 1 or obs[0][1] is None:
                want = obs[0][0] if len(obs) == 1 else None
                if len(obs) == 1 and float(snap["Y"][k]) != want:
                    clause = "frame" if (prev is not None and k < len(prev["Y"]) and float(prev["Y"][k]) == want and k != merged_into) else "value_exact"
                    viol(clause, f"record {k}: stored value {snap['Y'][k]} != value observed there {want}")
                    return hist
                if len(obs) == 1 and obs[0][1] is not None and snap["S"] is not None and float(snap["S"][k]) != obs[0][1]:
                    clause = "frame" if k != merged_into and k != len(alog) - 1 else "merge_mean"
                    viol(clause, f"record {k}: stored SD {snap['S'][k]} != SD observed there {obs[0][1]}")
                    return hist
            else:
                ts = sum(Fraction(1) / (Fraction(sd) ** 2) for _, sd in obs)
                ws = sum(Fraction(y) / (Fraction(sd) ** 2) for y, sd in obs)
                wy = float(ws / ts)
                wsd = 1.0 / math.sqrt(float(ts))
                if not close(float(snap["Y"][k]), wy) or not close(float(snap["S"][k]), wsd):
                    clause = "merge_mean" if k == merged_into or prev is None or k >= len(prev["Y"]) or float(prev["Y"][k]) != float(snap["Y"][k]) and k == merged_into else "frame"
                    viol(clause, f"record {k}: (Y,S)=({snap['Y'][k]},{snap['S'][k]}) but the precision-weighted mean of its {len(obs)} observations is ({wy},{wsd})")
                    return hist
            if int(snap["n"][k]) != counts.get(k, 0):
                viol("counts", f"record {k}: n_evals={int(snap['n'][k])} but {counts.get(k, 0)} evaluations were made there")
                return hist
        if not snap["tail_clean"]:
            viol("frame", "unused cache rows are not empty after growth")
            return hist
        prev = snap
    return hist


def seq_json(seq):
    d = {k: seq.get(k) for k in ("D", "he", "noise", "cache", "use_tr", "reuse")}
    d["ops"] = [{k: v for k, v in op.items()} for op in seq["ops"]]
    return d


def check_seqs(ctx, seqs, rep, tag="seq"):
    import random
    reqs, impls = [], []
    for si, seq in enumerate(seqs):
        impl = run_impl(seq, random.Random(f"{ctx.seed}:{si}"))
        impls.append(impl)
        reqs.append({"cmd": "log.run", "cache": seq["cache"], "noise": seq["noise"], "he": seq["he"], "ops": [op_json(op) for op in seq["ops"]]})
    models = ctx.driver.call_many(reqs)
    nops = 0
    hist = {}
    stats = {"merges": 0, "norecord_hits": 0, "errors": 0, "growths": 0, "partial_coincidences": 0}
    for si, (seq, impl, model) in enumerate(zip(seqs, impls, models)):
        h = clauses(seq, impl, rep, f"{tag}{si}")
        for k, v in h.items():
            hist[k] = hist.get(k, 0) + v
        nops += compare(seq, impl, model, rep, f"{tag}{si}")
        cap = seq["cache"]
        seen = []
        for (out, snap), op in zip(impl, seq["ops"]):
            stats["errors"] += out[0] == "err"
            if snap["cap"] != cap:
                stats["growths"] += 1
                cap = snap["cap"]
            x = op["x"]
            if out[0] == "ok":
                if any(p == x for p in seen):
                    if op["op"] == "call" and not op["rd"]:
                        stats["norecord_hits"] += 1
                    elif seq["he"] or op["op"] == "add":
                        stats["merges"] += 1
                elif any(any(a == b for a, b in zip(p, x)) for p in seen):
                    stats["partial_coincidences"] += 1
                if op["op"] == "add" or op["rd"]:
                    seen.append(x)
    return nops, hist, stats


def run(ctx):
    rep = Report()
    rng = ctx.sub_rng("c12")
    seqs = [gen_seq(rng, ctx.quick) for _ in range(120 if ctx.quick else 600)]
    nops, hist, stats = check_seqs(ctx, seqs, rep)
    rep.coverage = {
        "evaluations": nops, "distinct_nontrivial": stats["merges"] + stats["norecord_hits"] + stats["growths"] + stats["partial_coincidences"] + stats["errors"],
        "rule": "one evaluation = one logger operation whose resulting full state (rows 0..Xn, counters, capacity) was compared with Log.step; sequences over 2-4 values per axis, D<=3, "
                "cache sizes 1-4, with/without specified noise, with/without a transformer, record flags, add(); non-trivial = merges + no-record hits + cache growths + partial coincidences + rejected values (counted)",
        "samples": [seq_json(seqs[0])["ops"][:6]], "sequences": len(seqs), "op_stats": stats, "clause_failures_on_impl": hist,
        "traces_validated_against_impl": len(seqs),
    }
    rep.assumptions = ["fun_eval_time / timer bookkeeping is not modelled", "add() after noise-less calls in a level-1 logger is not generated (S is NaN there)"]
    return rep


def replay(ctx, data):
    rep = Report()
    seq = data["case"]["seq"]
    check_seqs(ctx, [seq], rep, tag="replay")
    return rep


def widen(ctx, rep0):
    rep = Report()
    rng = ctx.sub_rng("c12w")
    seqs = [d["case"]["seq"] for d in rep0.disagreements if "seq" in d.get("case", {})][:20] + [gen_seq(rng, False) for _ in range(300)]
    check_seqs(ctx, seqs, rep, tag="widened")
    return rep
