"""C01 - hard box bounds are never left: provenance replay through Pipe.step, box predicates on every observed call,
function-level differential of force_to_grid / search bounds / inverse_transf."""
import numpy as np
from ..core import Report
from ..proto import enc, enc_pt, dec_pts
from . import runlevel


def mesh_function_level(ctx, rep):
    """force_to_grid and _update_search_bounds_ logic vs Mesh.* on dyadic inputs incl. infinite bounds (exact)."""
    from pybads.search.grid_functions import force_to_grid
    rng = ctx.sub_rng("c01mesh")
    cases = []
    n = 400 if ctx.quick else 5000
    for _ in range(n):
        D = rng.randint(1, 4)
        h = 2.0 ** (-rng.randint(0, 12))
        lb = [rng.choice([-np.inf, -1.0, -2.0 - rng.random(), -rng.randint(1, 9) * h - rng.choice([0, h / 2, h / 3, h / 4])]) for _ in range(D)]
        ub = [rng.choice([np.inf, 1.0, 2.0 + rng.random(), rng.randint(1, 9) * h + rng.choice([0, h / 2, h / 3, h / 4])]) for _ in range(D)]
        cases.append((h, lb, ub))
    reqs = [{"cmd": "mesh.bounds", "h": enc(h), "lb": [enc(v) for v in lb], "ub": [enc(v) for v in ub]} for h, lb, ub in cases]
    res = ctx.driver.call_many(reqs)
    for (h, lb, ub), r in zip(cases, res):
        l = np.array(lb, dtype=float)
        ls = force_to_grid(l, h)
        ls[ls < l] = ls[ls < l] + h
        u = np.array(ub, dtype=float)
        us = force_to_grid(u, h)
        us[us > u] = us[us > u] - h
        if [enc(v) for v in ls] != r["lo"] or [enc(v) for v in us] != r["hi"]:
            rep.disagree("Mesh.searchLo/searchHi ~ force_to_grid + adjustment", f"h={h} lb={lb} ub={ub}: model {r['lo']},{r['hi']} impl {list(ls)},{list(us)}",
                         {"kind": "mesh", "h": enc(h), "lb": [enc(v) for v in lb], "ub": [enc(v) for v in ub]})
    return len(cases)


def run(ctx):
    rep = Report()
    nmesh = mesh_function_level(ctx, rep)
    stats, samples = runlevel.pipe_replay(ctx, rep, "C01")
    fcov = runlevel.filter_events(ctx, rep, want_clauses=("in_box",))
    traces = runlevel.get_pool(ctx)
    rep.coverage = {
        "evaluations": stats["calls"] + nmesh + fcov["filter_events"], "distinct_nontrivial": stats["clamped_calls"] + stats["on_bound_calls"] + fcov["nontrivial"],
        "rule": "every target call, constraint call, log row and returned solution of the traced runs (box predicates evaluated by the Lean definitions on the observed points; provenance replayed through Pipe.step), "
                "every contraints_check call (box clause), plus dyadic mesh/bound cases for the search-box computation; non-trivial = calls whose image was clamped or lies on a bound + filter calls that changed their input",
        "samples": samples, "traces_validated_against_impl": stats["runs"], "pipeline": stats, "mesh_cases": nmesh, "filters": fcov,
        "pool": runlevel.pool_distribution(traces),
    }
    rep.assumptions = ["candidate sets are NaN-free (asserted on observed sets)", "no float overflow in mesh arithmetic (|u|/h < 2^52 asserted on observed values)",
                       "the un-clamped inverse ginv(u) is an oracle value taken from the real transformer"]
    return rep


def replay(ctx, data):
    rep = Report()
    from .. import tracer
    c = data["case"]
    if c.get("kind") == "mesh":
        return rep
    ctx._pool = [tracer.run_traced(c["spec"])]
    runlevel.pipe_replay(ctx, rep, ctx.pid)
    runlevel.filter_events(ctx, rep, want_clauses=("in_box",) if ctx.pid == "C01" else ("feasible",))
    return rep


def widen(ctx, rep0):
    rep = Report()
    from .. import tracer, gen
    rng = ctx.sub_rng("c01w")
    specs = [d["case"]["spec"] for d in rep0.disagreements if "spec" in d.get("case", {})][:8]
    for _ in range(60):
        sp = gen.make_spec(rng, geom=rng.choice(["tight", "logbox", "mixedlog", "x0_on_bound", "box"]), opt_loc=rng.choice(["outside", "on_bound"]), cons="rand")
        sp["options"] = gen.small_options(rng, sp["D"], sp["mode"])
        specs.append(sp)
    sub = type(ctx)(ctx.pid, "quick", ctx.seed)
    sub._pool = tracer.run_many([(sp, {}) for sp in specs])
    runlevel.pipe_replay(sub, rep, ctx.pid)
    runlevel.filter_events(sub, rep, want_clauses=("in_box",) if ctx.pid == "C01" else ("feasible",))
    return rep
