"""C01 - hard box bounds are never left: provenance replay through Pipe.step, box predicates on every observed call,
function-level differential of force_to_grid / search bounds / inverse_transf."""
import numpy as np
from ..core import Report
from ..proto import enc, enc_pt, dec_pts
from . import runlevel

# case kinds of corpus/ entries (failing inputs of past regressions) that this module replays on every run
CORPUS_KINDS = ('pipe_run', 'inverse', 'filter_run')



def mesh_function_level(ctx, rep):
    """force_to_grid and _update_search_bounds_ logic vs Mesh.* on dyadic inputs incl. infinite bounds (exact)."""
    from pybads.search.grid_functions import force_to_grid
    rng = ctx.sub_rng("c01mesh")
    cases = []
    n = 400 if ctx.quick else 5000
    for _ in range(n):
        D = rng.randint(1, 4)
        h = 2.0 ** (-rng.randint(0, 12))
        lb = [rng.choice([-np.inf, -1.0, -2.0 - rng.random(), -rng.randint(1, 9) * h - rng.choice([0, h / 2, h / 3, h / 4])]) for _ in range(D)]
        ub = [rng.choice([np.inf, 1.0, 2.0 + rng.random(), rng.randint(1, 9) * h + rng.choice([0, h / 2, h / 3, h / 4])]) for _ in range(D)]
        cases.append((h, lb, ub))
    reqs = [{"cmd": "mesh.bounds", "h": enc(h), "lb": [enc(v) for v in lb], "ub": [enc(v) for v in ub]} for h, lb, ub in cases]
    res = ctx.driver.call_many(reqs)
    for (h, lb, ub), r in zip(cases, res):
        l = np.array(lb, dtype=float)
        ls = force_to_grid(l, h)
        ls[ls < l] = ls[ls < l] + h
        u = np.array(ub, dtype=float)
        us = force_to_grid(u, h)
        us[us > u] = us[us > u] - h
        if [enc(v) for v in ls] != r["lo"] or [enc(v) for v in us] != r["hi"]:
            rep.disagree("Mesh.searchLo/searchHi ~ force_to_grid + adjustment", f"h={h} lb={lb} ub={ub}: model {r['lo']},{r['hi']} impl {list(ls)},{list(us)}",
                         {"kind": "mesh", "h": enc(h), "lb": [enc(v) for v in lb], "ub": [enc(v) for v in ub]})
    return len(cases)


def inverse_function_level(ctx, rep):
    """inverse_transf on many bound sets (C11's generator + power-of-ten log boxes), at the internal bounds themselves, one ulp either side,
    beyond them and in between: the image must lie inside the original hard box EXACTLY, and equal clamp(ginv(u)) (Pipe.inverse)."""
    import math
    from pybads.variable_transformer import VariableTransformer
    from . import c11
    from ..proto import enc, enc_pt
    rng = ctx.sub_rng("c01inv")
    nsets = 200 if ctx.quick else 3000
    reqs, owners = [], []
    stats = {"bound_sets": 0, "points": 0, "log_coords": 0, "clamped_points": 0}
    for si in range(nsets):
        if si % 3 == 0:
            D = rng.randint(1, 4)
            lb, ub, plb, pub = [], [], [], []
            for _ in range(D):
                a = rng.randint(-6, 2); b = a + rng.randint(1, 2); c = b + rng.randint(1, 3); d = c + rng.randint(0, 2)
                lb.append(10.0 ** a); plb.append(10.0 ** b); pub.append(10.0 ** c); ub.append(10.0 ** d)
        else:
            D, lb, ub, plb, pub = c11.gen_bounds(rng, ctx.quick)
        try:
            vt = VariableTransformer(D, np.array([lb]), np.array([ub]), np.array([plb]), np.array([pub]), np.full((1, D), np.nan))
        except ValueError:
            continue
        tl, tu = np.asarray(vt.lb, dtype=float).ravel(), np.asarray(vt.ub, dtype=float).ravel()
        lo = np.where(np.isfinite(tl), tl, -5.0)
        hi = np.where(np.isfinite(tu), tu, 5.0)
        rows = [lo, hi, np.nextafter(lo, -np.inf), np.nextafter(lo, np.inf), np.nextafter(hi, -np.inf), np.nextafter(hi, np.inf),
                lo - 1e-9, hi + 1e-9, lo - 0.5, hi + 0.5, np.full(D, -1.0), np.full(D, 1.0)]
        for _ in range(4):
            rows.append(np.array([rng.choice([lo[i], hi[i], lo[i] + (hi[i] - lo[i]) * rng.random(), hi[i] + 2.0 ** -rng.randint(1, 30), lo[i] - 2.0 ** -rng.randint(1, 30)]) for i in range(D)]))
        U = np.array(rows, dtype=float)
        with np.errstate(all="ignore"):
            X = np.atleast_2d(vt.inverse_transf(U.copy()))
            G = np.atleast_2d(vt.ginv(U.copy()))
        if not (np.all(np.isfinite(X)) and np.all(np.isfinite(G))):
            continue
        stats["bound_sets"] += 1
        stats["log_coords"] += int(np.sum(np.asarray(vt.apply_log_t).ravel() != 0)) if hasattr(vt, "apply_log_t") else 0
        reqs.append({"cmd": "pipe.run",
                     "env": {"lb": [enc(float(v)) for v in tl], "ub": [enc(float(v)) for v in tu], "origLo": [enc(float(v)) for v in lb], "origHi": [enc(float(v)) for v in ub], "tol": enc(2.0 ** -20)},
                     "u0": enc_pt([float(v) for v in U[0]]), "steps": [],
                     "calls": [{"u": enc_pt([float(v) for v in u]), "x": enc_pt([float(v) for v in x]), "ginv": enc_pt([float(v) for v in g])} for u, x, g in zip(U, X, G)]})
        owners.append((lb, ub, plb, pub, U, X, G))
    res = ctx.driver.call_many(reqs)
    for (lb, ub, plb, pub, U, X, G), r in zip(owners, res):
        for i, cr in enumerate(r["calls"]):
            stats["points"] += 1
            stats["clamped_points"] += bool(np.any(X[i] != G[i]))
            case = {"kind": "inverse", "lb": lb, "ub": ub, "plb": plb, "pub": pub, "u": [float(v) for v in U[i]]}
            if not cr["x_in"]:
                rep.violation("orig_box", "variables_transformer.py:inverse_transf",
                              f"inverse_transf(u) lies outside the hard bounds: lb={lb} ub={ub} plb={plb} pub={pub} u={[float(v) for v in U[i]]} -> x={[float(v) for v in X[i]]}", case)
                break
            if not cr["x_eq"]:
                rep.disagree("Pipe.inverse ~ inverse_transf", f"inverse_transf(u) is not clamp(ginv(u)) for lb={lb} ub={ub} u={[float(v) for v in U[i]]}", case)
                break
    return stats


def logdec_specs(ctx):
    """Runs on power-of-ten log boxes with the optimum on or beyond a bound: the run visits the bound faces, whose internal images are
    exactly on the mesh and whose un-clamped inverse images may round to either side of the hard bound."""
    from .. import gen
    rng = ctx.sub_rng("c01logdec")
    specs = []
    for _ in range(8 if ctx.quick else 60):
        D = rng.choice([1, 2, 2, 3])
        sp = gen.make_spec(rng, D=D, geom="logdec", mode=rng.choice(["det", "det", "decl"]), opt_loc=rng.choice(["on_bound", "outside"]),
                           cons=rng.choice([None, None, "halfspace"]), target=rng.choice(["quad", "abs"]))
        dec = []
        for _i in range(D):
            a = rng.randint(-3, 0); b = a + 1; c = b + rng.randint(1, 2); d = c + rng.randint(0, 1) + (1 if rng.random() < 0.7 else 0)
            dec.append([a, b, c, d])
        sp["decades"] = dec
        sp["options"] = {"n_search": 32, "max_fun_evals": (D + 30) if sp["mode"] == "det" else 70}
        if rng.random() < 0.5:
            sp["x0_near"] = [rng.choice([0.0015, 0.002, 0.004, 0.01]) * rng.choice([1, 1, -1]) for _ in range(D)]
        specs.append(sp)
    # start points close to a hard bound combined with a coarse search grid: snapping the start point to the grid may carry it across the bound
    combos = [(g, sgn, f) for g in (0, 1, 2, 4) for sgn in (-1, 1) for f in (0.002, 0.01, 0.03, 0.06)]
    rng.shuffle(combos)
    # the first ones systematically: coarse grids, both sides, distances from just outside the 0.1% margin to several percent of the range
    combos = [(0, -1, 0.03), (0, -1, 0.06), (0, 1, 0.03), (1, -1, 0.002), (1, -1, 0.01), (0, -1, 0.01), (2, -1, 0.002), (1, 1, 0.03)] + combos
    for g, sgn, f in combos[: (10 if ctx.quick else 40)]:
        D = rng.choice([1, 2, 3])
        sp = gen.make_spec(rng, D=D, geom="x0_near_bound", mode=rng.choice(["det", "det", "decl"]), opt_loc=rng.choice(["inside", "on_bound"]), cons=None,
                           target=rng.choice(["quad", "abs"]))
        sp["x0_near"] = [sgn * f] + [rng.choice([0.0, 0.002, 0.01, 0.03, 0.06]) * rng.choice([1, -1]) for _ in range(D - 1)]
        sp["options"] = {"n_search": 32, "max_fun_evals": (D + 25) if sp["mode"] == "det" else 65, "search_grid_number": g}
        specs.append(sp)
    return specs


def run(ctx):
    rep = Report()
    nmesh = mesh_function_level(ctx, rep)
    inv = inverse_function_level(ctx, rep)
    runlevel.with_extra(ctx, "c01logdec", lambda: logdec_specs(ctx))
    runlevel.with_extra(ctx, "c01forcemesh", lambda: forced_poll_mesh_specs(ctx))
    runlevel.with_extra(ctx, "c01toggle", lambda: option_toggle_specs(ctx))
    runlevel.with_extra(ctx, "c01typed", lambda: typed_start_specs(ctx))
    stats, samples = runlevel.pipe_replay(ctx, rep, "C01")
    fcov = runlevel.filter_events(ctx, rep, want_clauses=("in_box",))
    # ONE WHOLE CALL of optimize() (Opt.init + Full.step + Opt.finish, the model of Props/C01Opt.lean): every pool run through the whole-call model
    wstats = runlevel.whole_replay(ctx, rep, plain_only=True)
    traces = runlevel.get_pool(ctx)
    rep.coverage = {
        "whole_run_model": wstats,
        "evaluations": stats["calls"] + nmesh + fcov["filter_events"], "distinct_nontrivial": stats["clamped_calls"] + stats["on_bound_calls"] + fcov["nontrivial"],
        "rule": "every target call, constraint call, log row and returned solution of the traced runs (box predicates evaluated by the Lean definitions on the observed points; provenance replayed through Pipe.step), "
                "every contraints_check call (box clause), plus dyadic mesh/bound cases for the search-box computation; non-trivial = calls whose image was clamped or lies on a bound + filter calls that changed their input",
        "samples": samples, "traces_validated_against_impl": stats["runs"], "pipeline": stats, "mesh_cases": nmesh, "inverse_function_level": inv, "filters": fcov,
        "pool": runlevel.pool_distribution(traces),
    }
    rep.assumptions = ["candidate sets are NaN-free (asserted on observed sets)", "no float overflow in mesh arithmetic (|u|/h < 2^52 asserted on observed values)",
                       "the un-clamped inverse ginv(u) is an oracle value taken from the real transformer"]
    return rep


def replay(ctx, data):
    rep = Report()
    from .. import tracer
    c = data["case"]
    if c.get("kind") == "mesh":
        return rep
    if c.get("kind") == "inverse":
        return _replay_inverse(ctx, rep, c)
    ctx._pool = [tracer.run_traced(c["spec"])]
    runlevel.pipe_replay(ctx, rep, ctx.pid)
    runlevel.filter_events(ctx, rep, want_clauses=("in_box",) if ctx.pid == "C01" else ("feasible",))
    return rep


def _replay_inverse(ctx, rep, c):
    from pybads.variable_transformer import VariableTransformer
    D = len(c["lb"])
    vt = VariableTransformer(D, np.array([c["lb"]]), np.array([c["ub"]]), np.array([c["plb"]]), np.array([c["pub"]]), np.full((1, D), np.nan))
    x = np.asarray(vt.inverse_transf(np.array([c["u"]], dtype=float))).ravel()
    if any(not (l <= v <= u) for v, l, u in zip(x, c["lb"], c["ub"])):
        rep.violation("orig_box", "variables_transformer.py:inverse_transf", f"inverse_transf(u) lies outside the hard bounds: u={c['u']} -> x={[float(v) for v in x]}", c)
    return rep


def option_toggle_specs(ctx):
    """One boolean option switched away from its default each, the optimum beyond a face of the box (candidates keep pushing against the
    bounds): whatever alternative code path an option enables must still keep every evaluated point inside the box."""
    from .. import gen
    rng = ctx.sub_rng("c01toggle")
    specs = []
    for j, (name, dflt) in enumerate(gen.boolean_options()):
        sp = gen.make_spec(rng, D=2, geom=rng.choice(["box", "logbox", "tight"]), mode=["det", "det", "decl"][j % 3], cons=None, opt_loc=rng.choice(["outside", "on_bound"]),
                           target="quad")
        sp["options"] = {"n_search": 32, "max_fun_evals": 45 if sp["mode"] == "det" else 70, name: (not dflt), "noise_final_samples": 0}
        specs.append(sp)
    return specs


def forced_poll_mesh_specs(ctx):
    """force_poll_mesh = True (poll points are snapped to the search mesh) with the mesh allowed to get coarser again (search_mesh_expand,
    noisy targets), the optimum on or beyond a face whose bound is not a mesh point: a snapped poll point must still be inside the box."""
    from .. import gen
    rng = ctx.sub_rng("c01forcemesh")
    specs = []
    for i in range(8 if ctx.quick else 60):
        mode = ["det", "decl", "he", "det"][i % 4]
        sp = gen.make_spec(rng, D=rng.choice([2, 2, 3]), geom=rng.choice(["box", "logbox", "x0_near_bound"]), mode=mode, cons=None, opt_loc=rng.choice(["on_bound", "outside"]),
                           target=rng.choice(["quad", "abs"]))
        if sp["geom"] == "x0_near_bound":
            sp["x0_near"] = [rng.choice([0.01, -0.01, 0.002]) for _ in range(sp["D"])]
        sp["options"] = {"n_search": 32, "force_poll_mesh": True, "search_mesh_expand": rng.choice([0, 1, 1, 2]), "max_fun_evals": 110 if mode == "det" else 150,
                         "noise_final_samples": 0}
        specs.append(sp)
    return specs


def typed_start_specs(ctx):
    """The start point handed over in another floating type (float32 / float16 arrays, as data loaded from disk often is), decimal hard
    bounds that this type cannot represent (+-0.2) and the optimum on or beyond a face: what is evaluated, logged and RETURNED must still
    lie inside the (double precision) box."""
    from .. import gen
    rng = ctx.sub_rng("c01typed")
    specs = []
    for i in range(4 if ctx.quick else 24):
        mode = ["det", "det", "decl", "det"][i % 4]
        sp = gen.make_spec(rng, D=rng.choice([1, 2, 2, 3]), geom="decimal", mode=mode, cons=None, opt_loc=rng.choice(["on_bound", "outside"]), target=rng.choice(["quad", "abs"]))
        sp["x0_dtype"] = ["float32", "float32", "float16", "float32"][i % 4]
        sp["options"] = {"n_search": 32, "max_fun_evals": (sp["D"] + 40) if mode == "det" else 80, "noise_final_samples": 0}
        specs.append(sp)
    return specs


def widen(ctx, rep0):
    rep = Report()
    from .. import tracer, gen
    rng = ctx.sub_rng("c01w")
    specs = [d["case"]["spec"] for d in rep0.disagreements if "spec" in d.get("case", {})][:8]
    for _ in range(60):
        sp = gen.make_spec(rng, geom=rng.choice(["tight", "logbox", "mixedlog", "x0_on_bound", "box"]), opt_loc=rng.choice(["outside", "on_bound"]), cons="rand")
        sp["options"] = gen.small_options(rng, sp["D"], sp["mode"])
        specs.append(sp)
    sub = type(ctx)(ctx.pid, "quick", ctx.seed)
    sub._pool = tracer.run_many([(sp, {}) for sp in specs])
    runlevel.pipe_replay(sub, rep, ctx.pid)
    runlevel.filter_events(sub, rep, want_clauses=("in_box",) if ctx.pid == "C01" else ("feasible",))
    return rep
