"""C18 - the search step evaluates the acquisition-optimal candidate, once: rank-selection mask for all (mu, lambda) up
to a bound, ES accumulate/select and hedge probabilities of traced runs vs Srch.*"""
import math
import numpy as np
from fractions import Fraction
from ..core import Report
from ..proto import enc, enc_pt
from . import runlevel

SITE_M = "es_search.py:_get_selection_idx_mask_"
SITE_E = "es_search.py:ESSearch.__call__"
SITE_H = "search_hedge.py:ESSearchHedge.__call__"

# case kinds of corpus/ entries (failing inputs of past regressions) that this module replays on every run
CORPUS_KINDS = ('hedge', 'search_run')



def mask_level(ctx, rep):
    from pybads.search.es_search import ESSearchWM
    opts = {"poll_mesh_multiplier": 2.0, "es_start": 0.25, "n_search_iter": 2, "search_acq_fcn": ("acq_LCB", None), "es_beta": 1}
    es = ESSearchWM(4, 4, opts)
    top = 60 if ctx.quick else 300
    pairs = [(mu, lam) for mu in range(1, top + 1) for lam in range(1, top + 1) if ctx.tier != "quick" or (mu + lam) % 3 == 0 or mu == lam or mu <= 6 or lam <= 6]
    pairs.append((2048, 2048))
    pairs.append((1, 2048))
    reqs, impl, w0s = [], [], {}
    for mu, lam in pairs:
        m = es._get_selection_idx_mask_(mu, lam)
        tot = mu + lam
        sq = np.sqrt(np.arange(1, tot + 1))
        w0 = np.ceil((1.0 / sq) / np.sum(1.0 / sq) * lam).astype(int)
        reqs.append({"cmd": "srch.mask", "w0": [int(v) for v in w0], "lam": lam})
        w0s[(mu, lam)] = [int(v) for v in w0]
        impl.append([int(v) for v in m])
    res = ctx.driver.call_many(reqs)
    hist = {}
    for (mu, lam), m, r in zip(pairs, impl, res):
        case = {"kind": "mask", "mu": mu, "lam": lam}
        w0 = w0s[(mu, lam)]
        if any(b > a for a, b in zip(w0, w0[1:])) or sum(w0) < lam or len(w0) != mu + lam:
            # hypotheses of theorem Srch.mask_valid about the ORACLE weights (floating-point ceil of lambda/sqrt(i)/sum)
            rep.disagree("hypotheses of Srch.mask_valid (initial weights non-increasing, sum >= lambda, mu + lambda of them)",
                         f"mu={mu} lambda={lam}: w0={w0[:10]}.. sum={sum(w0)}", case)
        if r["mask"] != m:
            rep.disagree("Srch.selectionMask ~ _get_selection_idx_mask_", f"mu={mu} lambda={lam}: model {r['mask'][:12]}.. impl {m[:12]}..", case)
        ll = min(lam, mu)
        bad = None
        if len(m) < ll:
            bad = ("mask_length", f"mask has {len(m)} entries, {ll} parents are selected")
        elif m and m[0] != 0:
            bad = ("mask_first", f"mask[0]={m[0]}")
        elif any(not (0 <= b - a <= 1) for a, b in zip(m, m[1:])):
            bad = ("mask_monotone", "mask is not non-decreasing with unit steps")
        elif any(v > k for k, v in enumerate(m)):
            bad = ("mask_le_index", "mask[k] > k for some k")
        elif any(v >= mu for v in m[:ll]):
            bad = ("mask_valid", f"mask selects parent index >= mu={mu}")
        if bad:
            hist[bad[0]] = hist.get(bad[0], 0) + 1
            rep.violation(bad[0], SITE_M, f"mu={mu} lambda={lam}: {bad[1]}", case)
    return len(pairs), hist


def empty_population_specs(ctx):
    """Constraints that only the start point's own grid cell satisfies: every ES candidate of every generation is infeasible."""
    from .. import gen
    rng = ctx.sub_rng("c18empty")
    specs = []
    for _ in range(6 if ctx.quick else 30):
        sp = gen.make_spec(rng, D=rng.choice([2, 2, 3]), mode=rng.choice(["det", "det", "decl"]), geom=rng.choice(["box", "tight", "unbounded"]), cons="lattice",
                           opt_loc="inside", target="quad")
        sp["options"] = {"n_search": rng.choice([32, 64]), "max_fun_evals": (sp["D"] + 30) if sp["mode"] == "det" else 70, "max_iter": 25}
        specs.append(sp)
    return specs


def fixed_beta_specs(ctx):
    """A fixed scalar confidence parameter for the search acquisition function (search_acq_fcn = ('acq_LCB', c)), including c = 0 (plain GP
    mean): the candidates must be ranked by mean - c * sd for THAT c."""
    from .. import gen
    rng = ctx.sub_rng("c18beta")
    specs = []
    for c in ("0", "0.0", "2.0", "np.float64(1.5)") + (() if ctx.quick else ("np.float64(0.0)", "0.5", "3", "np.float32(4.0)")):
        sp = gen.make_spec(rng, D=rng.choice([1, 2, 3]), geom=rng.choice(["box", "tight"]), mode=rng.choice(["det", "det", "decl"]), cons=None, target="quad")
        sp["options"] = {"n_search": 32, "max_fun_evals": 40 if sp["mode"] == "det" else 70}
        sp["np_options"] = {"search_acq_fcn": f"('acq_LCB', {c})"}
        specs.append(sp)
    return specs


def portfolio_specs(ctx):
    """A user-configured portfolio of search strategies (advanced option search_method): one strategy only, the two in the other order, three entries."""
    from .. import gen
    rng = ctx.sub_rng("c18portfolio")
    specs = []
    for pf in ("[('ES-ell', 1)]", "[('ES-wcm', 1)]", "[('ES-ell', 1), ('ES-wcm', 1)]", "[('ES-wcm', 0), ('ES-ell', 1)]", "[('ES-ell', 1), ('ES-wcm', 1), ('ES-ell', 0)]"):
        for mode in (("det",) if ctx.quick else ("det", "decl")):
            sp = gen.make_spec(rng, D=rng.choice([1, 2, 3]), geom=rng.choice(["box", "tight"]), mode=mode, cons=None, target=rng.choice(["quad", "abs"]))
            sp["options"] = {"n_search": 32, "max_fun_evals": (sp["D"] + 26) if mode == "det" else 60, "noise_final_samples": 0}
            sp["np_options"] = {"search_method": pf}
            specs.append(sp)
    return specs


def upper_face_specs(ctx):
    """The optimum on or beyond the UPPER face of the first variable, whose internal image lies on the search mesh (hard bounds +-0.2, plausible
    bounds +-0.1: internal +-2): the strategies then propose points exactly on that bound, and the search step has to evaluate exactly those."""
    from .. import gen
    rng = ctx.sub_rng("c18face")
    specs = []
    for i in range(3 if ctx.quick else 16):
        mode = ["det", "det", "decl"][i % 3]
        sp = gen.make_spec(rng, D=rng.choice([1, 2, 2, 3]), geom="decimal", mode=mode, cons=None, opt_loc=["outside", "on_bound", "outside"][i % 3], target=rng.choice(["quad", "abs"]))
        sp["options"] = {"n_search": 32, "max_fun_evals": (sp["D"] + 45) if mode == "det" else 85, "noise_final_samples": 0}
        specs.append(sp)
    return specs


def large_population_specs(ctx):
    """Search populations larger than the default (n_search / n_search_iter candidates per ES generation: 3000, 5000, 4100)."""
    from .. import gen
    rng = ctx.sub_rng("c18large")
    specs = []
    for ns, nsi in ((6000, 2), (5000, 1)) + (() if ctx.quick else ((8200, 2), (2**13, 2), (7000, 3))):
        sp = gen.make_spec(rng, D=2, geom="box", mode="det", cons=rng.choice([None, "ball"]), opt_loc=rng.choice(["inside", "on_bound"]), target="quad")
        sp["options"] = {"n_search": ns, "n_search_iter": nsi, "max_fun_evals": 22}
        specs.append(sp)
    return specs


def tiny_population_specs(ctx):
    """ES populations of 1-3 candidates (n_search / n_search_iter tiny) with the optimum on or beyond a bound: single candidates land outside the
    mesh-rounded box and have to be projected like any other."""
    from .. import gen
    rng = ctx.sub_rng("c18tiny")
    specs = []
    for ns, nsi in ((2, 2), (4, 2), (2, 1), (6, 2), (3, 1), (2, 2)):
        sp = gen.make_spec(rng, D=rng.choice([1, 2, 2]), mode=rng.choice(["det", "det", "decl"]), geom=rng.choice(["box", "tight"]), cons=None,
                           opt_loc=rng.choice(["on_bound", "outside"]), target="quad")
        sp["options"] = {"n_search": ns, "n_search_iter": nsi, "max_fun_evals": (sp["D"] + 40) if sp["mode"] == "det" else 80, "noise_final_samples": 0}
        specs.append(sp)
    return specs


def e_z(h):
    return None if h is None else h.get("z_out")


def run_level(ctx, rep):
    if not getattr(ctx, "_replaying", False):
        runlevel.with_extra(ctx, "c18empty", lambda: empty_population_specs(ctx))
        runlevel.with_extra(ctx, "c18tiny", lambda: tiny_population_specs(ctx))
        runlevel.with_extra(ctx, "c18beta", lambda: fixed_beta_specs(ctx))
        runlevel.with_extra(ctx, "c18large", lambda: large_population_specs(ctx))
        runlevel.with_extra(ctx, "c18portfolio", lambda: portfolio_specs(ctx))
        runlevel.with_extra(ctx, "c18face", lambda: upper_face_specs(ctx))
    if not getattr(ctx, "_replaying", False):
        runlevel.scripted_controller_runs(ctx, "c18script", 8 if ctx.quick else 60, want=("ctl", "filt", "gp"))
    traces = runlevel.get_pool(ctx)
    box_reqs, box_owners = [], []
    stats = {"runs": 0, "searches": 0, "es_generations": 0, "empty_generations": 0, "hedge_calls": 0, "small_populations": 0, "ties": 0}
    es_reqs, es_owners, h_reqs, h_owners = [], [], [], []
    for t in traces:
        if not t["constructed"]:
            continue
        sp = t["spec"]
        tag = runlevel.spec_tag(sp)
        case = {"kind": "search_run", "spec": sp}
        stats["runs"] += 1
        beta = 1e-3 / t["hdr"]["opts"]["tol_fun"]
        lam = int(t["hdr"]["opts"]["n_search"] / t["hdr"]["opts"]["n_search_iter"])
        gens = []
        es_out = []
        reported = set()
        last_proposal, last_hedge = None, None
        for k, e in t["events"]:
            if k == "FILT" and e["site"] in ("es", "search") and e.get("out") and e.get("sms"):
                box_reqs.append({"cmd": "mesh.bounds", "h": enc(e["sms"]), "lb": [enc(v) for v in (t["hdr"].get("lb_ref") or t["hdr"]["lb"])],
                                 "ub": [enc(v) for v in (t["hdr"].get("ub_ref") or t["hdr"]["ub"])]})      # the box of a FRESH transform of the original bounds
                box_owners.append((case, tag, e))
            if k == "FILT" and e["site"] == "es":
                es_out.append(e["n_out"])
                # "survived feasibility filtering": judged by the run's own constraint function, not by what the strategy's filter was handed
                if e.get("out_infeasible") and "es_feasible" not in reported:
                    reported.add("es_feasible")
                    rep.violation("es_survivors_feasible", SITE_E, f"{e['out_infeasible']} of the {e['n_out']} candidates the evolution strategy keeps, ranks and breeds from "
                                  f"violate the non-box constraint (the strategy's filter was {'not ' if not e['has_cons'] else ''}handed the constraint function); {tag}", case)
            if k == "ACQ" and e["site"] == "es":
                stats["es_generations"] += 1
                # one acquisition value per candidate handed to the acquisition function (whatever the size of the population)
                if e.get("n_xi") is not None and e["n"] != e["n_xi"] and "acq_all" not in reported:
                    reported.add("acq_all")
                    rep.violation("es_argmin", SITE_E, f"the acquisition function returned {e['n']} values for {e['n_xi']} surviving candidates: the ranking cannot pair "
                                  f"every candidate with its own value; {tag}", case)
                stats["large_generations"] = stats.get("large_generations", 0) + (e.get("n_xi", 0) > 2048)
                # the acquisition values the strategy ranks by are mean - c * sd for the CONFIGURED c (when the search acquisition function is
                # given a fixed scalar confidence parameter)
                cfg = (sp.get("np_options") or {}).get("search_acq_fcn")
                if cfg and "acq_cfg" not in reported:
                    cval = float(eval(cfg, {"np": np})[1])
                    stats["fixed_beta_acq_calls"] = stats.get("fixed_beta_acq_calls", 0) + 1
                    for z, mu, s_ in zip(e["z"], e["mu"], e["s"]):
                        if all(math.isfinite(v) for v in (z, mu, s_)) and not (abs(z - (mu - cval * s_)) <= 1e-9 * max(1.0, abs(mu), abs(cval * s_))):
                            reported.add("acq_cfg")
                            rep.violation("acquisition_as_configured", SITE_E, f"search_acq_fcn = {cfg}: a candidate with GP mean {mu} and SD {s_} is ranked by the value {z}, "
                                          f"not by mean - {cval} * SD = {mu - cval * s_}; {tag}", case)
                            break
                if e["n"] == 0:
                    stats["empty_generations"] += 1
                if e["xi"] is None:
                    gens = None
                elif gens is not None:
                    stats["small_populations"] += e["n"] <= 3
                    gens.append([{"u": enc_pt(x), "z": enc(z)} for x, z in zip(e["xi"], e["zall"]) if math.isfinite(z)] if all(math.isfinite(z) for z in e["zall"]) else None)
            elif k == "HEDGE":
                last_hedge = e
                stats["hedge_calls"] += 1
                stats["searches"] += 1
                # hedge distribution
                g = np.array(e["g"])
                if np.all(np.isfinite(g)):
                    ee = np.exp(beta * (g - np.max(g)))
                    h_reqs.append({"cmd": "srch.hedge", "e": [enc(float(v)) for v in ee], "gamma": enc(e["gamma"])})
                    h_owners.append((case, tag, e))
                    p = np.array(e["prob"])
                    if not np.all(np.isfinite(p)) or abs(np.sum(p) - 1) > 1e-12 or np.any(p < e["gamma"] - 1e-15) or not (0 <= e["chosen"] < e["n"]):
                        rep.violation("hedge_distribution", SITE_H, f"strategy probabilities {p.tolist()} (gamma={e['gamma']}, chosen={e['chosen']}) are not a proper distribution with floor gamma; {tag}", case)
                # the portfolio the strategy is drawn from is the one the USER configured (advanced option search_method), entry by entry
                cfg = (sp.get("np_options") or {}).get("search_method")
                if cfg and e.get("fcns") is not None and "portfolio" not in reported:
                    want = [[str(a), int(b)] for a, b in eval(cfg)]
                    stats["portfolio_checked"] = stats.get("portfolio_checked", 0) + 1
                    if e["fcns"] != want:
                        reported.add("portfolio")
                        rep.violation("hedge_distribution", SITE_H, f"the search strategy is drawn from the portfolio {e['fcns']} (probabilities {e['prob']}), the configured portfolio "
                                      f"(options['search_method']) is {want}: no proper distribution over the portfolio; {tag}", case)
                # nothing survived in any generation: nothing may be proposed
                if es_out and all(n == 0 for n in es_out):
                    stats["all_empty_searches"] = stats.get("all_empty_searches", 0) + 1
                    if len(e["u_out"]) > 0:
                        rep.violation("es_member", SITE_E, f"a point was proposed although no candidate of any generation survived the feasibility filters; {tag}", case)
                # ES result vs all surviving candidates of this search
                if gens is not None and gens and all(gg is not None for gg in gens):
                    allz = [Fraction(c["z"]) for gg in gens for c in gg]
                    if allz and e["z_out"] is not None and not isinstance(e["z_out"], list) and math.isfinite(e["z_out"]):
                        zmin = min(allz)
                        if Fraction(e["z_out"]) != zmin:
                            rep.violation("es_argmin", SITE_E, f"proposed candidate has acquisition value {e['z_out']} but a surviving candidate has {float(zmin)}; {tag}", case)
                        us = [tuple(c["u"]) for gg in gens for c in gg]
                        if tuple(enc_pt(e["u_out"])) not in us:
                            rep.violation("es_member", SITE_E, f"proposed candidate is not one of the surviving candidates; {tag}", case)
                        stats["ties"] += allz.count(zmin) > 1
                        es_reqs.append({"cmd": "srch.es", "lam": lam, "gens": gens})
                        es_owners.append((case, tag, e))
                gens = []
                es_out = []
                last_proposal = e["u_out"] if (e.get("u_out") and not t.get("es_script")) else None
            elif k == "CALL" and e.get("phase") == "search" and "exc" not in e:
                # the search step EVALUATES the point its strategy proposed (already on the grid and inside the mesh-rounded box: nothing on the
                # way from the strategy to the target may move it)
                if last_proposal is not None and "evaluates_proposal" not in reported:
                    stats["proposals_followed"] = stats.get("proposals_followed", 0) + 1
                    pu = [float(v) for v in np.ravel(last_proposal)]
                    if [float(v) for v in e["u"]] != pu:
                        reported.add("evaluates_proposal")
                        rep.violation("es_member", "bads.py:_search_step_", f"the search step evaluated {e['u']} while its strategy proposed {pu} (acquisition value {e_z(last_hedge)}): "
                                      f"the evaluated point is not the acquisition-optimal candidate; {tag}", case)
                last_proposal = None
            elif k == "SRCH":
                n = e["post"]["fc"] - e["pre"]["fc"]
                if n not in (0, 1):
                    rep.violation("one_evaluation", "bads.py:_search_step_", f"a search step made {n} target evaluations; {tag}", case)
    stats["candidate_sets_box_checked"] = len(box_reqs)
    flagged = set()
    for (case, tag, e), m in zip(box_owners, ctx.driver.call_many(box_reqs)):
        lo = [float(Fraction(v)) if v not in ("inf", "-inf") else float(v) for v in m["lo"]]
        hi = [float(Fraction(v)) if v not in ("inf", "-inf") else float(v) for v in m["hi"]]
        if id(case) not in flagged and any(not (l <= v <= h) for row in e["out"] for v, l, h in zip(row, lo, hi)):
            flagged.add(id(case))
            rep.violation("candidates_in_mesh_box", SITE_E, f"a surviving {e['site']} candidate lies outside the box rounded to the current search mesh ({e['sms']}); {tag}", case)
    for (case, tag, e), m in zip(es_owners, ctx.driver.call_many(es_reqs)):
        if m is None or Fraction(m["z"]) != Fraction(e["z_out"]):
            rep.disagree("Srch.esResult ~ ESSearch.__call__", f"model proposes z={m and m['z']} run z={e['z_out']}; {tag}", case)
    for (case, tag, e), m in zip(h_owners, ctx.driver.call_many(h_reqs)):
        mp = [float(Fraction(v)) for v in m["probs"]]
        if any(not (abs(a - b) <= 1e-12) for a, b in zip(mp, e["prob"])):
            rep.disagree("Srch.hedgeProbs ~ ESSearchHedge probabilities", f"model {mp} run {e['prob']}; {tag}", case)
    return stats


def hedge_level(ctx, rep, only=None):
    """ESSearchHedge's probabilities for portfolios of 1..6 strategies (the default has 2) and arbitrary score histories - lopsided, close
    leaders with laggards, huge, negative, decayed: the real __call__ (strategies stubbed out) vs Srch.hedgeProbs, and the property's clauses
    (sums to 1, each probability at least the exploration floor hedge_gamma, the draw picks a strategy of the portfolio)."""
    import pybads.search.search_hedge as sh
    rng = ctx.sub_rng("c18hedge")

    class Stub:
        def __init__(self, *a, **k):
            pass

        def __call__(self, *a, **k):
            return np.zeros((1, 1)), np.zeros(1)

    cases = only or []
    if only is None:
        for _ in range(300 if ctx.quick else 5000):
            n = rng.choice([1, 2, 2, 3, 3, 4, 5, 6])
            gamma = rng.choice([0.125, 0.125, 0.05, 0.0, 1.0 / 6, 0.01])
            if n * gamma > 1:
                gamma = 1.0 / n
            beta = rng.choice([1.0, 1.0, 1e-3, 10.0, 0.1, 100.0, 1000.0])      # hedge_beta = 1e-3 / tol_fun: tol_fun down to 1e-6
            kind = rng.choice(["initial", "leaders", "lopsided", "huge", "negative", "equal", "random"])
            if kind == "initial":
                g = [10.0] + [0.0] * (n - 1)
            elif kind == "leaders":
                top = rng.uniform(1, 8)
                g = [top - rng.uniform(0, 1) for _ in range(max(1, n - 1))] + [0.0] * (n - max(1, n - 1))
                rng.shuffle(g)
            elif kind == "lopsided":
                g = [rng.uniform(0, 0.01) for _ in range(n)]; g[rng.randrange(n)] = rng.uniform(5, 50)
            elif kind == "huge":
                g = [rng.uniform(0, 1) * 10.0 ** rng.randint(2, 6) for _ in range(n)]
            elif kind == "negative":
                g = [-rng.uniform(0, 20) for _ in range(n)]
            elif kind == "equal":
                g = [rng.choice([0.0, 3.5])] * n
            else:
                g = [rng.uniform(-5, 15) for _ in range(n)]
            cases.append({"kind": "hedge", "n": n, "gamma": gamma, "beta": beta, "g": [float(v) for v in g], "r": rng.random()})
    old = (sh.ESSearchWM, sh.ESSearchELL, np.random.rand)
    impl = []
    try:
        sh.ESSearchWM = sh.ESSearchELL = Stub
        for c in cases:
            portfolio = [("ES-wcm" if i % 2 == 0 else "ES-ell", 1 if i < 2 else 0) for i in range(c["n"])]
            h = sh.ESSearchHedge(portfolio, {"hedge_gamma": c["gamma"], "hedge_beta": c["beta"], "hedge_decay": 0.9, "n_search_iter": 2, "n_search": 32})
            h.g = np.array(c["g"], dtype=float)
            np.random.rand = lambda *a, _r=c["r"]: _r
            try:
                h(None, None, None, None, None, None)
                impl.append(([float(v) for v in np.ravel(h.prob)], int(np.asarray(h.chosen_hedge).reshape(-1)[0])))
            except Exception as ex:       # noqa
                impl.append((None, f"{type(ex).__name__}: {str(ex)[:80]}"))
            finally:
                np.random.rand = old[2]
    finally:
        sh.ESSearchWM, sh.ESSearchELL, np.random.rand = old
    reqs = []
    for c in cases:
        g = np.array(c["g"])
        ee = np.exp(c["beta"] * (g - np.max(g)))
        reqs.append({"cmd": "srch.hedge", "e": [enc(float(v)) for v in ee], "gamma": enc(c["gamma"])})
    res = ctx.driver.call_many(reqs)
    below = 0
    for c, (p, chosen), m in zip(cases, impl, res):
        if p is None:
            rep.violation("hedge_distribution", SITE_H, f"hedge call failed with {chosen} for a portfolio of {c['n']} strategies, scores {c['g']}", c)
            continue
        mp = [float(Fraction(v)) for v in m["probs"]]
        if len(mp) != len(p) or any(not (abs(a - b) <= 1e-12) for a, b in zip(mp, p)):
            rep.disagree("Srch.hedgeProbs ~ ESSearchHedge probabilities", f"portfolio of {c['n']}, gamma={c['gamma']}, beta={c['beta']}, scores {c['g']}: model {mp} impl {p}", c)
        if not all(math.isfinite(v) for v in p) or abs(sum(p) - 1) > 1e-12 or any(v < c["gamma"] - 1e-15 for v in p) or not (0 <= chosen < c["n"]):
            below += 1
            rep.violation("hedge_distribution", SITE_H, f"portfolio of {c['n']} strategies, gamma={c['gamma']}, beta={c['beta']}, scores {c['g']}: probabilities {p} (chosen {chosen}) are not a proper "
                          f"distribution with floor gamma", c)
    return len(cases)


def run(ctx):
    rep = Report()
    npairs, hist = mask_level(ctx, rep)
    nhedge = hedge_level(ctx, rep)
    stats = run_level(ctx, rep)
    # ONE WHOLE CALL of optimize() (Opt.init + Full.step + Opt.finish, the model of Props/C18Opt.lean): the points each search / poll step evaluates are
    # DERIVED by the model from the candidate sets and the acquisition picks, and compared with the run per iteration (runs with plain options)
    wstats = runlevel.whole_replay(ctx, rep, plain_only=True)
    rep.coverage = {
        "whole_run_model": wstats,
        "evaluations": npairs + nhedge + stats["searches"], "hedge_cases": nhedge, "distinct_nontrivial": npairs + stats["small_populations"] + stats["empty_generations"],
        "rule": "mask: every (mu, lambda) up to the bound (all pairs <= 300 in the thorough tier; a structured subset in the quick tier) plus (2048, 2048): the real mask vs Srch.selectionMask on the same integer weights, "
                "and the mask predicates; searches: every ES call of the traced runs - all surviving candidates of all generations (as passed to the acquisition function) vs the proposed point; hedge probabilities of every search step; hedge function level: portfolios of 1..6 strategies x score histories (initial, close leaders + laggards, lopsided, huge, negative, equal, random) x gamma x beta",
        "samples": [{"mu": 5, "lam": 7}], "mask_pairs": npairs, "mask_clause_failures": hist, "run_level": stats,
        "traces_validated_against_impl": stats["runs"], "exhaustive": not ctx.quick,
    }
    rep.assumptions = ["cumsum rounding could leave the last partial sum below a uniform draw with probability ~1e-16: not modelled",
                       "mask validity (lambda + 1 entries, first min(lambda, mu) indices < mu) is PROVED for all (mu, lambda) in Srch.mask_valid under the hypothesis that the floating-point initial weights ceil(lambda / sqrt(i) / sum) are non-increasing and sum to >= lambda; that hypothesis, and the equality of the real mask with the model's, are checked on every enumerated pair"]
    return rep


def replay(ctx, data):
    rep = Report()
    c = data["case"]
    if c.get("kind") == "hedge":
        hedge_level(ctx, rep, only=[c])
    elif c.get("kind") == "search_run":
        from .. import tracer
        ctx._pool = [tracer.run_traced(c["spec"])]
        ctx._replaying = True
        run_level(ctx, rep)
    else:
        mask_level(ctx, rep)
    return rep


def widen(ctx, rep0):
    rep = Report()
    sub = type(ctx)(ctx.pid, "thorough", ctx.seed)
    mask_level(sub, rep)
    return rep
