"""C02 - no infeasible point is evaluated or returned; infeasible start points are rejected before any target call."""
import numpy as np
from ..core import Report
from . import runlevel
from .c01 import replay, widen  # same machinery, property id taken from ctx

# case kinds of corpus/ entries (failing inputs of past regressions) that this module replays on every run
CORPUS_KINDS = ('pipe_run', 'filter_run')



def construction_cases(ctx, rep):
    """Start points that are infeasible before / after snapping must raise ValueError with zero target calls."""
    from pybads import BADS
    rng = ctx.sub_rng("c02c")
    n = 0
    stats = {"infeasible_x0": 0, "infeasible_after_snap": 0, "feasible": 0}
    for _ in range(70 if ctx.quick else 400):
        D = rng.randint(1, 3)
        calls = [0]
        def fun(x):
            calls[0] += 1
            return float(np.sum(np.asarray(x) ** 2))
        kind = rng.choice(["x0", "snap", "ok", "edge", "edge", "drawn", "drawn"])
        lb, ub, plb, pub = np.full(D, -4.0), np.full(D, 4.0), np.full(D, -2.0), np.full(D, 2.0)
        opts_extra = {}
        if kind == "drawn":
            # x0 omitted: BADS draws the start point itself (fixed seed).  The drawn point and the mesh point it is moved to are read off an
            # unconstrained twin; the constraint boundary is then laid between the two (drawn point infeasible, mesh point feasible), or the
            # drawn point is made clearly infeasible, or feasible
            seed = rng.randint(1, 10 ** 6)
            opts_extra = {"random_seed": seed, "search_grid_number": rng.choice([10, 10, 6, 4])}
            twin = BADS(lambda x: 0.0, None, lb, ub, plb, pub, options=dict({"display": "off"}, **opts_extra))
            xd = np.ravel(np.array(twin.x0, dtype=float))
            xs = np.ravel(twin.var_transf.inverse_transf(np.atleast_2d(twin.u)))
            j = int(np.argmax(np.abs(xd - xs)))
            sub = rng.choice(["between", "between", "far", "feasible"])
            x0 = None
            if sub == "between" and xd[j] != xs[j]:
                mid, sgn = 0.5 * (xd[j] + xs[j]), (1.0 if xd[j] > xs[j] else -1.0)
                cons = lambda X, j=j, mid=mid, sgn=sgn: sgn * (np.atleast_2d(X)[:, j] - mid)          # infeasible on the drawn point's side
                drawn_infeasible = True
            elif sub == "far":
                cons = lambda X, j=j, c=xd[j]: 0.25 - np.abs(np.atleast_2d(X)[:, j] - c)              # a slab around the drawn point is infeasible
                drawn_infeasible = True
            else:
                cons = lambda X, j=j, c=xd[j]: np.abs(np.atleast_2d(X)[:, j] - c) - 0.5                # a slab around the drawn point is feasible
                drawn_infeasible = False
        elif kind == "edge":
            # a coarse search grid, a hard bound that is not a grid point, a start point within half a grid cell of that bound and a feasible
            # set that is a thin strip along the face: wherever the gridised (and pulled-back) start ends up, it must have been checked
            lb, ub = np.full(D, -round(rng.uniform(3.3, 3.99), 3)), np.full(D, round(rng.uniform(3.3, 3.99), 3))
            opts_extra = {"search_grid_number": rng.choice([2, 3, 4, 5, 6, 7])}
            side = rng.choice([-1, 1])
            bnd = lb[0] if side < 0 else ub[0]
            x0 = np.array([rng.uniform(-1.5, 1.5) for _ in range(D)])
            x0[0] = bnd - side * rng.choice([0.0, 1e-3, 0.02, 0.1])
            wdt = rng.choice([0.005, 0.05, 0.15, 0.4])
            cons = lambda X, bnd=bnd, side=side, wdt=wdt: np.abs(np.atleast_2d(X)[:, 0] - bnd) - wdt      # feasible: within wdt of the face
            if abs(x0[0] - bnd) > wdt:
                kind = "x0"
        elif kind == "x0":
            x0 = np.array([rng.uniform(1.0, 1.9) for _ in range(D)])
            cons = lambda X: np.atleast_2d(X)[:, 0] - 0.5                      # x0 itself infeasible
        elif kind == "snap":
            # feasible region: a sliver around x0 that contains no point of the search mesh (2^-10 * 2 units)
            x0 = np.array([0.3 + 2.0 ** -12 * 2 / 3 for _ in range(D)])
            c0 = x0.copy()
            cons = lambda X, c0=c0: np.max(np.abs(np.atleast_2d(X) - c0), axis=1) - 2.0 ** -13
        else:
            x0 = np.array([rng.uniform(-1.5, 0.4) for _ in range(D)])
            cons = lambda X: np.atleast_2d(X)[:, 0] - 0.5
        n += 1
        try:
            b = BADS(fun, x0, lb, ub, plb, pub, non_box_cons=cons, options=dict({"display": "off"}, **opts_extra))
            raised = None
            u0 = b.var_transf.inverse_transf(np.atleast_2d(b.u))
            feas_after = bool(np.all(np.asarray(cons(u0)) <= 0))
        except ValueError as ex:
            raised = "ValueError"
        except Exception as ex:
            raised = type(ex).__name__
        case = {"kind": "construct", "D": D, "variant": kind, "x0": ([float(v) for v in x0] if x0 is not None else None), "options": opts_extra}
        if kind == "drawn":
            stats["drawn"] = stats.get("drawn", 0) + 1
            stats["drawn_infeasible"] = stats.get("drawn_infeasible", 0) + drawn_infeasible
            if raised not in (None, "ValueError"):
                rep.disagree("Pipe.construct ~ BADS.__init__", f"construction without x0 raised {raised}", case)
            elif drawn_infeasible and raised is None:
                rep.violation("start_rejected", "bads.py:__init__", f"x0 omitted (random_seed={opts_extra['random_seed']}): the start point BADS drew, {xd.tolist()}, violates the non-box constraint "
                              f"(it is moved to the mesh point {xs.tolist()}, which does not) and was not rejected with ValueError", case)
            elif drawn_infeasible and calls[0] != 0:
                rep.violation("no_call_before_reject", "bads.py:__init__", f"target called {calls[0]} times before the infeasible start point was rejected", case)
            elif not drawn_infeasible and raised is not None and bool(np.all(np.asarray(cons(np.atleast_2d(xs))) <= 0)):
                rep.disagree("Pipe.construct ~ BADS.__init__", f"feasible drawn start point rejected with {raised}", case)
            if raised is None and not feas_after:
                rep.violation("start_rejected", "bads.py:__init__ / _init_optim_state_", f"the constructor accepted a drawn start point whose gridised position {u0.ravel().tolist()} violates the non-box constraint", case)
            continue
        # whatever the variant: a start point that the constructor ACCEPTS (as moved onto the grid and into the box) satisfies the constraint
        if raised is None and not feas_after:
            stats["accepted_starts_checked"] = stats.get("accepted_starts_checked", 0)
            rep.violation("start_rejected", "bads.py:__init__ / _init_optim_state_", f"the constructor accepted a start point whose gridised position {u0.ravel().tolist()} violates the non-box "
                          f"constraint (x0={x0.tolist()}, lb={lb.tolist()}, ub={ub.tolist()}, options {opts_extra})", case)
            continue
        if kind == "edge":
            stats["edge"] = stats.get("edge", 0) + 1
            stats["edge_rejected"] = stats.get("edge_rejected", 0) + (raised == "ValueError")
            if raised not in (None, "ValueError"):
                rep.disagree("Pipe.construct ~ BADS.__init__", f"start point near a face raised {raised}", case)
            elif raised == "ValueError" and calls[0] != 0:
                rep.violation("no_call_before_reject", "bads.py:__init__", f"target called {calls[0]} times before the infeasible start point was rejected", case)
            continue
        if kind in ("x0", "snap"):
            stats["infeasible_x0" if kind == "x0" else "infeasible_after_snap"] += 1
            if raised != "ValueError":
                if raised is None and kind == "snap" and feas_after:
                    continue     # snapping happened to land inside the sliver: feasible, nothing to reject
                rep.violation("start_rejected", "bads.py:__init__ / _init_optim_state_", f"infeasible start point ({kind}) not rejected with ValueError (got {raised})", case)
            elif calls[0] != 0:
                rep.violation("no_call_before_reject", "bads.py:__init__", f"target called {calls[0]} times before the infeasible start point was rejected", case)
        else:
            stats["feasible"] += 1
            if raised is not None:
                rep.disagree("Pipe.construct ~ BADS.__init__", f"feasible start point rejected with {raised}", case)
    return n, stats


def coarse_specs(ctx):
    """Constrained runs on a coarse search grid: snapping to the grid moves a point by up to 2^-(search_grid_number+1) of the
    plausible box, enough to cross a constraint boundary - so a point must be feasibility-checked AFTER it was snapped."""
    from .. import gen
    rng = ctx.sub_rng("c02coarse")
    specs = []
    for _ in range(10 if ctx.quick else 80):
        sp = gen.make_spec(rng, D=rng.choice([1, 2, 2, 3]), geom=rng.choice(["box", "tight", "unbounded"]), mode=rng.choice(["det", "decl", "auto", "he"]),
                           cons=rng.choice(["ball", "halfspace", "slab", "ring"]), opt_loc=rng.choice(["inside", "outside"]))
        sp["options"] = dict(gen.small_options(rng, sp["D"], sp["mode"]), search_grid_number=rng.choice([2, 3, 4]))
        specs.append(sp)
    return specs


def option_toggle_specs(ctx):
    """Constrained runs with one boolean option switched away from its default each (the constraint binds: the unconstrained optimum is
    infeasible): whatever alternative code path an option enables must still keep every evaluation feasible."""
    from .. import gen
    rng = ctx.sub_rng("c02toggle")
    specs = []
    names = gen.boolean_options()
    for j, (name, dflt) in enumerate(names):
        for ck in ("ball", "halfspace"):
            sp = gen.make_spec(rng, D=2, geom=rng.choice(["box", "unbounded"]), mode=rng.choice(["det", "det", "decl"]), cons=ck,
                               opt_loc="outside", target="quad")
            sp["cons_scale"] = 1.0
            sp["options"] = {"n_search": 32, "max_fun_evals": 40 if sp["mode"] == "det" else 70, name: (not dflt)}
            specs.append(sp)
    return specs


def second_call_cases(ctx, rep):
    """optimize() called a second time on the same object (continuing from the first solution): every target call of the second run and the
    point it returns satisfy the constraint, too."""
    from pybads import BADS
    rng = ctx.sub_rng("c02second")
    n = 0
    for kind in ("ball", "halfspace", "ball") if ctx.quick else ("ball", "halfspace") * 5:
        D = rng.choice([2, 2, 3])
        opt = np.array([rng.uniform(0.8, 1.4) for _ in range(D)])
        rad = rng.uniform(0.9, 1.3)
        g = (lambda X: np.sum(np.atleast_2d(X) ** 2, axis=1) - rad ** 2) if kind == "ball" else (lambda X: np.sum(np.atleast_2d(X), axis=1) - rad)
        noisy = rng.random() < 0.3
        calls = []
        def f(x):
            calls.append(np.ravel(x).copy())
            return float(np.sum((np.asarray(x) - opt) ** 2)) + (0.05 * np.random.randn() if noisy else 0.0)
        opts = {"display": "off", "max_fun_evals": 45 if not noisy else 70, "random_seed": rng.randint(1, 99), "n_search": 32, "noise_final_samples": 2}
        if noisy:
            opts["uncertainty_handling"] = True
        b = BADS(f, np.full(D, 0.1), np.full(D, -4.0), np.full(D, 6.0), np.full(D, -2.0), np.full(D, 3.0), non_box_cons=lambda X: g(X) > 0, options=opts)
        case = {"kind": "second_call", "D": D, "cons": kind}
        try:
            for rnd in (1, 2):
                n0 = len(calls)
                r = b.optimize()
                viol = [c for c in calls[n0:] if float(g(c)[0]) > 0]
                if viol or float(g(np.ravel(r["x"]))[0]) > 0:
                    rep.violation("infeasible_call" if viol else "infeasible_result", "bads.py:optimize (call #%d on the same object)" % rnd,
                                  f"optimize() call #{rnd} on one object: {len(viol)} of its {len(calls) - n0} target calls violate the {kind} constraint"
                                  + (f" (first at x={viol[0].tolist()})" if viol else "") + f"; returned x={np.ravel(r['x']).tolist()} (constraint value {float(g(np.ravel(r['x']))[0]):.3g})", case)
                    break
            n += 1
        except Exception as ex:
            rep.disagree("Pipe.run ~ second optimize() call", f"{type(ex).__name__}: {str(ex)[:80]}", case)
    return n


def open_face_specs(ctx):
    """The constraint excludes a face of the (closed) box, the optimum lies beyond that face, and the run goes on until the mesh is fine: the
    incumbent ends up within 1e-5 of the range from the bound without being on it - and that, not a tidied-up copy of it, is what is returned."""
    from .. import gen
    rng = ctx.sub_rng("c02face")
    specs = []
    for mode in (("det", "decl") if ctx.quick else ("det", "det", "decl", "he", "auto", "det")):
        sp = gen.make_spec(rng, D=2, geom=rng.choice(["box", "tight"]), mode=mode, cons="openface", opt_loc="outside", target="quad")
        sp["cons_scale"] = 1.0
        sp["noise"] = 0.05 if mode != "det" else 0.0
        sp["options"] = {"max_fun_evals": 260 if mode == "det" else 320, "noise_final_samples": 2}
        specs.append(sp)
    return specs


def small_table_specs(ctx):
    """Constrained runs (every noise mode) whose evaluation table (`cache_size`) is smaller than the initial design, so that it has to grow
    while the start point and the initial design are being evaluated; non-identity variable transform; final re-sampling on."""
    from .. import gen
    rng = ctx.sub_rng("c02table")
    specs = []
    for mode in ("det", "decl", "he", "auto") * (1 if ctx.quick else 5):
        for ck in ("ball", "halfspace"):
            sp = gen.make_spec(rng, D=rng.choice([2, 3]), geom=rng.choice(["box", "logbox", "mixedlog"]), mode=mode, cons=ck, opt_loc=rng.choice(["inside", "outside"]), target="quad")
            sp["cons_scale"] = 1.0
            sp["options"] = {"n_search": 32, "max_fun_evals": 30 if mode == "det" else 50, "cache_size": rng.choice([1, 2, 3, 5]), "noise_final_samples": 3}
            specs.append(sp)
    return specs


def run(ctx):
    rep = Report()
    ncon, cstats = construction_cases(ctx, rep)
    cstats["second_calls"] = second_call_cases(ctx, rep)
    runlevel.with_extra(ctx, "c02table", lambda: small_table_specs(ctx))
    runlevel.with_extra(ctx, "c02face", lambda: open_face_specs(ctx))
    runlevel.with_extra(ctx, "c02coarse", lambda: coarse_specs(ctx))
    runlevel.with_extra(ctx, "c02toggle", lambda: option_toggle_specs(ctx))
    stats, samples = runlevel.pipe_replay(ctx, rep, "C02")
    fcov = runlevel.filter_events(ctx, rep, want_clauses=("feasible",))
    # ONE WHOLE CALL of optimize() (Opt.init + Full.step + Opt.finish, the model of Props/C02Opt.lean): every pool run through the whole-call model
    wstats = runlevel.whole_replay(ctx, rep, plain_only=True)
    traces = runlevel.get_pool(ctx)
    ncons_calls = sum(len(t["final"].get("cons_at_calls", [])) for t in traces if t.get("final"))
    rep.coverage = {
        "whole_run_model": wstats,
        "evaluations": ncons_calls + ncon + fcov["filter_events"], "distinct_nontrivial": stats["infeasible_candidates_dropped"] + cstats["infeasible_x0"] + cstats["infeasible_after_snap"],
        "rule": "the user's constraint re-asked at every point passed to the target in traced runs with constraints (ball, half-space, slab, ring); every contraints_check call (feasibility clause, Lean predicate); "
                "provenance through Pipe.step; construction with start points infeasible before/after snapping; non-trivial = candidate rows dropped by the constraint stage + rejected constructions",
        "samples": samples, "traces_validated_against_impl": stats["cons_runs"], "pipeline": stats, "construction": cstats, "filters": {k: fcov[k] for k in ("filter_events", "sites", "clause_failures_on_impl")},
        "target_calls_rechecked": ncons_calls,
    }
    rep.assumptions = ["the user's constraint function is deterministic and row-wise (asked again by the harness at the same points)"]
    return rep
