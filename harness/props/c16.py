"""C16 - a numerical failure of a GP hyper-parameter fit never aborts the optimisation.

Fault schedules (single, runs of 2-4, scattered) injected into GP.fit at chosen invocation indices of small-budget
runs in deterministic and noisy modes.  Expectation from GP.robustFit / initFit (shapes agree at every attempt, retry
after each failure, success after < 10 consecutive failures); the faulted run must complete and the run-level
predicates of C01 / C03 / C04 are evaluated on it."""
import random
from ..core import Report, Ctx
from .. import gen, tracer
from . import runlevel

# case kinds of corpus/ entries (failing inputs of past regressions) that this module replays on every run
CORPUS_KINDS = ('fit_fault_run',)



def schedules(nfit, rng, tier):
    idx = list(range(nfit))
    out = []
    singles = idx if tier != "quick" else sorted(set([0, min(1, nfit - 1), nfit - 1] + rng.sample(idx, min(3, nfit))))
    for i in singles:
        out.append([i])
    for L in (2, 3, 4):
        for _ in range(2 if tier == "quick" else 6):
            i = rng.randrange(nfit)
            out.append(list(range(i, i + L)))            # consecutive invocation indices: retries of the same fit
    for _ in range(2 if tier == "quick" else 8):
        out.append(sorted(rng.sample(range(nfit + 6), min(nfit + 6, rng.randint(2, 5)))))   # scattered
    return out


def fault_pool(ctx):
    """Clean runs, then the same runs with LinAlgError injected at scheduled GP.fit invocations (cached). Returns (meta, faulted traces)."""
    rng = ctx.sub_rng("c16")
    specs = []
    for mode in ("det", "decl", "he", "auto"):
        for _ in range(1 if ctx.quick else 3):
            sp = gen.make_spec(rng, D=rng.choice([1, 2, 3]), geom=rng.choice(["box", "tight", "logbox"]), mode=mode, cons=rng.choice([None, None, "halfspace"]),
                               target=rng.choice(["quad", "abs"]))
            sp["options"] = {"n_search": 32, "max_fun_evals": (sp["D"] + 24) if mode == "det" else 58, "noise_final_samples": 3}
            if rng.random() < 0.5:
                sp["options"]["gp_warnings"] = True
            specs.append(sp)
    # documented alternatives for the GP mean function: their hyper-parameters have other (partly unset) priors, which the retry paths sample from
    for mf in ("negquad", "zero"):
        for mode in (("det", "decl") if ctx.quick else ("det", "decl", "he")):
            sp = gen.make_spec(rng, D=rng.choice([1, 2]), geom="box", mode=mode, cons=None, target="quad")
            sp["options"] = {"n_search": 32, "max_fun_evals": (sp["D"] + 24) if mode == "det" else 58, "noise_final_samples": 3, "gp_mean_fun": mf}
            specs.append(sp)
    # the other retry path: restart points drawn by the slice sampler (advanced option use_slice_sampler) instead of from the priors
    for mode in ("he", "decl", "det") if ctx.quick else ("he", "he", "decl", "det", "auto"):
        sp = gen.make_spec(rng, D=rng.choice([1, 2]), geom="box", mode=mode, cons=None, target="quad")
        sp["options"] = {"n_search": 32, "max_fun_evals": (sp["D"] + 24) if mode == "det" else 58, "noise_final_samples": 3, "use_slice_sampler": True}
        specs.append(sp)
    # ... for a target of large declared noise (noise_size 8 / 20: the noise hyper-parameter starts high, and every retry nudges it further up)
    # with dense schedules of 3-4 failures in a row
    for ns in (20.0, 8.0) if ctx.quick else (20.0, 8.0, 12.0, 30.0):
        sp = gen.make_spec(rng, D=rng.choice([1, 2]), geom="box", mode="decl", cons=None, target="quad")
        sp["options"] = {"n_search": 32, "max_fun_evals": 58, "noise_final_samples": 3, "use_slice_sampler": True, "noise_size": ns}
        sp["noise"] = ns
        sp["_dense_runs"] = True
        specs.append(sp)
    # a constant objective (degenerate data: the GP objective is not finite at some hyper-parameter vectors), default restart and slice sampler
    for opts in ({"use_slice_sampler": True}, {}, {"use_slice_sampler": True}) if ctx.quick else ({"use_slice_sampler": True}, {}, {"use_slice_sampler": True}, {"use_slice_sampler": True, "double_refit": True}):
        sp = gen.make_spec(rng, D=rng.choice([1, 2]), geom="box", mode="det", cons=None, target="quad")
        sp["yscale"], sp["yoffset"] = 0.0, rng.choice([1.0, 0.0, -3.5])
        sp["options"] = dict({"n_search": 32, "max_fun_evals": sp["D"] + 24}, **opts)
        specs.append(sp)
    # the failure happens at the END of a fit (the hyper-parameters are optimised, the Cholesky factorisation of the final posterior fails),
    # which leaves the fitted object in another state than a failure at the start
    for mode in ("det", "decl", "he") if ctx.quick else ("det", "det", "decl", "he", "auto"):
        sp = gen.make_spec(rng, D=rng.choice([1, 2, 3]), geom=rng.choice(["box", "tight"]), mode=mode, cons=None, target=rng.choice(["quad", "abs"]))
        sp["options"] = {"n_search": 32, "max_fun_evals": (sp["D"] + 24) if mode == "det" else 58, "noise_final_samples": 3}
        sp["fault_where"] = "late"
        specs.append(sp)
    # ... combined with refits that start from two hyper-parameter vectors (double_refit), and double refits with the default restart
    for mode, opts in (("det", {"use_slice_sampler": True, "double_refit": True}), ("decl", {"use_slice_sampler": True, "double_refit": True}), ("det", {"double_refit": True})):
        sp = gen.make_spec(rng, D=rng.choice([1, 2]), geom="box", mode=mode, cons=None, target="quad")
        sp["options"] = dict({"n_search": 32, "max_fun_evals": (sp["D"] + 24) if mode == "det" else 58, "noise_final_samples": 3}, **opts)
        specs.append(sp)
    # the accepted forms of the noise nudge of the retry loop (unset, empty, one entry, two entries), deterministic and noisy
    for mode, nn in (("det", "None"), ("det", "np.array([])"), ("decl", "np.array([1.0])"), ("det", "np.array([0.5])")) + \
            (() if ctx.quick else (("he", "None"), ("decl", "np.array([])"), ("det", "np.array([0.5, 0.1])"), ("he", "np.array([2.0])"))):
        sp = gen.make_spec(rng, D=rng.choice([1, 2]), geom="box", mode=mode, cons=None, target="quad")
        sp["options"] = {"n_search": 32, "max_fun_evals": (sp["D"] + 24) if mode == "det" else 58, "noise_final_samples": 3}
        sp["np_options"] = {"noise_nudge": nn}
        specs.append(sp)
    clean = tracer.cached("c16clean", ctx.seed, ctx.tier, lambda: [(sp, {"want": ("ctl", "gp")}) for sp in specs])
    jobs, meta = [], []
    for sp, t in zip(specs, clean):
        if "tracer_error" in t:
            raise RuntimeError(t["tracer_error"])
        if t["error"] is not None:
            continue
        nfit = sum(1 for k, _ in t["events"] if k == "FIT")
        scheds = schedules(nfit, rng, ctx.tier)
        if sp.get("_dense_runs"):
            scheds = [list(range(k, k + L)) for L in (3, 4) for k in range(1, max(2, nfit), 2 if ctx.quick else 1)][: (8 if ctx.quick else 40)] + scheds[:4]
        for sched in scheds:
            jobs.append((sp, {"gp_faults": sched}))
            meta.append((sp, sched, nfit))
    faulted = tracer.cached("c16fault", ctx.seed, ctx.tier, lambda: jobs)
    return meta, faulted


def run(ctx):
    rep = Report()
    meta, faulted = fault_pool(ctx)
    stats = {"faulted_runs": 0, "faults_injected": 0, "max_consecutive": 0, "modes": {}, "robust_retries": 0, "init_retries": 0, "rows_dropped_retries": 0}
    reqs, owners = [], []
    good = []
    for (sp, sched, nfit), t in zip(meta, faulted):
        if "tracer_error" in t:
            raise RuntimeError(t["tracer_error"])
        stats["faulted_runs"] += 1
        stats["modes"][sp["mode"]] = stats["modes"].get(sp["mode"], 0) + 1
        tag = f"LinAlgError injected at {'the final posterior computation of ' if sp.get('fault_where') == 'late' else ''}GP.fit invocations {sched}; {runlevel.spec_tag(sp)}"
        case = {"kind": "fit_fault_run", "spec": sp, "gp_faults": sched}
        fits = [e for k, e in t["events"] if k == "FIT"]
        inj = [e for e in fits if e["fault"]]
        stats["faults_injected"] += len(inj)
        if t["error"] is not None:
            e = t["error"]
            fr = e["innermost_pybads"] or e["innermost"]
            rep.violation("completes", f"{fr[0]}:{fr[2]}" if fr else "?", f"optimize() aborted with {e['type']}: {e['msg'][:80]} ({fr}); {tag}", case)
            continue
        good.append(t)
        # shapes at every attempt; group consecutive attempts (a failure followed by the retry)
        run_len = 0
        group = []
        for i, e in enumerate(fits):
            if not (e["nX"] == e["ny"] and (e["ns2"] is None or e["ns2"] == e["nX"])):
                rep.violation("shapes_agree", "gaussian_process_train.py:_robust_gp_fit_", f"attempt #{e['i']}: X has {e['nX']} rows, y {e['ny']}, s2 {e['ns2']}; {tag}", case)
                break
            group.append(e)
            if e["fault"]:
                run_len += 1
                stats["max_consecutive"] = max(stats["max_consecutive"], run_len)
                if i + 1 >= len(fits):
                    rep.violation("retries", "gaussian_process_train.py", f"no further fit attempt after the failure of attempt #{e['i']}; {tag}", case)
            else:
                if run_len > 0:
                    kind = "init" if group[0]["phase"] == "pre" and not any(k == "ITER" for k, _ in t["events"][: _event_index(t, group[0])]) else "robust"
                    stats["init_retries" if kind == "init" else "robust_retries"] += 1
                    drops = [max(0, a["nX"] - b["nX"]) for a, b in zip(group, group[1:])]
                    stats["rows_dropped_retries"] += sum(1 for d in drops if d > 0)
                    reqs.append({"cmd": "gp.robust", "kind": kind, "shapes": {"nX": group[0]["nX"], "nY": group[0]["ny"], "nS2": group[0]["ns2"]},
                                 "fails": [g["fault"] for g in group], "drops": drops, "removeAfter": 1})
                    owners.append((case, tag, group, kind))
                run_len = 0
                group = []
    res = ctx.driver.call_many(reqs)
    for (case, tag, group, kind), m in zip(owners, res):
        mshapes = [(a["nX"], a["nY"], a["nS2"]) for a in m["attempts"]]
        ishapes = [(g["nX"], g["ny"], g["ns2"]) for g in group]
        if not m["ok"] or mshapes != ishapes:
            rep.disagree("GP.robustFit/initFit ~ fit retry loop", f"{kind}: model attempts {mshapes} (ok={m['ok']}) run {ishapes}; {tag}", case)
    # all other guarantees on the faulted runs
    sub_cov = {}
    if good:
        for pid, fn in (("C01", runlevel.pipe_replay), ("C03", runlevel.ctl_replay)):
            sub = Ctx(pid, ctx.tier, ctx.seed)
            sub.driver = ctx.driver
            sub._pool = good
            r2 = Report()
            out = fn(sub, r2, pid)
            for v in r2.violations:
                rep.violation(f"{pid}:{v['clause']}", v["site"], "on a run with injected fit failures: " + v["summary"], dict(v["case"], kind="fit_fault_run_other"))
            for d in r2.disagreements:
                rep.disagree(d["corr"] + " (faulted run)", d["summary"], d["case"])
            sub_cov[pid] = out[0]
        from . import c04
        sub = Ctx("C04", ctx.tier, ctx.seed)
        sub.driver = ctx.driver
        sub._pool = good
        r2 = Report()
        st4, _ = c04.run_checks(sub, r2)
        for v in r2.violations:
            rep.violation(f"C04:{v['clause']}", v["site"], "on a run with injected fit failures: " + v["summary"], dict(v["case"], kind="fit_fault_run_other"))
        for d in r2.disagreements:
            rep.disagree(d["corr"] + " (faulted run)", d["summary"], d["case"])
        sub_cov["C04"] = st4
        # ONE WHOLE CALL (Opt.init + Full.step + Opt.finish, Props/C16Opt.lean) on the runs WITH injected fit failures that completed: the failures enter
        # the model only through the oracle values the run observed afterwards; everything else - calls, counters, mesh, incumbent, returned point - is derived
        subw = Ctx("C16", ctx.tier, ctx.seed)
        subw.driver = ctx.driver
        subw._pool = good
        sub_cov["whole_run_model_on_faulted_runs"] = runlevel.whole_replay(subw, rep, plain_only=True, allow_fit_faults=True)
    rep.coverage = {
        "evaluations": stats["faulted_runs"], "distinct_nontrivial": stats["robust_retries"] + stats["init_retries"],
        "rule": "one evaluation = one real optimize() run with LinAlgError injected into GP.fit at a schedule of invocation indices (single, 2-4 consecutive, scattered; every index in the thorough tier) in deterministic and noisy modes; "
                "non-trivial = retry groups observed (initial training and local refits); each faulted run is also checked against the C01/C03/C04 run-level predicates and models",
        "samples": [{"spec": meta[0][0], "schedule": meta[0][1]}] if meta else [], "stats": stats, "other_guarantees_on_faulted_runs": sub_cov,
        "traces_validated_against_impl": stats["faulted_runs"],
    }
    rep.assumptions = ["10 consecutive failures of one refit (beyond the property's 2-4) are not generated"]
    return rep


def _event_index(t, ev):
    for i, (k, e) in enumerate(t["events"]):
        if e is ev:
            return i
    return 0


def replay(ctx, data):
    rep = Report()
    c = data["case"]
    t = tracer.run_traced(c["spec"], gp_faults=c.get("gp_faults"))
    if t["error"] is not None:
        e = t["error"]
        fr = e["innermost_pybads"] or e["innermost"]
        rep.violation("completes", f"{fr[0]}:{fr[2]}" if fr else "?", f"optimize() aborted with {e['type']}: {e['msg'][:80]}", c)
    return rep


def widen(ctx, rep0):
    return Report()
