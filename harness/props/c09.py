"""C09 - every valid problem runs to completion in every supported mode.

Executes the trace pool plus generators aimed at the rare internal paths the property names
(every ES candidate infeasible; repeated observation under specified noise; non-finite GP
prediction at the incumbent; budgets at the edge of the initial design; GP refit retries) and
reports every exception escaping optimize() on a valid problem with a well-behaved target.
The Lean side (Defined.lean / Props/C09.lean) proves definedness of the modelled mechanisms;
the correspondence compares the model's ok/error verdict with the real outcome on these paths."""
import random
from ..core import Report
from .. import gen, tracer
from . import runlevel

# case kinds of corpus/ entries (failing inputs of past regressions) that this module replays on every run
CORPUS_KINDS = ('run',)



def forced_specs(seed, tier):
    rng = random.Random(f"c09:{seed}")
    jobs = []
    n = 1 if tier == "quick" else 6
    for _ in range(n):
        # (a) almost every ES candidate infeasible
        for D in (1, 2, 3):
            for mode in ("det", "decl", "he"):
                sp = gen.make_spec(rng, D=D, geom=rng.choice(["box", "unbounded", "tight"]), mode=mode, cons="sliver", opt_loc="inside")
                sp["options"] = {"n_search": rng.choice([32, 64]), "max_fun_evals": (25 if mode == "det" else 60) + 10 * D}
                jobs.append(("es_all_infeasible", sp, {}))
        # (a2) every pairing of variable kinds in ONE problem: log-transformed next to fully unbounded, bounded next to unbounded, log next to bounded
        for geom in ("log_unbounded", "mixed_unbounded", "mixedlog"):
            for mode in ("det", "decl", "he") if geom == "log_unbounded" else ("det",):
                sp = gen.make_spec(rng, D=rng.choice([2, 3]), geom=geom, mode=mode, cons=None, opt_loc="inside")
                sp["options"] = {"n_search": 32, "max_fun_evals": (20 if mode == "det" else 55) + 5 * sp["D"]}
                jobs.append(("mixed_variable_kinds", sp, {}))
        # (b) repeated observations under specified noise (coarse mesh, low dimension)
        for D in (1, 1, 2):
            sp = gen.make_spec(rng, D=D, geom=rng.choice(["box", "tight", "logbox"]), mode="he", cons=None)
            sp["options"] = {"n_search": 64, "max_fun_evals": 70, "noise_final_samples": rng.choice([0, 1, 5])}
            jobs.append(("he_repeats", sp, {}))
        # (c) budgets at the edge of the initial design; (e) noisy runs ending in iteration 0
        for mode in gen.MODES:
            for D in (1, 2, 3):
                for extra in (0, 1, 2, 3, 5, 9, 13):
                    base = D + 2 if mode in ("det",) else 22
                    sp = gen.make_spec(rng, D=D, geom="box", mode=mode, cons=None)
                    sp["options"] = {"n_search": 32, "max_fun_evals": base + extra}
                    if mode != "det":
                        sp["options"]["noise_final_samples"] = rng.choice([0, 1, 10])
                    jobs.append(("budget_edge", sp, {}))
        for mfe in (1, 2, 3):
            sp = gen.make_spec(rng, D=rng.choice([1, 2]), geom="box", mode=rng.choice(["det", "decl"]), cons=None)
            sp["options"] = {"max_fun_evals": mfe}
            jobs.append(("budget_tiny", sp, {}))
        # (d) non-finite GP prediction at the incumbent
        for mode in ("det", "decl", "he"):
            for k in (0, 1, 3, 7):
                sp = gen.make_spec(rng, D=rng.choice([1, 2, 3]), geom="box", mode=mode, cons=None)
                sp["options"] = {"n_search": 32, "max_fun_evals": 30 if mode == "det" else 60}
                jobs.append(("nan_gp_at_incumbent", sp, {"predict_faults": [k, k + 1]}))
        # plateau / tie targets (degenerate GP fits -> refit retries, prior re-sampling)
        for D in (1, 2):
            for tgt in ("ties", "plateau"):
                sp = gen.make_spec(rng, D=D, geom=rng.choice(["box", "x0_on_bound", "mixedlog"]), target=tgt, mode="det", cons=rng.choice([None, "slab"]))
                sp["options"] = {"n_search": 32, "max_fun_evals": 40}
                jobs.append(("degenerate_target", sp, {}))
        # (f) the documented basic options, one at a time, in every mode
        for mode in gen.MODES:
            for key, val in (("noise_size", 0.5), ("noise_size", 1e-3), ("tol_mesh", 1e-3), ("tol_fun", 1e-2), ("max_iter", 3), ("noise_final_samples", 4), ("complete_poll", True),
                             ("display", "iter"), ("display", "full"), ("display", "final"), ("display", "notify")):
                sp = gen.make_spec(rng, D=rng.choice([1, 2]), geom="box", mode=mode, cons=None)
                sp["options"] = {"n_search": 32, "max_fun_evals": 25 if mode == "det" else 55, key: val}
                jobs.append(("basic_option", sp, {}))
    # (h) sizes of the search population (n_search / n_search_iter): odd and tiny populations, one or three ES iterations
    for mode in ("det", "decl"):
        for ns, nsi in ((150, 2), (1026, 2), (33, 2), (4096, 3), (96, 3), (7, 1), (2, 2), (4, 2), (64, 1)):
            sp = gen.make_spec(rng, D=rng.choice([1, 2]), geom="box", mode=mode, cons=None, target="quad")
            sp["options"] = {"n_search": ns, "n_search_iter": nsi, "max_fun_evals": 30 if mode == "det" else 58}
            jobs.append(("search_population", sp, {}))
    # (j) GP refit retries (named by the property): the FIRST fit of the run, a local refit, and two in a row fail with a Cholesky error
    for mode in gen.MODES:
        for sched in ([0], [0, 1], [2], [3, 4]):
            sp = gen.make_spec(rng, D=rng.choice([1, 2]), geom="box", mode=mode, cons=None, target="quad")
            sp["options"] = {"n_search": 32, "max_fun_evals": 28 if mode == "det" else 56}
            jobs.append(("gp_refit_retry", sp, {"gp_faults": sched}))
    # (k) numeric options spelled with the other Python number type: integral-valued float settings as int (poll_mesh_multiplier = 2, ...)
    #     and integer settings as float - first the mesh multiplier alone, then all of them at once
    for mode in ("det", "decl"):
        for val in ("2", "4"):
            sp = gen.make_spec(rng, D=2, geom="box", mode=mode, cons=None, target="quad")
            sp["options"] = {"n_search": 32, "max_fun_evals": 30 if mode == "det" else 58}
            sp["np_options"] = {"poll_mesh_multiplier": val}
            jobs.append(("number_type", sp, {}))
        sp = gen.make_spec(rng, D=2, geom="box", mode=mode, cons=None, target="quad")
        sp["options"] = {"max_fun_evals": 30 if mode == "det" else 58}
        sp["np_options"] = dict(gen.retyped_numeric_options())
        jobs.append(("number_type", sp, {}))
    # (i) end points and plain-Python spellings of numeric search settings: no exploration floor in the strategy portfolio (hedge_gamma = 0:
    #     the scores of the strategies that were not drawn are then predicted by the GP), a fixed scalar confidence parameter sqrt_beta
    for mode in ("det", "decl"):
        for D in (1, 2, 3):
            sp = gen.make_spec(rng, D=D, geom="box", mode=mode, cons=None, target="quad")
            sp["options"] = {"n_search": 32, "max_fun_evals": 30 if mode == "det" else 58, "hedge_gamma": 0 if D != 3 else 0.0}
            jobs.append(("numeric_endpoint", sp, {}))
        for key, val in (("search_acq_fcn", "('acq_LCB', 2.0)"), ("search_acq_fcn", "('acq_LCB', np.float64(2.0))"), ("poll_acq_fcn", "('acq_LCB', 2.0)"),
                         ("search_acq_fcn", "('acq_LCB', 3)"), ("poll_acq_fcn", "('acq_LCB', np.float32(1.5))")):
            sp = gen.make_spec(rng, D=2, geom="box", mode=mode, cons=None, target="quad")
            sp["options"] = {"n_search": 32, "max_fun_evals": 30 if mode == "det" else 58}
            sp["np_options"] = {key: val}
            jobs.append(("numeric_endpoint", sp, {}))
    # (g) every boolean option of the two option files, toggled one at a time ("all option combinations" starts with the single switches)
    names = gen.boolean_options(skip=("specify_target_noise", "uncertainty_handling", "plot"))
    modes = ("det", "decl", "he")
    for j, (name, dflt) in enumerate(names):
        for mode in (modes if tier != "quick" else (modes[j % 3], modes[(j + 1) % 3])):
            sp = gen.make_spec(rng, D=2, geom="box", mode=mode, cons=None, target="quad")
            sp["options"] = {"n_search": 32, "max_fun_evals": 30 if mode == "det" else 55, name: (not dflt)}
            jobs.append(("option_toggle", sp, {}))
    return jobs


def classify(t):
    """None if the run is fine for C09; else (clause, site, summary)."""
    e = t["error"]
    if e is None:
        return None
    # a failure of BADS(...) itself counts too: every generated problem (bounds, start point, options) is a valid one
    if e["type"] in ("InjectedFault", "LoopBoundExceeded"):
        return None
    fr = e["innermost_pybads"] or e["innermost"]
    where = f"{fr[0]}:{fr[2]}" if fr else "?"
    clause = f"{e['type']}@{where}"
    return clause, where, f"{e['type']}: {e['msg'][:120]} at {fr[0]}:{fr[1]} in {fr[2]}"


def examine(traces, labels, rep):
    hist = {}
    completed = 0
    for t, lab in zip(traces, labels):
        if "tracer_error" in t:
            raise RuntimeError("tracer failure: " + t["tracer_error"])
        c = classify(t)
        if c is None:
            completed += t["error"] is None
            continue
        clause, site, summ = c
        hist[clause] = hist.get(clause, 0) + 1
        kw = {k: t.get(k) for k in ("predict_faults", "gp_faults") if t.get(k)}
        rep.violation(clause, site, f"[{lab}] optimize() failed with an internal error on a valid problem: {summ}; {runlevel.spec_tag(t['spec'])}",
                      {"kind": "run", "spec": t["spec"], "kw": kw, "label": lab})
    return hist, completed


def multi_start_reuse(ctx, rep):
    """A multi-start loop: several problems built one after the other from the SAME bound vectors (float arrays, a log-scaled variable among
    them) with different start points - every one of them is a valid problem and runs to completion."""
    import numpy as np
    from pybads import BADS
    rng = ctx.sub_rng("c09multi")
    n = 0
    for D in (1, 2, 3):
        lb, ub = np.full(D, 1e-3), np.full(D, 1e3)
        plb, pub = np.full(D, 1e-1), np.full(D, 1e2)
        if D > 1:
            lb[-1], ub[-1], plb[-1], pub[-1] = -5.0, 5.0, -1.0, 1.0          # a linear variable next to the log-scaled ones
        for k in range(3):
            x0 = np.array([10.0 ** rng.uniform(-0.5, 1.5) for _ in range(D)])
            if D > 1:
                x0[-1] = rng.uniform(-0.9, 0.9)
            case = {"kind": "multi_start", "D": D, "start": k}
            try:
                r = BADS(lambda x: float(np.sum(np.log10(np.abs(np.asarray(x)) + 1e-9) ** 2)), x0, lb, ub, plb, pub,
                         options={"display": "off", "max_fun_evals": 25 + D, "n_search": 32, "random_seed": 3 + k}).optimize()
                n += 1
            except Exception as ex:
                import traceback
                fr = traceback.extract_tb(ex.__traceback__)[-1]
                rep.violation(f"{type(ex).__name__}@multi_start", f"{fr.filename.split('/')[-1]}:{fr.name}",
                              f"start #{k + 1} of a multi-start loop over the same bound vectors (D={D}, lb={lb.tolist()}, ub={ub.tolist()}) failed with {type(ex).__name__}: {str(ex)[:100]}", case)
                break
    return n


def run(ctx):
    rep = Report()
    n_multi = multi_start_reuse(ctx, rep)
    pool = runlevel.get_pool(ctx)
    forced = tracer.cached("c09forced", ctx.seed, ctx.tier,
                           lambda: [(sp, dict(kw, want=("ctl",))) for _, sp, kw in forced_specs(ctx.seed, ctx.tier)])
    labels = ["pool"] * len(pool) + [lab for lab, _, _ in forced_specs(ctx.seed, ctx.tier)]
    traces = list(pool) + list(forced)
    hist, completed = examine(traces, labels, rep)
    lab_hist = {}
    for l in labels:
        lab_hist[l] = lab_hist.get(l, 0) + 1
    rare = {"es_empty_generation": 0, "he_merges": 0, "pred_faults": 0, "iteration0_noisy_end": 0}
    for t in traces:
        for k, e in t["events"]:
            if k == "PREDFAULT":
                rare["pred_faults"] += 1
            elif k == "FILT" and e["site"] == "es" and e["n_out"] == 0:
                rare["es_empty_generation"] += 1
            elif k == "CALL" and e.get("rec") and "exc" not in e and e["Xn"] == e["Xn_before"]:
                rare["he_merges"] += 1
        if t.get("final") and t["final"].get("iter") == 0 and t["final"].get("unc", 0) > 0:
            rare["iteration0_noisy_end"] += 1
    from . import c09model
    mcov = c09model.correspondence(ctx, rep, traces)
    rep.coverage = {
        "evaluations": len(traces), "distinct_nontrivial": len(traces) - lab_hist.get("pool", 0) + sum(1 for t in pool if t["constructed"]),
        "rule": "one evaluation = one real BADS(...).optimize() run on a valid problem with a well-behaved target; pool runs (all modes x geometries x constraints) plus forced rare paths "
                "(labels below); non-trivial = run reached optimize(); any exception escaping optimize() is a failing input (clause = exception type @ innermost pybads frame)",
        "samples": [t["spec"] for t in traces[:2]] + [t["spec"] for t in forced[:2]],
        "traces_validated_against_impl": len(traces), "labels": lab_hist, "completed": completed, "internal_errors": hist,
        "rare_paths_hit": rare, "definedness_model": mcov, "pool": runlevel.pool_distribution(pool),
    }
    rep.assumptions = ["definedness is proved for the modelled mechanisms only (Defined.lean); the rest of a run is covered as far as runs are executed - partial"]
    return rep


def replay(ctx, data):
    rep = Report()
    c = data["case"]
    t = tracer.run_traced(c["spec"], want=("ctl",), **{k: v for k, v in c.get("kw", {}).items()})
    examine([t], [c.get("label", "replay")], rep)
    return rep


def widen(ctx, rep0):
    rep = Report()
    jobs = forced_specs(ctx.seed + 11, "thorough")[:200]
    traces = tracer.run_many([(sp, dict(kw, want=("ctl",))) for _, sp, kw in jobs])
    examine(traces, [l for l, _, _ in jobs], rep)
    return rep
