"""C04 - deterministic targets: incumbent bookkeeping replayed through Inc.step; the result checked against the
target wrapper's own call log."""
import json
from ..core import Report
from ..proto import enc, enc_pt
from . import runlevel

# case kinds of corpus/ entries (failing inputs of past regressions) that this module replays on every run
CORPUS_KINDS = ('det_run',)



def extract(t):
    ev = t["events"]
    init, events, obs = [], [], []
    cur = None
    for k, e in ev:
        if k == "CALL" and "exc" not in e:
            pair = {"u": enc_pt(e["u"]), "y": enc(e["ret"][0])}
            if e["phase"] == "init":
                if e["rec"]:
                    init.append(pair)
            elif e["phase"] == "search":
                cur = ("search", [pair])
            elif e["phase"] == "poll":
                if cur is None or cur[0] != "poll":
                    cur = ("poll", [])
                cur[1].append(pair)
        elif k == "SRCH":
            events.append({"t": "search", "e": cur[1][0] if cur and cur[0] == "search" else None})
            obs.append(e["post"])
            cur = None
        elif k == "POLL":
            events.append({"t": "poll", "es": cur[1] if cur and cur[0] == "poll" else []})
            obs.append(e["post"])
            cur = None
        elif k == "INITDONE":
            init_obs = e
    return init, events, obs


def run_checks(ctx, rep):
    # a deterministic target (the generator's "det" targets return the same value at the same point) for which the options do not request
    # uncertainty handling - in whatever spelling of "false" - must be run and reported as deterministic
    for t in runlevel.get_pool(ctx):
        sp = t["spec"]
        if t["constructed"] and sp["mode"] == "det" and t.get("final") and t["error"] is None and t.get("result"):
            req = dict(sp.get("options", {}), **{k: eval(v, {"np": __import__("numpy")}) for k, v in (sp.get("np_options") or {}).items()})
            if not req.get("uncertainty_handling") and not req.get("specify_target_noise"):
                if t["final"].get("unc") != 0 or t["result"]["target_type"] != "deterministic":
                    rep.violation("det_fields", "bads.py:_init_optim_state_", f"deterministic target, uncertainty handling not requested (uncertainty_handling={req.get('uncertainty_handling')!r}), "
                                  f"but the run used uncertainty level {t['final'].get('unc')} and reports target_type={t['result']['target_type']!r}; {runlevel.spec_tag(sp)}",
                                  {"kind": "det_run", "spec": sp})
    traces = [t for t in runlevel.get_pool(ctx) if t["constructed"] and t["spec"]["mode"] == "det" and t["final"].get("unc") == 0
              and any(k == "INITDONE" for k, _ in t["events"])]
    items = []
    for t in traces:
        init, events, obs = extract(t)
        if init:
            items.append((t, init, events, obs))
    res = ctx.driver.call_many([{"cmd": "inc.run", "init": i, "events": e} for _, i, e, _ in items])
    stats = {"runs": 0, "events": 0, "moves": 0, "ties": 0, "plateau_runs": 0, "boundary_runs": 0}
    samples = []
    for (t, init, events, obs), r in zip(items, res):
        sp = t["spec"]
        tag = runlevel.spec_tag(sp)
        case = {"kind": "det_run", "spec": sp}
        stats["runs"] += 1
        stats["plateau_runs"] += sp["target"] in ("plateau", "ties")
        stats["boundary_runs"] += sp["opt_loc"] != "inside"
        prev = r["init"]
        for i, (st, ob) in enumerate(zip(r["states"], obs)):
            stats["events"] += 1
            if st != prev:
                stats["moves"] += 1
            prev = st
            if st["u"] != enc_pt(ob["u"]) or st["fval"] != enc(ob["fval"]) or enc(ob["yval"]) != enc(ob["fval"]):
                rep.disagree("Inc.step ~ _search_step_/_poll_step_ incumbent update", f"event {i} ({events[i]['t']}): model (u,fval)=({st['u']},{st['fval']}) observed ({ob['u']},{ob['yval']},{ob['fval']}); {tag}",
                             dict(case, iter_hint=int(ob.get("it", 0)), calls_hint=int(ob.get("fc", 0))))
                break
        # ---- the property on the observed run, against the wrapper's own call log -----------------------------
        if t["error"] is not None:
            continue
        calls = [(tuple(e["x"]), e["ret"][0]) for k, e in t["events"] if k == "CALL" and "exc" not in e]
        res_ = t["result"]
        x = tuple(res_["x"]) if isinstance(res_["x"], list) else (res_["x"],)
        ys_at_x = [y for cx, y in calls if cx == x]
        ymin = min(y for _, y in calls)
        if not ys_at_x:
            rep.violation("x_was_evaluated", "bads.py:optimize result", f"returned x was never passed to the target; {tag}", case)
        elif res_["fval"] not in ys_at_x:
            rep.violation("fval_exact", "bads.py:optimize result", f"returned fval={res_['fval']} is not the value observed at x ({ys_at_x[:3]}); {tag}", case)
        if ymin < res_["fval"]:
            rep.violation("best_evaluated", "bads.py:incumbent update", f"an evaluated point has value {ymin} < returned fval {res_['fval']}; {tag}", case)
        if res_["fsd"] != 0 or res_["target_type"] != "deterministic":
            rep.violation("det_fields", "optimize_result.py", f"fsd={res_['fsd']} target_type={res_['target_type']} for a deterministic target; {tag}", case)
        hf = [e["val"] for k, e in t["events"] if k == "HIST" and e["key"] == "fval"]
        if any(b > a for a, b in zip(hf, hf[1:])):
            rep.violation("hist_monotone", "bads.py:iteration history", f"recorded incumbent value increased: {hf}; {tag}", case)
        ys0 = [y for _, y in calls]
        stats["ties"] += len(ys0) != len(set(ys0))
        if len(samples) < 2:
            samples.append({"spec": sp, "init": init[:3], "events": events[:3], "model_states": r["states"][:3]})
    return stats, samples


def start_at_optimum_specs(ctx, n):
    """Deterministic runs whose start point is (near) the optimum: nothing evaluated later is better than f(x0)."""
    from .. import gen
    rng = ctx.sub_rng("c04opt")
    specs = []
    for _ in range(n):
        sp = gen.make_spec(rng, mode="det", geom=rng.choice(["box", "tight", "logbox", "unbounded"]), opt_loc="inside", cons=None, target=rng.choice(["quad", "abs", "ties"]))
        sp["x0_unit"] = list(sp["c_unit"]) if rng.random() < 0.7 else [round(c + rng.choice([-1, 1]) * 2.0 ** -9, 6) for c in sp["c_unit"]]
        sp["options"] = gen.small_options(rng, sp["D"], "det")
        specs.append(sp)
    return specs


def large_offset_specs(ctx, n):
    """Deterministic targets whose values are large relative to the late improvements (a negative log-likelihood with a big constant): runs
    long enough that strictly better points differ from the incumbent by ~1e-8 |f| and less."""
    from .. import gen
    rng = ctx.sub_rng("c04offset")
    specs = []
    for i in range(n):
        sp = gen.make_spec(rng, D=rng.choice([1, 2, 2]), mode="det", geom=rng.choice(["box", "tight"]), opt_loc="inside", cons=None, target=rng.choice(["quad", "quad", "abs"]))
        sp["yoffset"] = [2.5e4, 1e6, -5e4, 1e3, 3e8][i % 5]
        sp["options"] = {"max_fun_evals": rng.choice([120, 160])}
        specs.append(sp)
    return specs


def typed_value_specs(ctx):
    """Deterministic integer-valued targets (plateaus, ties) that return their value as a NumPy scalar of a non-float real type."""
    from .. import gen
    rng = ctx.sub_rng("c04dtype")
    specs = []
    for dt in ("uint64", "uint8", "int64", "float32", "int32", "uint16", "int8", "int8", "int16"):
        sp = gen.make_spec(rng, D=rng.choice([1, 2]), mode="det", geom="box", opt_loc="inside", cons=None, target=rng.choice(["plateau", "ties"]) if dt not in ("int8", "int16") else "ties")
        sp["x0_unit"] = [0.9 if c < 0 else -0.9 for c in sp["c_unit"]]        # start far from the optimum
        sp["ydtype"] = dt
        if dt in ("int8", "int16"):
            # values spread over more than half the range of the type (differences beyond +-127 / +-32767 wrap around in that type)
            sp["yoffset"] = -125.0 if dt == "int8" else -32000.0
            sp["yscale"] = 130.0 if dt == "int8" else 33000.0
            sp["D"] = 2
            sp["c_unit"], sp["x0_unit"], sp["w"] = [0.6, -0.5], [-0.9, 0.9], [1.0, 1.0]
            sp["options"] = {"max_fun_evals": 60}
            specs.append(sp)
            continue
        sp["options"] = {"n_search": 32, "max_fun_evals": 40}
        specs.append(sp)
    return specs


def zero_tolerance_specs(ctx):
    """End points of the tolerances that a deterministic run reads: tol_noise = 0 (identical repeats differ by exactly 0, which is not MORE
    than the tolerance), tol_fun tiny, tol_mesh at the default."""
    from .. import gen
    rng = ctx.sub_rng("c04tol")
    specs = []
    for opts in ({"tol_noise": 0}, {"tol_noise": 0.0}, {"tol_noise": 0, "tol_fun": 1e-12}):
        sp = gen.make_spec(rng, D=rng.choice([1, 2]), mode="det", geom="box", opt_loc="inside", cons=None, target="quad")
        sp["options"] = dict({"n_search": 32, "max_fun_evals": 50}, **opts)
        specs.append(sp)
    return specs


def add_fault_runs(ctx):
    """Deterministic runs in which ONE posterior update of the surrogate fails (LinAlgError while a just-evaluated point is added to the GP),
    at each of the first 24 such updates in turn.  A run that does not survive that is not this property's business; a run that DOES return
    a result must still return the best point it evaluated - including the point whose addition failed."""
    from .. import gen, tracer
    rng = ctx.sub_rng("c04addfault")
    jobs = []
    for _ in range(2 if ctx.quick else 8):
        sp = gen.make_spec(rng, D=2, mode="det", geom="box", opt_loc="inside", cons=None, target="quad")
        sp["x0_unit"] = [0.9 if c < 0 else -0.9 for c in sp["c_unit"]]
        sp["options"] = {"n_search": 32, "max_fun_evals": rng.choice([25, 32])}
        for k in range(24):
            jobs.append((sp, {"add_faults": [k], "want": ("call", "ctl", "hist")}))
    tr = tracer.cached("c04addfault", ctx.seed, ctx.tier, lambda: jobs)
    bad = [t for t in tr if "tracer_error" in t]
    if bad:
        raise RuntimeError("tracer failure: " + bad[0]["tracer_error"])
    ctx._pool = list(runlevel.get_pool(ctx)) + list(tr)
    return sum(1 for t in tr if t["error"] is None), len(tr)


def multi_improve_specs(ctx, n):
    """Deterministic runs that start far from the optimum, poll completely (complete_poll) and stop after very few iterations: several
    points of one poll improve on the incumbent, in any order, and the run returns right afterwards - the returned point must be the
    best of them."""
    from .. import gen
    rng = ctx.sub_rng("c04multi")
    specs = []
    for _ in range(n):
        D = rng.choice([2, 2, 3, 4])
        sp = gen.make_spec(rng, D=D, mode="det", geom=rng.choice(["box", "unbounded", "tight"]), opt_loc="inside", cons=None, target=rng.choice(["quad", "quad", "abs"]))
        sp["c_unit"] = [round(rng.uniform(0.3, 0.8) * rng.choice([1, -1]), 3) for _ in range(D)]
        sp["x0_unit"] = [round(-0.9 * (1 if c > 0 else -1) * rng.uniform(0.6, 1.0), 3) for c in sp["c_unit"]]
        sp["w"] = [rng.choice([1.0, 1.5, 0.7, 2.0]) for _ in range(D)]
        # no initial design beyond the start point and no search before the first poll: the first poll is made from the far start point
        sp["options"] = {"n_search": 32, "max_fun_evals": 150, "complete_poll": True, "max_iter": rng.choice([1, 1, 1, 2, 3]),
                         "fun_eval_start": 1, "search_n_try": rng.choice([0, 0, 1])}
        specs.append(sp)
    return specs


def spelling_specs(ctx):
    """Deterministic targets with uncertainty_handling switched off in other spellings than the literal False (0, 0.0, numpy.bool_(False)):
    a falsy value must mean 'not requested' in every spelling, so the run stays a deterministic one."""
    from .. import gen
    rng = ctx.sub_rng("c04spell")
    specs = []
    for opt, np_opt in (({"uncertainty_handling": 0}, None), (None, {"uncertainty_handling": "np.bool_(False)"}), ({"uncertainty_handling": False}, None),
                        ({"uncertainty_handling": 0.0}, None), ({"specify_target_noise": 0}, None), (None, {"specify_target_noise": "np.bool_(False)"})):
        sp = gen.make_spec(rng, D=rng.choice([1, 2]), mode="det", geom=rng.choice(["box", "tight"]), opt_loc="inside", cons=None, target="quad")
        sp["options"] = dict({"n_search": 32, "max_fun_evals": 40}, **(opt or {}))
        if np_opt:
            sp["np_options"] = np_opt
        specs.append(sp)
    return specs


def move_primitive(ctx, rep):
    """`_update_incumbent_` (the single routine through which search and poll move the incumbent) must adopt EXACTLY the point and values
    it is given - also when the new point is extremely close to the old one (fine meshes) - as Inc.searchUpdate / Noisy.move do."""
    import numpy as np
    from pybads import BADS
    rng = ctx.sub_rng("c04move")
    n = 0
    for _ in range(40 if ctx.quick else 400):
        D = rng.randint(1, 4)
        b = BADS(lambda x: float(np.sum(np.asarray(x) ** 2)), np.full(D, 0.5), np.full(D, -5.0), np.full(D, 5.0), np.full(D, -2.0), np.full(D, 2.0), options={"display": "off"})
        u_old = np.array([rng.uniform(-2, 2) for _ in range(D)])
        b.u, b.u_best, b.yval, b.fval, b.fsd = u_old.copy(), u_old.copy(), 3.0, 3.0, 0.0
        b.optim_state.update({"u": u_old.copy(), "yval": 3.0, "fval": 3.0, "fsd": 0.0})
        step = rng.choice([1.0, 2.0 ** -10, 2.0 ** -17, 2.0 ** -19, 1e-7, 1e-9])
        u_new = u_old.copy()
        u_new[rng.randrange(D)] += step * rng.choice([-1, 1])
        y, f, sd = rng.uniform(-5, 2.9), rng.uniform(-5, 2.9), rng.choice([0.0, 0.3])
        b._update_incumbent_(u_new.copy(), y, f, sd)
        n += 1
        got = (list(np.ravel(b.u)), list(np.ravel(b.u_best)), b.yval, b.fval, b.fsd, list(np.ravel(b.optim_state["u"])), b.optim_state["yval"], b.optim_state["fval"], b.optim_state["fsd"])
        want = (list(u_new), list(u_new), y, f, sd, list(u_new), y, f, sd)
        if got != want:
            rep.violation("best_evaluated", "bads.py:_update_incumbent_", f"moving the incumbent by {step:g} (D={D}) to a point with value {y} leaves the incumbent at {got[0]} / value {got[2]} instead of {want[0]} / {y}",
                          {"kind": "move", "D": D, "u_old": [float(v) for v in u_old], "u_new": [float(v) for v in u_new], "y": y, "f": f, "sd": sd})
            break
    return n


def run(ctx):
    rep = Report()
    nmove = move_primitive(ctx, rep)
    runlevel.with_extra(ctx, "c04opt", lambda: start_at_optimum_specs(ctx, 6 if ctx.quick else 60))
    runlevel.with_extra(ctx, "c04multi", lambda: multi_improve_specs(ctx, 12 if ctx.quick else 100))
    runlevel.with_extra(ctx, "c04spell", lambda: spelling_specs(ctx))
    runlevel.with_extra(ctx, "c04offset", lambda: large_offset_specs(ctx, 5 if ctx.quick else 40))
    runlevel.with_extra(ctx, "c04dtype", lambda: typed_value_specs(ctx))
    runlevel.with_extra(ctx, "c04tol", lambda: zero_tolerance_specs(ctx))
    n_surv, n_addf = add_fault_runs(ctx)
    stats, samples = run_checks(ctx, rep)
    stats["runs_with_a_failed_posterior_update"] = n_addf
    stats["of_which_returned_a_result"] = n_surv
    dstats = runlevel.det_replay(ctx, rep)
    rep.coverage = {
        "evaluations": stats["events"] + dstats["iterations"], "distinct_nontrivial": stats["moves"], "composed_model": dstats,
        "rule": "one evaluation = one search or poll step of a deterministic traced run whose incumbent (u, yval, fval) after the step was compared with Inc.step applied to the evaluations of that step; "
                "non-trivial = steps that moved the incumbent; the result clauses are evaluated against the (x, y) call log kept by the target wrapper; "
                "composed model: every deterministic run replayed through Det.step (candidate sets + acquisition picks in, evaluated points, derived improvements fval - y, incumbent and counters out)",
        "samples": samples, "traces_validated_against_impl": stats["runs"], "stats": stats,
    }
    rep.assumptions = ["default incumbent-update policy (HypC04, re-proved from the option files)", "deterministic target (same value at the same point)"]
    return rep


def replay(ctx, data):
    rep = Report()
    from .. import tracer
    if data["case"].get("kind") == "move":
        move_primitive(ctx, rep)
        return rep
    ctx._pool = [tracer.run_traced(data["case"]["spec"])]
    run_checks(ctx, rep)
    return rep


def widen(ctx, rep0):
    rep = Report()
    from .. import tracer, gen
    rng = ctx.sub_rng("c04w")
    # (a) the runs on which the incumbent model and the code disagree, cut short right after the disagreeing step (same seed, same
    #     trajectory up to there): if the code's incumbent is not the best evaluated point at that moment, the truncated run returns it
    specs = []
    for d in rep0.disagreements[:6]:
        c = d.get("case") or {}
        if "spec" not in c or "iter_hint" not in c:
            continue
        for extra in (0, 1, 2):
            sp = json.loads(json.dumps(c["spec"]))
            sp["options"] = dict(sp.get("options", {}), max_iter=max(1, c["iter_hint"] + extra))
            specs.append(sp)
        sp = json.loads(json.dumps(c["spec"]))
        sp["options"] = dict(sp.get("options", {}), max_fun_evals=max(2, c["calls_hint"]))
        specs.append(sp)
    specs += start_at_optimum_specs(type(ctx)(ctx.pid, "thorough", ctx.seed + 1), 40)
    for _ in range(60):
        sp = gen.make_spec(rng, mode="det", cons="rand")
        sp["options"] = gen.small_options(rng, sp["D"], "det")
        specs.append(sp)
    sub = type(ctx)(ctx.pid, "quick", ctx.seed)
    sub._pool = tracer.run_many([(sp, {}) for sp in specs])
    run_checks(sub, rep)
    return rep
