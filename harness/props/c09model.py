"""Correspondence for the definedness model (filled in once Defined.lean exists)."""


def correspondence(ctx, rep, traces):
    return {"status": "model not built yet"}
