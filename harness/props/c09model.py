"""Correspondence for the definedness model (Defined.lean): for every instance of a modelled rare mechanism observed
in the executed runs, and for a function-level sweep of the training-option schedule, the model's ok/error verdict vs
what the real code did at that mechanism."""
import types
import numpy as np

SITES = {"trainopts": "_get_gp_training_options", "result": "set_attributes", "es": "__call__", "merged_value": "_is_gp_refit_time_",
         "target_fallback": "_poll_step_"}


def _train_opts_sweep(ctx, rep):
    import pybads.bads.gaussian_process_train as gpt
    reqs, obs = [], []
    for eff in (3, 5, 21, 33):
        for budget in range(max(1, eff - 3), eff + 5):
            for n_eff in (eff, eff + 1, eff + 7):
                fl = types.SimpleNamespace(n_evals=np.ones((n_eff, 1)), X_flag=np.ones(n_eff, dtype=bool))
                opts = {"gp_train_init_method": "rand", "gp_tol_opt": 1e-5, "gp_train_n_init": 128, "gp_train_n_init_final": 8, "max_fun_evals": budget, "n_train_max": 60}
                try:
                    gpt._get_gp_training_options({"iter": -1, "eff_starting_points": eff}, None, opts, {}, 0, fl)
                    ok = True
                except Exception as ex:
                    ok = False
                reqs.append({"cmd": "def.check", "kind": "trainopts", "nEff": n_eff, "eff": eff, "budget": budget, "nTrainMax": 60})
                obs.append((ok, eff, budget, n_eff))
    for (ok, eff, budget, n_eff), m in zip(obs, ctx.driver.call_many(reqs)):
        if m != ok:
            rep.disagree("Def.trainOpts ~ _get_gp_training_options", f"eff_starting_points={eff} max_fun_evals={budget} n_eff={n_eff}: model {'ok' if m else 'error'} code {'ok' if ok else 'raised'}",
                         {"kind": "trainopts", "eff": eff, "budget": budget, "n_eff": n_eff})
    return len(reqs)


def correspondence(ctx, rep, traces):
    n_sweep = _train_opts_sweep(ctx, rep)
    reqs, owners = [], []
    for t in traces:
        if not t.get("constructed") or t.get("final") is None:
            continue
        err_fn = (t["error"]["innermost_pybads"] or [None, None, None])[2] if t["error"] else None
        inst = []
        fin = t["final"]
        if fin.get("unc", 0) > 0 and fin.get("nfs") is not None and "iter" in fin and (t["error"] is None or err_fn == "set_attributes"):
            inst.append(("result", {"unc": int(fin["unc"]), "pollIter": int(fin["iter"]), "nfs": max(0, int(fin["nfs"]))}))
        for k, e in t["events"]:
            if k == "FILT" and e["site"] == "es" and e["n_out"] == 0:
                inst.append(("es", {"n": 0}))
            elif k == "CALL" and e.get("rec") and "exc" not in e and e["Xn"] == e["Xn_before"]:
                inst.append(("merged_value", {}))
            elif k == "PREDFAULT":
                inst.append(("target_fallback", {}))
        seen = set()
        for kind, args in inst:
            key = (kind, tuple(sorted(args.items())))
            if key in seen:
                continue
            seen.add(key)
            reqs.append(dict({"cmd": "def.check", "kind": kind}, **args))
            owners.append((t, kind, err_fn))
    hist = {}
    for (t, kind, err_fn), m in zip(owners, ctx.driver.call_many(reqs)):
        hist[kind] = hist.get(kind, 0) + 1
        code_failed_here = err_fn == SITES[kind]
        if m == code_failed_here:
            rep.disagree(f"Def ({kind}) ~ rare path", f"model says {'ok' if m else 'error'}, the run {'failed' if code_failed_here else 'did not fail'} in {SITES[kind]}",
                         {"kind": "run", "spec": t["spec"], "kw": {k: t.get(k) for k in ("predict_faults",) if t.get(k)}})
    return {"train_option_cases": n_sweep, "mechanism_instances": hist}
