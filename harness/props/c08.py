"""C08 - problem definitions validated exactly.

Per-coordinate product of {absent, -inf, +inf, NaN, ordered finite values, values within rounding distance} for D<=2
(sampled for D=3) x input spellings: BADS(...) outcome vs Val.validate (correspondence, bit-exact through Fl.rn) and vs
the property's own verdict Val.specValid (the failing-input detector)."""
import itertools, math
import numpy as np
from ..core import Report
from ..proto import enc, dec_f

SITE = "bads.py:_bounds_check_"
inf, nan = math.inf, math.nan

# per-coordinate value menus (hard bounds -2, 2 in the generic case)
X0 = ["absent", 0.5, -2.0, 2.0, 5.0, nan, 1.5, -2.0 + 1e-9, 1.999, 0.0, -1e-9]
LB = ["absent", -inf, -2.0, 0.0, nan, 2.0, 2.0 - 4e-16]
UB = ["absent", inf, 2.0, 0.0, -2.0, nan]
PLB = ["absent", -1.0, 0.0, -3.0, nan, -inf, -2.0, 1.0, -1.9999]
PUB = ["absent", 1.0, 0.0, 3.0, -1.0, 2.0, inf, -1.9998]

# case kinds of corpus/ entries (failing inputs of past regressions) that this module replays on every run
CORPUS_KINDS = ('definition',)



def spell(vec, how, D):
    if vec is None:
        return None
    a = [float(v) for v in vec]
    if how == "array":
        return np.array(a)
    if how == "row":
        return np.array([a])
    if how == "list":
        return list(a)
    if how == "tuple":
        return tuple(a)
    if how == "int" and all(math.isfinite(v) and v == int(v) for v in a):
        return np.array([int(v) for v in a])
    if how == "scalar" and D == 1 and len(a) == 1:      # a malformed (wrong-length) vector has no scalar spelling
        return a[0]
    return np.array(a)


def impl_objects(args):
    """Construct from the given objects (copies of ndarray arguments are NOT made here)."""
    from pybads import BADS
    try:
        b = BADS(lambda x: 0.0, *args, options={"display": "off", "random_seed": 1})
        return "ok", {"int": [[float(v) for v in np.ravel(a)] for a in (b.lower_bounds, b.upper_bounds, b.plausible_lower_bounds, b.plausible_upper_bounds, b.u)]}, 0, ""
    except Exception as ex:
        return type(ex).__name__, None, 0, str(ex)[:80]


_IMPL_N = [0]


def impl(case, how="array", again=True):
    from pybads import BADS
    # whatever the process-wide generator holds when a definition is constructed must not matter (the constructor is given random_seed=1):
    # it is left in another state before every construction
    _IMPL_N[0] += 1
    np.random.seed(1000 + _IMPL_N[0])
    calls = [0]
    def f(x):
        calls[0] += 1
        return 0.0
    D = case["D"]
    args = [spell(case[k], how, D) for k in ("x0", "lb", "ub", "plb", "pub")]
    before = [None if a is None or not isinstance(a, np.ndarray) else a.copy() for a in args]
    try:
        b = BADS(f, *args, options={"display": "off", "random_seed": 1})
        vt = b.var_transf
        if again and any(a0 is not None and not np.array_equal(a0, a, equal_nan=True) for a0, a in zip(before, args)):
            # the constructor wrote into the caller's vectors: the SAME definition objects, used once more, must still define the same problem
            o2, n2, _c, m2 = impl_objects(args)
            o1, n1, _c, m1 = impl_objects(before)
            if (o1, n1) != (o2, n2):
                return "ok", {"reuse": f"constructing a second time from the same vectors gives {o2} {m2} {n2 and n2['int']} instead of {o1} {n1 and n1['int']}"}, calls[0], ""
        norm = {"x0": [float(v) for v in np.ravel(b.x0)], "lb": [float(v) for v in np.ravel(vt.orig_lb)], "ub": [float(v) for v in np.ravel(vt.orig_ub)],
                "plb": [float(v) for v in np.ravel(vt.orig_plb)], "pub": [float(v) for v in np.ravel(vt.orig_pub)],
                # the problem BADS actually works on: internal (transformed) bounds and the gridised start point
                "int": [[float(v) for v in np.ravel(a)] for a in (b.lower_bounds, b.upper_bounds, b.plausible_lower_bounds, b.plausible_upper_bounds, b.u)]}
        sms = float(b.optim_state["search_mesh_size"])
        q = np.ravel(b.u) / sms
        norm["u_on_grid"] = bool(np.all(np.abs(q - np.round(q)) <= 1e-9 * np.maximum(1.0, np.abs(q))))
        norm["sms"] = sms
        return "ok", norm, calls[0], ""
    except ValueError as ex:
        return "ValueError", None, calls[0], str(ex)[:80]
    except Exception as ex:
        return type(ex).__name__, None, calls[0], str(ex)[:80]


def tags_of(c):
    """Input features that identify the listed known findings (so that any OTHER violation of the same clause is still reported)."""
    D = c["D"]
    lb = c["lb"] if c["lb"] is not None else [-inf] * D
    ub = c["ub"] if c["ub"] is not None else [inf] * D
    plb = c["plb"] if c["plb"] is not None else lb
    pub = c["pub"] if c["pub"] is not None else ub
    t = {"ulp_bounds": False, "margin_box": False}
    for l, u, pl, pu in zip(lb, ub, plb, pub):
        if all(isinstance(v, float) and math.isfinite(v) for v in (l, u)) and l < u:
            if (u - l) <= 1e-9 * max(1.0, abs(l), abs(u)):
                t["ulp_bounds"] = True
            r = u - l
            le, ue = l + 1e-3 * r, u - 1e-3 * r
            if all(isinstance(v, float) and math.isfinite(v) for v in (pl, pu)) and pl < pu and (pu <= le or pl >= ue or max(pl, le) >= min(pu, ue)):
                t["margin_box"] = True
    return t


def gen_cases(ctx):
    rng = ctx.sub_rng("c08")
    cases = []
    # D = 1: full product (vector-level absence is per problem, which for D=1 is the same thing)
    full1 = list(itertools.product(X0, LB, UB, PLB, PUB))
    if ctx.quick:
        full1 = [c for c in full1 if rng.random() < 0.12]
    for x0, lb, ub, plb, pub in full1:
        cases.append({"D": 1, **{k: (None if v == "absent" else [v]) for k, v in zip(("x0", "lb", "ub", "plb", "pub"), (x0, lb, ub, plb, pub))}})
    # D = 2, 3: coordinates drawn from per-coordinate tuples with consistent presence (each tuple also on its own, D = 1)
    coords = [(0.5, -2., 2., -1., 1.), (0.5, -inf, inf, -1., 1.), (0.5, -2., inf, -1., 1.), (0.5, -inf, 2., -1., 1.), (-2., -2., 2., -1., 1.), (nan, -2., 2., -1., 1.),
              (0.5, -2., 2., -2., 2.), (5., -2., 2., -1., 1.), (0.5, -2., 2., 1., -1.), (0.5, 0., 0., 0., 0.), (0.5, -2., 2., 0., 0.), (1.5, -2., 2., -1., 1.),
              (0.5, -2., 2., -3., 1.), (0.5, -inf, inf, -inf, 1.), (2., -2., 2., -1., 1.), (0.5, -2., 2., -1.9999, -1.9998), (0.5, 2. - 4e-16, 2., 2. - 4e-16, 2.),
              (0.5, nan, 2., -1., 1.), (0.5, -2., 2., nan, 1.), (0.05, 0.01, 100., 0.1, 10.), (1e11, 1., 1e12, 10., 1e11), (3., -2., 2., -1., 1.),
              # integral values on a log-scale coordinate (int spellings must give the same internal problem)
              (50., 1., 1000., 10., 100.), (5., 1., 100., 2., 50.),
              # a hard bound that is exactly zero, start point on it / within the 0.1% margin of it
              (0., -2., 0., -1.5, -0.5), (0., 0., 2., 0.5, 1.5), (-1e-9, -2., 0., -1.5, -0.5), (1e-9, 0., 2., 0.5, 1.5), (-1., -2., 0., -1.5, -0.5),
              # finite hard bounds many orders of magnitude wider than an ordinary plausible box
              (1., -1e12, 1e12, 0.3, 1.7), (1., -3e11, 1e12, 0.3, 1.7), (0.9, -1e13, 1e13, 0.1, 1.9),
              # an infinite start coordinate on a bounded variable (outside the hard bounds, whatever the other coordinates are - NaN included)
              (inf, -2., 2., -1., 1.), (-inf, -2., 2., -1., 1.)]
    present = [(1, 1, 1, 1, 1), (0, 1, 1, 1, 1), (1, 0, 0, 1, 1), (1, 1, 1, 0, 0), (0, 1, 1, 0, 0), (1, 0, 0, 0, 0), (0, 0, 0, 1, 1), (1, 1, 1, 0, 1), (0, 0, 0, 0, 0), (1, 1, 0, 1, 1)]
    # D = 2: EVERY ordered pair of coordinate tuples with all vectors present (so that cross-coordinate effects of the
    # any()/sum() style tests are met), then random pairs/triples with the presence patterns
    for c1 in coords:
        cases.append({"D": 1, **{k: [c1[j]] for j, k in enumerate(("x0", "lb", "ub", "plb", "pub"))}})
    # start points a little more than the 0.1% margin away from a hard bound of a log-scaled (or coarsely gridded) coordinate: the gridised start
    # can overshoot the bound and has to be moved back INSIDE, onto the grid
    near = [(99.89, 0.01, 100., 0.5246931069752093, 66.29488468893304)]
    for _ in range(30 if ctx.quick else 200):
        lo_, hi_ = 10.0 ** rng.uniform(-3, 0), 10.0 ** rng.uniform(1, 3)
        p_ = lo_ * 10.0 ** rng.uniform(0.2, 1.5); q_ = hi_ / 10.0 ** rng.uniform(0.05, 0.6)
        if q_ / p_ < 10:
            continue
        side = rng.random() < 0.5
        x_ = hi_ * (1 - rng.uniform(1.05e-3, 2e-3)) if side else lo_ * (1 + rng.uniform(1.05e-3, 2e-3) * (hi_ / lo_ - 1))
        near.append((x_, lo_, hi_, p_, q_))
    for c1 in near:
        cases.append({"D": 1, **{k: [c1[j]] for j, k in enumerate(("x0", "lb", "ub", "plb", "pub"))}})
    for c1 in coords:
        for c2 in coords:
            c = {"D": 2}
            for j, k in enumerate(("x0", "lb", "ub", "plb", "pub")):
                c[k] = [c1[j], c2[j]]
            cases.append(c)
    for D in (2, 3):
        n = (250 if ctx.quick else 2500) if D == 2 else (300 if ctx.quick else 4000)
        for _ in range(n):
            cs = [rng.choice(coords) for _ in range(D)]
            pr = rng.choice(present)
            c = {"D": D}
            for j, k in enumerate(("x0", "lb", "ub", "plb", "pub")):
                c[k] = [t[j] for t in cs] if pr[j] else None
            cases.append(c)
    # malformed: dimension mismatches
    for _ in range(30 if ctx.quick else 200):
        D = rng.randint(1, 3)
        c = {"D": D, "x0": [0.5] * D, "lb": [-2.0] * D, "ub": [2.0] * D, "plb": [-1.0] * D, "pub": [1.0] * D}
        k = rng.choice(["lb", "ub", "plb", "pub", "x0"])
        c[k] = c[k] + [c[k][0]] if rng.random() < 0.5 or D == 1 else c[k][:-1]
        cases.append(c)
    return cases


def req_of(c):
    r = {"cmd": "val.run"}
    for k in ("x0", "lb", "ub", "plb", "pub"):
        r[k] = None if c[k] is None else [enc(v) for v in c[k]]
    return r


def check_cases(ctx, cases, rep, tag="case"):
    res = ctx.driver.call_many([req_of(c) for c in cases])
    stats = {"accepted": 0, "rejected": 0, "unspecified": 0, "spec_valid": 0, "spec_invalid": 0, "reject_kinds": {}, "spellings_checked": 0}
    rng = ctx.sub_rng("c08s")
    for c, m in zip(cases, res):
        out, norm, ncalls, msg = impl(c)
        case = {"kind": "definition", **{k: (None if c[k] is None else [enc(v) for v in c[k]]) for k in ("x0", "lb", "ub", "plb", "pub")}, "D": c["D"],
                "tags": tags_of(c)}
        desc = f"x0={c['x0']} lb={c['lb']} ub={c['ub']} plb={c['plb']} pub={c['pub']}"
        spec = m["spec"]
        stats["spec_valid" if spec == "valid" else "spec_invalid" if spec == "invalid" else "unspecified"] += 1
        if out == "ok":
            stats["accepted"] += 1
        else:
            stats["rejected"] += 1
            stats["reject_kinds"][m.get("err", "model-ok")] = stats["reject_kinds"].get(m.get("err", "model-ok"), 0) + 1
        if out == "ok" and norm is not None and "reuse" in norm:
            rep.violation("same_definition_same_problem", "bads.py:__init__ input handling / variables_transformer.py",
                          f"{tag}: the constructor overwrote the caller's bound vectors, and {norm['reuse']}; {desc}", case)
            continue
        # ---- the property, against its own sentence --------------------------------------------------------
        if ncalls != 0:
            rep.violation("no_target_call", "bads.py:__init__", f"{tag}: target called {ncalls} time(s) during construction; {desc}", case)
        if spec == "valid" and out != "ok":
            rep.violation("valid_accepted", SITE + (":HalfBounds" if "HalfBounds" in msg else ":StrictBounds" if "StrictBounds" in msg else ":invert" if "invert" in msg else ""),
                          f"{tag}: valid definition rejected with {out}: {msg}; {desc}", case)
        elif spec == "invalid" and out == "ok":
            rep.violation("invalid_rejected", SITE, f"{tag}: invalid definition accepted; {desc}", case)
        elif spec == "invalid" and out != "ValueError":
            rep.violation("invalid_valueerror", SITE, f"{tag}: invalid definition raised {out} instead of ValueError: {msg}; {desc}", case)
        if out == "ok":
            l, u, pl, pu, x = (np.array(norm[k]) for k in ("lb", "ub", "plb", "pub", "x0"))
            if not np.all((l <= pl) & (pl < pu) & (pu <= u)):
                rep.violation("normalised_order", SITE, f"{tag}: accepted definition not normalised to lb<=plb<pub<=ub: {norm}; {desc}", case)
            fin = np.isfinite(l)
            if not np.all(np.isfinite(x)) or not np.all((l[fin] < x[fin]) & (x[fin] < u[fin])):
                rep.violation("x0_strictly_inside", SITE, f"{tag}: start point not strictly inside finite hard bounds: {norm}; {desc}", case)
            if norm.get("u_on_grid") is False:
                rep.violation("internal_problem_wellformed", "bads.py:_init_optim_state_", f"{tag}: the start point the run begins from ({norm['int'][4]}, internal coordinates) is not a point "
                              f"of the initial search grid (mesh {norm['sms']}): it was moved onto a bound instead of to the nearest grid point inside the box; {desc}", case)
            # the INTERNAL problem the run will work on: finite-or-infinite (never NaN) bounds in the same order, a finite start point
            il, iu, ipl, ipu, iu0 = (np.array(a, dtype=float) for a in norm["int"])
            if np.any(np.isnan(il)) or np.any(np.isnan(iu)) or not np.all(np.isfinite(ipl)) or not np.all(np.isfinite(ipu)) or not np.all(np.isfinite(iu0)) \
                    or not np.all((il <= ipl) & (ipl < ipu) & (ipu <= iu)) or not np.all((il <= iu0) & (iu0 <= iu)):
                rep.violation("internal_problem_wellformed", "bads.py:__init__ / variables_transformer.py", f"{tag}: accepted definition yields a malformed internal problem "
                              f"(lb, ub, plb, pub, u0) = {norm['int']}; {desc}", case)
        # ---- correspondence with the model --------------------------------------------------------------------
        if ("ok" in m) != (out == "ok"):
            if not (out not in ("ok", "ValueError")):
                rep.disagree("Val.validate ~ BADS.__init__", f"{tag}: model {'accepts' if 'ok' in m else 'rejects (' + m['err'] + ')'} impl {out} {msg}; {desc}", case)
        elif out == "ok":
            mo = m["ok"]
            for k in ("lb", "ub", "plb", "pub"):
                if [enc(v) for v in norm[k]] != mo[k]:
                    rep.disagree("Val.validate ~ _bounds_check_ (normalised problem)", f"{tag}: {k}: model {mo[k]} impl {norm[k]}; {desc}", case)
                    break
            xm = mo["x0"]
            if all(v != "nan" for v in xm) and [enc(v) for v in norm["x0"]] != xm:
                rep.disagree("Val.validate ~ _bounds_check_ (x0)", f"{tag}: x0: model {xm} impl {norm['x0']}; {desc}", case)
        # ---- equivalent spellings define the same problem ----------------------------------------------------------
        int_ok = out == "ok" and all(c[k] is None or all(isinstance(v, float) and math.isfinite(v) and v == int(v) for v in c[k]) for k in ("x0", "lb", "ub", "plb", "pub"))
        if int_ok or rng.random() < (0.08 if ctx.quick else 0.3):
            how = "int" if int_ok and rng.random() < 0.7 else rng.choice(["row", "list", "tuple", "int", "scalar"])
            out2, norm2, n2, msg2 = impl(c, how)
            stats["spellings_checked"] += 1
            same = out2 == out and (norm2 is None or all(np.array_equal(np.array(norm2[k]), np.array(norm[k]), equal_nan=True) for k in ("lb", "ub", "plb", "pub")))
            if same and norm2 is not None:
                # also when the start point is drawn (x0 omitted / NaN): the seed is the same, so is the draw
                same = np.array_equal(np.array(norm2["x0"]), np.array(norm["x0"]))
                if not same:
                    msg2 = f"start point {norm2['x0']} vs {norm['x0']}"
                if same and not all(np.array_equal(np.array(a), np.array(b_), equal_nan=True) for a, b_ in zip(norm2["int"], norm["int"])):
                    same = False
                    msg2 = f"internal problem (lb, ub, plb, pub, u0) {norm2['int']} vs {norm['int']}"
            if not same:
                rep.violation("spelling_irrelevant", "bads.py:__init__ input handling", f"{tag}: spelling '{how}' of the same vectors gives {out2} {msg2} / {norm2} instead of {out} / {norm}; {desc}", case)
    return stats


def fl_differential(ctx, rep):
    rng = ctx.sub_rng("c08fl")
    pairs = []
    for _ in range(300 if ctx.quick else 5000):
        a = rng.choice([rng.uniform(-1e3, 1e3), rng.uniform(-1, 1) * 10.0 ** rng.randint(-12, 12), float(rng.randint(-5, 5)), 1e-3, 2.0 - 4e-16])
        b = rng.choice([rng.uniform(-1e3, 1e3), rng.uniform(-1, 1) * 10.0 ** rng.randint(-12, 12), float(rng.randint(-5, 5)), 1e-3, 1000.0])
        pairs.append((a, b))
    res = ctx.driver.call_many([{"cmd": "fl.ops", "a": enc(a), "b": enc(b)} for a, b in pairs])
    for (a, b), r in zip(pairs, res):
        want = {"add": a + b, "sub": a - b, "mul": a * b, "div": (a / b) if b != 0 else None}
        for k, w in want.items():
            if w is None or w == 0 or not math.isfinite(w) or abs(w) < 1e-300:
                continue
            if r[k] != enc(w):
                rep.disagree("Fl.rn ~ IEEE binary64", f"{k}({a},{b}): model {r[k]} python {enc(w)}", {"kind": "fl", "a": enc(a), "b": enc(b)})
    return len(pairs)


def run(ctx):
    rep = Report()
    nfl = fl_differential(ctx, rep)
    cases = gen_cases(ctx)
    stats = check_cases(ctx, cases, rep)
    rep.coverage = {
        "evaluations": len(cases) + stats["spellings_checked"] + nfl, "distinct_nontrivial": stats["rejected"] + stats["accepted"],
        "rule": "D=1: product of per-coordinate menus {absent, -inf, +inf, NaN, finite values in every relative order, values within rounding distance} for x0, lb, ub, plb, pub (sampled in the quick tier); "
                "D=2,3: coordinate tuples x presence patterns; dimension mismatches; random equivalent spellings (scalar, list, tuple, int array, (D,), (1,D)); every case is a distinct definition; "
                "also binary64 arithmetic of the model (Fl.rn) vs Python floats",
        "samples": [req_of(c) for c in cases[:3]], "verdicts": stats, "exhaustive": not ctx.quick,
    }
    rep.assumptions = ["the transformer's floating-point self-test is not part of the exact model (see C11)", "a start point with some but not all coordinates NaN is unspecified by the property: both outcomes accepted"]
    return rep


def replay(ctx, data):
    rep = Report()
    c = data["case"]
    if c.get("kind") == "definition":
        case = {"D": c["D"], **{k: (None if c[k] is None else [dec_f(v) for v in c[k]]) for k in ("x0", "lb", "ub", "plb", "pub")}}
        check_cases(ctx, [case], rep, tag="replay")
    return rep


def widen(ctx, rep0):
    rep = Report()
    sub = type(ctx)(ctx.pid, "thorough", ctx.seed + 5)
    check_cases(ctx, gen_cases(sub)[:6000], rep, tag="widened")
    return rep
