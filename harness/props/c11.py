"""C11 - variable transform: real VariableTransformer vs Tr.* (decision rule exact through Fl.rn; affine part and
clamps by the model, log/exp applied harness-side), and the property's clauses evaluated on the implementation's
own outputs (round trip, monotone, plausible bounds to -1/+1, ranges)."""
import math
import numpy as np
from ..core import Report
from ..proto import enc

SITE = "variables_transformer.py:VariableTransformer"
inf = math.inf


# case kinds of corpus/ entries (failing inputs of past regressions) that this module replays on every run
CORPUS_KINDS = ("bounds",)

def gen_bounds(rng, quick):
    D = rng.randint(1, 6)
    lb, ub, plb, pub = [], [], [], []
    for _ in range(D):
        kind = rng.choice(["lin", "lin", "log", "log", "decade_edge", "unbounded", "tight", "neg", "huge", "tiny", "half_pos", "half_lin"])
        if kind == "lin":
            a = rng.uniform(-50, 50); w = 10.0 ** rng.uniform(-3, 4)
            l, u = a - w, a + w
            p, q = a - w * rng.uniform(0.1, 0.9), a + w * rng.uniform(0.1, 0.9)
        elif kind == "log":
            e0 = rng.uniform(-12, 8)
            l = 10.0 ** e0; u = l * 10.0 ** rng.uniform(1.5, 4)
            p = l * 10.0 ** rng.uniform(0.05, 0.4); q = u / 10.0 ** rng.uniform(0.05, 0.4)
        elif kind == "decade_edge":
            p = rng.choice([0.1, 1.0, 0.3, 2.0 ** -4, 7.0]); r = rng.choice([10.0, 10.0 * (1 - 2e-16), 10.0 * (1 + 3e-16), 9.999999, 10.000001])
            q = p * r; l = p / 2; u = q * 2
        elif kind == "unbounded":
            l, u = -inf, inf; p = rng.uniform(-5, 0); q = p + 10.0 ** rng.uniform(-2, 3)
            if rng.random() < 0.3:      # a plausible box far from the origin / very wide
                p = rng.choice([-1.0, 1.0]) * 10.0 ** rng.uniform(5, 10); q = p + 10.0 ** rng.uniform(3, 11)
        elif kind == "half_pos":
            # positive coordinate bounded on ONE side only (+inf is positive: log-transformed when the plausible range spans a decade)
            l = 10.0 ** rng.uniform(-6, 2); u = inf
            p = l * 10.0 ** rng.uniform(0, 1); q = p * rng.choice([10.0 ** rng.uniform(1.01, 4), 10.0, 10.0 ** rng.uniform(0.1, 0.99)])
        elif kind == "half_lin":
            a = rng.uniform(-50, 50); w = 10.0 ** rng.uniform(-1, 3)
            if rng.random() < 0.5:
                l, u = a - w, inf; p = a - w * rng.uniform(0, 0.9); q = p + w * rng.uniform(0.5, 20)
            else:
                l, u = -inf, a + w; q = a + w * rng.uniform(0, 0.9); p = q - w * rng.uniform(0.5, 20)
        elif kind == "tight":
            l = rng.uniform(-5, 5); u = l + 10.0 ** rng.uniform(-2, 2); p, q = l, u
        elif kind == "neg":
            u = -10.0 ** rng.uniform(-3, 2); l = u * 10.0 ** rng.uniform(1.5, 3); p = l * 0.5; q = u * 2
        elif kind == "huge":
            l = 1.0; u = 10.0 ** rng.uniform(9, 12); p = 10.0; q = u / 10
        else:
            l = 10.0 ** -12; u = 10.0 ** rng.uniform(-9, -3); p = l * 3; q = u / 3
        lb.append(l); ub.append(u); plb.append(p); pub.append(q)
    return D, lb, ub, plb, pub


def points_for(rng, l, u, p, q):
    pts = [p, q, (p + q) / 2, p + (q - p) * rng.random(), p + (q - p) * rng.random()]
    if math.isfinite(l):
        w = (u - l) if math.isfinite(u) else abs(l) + 1
        # "just outside": stay on the positive side for positive (possibly log-transformed) coordinates
        below = [l - w * 1e-9, l - abs(l) * 0.5 - 1e-3] if l <= 0 else [l * (1 - 1e-9), l * 0.5]
        pts += [l, u if math.isfinite(u) else q, l + w * 1e-12] + below
        if math.isfinite(u):
            pts += [u - w * 1e-12, u + w * 1e-9, u + abs(u) * 0.5 + 1e-3, l + w * rng.random(), l + w * rng.random()]
    else:
        # no hard bounds: every real is inside the box, however far out
        pts += [p - 10 * (q - p), q + 100 * (q - p), p - 10.0 ** rng.uniform(6, 11.5), q + 10.0 ** rng.uniform(6, 11.5), q + 10.0 ** rng.uniform(6, 11.5)]
    return sorted(set(float(v) for v in pts))


def lg(v):
    return enc(math.log(v)) if (isinstance(v, float) and math.isfinite(v) and v > 0) else None


def check(ctx, rep, nsets, only=None):
    """`only`: a list of recorded cases (kind "bounds") to re-check instead of generating bound sets."""
    from pybads.variable_transformer import VariableTransformer
    from ..proto import dec_f
    rng = ctx.sub_rng("c11")
    if only is not None:
        nsets = len(only)
    stats = {"sets": 0, "coords": 0, "log_coords": 0, "points": 0, "outside_points": 0, "rejected_sets": 0, "max_roundtrip_rel_width": 0.0,
             "decade_edge": 0, "infinite_bounds": 0}
    reqs, owners = [], []
    for si in range(nsets):
        D, lb, ub, plb, pub = gen_bounds(rng, ctx.quick)
        nonlinear = rng.random() < 0.85
        if only is not None:
            oc = only[si]
            lb, ub, plb, pub = ([float(dec_f(v)) for v in oc[k]] for k in ("lb", "ub", "plb", "pub"))
            D, nonlinear = len(lb), bool(oc.get("nonlinear", True))
        flag = np.full((1, D), np.nan) if nonlinear else np.zeros((1, D))
        case = {"kind": "bounds", "lb": [enc(v) for v in lb], "ub": [enc(v) for v in ub], "plb": [enc(v) for v in plb], "pub": [enc(v) for v in pub], "nonlinear": nonlinear}
        arrs = [np.array([lb]), np.array([ub]), np.array([plb]), np.array([pub])]
        keep = [a.copy() for a in arrs]
        try:
            vt = VariableTransformer(D, arrs[0], arrs[1], arrs[2], arrs[3], flag)
            # the bound set is the caller's: building a transformer must leave it as it was, so that the SAME arrays define the same map again
            # (a second start of a multi-start loop, a sibling transformer)
            if any(not np.array_equal(a, k, equal_nan=True) for a, k in zip(arrs, keep)):
                rep.violation("bound_set_untouched", SITE + ".__init__", f"constructing the transformer changed the caller's bound arrays: lb={lb} ub={ub} plb={plb} pub={pub} -> "
                              f"{[a.ravel().tolist() for a in arrs]}", case)
                continue
            if all(math.isfinite(l) and math.isfinite(u) for l, u in zip(lb, ub)):
                # plausible bounds OMITTED (documented: "equal to the hard bounds"): the same map as with plausible bounds given equal to the hard
                # bounds, built from float64 arrays that are the caller's and stay untouched
                try:
                    v_exp = VariableTransformer(D, np.array([lb]), np.array([ub]), np.array([lb]), np.array([ub]), flag)
                except ValueError:
                    v_exp = None
                if v_exp is not None:
                    stats["omitted_plausible_sets"] = stats.get("omitted_plausible_sets", 0) + 1
                    la, ua = np.array([lb], dtype=float), np.array([ub], dtype=float)
                    try:
                        v_def = VariableTransformer(D, la, ua, None, None, flag)
                    except ValueError as ex:
                        rep.violation("omitted_plausible_equal_hard", SITE + ".__init__", f"hard bounds lb={lb} ub={ub} are accepted with plausible bounds equal to them but rejected with "
                                      f"plausible bounds omitted: {str(ex)[:80]}", case)
                        continue
                    Xs = np.array([[l + (u - l) * fr for l, u in zip(lb, ub)] for fr in (0.0, 0.13, 0.5, 0.77, 1.0)])
                    with np.errstate(all="ignore"):
                        same = all(np.array_equal(np.asarray(getattr(v_def, a_)), np.asarray(getattr(v_exp, a_)), equal_nan=True) for a_ in ("lb", "ub", "plb", "pub", "apply_log_t")) \
                            and np.array_equal(v_def(Xs.copy()), v_exp(Xs.copy()), equal_nan=True)
                    if not same or not (np.array_equal(la, np.array([lb])) and np.array_equal(ua, np.array([ub]))):
                        with np.errstate(all="ignore"):
                            rep.violation("omitted_plausible_equal_hard", SITE + ".__init__", f"with plausible bounds omitted the transformer differs from the one built with plausible = hard bounds "
                                          f"(lb={lb} ub={ub}): internal plb/pub {np.ravel(v_def.plb).tolist()}/{np.ravel(v_def.pub).tolist()} vs {np.ravel(v_exp.plb).tolist()}/{np.ravel(v_exp.pub).tolist()}, "
                                          f"image of the hard bounds {v_def(Xs[[0, -1]].copy()).tolist()} vs {v_exp(Xs[[0, -1]].copy()).tolist()}; caller's arrays now {la.tolist()} {ua.tolist()}", case)
                        continue
            if only is not None or si % 3 == 0:
                # the helper through which BADS maps given points (x0) into internal coordinates: the image of a point must not depend on
                # the dtype it is spelled in (integer-typed points) nor on how many points are mapped at once
                from pybads.search.grid_functions import grid_units
                rows = []
                for j in range(3):
                    row = []
                    for l, u, p_, q_ in zip(lb, ub, plb, pub):
                        lo_i, hi_i = math.ceil(max(l, -1e6)), math.floor(min(u, 1e6))
                        if lo_i > hi_i:
                            row = None
                            break
                        c_i = min(max(int(round(p_ + (q_ - p_) * (0.2 + 0.3 * j))), lo_i), hi_i)
                        row.append(c_i)
                    if row is not None:
                        rows.append(row)
                if rows:
                    stats["grid_units_sets"] = stats.get("grid_units_sets", 0) + 1
                    Xi = np.array(rows, dtype=np.int64)
                    ref = np.vstack([np.atleast_2d(vt(np.array([r], dtype=float))) for r in rows])
                    for name, got in (("an (N, D) integer array", grid_units(Xi.copy(), vt)), ("a (1, D) integer array", grid_units(Xi[:1].copy(), vt)),
                                      ("an (N, D) float array", grid_units(Xi.astype(float), vt))):
                        want = ref[: len(np.atleast_2d(got))]
                        if not np.array_equal(np.atleast_2d(np.asarray(got, dtype=float)), want, equal_nan=True):
                            rep.violation("point_dtype_irrelevant", "grid_functions.py:grid_units", f"points {rows[:len(want)]} given as {name} map to {np.asarray(got).tolist()} "
                                          f"instead of {want.tolist()} (bounds lb={lb} ub={ub} plb={plb} pub={pub})", case)
                            break
            if (only is not None or si % 4 == 1) and all(math.isfinite(p_) and math.isfinite(q_) for p_, q_ in zip(plb, pub)):
                # the same rule through the optimizer's constructor: options['nonlinear_scaling'] in any truthy / falsy spelling switches the
                # log rule on / off for the transform BADS builds
                from pybads import BADS
                spelled = rng.choice([("True", True), ("1", True), ("np.True_", True), ("np.int64(1)", True), ("False", False), ("0", False), ("np.False_", False)])
                if only is not None and only[si].get("nonlinear_spelling"):
                    sp_ = only[si]["nonlinear_spelling"]
                    spelled = (sp_, bool(eval(sp_, {"np": np})))
                x0b = np.array([[p_ + (q_ - p_) * 0.37 for p_, q_ in zip(plb, pub)]])
                try:
                    bb_ = BADS(lambda x: 0.0, x0b, np.array([lb]), np.array([ub]), np.array([plb]), np.array([pub]),
                               options={"display": "off", "nonlinear_scaling": eval(spelled[0], {"np": np})})
                    got = [bool(v) for v in np.asarray(bb_.var_transf.apply_log_t).reshape(-1)]
                    want = [bool(spelled[1] and l > 0 and u > 0 and p_ > 0 and q_ > 0 and q_ / p_ >= 10) for l, u, p_, q_ in zip(lb, ub, plb, pub)]
                    stats["bads_level_sets"] = stats.get("bads_level_sets", 0) + 1
                    if got != want:
                        rep.violation("log_rule", "bads.py:_init_optim_state_ / " + SITE, f"BADS(..., options={{'nonlinear_scaling': {spelled[0]}}}) log-transforms coordinates {got}, "
                                      f"the rule gives {want} (lb={lb} ub={ub} plb={plb} pub={pub})", dict(case, nonlinear_spelling=spelled[0]))
                        continue
                except ValueError:
                    pass          # a definition BADS rejects for other reasons (margins, ...): C08's business
            if si % 5 == 0:
                vt2 = VariableTransformer(D, arrs[0], arrs[1], arrs[2], arrs[3], flag)
                if not (np.array_equal(vt2.lb, vt.lb) and np.array_equal(vt2.ub, vt.ub) and np.array_equal(vt2.apply_log_t, vt.apply_log_t)):
                    rep.violation("bound_set_untouched", SITE + ".__init__", f"a second transformer built from the same bound arrays differs from the first: lb={lb} ub={ub} plb={plb} pub={pub}", case)
                    continue
        except ValueError as ex:
            stats["rejected_sets"] += 1
            rep.violation("valid_bounds_accepted", SITE, f"valid bound set rejected: {str(ex)[:80]}; lb={lb} ub={ub} plb={plb} pub={pub}", case)
            continue
        stats["sets"] += 1
        # points: per coordinate a sorted list; evaluated jointly as rows (k-th point of every coordinate)
        pts = [points_for(rng, lb[i], ub[i], plb[i], pub[i]) for i in range(D)]
        n = min(len(p) for p in pts)
        pts = [sorted(rng.sample(p, n)) for p in pts]
        X = np.array(pts).T                                   # n x D, each column sorted ascending
        with np.errstate(all="ignore"):
            U = vt(X.copy())
            Xb = vt.inverse_transf(U.copy())
            Yin = np.array([[rng.uniform(-3, 3) for _ in range(D)] for _ in range(6)] + [list(np.ravel(vt.lb)), list(np.ravel(vt.ub)), [-1.0] * D, [1.0] * D])
            Yin = np.where(np.isfinite(Yin), Yin, 0.0)
            Yin = np.sort(Yin, axis=0)
            W = vt.ginv(Yin.copy())
            Xi = vt.inverse_transf(Yin.copy())
        for i in range(D):
            stats["coords"] += 1
            isl = bool(np.ravel(vt.apply_log_t)[i])
            stats["log_coords"] += isl
            stats["infinite_bounds"] += not math.isfinite(lb[i])
            l, u, p, q = lb[i], ub[i], plb[i], pub[i]
            ccase = dict(case, coord=i)
            width = (u - l) if math.isfinite(u - l) else (q - p)
            # ---- the property's clauses on the implementation's outputs ------------------------------------
            lbT, ubT = float(np.ravel(vt.lb)[i]), float(np.ravel(vt.ub)[i])
            if not np.all((U[:, i] >= lbT) & (U[:, i] <= ubT)):      # NaN (image or bound) fails too
                rep.violation("forward_range", SITE + ".__call__", f"coordinate {i}: forward map output outside the internal box [{lbT},{ubT}]: {U[:, i].tolist()}", ccase)
            if not (np.all((Xi[:, i] >= l) & (Xi[:, i] <= u)) and np.all((Xb[:, i] >= l) & (Xb[:, i] <= u))):
                rep.violation("inverse_range", SITE + ".inverse_transf", f"coordinate {i}: inverse map output outside the hard bounds [{l},{u}]", ccase)
            if not np.all(np.diff(U[:, i]) >= 0):
                rep.violation("forward_monotone", SITE + ".__call__", f"coordinate {i}: forward map reverses the order of two points: x={X[:, i].tolist()} u={U[:, i].tolist()}", ccase)
            if not np.all(np.diff(Xi[:, i]) >= 0):
                rep.violation("inverse_monotone", SITE + ".inverse_transf", f"coordinate {i}: inverse map reverses the order of two points", ccase)
            pl_t, pu_t = float(np.ravel(vt.plb)[i]), float(np.ravel(vt.pub)[i])
            if not (abs(pl_t + 1) <= 1e-9) or not (abs(pu_t - 1) <= 1e-9):
                rep.violation("plausible_to_unit", SITE, f"coordinate {i}: plausible bounds map to ({pl_t},{pu_t}) instead of (-1,+1)", ccase)
            inside = (X[:, i] >= l) & (X[:, i] <= u)
            stats["outside_points"] += int(np.sum(~inside))
            if np.any(inside):
                if math.isfinite(u - l):
                    err = float(np.max(np.abs(Xb[inside, i] - X[inside, i]))) / width
                else:   # infinite box: relative to the plausible width or the point's own magnitude, whichever is larger
                    err = float(np.max(np.abs(Xb[inside, i] - X[inside, i]) / np.maximum(width, np.abs(X[inside, i]))))
                stats["max_roundtrip_rel_width"] = max(stats["max_roundtrip_rel_width"], err)
                if err > 1e-9:
                    rep.violation("roundtrip", SITE, f"coordinate {i}: round-trip error {err:.3e} of the box width exceeds 1e-9 (lb={l}, ub={u})", ccase)
            want_log = nonlinear and all(v > 0 for v in (l, u, p, q)) and (q / p >= 10)
            if want_log != isl:
                rep.violation("log_rule", SITE, f"coordinate {i}: log-transform flag {isl} but all-positive={all(v > 0 for v in (l, u, p, q))}, pub/plb={q / p!r}, nonlinear={nonlinear}", ccase)
            if abs(q / p - 10) < 1e-3:
                stats["decade_edge"] += 1
            # ---- model request ---------------------------------------------------------------------------------
            vl = lambda v: {"v": enc(v), "l": lg(v)}
            xs = []
            for x in X[:, i]:
                ax = abs(float(x)) + (1.0 if x == 0 else 0.0)
                xs.append({"v": enc(float(x)), "l": enc(math.log(ax))})
            ys = [{"y": enc(float(Yin[k, i])), "w": enc(float(W[k, i]))} for k in range(len(Yin)) if math.isfinite(float(W[k, i]))]
            reqs.append({"cmd": "tr.coord", "nonlinear": nonlinear, "lb": vl(l), "ub": vl(u), "plb": vl(p), "pub": vl(q), "xs": xs, "ys": ys})
            owners.append((ccase, isl, lbT, ubT, U[:, i].copy(), [float(Xi[k, i]) for k in range(len(Yin)) if math.isfinite(float(W[k, i]))],
                           [float(W[k, i]) for k in range(len(Yin)) if math.isfinite(float(W[k, i]))], float(np.ravel(vt.orig_lb)[i])))
            stats["points"] += len(xs) + len(ys)
    res = ctx.driver.call_many(reqs)
    from fractions import Fraction
    def close(a, b, tol=1e-9):
        return abs(a - b) <= tol * max(1.0, abs(a), abs(b))
    for (ccase, isl, lbT, ubT, Ucol, Xi, Ws, _), m in zip(owners, res):
        i = ccase["coord"]
        if m["isLog"] != isl:
            rep.disagree("Tr.applyLog ~ apply_log_t", f"coordinate {i}: model {m['isLog']} impl {isl}; {ccase['plb'][i]}..{ccase['pub'][i]}", ccase)
            continue
        for name, mv, iv in (("lbT", m["lbT"], lbT), ("ubT", m["ubT"], ubT)):
            mvf = float(Fraction(mv)) if mv not in ("inf", "-inf", "nan") else float(mv)
            if not (mvf == iv or close(mvf, iv)):
                rep.disagree("Tr.lbT/ubT ~ internal bounds", f"coordinate {i}: {name} model {mvf} impl {iv}", ccase)
        for k, (mc, ic) in enumerate(zip(m["calls"], Ucol)):
            if not close(float(Fraction(mc)), float(ic)):
                rep.disagree("Tr.call ~ __call__", f"coordinate {i} point {k}: model {float(Fraction(mc))} impl {float(ic)}", ccase)
                break
        for k, (mi, ii, w) in enumerate(zip(m["invs"], Xi, Ws)):
            if Fraction(mi["inv"]) != Fraction(ii):
                rep.disagree("Tr.inverse ~ inverse_transf (clamp of ginv)", f"coordinate {i} point {k}: model {float(Fraction(mi['inv']))} impl {ii}", ccase)
                break
            s = float(Fraction(mi["s"]))
            scale = max(1.0, abs(float(Fraction(m["mu"]))), abs(float(Fraction(m["gamma"]))))
            if isl and not (w > 0):
                continue
            s_impl = math.log(w) if isl else w
            if math.isfinite(s_impl) and abs(s - s_impl) > 1e-9 * scale:
                rep.disagree("Tr.ginvAff ~ ginv", f"coordinate {i} point {k}: model affine part {s} impl (in the scale's own space) {s_impl}", ccase)
                break
    return stats


def run(ctx):
    rep = Report()
    stats = check(ctx, rep, 250 if ctx.quick else 4000)
    rep.coverage = {
        "evaluations": stats["points"], "distinct_nontrivial": stats["outside_points"] + stats["log_coords"] + stats["decade_edge"],
        "rule": "random valid bound sets (D<=6; linear, log-scale 1e-12..1e12, decade-edge pub/plb within 3e-16 of 10, infinite, tight, negative) and per coordinate the bounds, plausible bounds, interior points and points "
                "just/far outside; one evaluation = one point through __call__ or inverse_transf compared with Tr.call / Tr.inverse; clauses (ranges, monotone, +-1, round trip < 1e-9 width, log rule) on the implementation's outputs; "
                "non-trivial = points outside the box + log-transformed coordinates + decade-edge coordinates",
        "samples": [{"see": "harness/props/c11.py gen_bounds/points_for"}], "stats": stats,
        "measured_max_roundtrip_error_rel_box_width": stats["max_roundtrip_rel_width"],
    }
    rep.assumptions = ["round-trip error is measured in floating point, not proved (the theorems are exact-arithmetic)", "log/exp are applied by numpy on the harness side; the model does the affine part, the clamps and the decision rule"]
    return rep


def replay(ctx, data):
    rep = Report()
    c = data.get("case") or {}
    if c.get("kind") == "bounds" and all(k in c for k in ("lb", "ub", "plb", "pub")):
        check(ctx, rep, 1, only=[c])
    else:
        check(ctx, rep, 250)
    return rep


def widen(ctx, rep0):
    rep = Report()
    sub = type(ctx)(ctx.pid, "thorough", ctx.seed + 9)
    check(sub, rep, 1500)
    return rep
