"""C05 - noisy targets: final selection and estimate replayed through Noisy.finalChoice / yvalVec / meanOf;
the property's clauses evaluated on the run's own call log."""
from ..core import Report
from . import runlevel

PID = "C05"


def run(ctx):
    rep = Report()
    stats, samples = runlevel.noisy_replay(ctx, rep, ctx.pid)
    rep.coverage = {
        "evaluations": stats["iterations"] + stats["final_selects"], "distinct_nontrivial": stats["moves"] + stats["reevals"] + stats["final_selects"],
        "rule": "one evaluation = one loop iteration (or final selection) of a traced run replayed through Noisy.iterStep / finalChoice with the run's oracle values (evaluated points, logged values, GP estimates, "
                "re-estimated history, quantile values, fresh samples); compared: (u, u_best, yval, fval, fsd) after every iteration, final u, yval_vec, mean, SEM; non-trivial = incumbent moves + re-estimations + final selections",
        "samples": samples, "traces_validated_against_impl": stats["runs"], "stats": stats,
    }
    rep.assumptions = ["runs with non-finite GP estimates are skipped in the model replay (counted) but their result clauses are still evaluated"]
    return rep


def replay(ctx, data):
    rep = Report()
    from .. import tracer
    ctx._pool = [tracer.run_traced(data["case"]["spec"])]
    runlevel.noisy_replay(ctx, rep, ctx.pid)
    return rep


def widen(ctx, rep0):
    rep = Report()
    from .. import tracer, gen
    rng = ctx.sub_rng("c05w")
    specs = []
    for _ in range(64):
        sp = gen.make_spec(rng, mode=rng.choice(["auto", "decl", "he"]), cons="rand")
        sp["options"] = gen.small_options(rng, sp["D"], sp["mode"])
        specs.append(sp)
    sub = type(ctx)(ctx.pid, "quick", ctx.seed)
    sub._pool = tracer.run_many([(sp, {}) for sp in specs])
    runlevel.noisy_replay(sub, rep, ctx.pid)
    return rep
