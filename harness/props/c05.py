"""C05 - noisy targets: final selection and estimate replayed through Noisy.finalChoice / yvalVec / meanOf;
the property's clauses evaluated on the run's own call log."""
from ..core import Report
from . import runlevel

PID = "C05"

# case kinds of corpus/ entries (failing inputs of past regressions) that this module replays on every run
CORPUS_KINDS = ('noisy_run',)



def single_sample_specs(ctx):
    """Noisy runs with noise_final_samples = 1 (the estimate is supplemented by the earlier observation at the returned x) and 0."""
    from .. import gen
    rng = ctx.sub_rng("c05nfs1")
    specs = []
    for i in range(12 if ctx.quick else 80):
        sp = gen.make_spec(rng, D=rng.choice([1, 2, 2, 3]), mode=rng.choice(["auto", "decl", "he"]), geom=rng.choice(["box", "tight", "logbox"]), cons=None, opt_loc="inside",
                           target=rng.choice(["quad", "abs"]))
        sp["options"] = {"n_search": 32, "max_fun_evals": rng.choice([80, 110, 150]), "noise_final_samples": 1 if i % 4 else 0}
        specs.append(sp)
    # noise that is tiny relative to the function value (e.g. a log-likelihood around 5e4): still far above tol_noise
    for _ in range(3 if ctx.quick else 20):
        sp = gen.make_spec(rng, D=rng.choice([1, 2]), mode="auto", geom="box", cons=None, opt_loc="inside", target="quad")
        sp["yoffset"] = rng.choice([5e4, 1e3, -2e5])
        sp["noise"] = rng.choice([0.05, 1e-3])
        sp["options"] = {"n_search": 32, "max_fun_evals": 70, "noise_final_samples": 3}
        specs.append(sp)
    # budgets that leave fewer evaluations than noise_final_samples after the initial design (the number of final samples is capped)
    for _ in range(5 if ctx.quick else 30):
        mode = rng.choice(["auto", "decl", "he"])
        sp = gen.make_spec(rng, D=rng.choice([1, 2, 3]), mode=mode, geom=rng.choice(["box", "tight"]), cons=None, opt_loc="inside", target="quad")
        nfs = rng.choice([None, 10, 5, 3, 50])
        left = rng.randint(1, (nfs or 10) - 1) + rng.choice([0, 0, 6])
        sp["options"] = {"n_search": 32, "max_fun_evals": (34 if mode == "auto" else 33) + left}
        if nfs is not None:
            sp["options"]["noise_final_samples"] = nfs
        specs.append(sp)
    # a noisy target with uncertainty_handling explicitly False (not merely unset): the start-up test still decides
    for _ in range(3 if ctx.quick else 12):
        sp = gen.make_spec(rng, D=rng.choice([1, 2]), mode="auto", geom="box", cons=None, opt_loc="inside", target="quad")
        sp["options"] = {"n_search": 32, "max_fun_evals": 70, "noise_final_samples": rng.choice([1, 3, 5]), "uncertainty_handling": False}
        specs.append(sp)
    # deterministic targets with a large value: identical repeats, must stay deterministic
    for _ in range(2 if ctx.quick else 8):
        sp = gen.make_spec(rng, D=rng.choice([1, 2]), mode="det", geom="box", cons=None, opt_loc="inside", target="quad")
        sp["yoffset"] = rng.choice([5e4, -2e5])
        sp["options"] = {"n_search": 32, "max_fun_evals": 30}
        specs.append(sp)
    return specs


def run(ctx):
    rep = Report()
    if ctx.pid == "C05":
        runlevel.with_extra(ctx, "c05nfs1", lambda: single_sample_specs(ctx))
    stats, samples = runlevel.noisy_replay(ctx, rep, ctx.pid)
    # ONE WHOLE CALL of optimize() (Opt.init + Full.step + Opt.finish): noise detection, number and place of the final samples, yval_vec
    wstats = runlevel.whole_replay(ctx, rep, modes=("auto", "decl", "he", "det")) if ctx.pid == "C05" else None
    rep.coverage = {
        "whole_run_model": wstats,
        "evaluations": stats["iterations"] + stats["final_selects"], "distinct_nontrivial": stats["moves"] + stats["reevals"] + stats["final_selects"],
        "rule": "one evaluation = one loop iteration (or final selection) of a traced run replayed through Noisy.iterStep / finalChoice with the run's oracle values (evaluated points, logged values, GP estimates, "
                "re-estimated history, quantile values, fresh samples); compared: (u, u_best, yval, fval, fsd) after every iteration, final u, yval_vec, mean, SEM; non-trivial = incumbent moves + re-estimations + final selections",
        "samples": samples, "traces_validated_against_impl": stats["runs"], "stats": stats,
    }
    rep.assumptions = ["runs with non-finite GP estimates are skipped in the model replay (counted) but their result clauses are still evaluated"]
    return rep


def replay(ctx, data):
    rep = Report()
    from .. import tracer
    ctx._pool = [tracer.run_traced(data["case"]["spec"])]
    runlevel.noisy_replay(ctx, rep, ctx.pid)
    return rep


def widen(ctx, rep0):
    rep = Report()
    from .. import tracer, gen
    rng = ctx.sub_rng("c05w")
    specs = []
    # the runs on which the incumbent/history model and the code disagree, cut short right after the disagreeing iteration (same seed, same
    # trajectory up to there) and finished with a single final sample: if what the code holds for its incumbent at that moment is not an
    # observation at that point, the truncated run's yval_vec shows it
    import json
    for d in rep0.disagreements[:4]:
        c = d.get("case") or {}
        if "spec" not in c or "iter_hint" not in c:
            continue
        for extra in range(0, 4):
            sp = json.loads(json.dumps(c["spec"]))
            sp["options"] = dict(sp.get("options", {}), max_iter=max(1, c["iter_hint"] + extra), noise_final_samples=1)
            specs.append(sp)
        for extra in range(0, 8):
            sp = json.loads(json.dumps(c["spec"]))
            sp["options"] = dict(sp.get("options", {}), max_fun_evals=max(3, c.get("calls_hint", 0) + 1 + extra), noise_final_samples=1)
            specs.append(sp)
        # the same problem with a single final sample under other seeds
        for j in range(12):
            sp = json.loads(json.dumps(c["spec"]))
            sp["seed"] = (sp.get("seed") or 0) + 1 + j
            sp["options"] = dict(sp.get("options", {}), noise_final_samples=1)
            specs.append(sp)
    # long, very noisy runs with a single final sample: the incumbent is often moved back to an earlier iterate after a re-estimation
    for j in range(48):
        sp = gen.make_spec(rng, D=2, mode=rng.choice(["auto", "decl", "he"]), geom="box", cons=None, opt_loc="inside", target="quad")
        sp["noise"] = rng.choice([1.0, 3.0])
        sp["options"] = {"max_fun_evals": rng.choice([150, 200]), "noise_final_samples": 1}
        specs.append(sp)
    for _ in range(64):
        sp = gen.make_spec(rng, mode=rng.choice(["auto", "decl", "he"]), cons="rand")
        sp["options"] = gen.small_options(rng, sp["D"], sp["mode"])
        specs.append(sp)
    sub = type(ctx)(ctx.pid, "quick", ctx.seed)
    sub._pool = tracer.run_many([(sp, {}) for sp in specs])
    runlevel.noisy_replay(sub, rep, ctx.pid)
    return rep
