"""Problem / option / target generators.  Every random choice derives from one PRNG
(random.Random seeded from VERIF_SEED) so that a disagreement replays exactly.  A problem is a
plain JSON-able dict ("spec"); `build(spec)` turns it into the arguments of BADS(...)."""
import math
import numpy as np

GEOMS = ["box", "tight", "logbox", "mixedlog", "unbounded", "x0_on_bound", "x0_absent", "mixed_unbounded"]
TARGETS = ["quad", "abs", "plateau", "ties"]
MODES = ["det", "auto", "decl", "he"]
CONS = [None, "ball", "halfspace", "slab", "ring", "nanregion"]   # "sliver": forced rare path (almost every ES candidate infeasible)


def make_spec(rng, D=None, geom=None, target=None, mode=None, cons=None, opt_loc=None, options=None, seed=None):
    D = D or rng.choice([1, 2, 2, 3, 3, 4, 5])
    geom = geom or rng.choice(GEOMS)
    target = target or rng.choice(TARGETS)
    mode = mode or rng.choice(MODES)
    if cons == "rand":
        cons = rng.choice(CONS)
    opt_loc = opt_loc or rng.choice(["inside", "inside", "on_bound", "outside"])
    spec = {"D": D, "geom": geom, "target": target, "mode": mode, "cons": cons, "opt_loc": opt_loc,
            "seed": seed if seed is not None else rng.randint(0, 10 ** 6),
            "noise": rng.choice([0.05, 0.3, 1.0]) if mode != "det" else 0.0,
            "c_unit": [round(rng.uniform(-0.8, 0.8), 3) for _ in range(D)],
            "x0_unit": [round(rng.uniform(-0.9, 0.9), 3) for _ in range(D)],
            "w": [rng.choice([1.0, 1.0, 4.0, 0.25]) for _ in range(D)],
            "options": dict(options or {})}
    if cons:
        # some constraint functions report violations as tiny positive numbers (any value > 0 is a violation)
        spec["cons_scale"] = rng.choice([1.0, 1.0, 1.0, 1e-9, 1e-12])
    if mode == "he":
        # reported SDs that differ from call to call at the same point (e.g. the standard error of a Monte-Carlo batch)
        spec["sd_jitter"] = rng.random() < 0.6
    return spec


def geometry(spec):
    """Original-space bounds and start point for a spec."""
    D, g = spec["D"], spec["geom"]
    inf = math.inf
    if g in ("box", "x0_on_bound", "x0_absent", "x0_near_bound"):
        lb, ub, plb, pub = [-4.0] * D, [6.0] * D, [-2.0] * D, [3.0] * D
    elif g == "tight":
        lb, ub = [-3.0] * D, [5.0] * D
        plb, pub = list(lb), list(ub)
    elif g == "logbox":
        lb, ub, plb, pub = [0.001] * D, [10.0] * D, [0.05] * D, [5.0] * D
    elif g == "mixedlog":
        lb = [0.001 if i % 2 == 0 else -4.0 for i in range(D)]
        ub = [10.0 if i % 2 == 0 else 6.0 for i in range(D)]
        plb = [0.05 if i % 2 == 0 else -2.0 for i in range(D)]
        pub = [5.0 if i % 2 == 0 else 3.0 for i in range(D)]
    elif g == "logdec":
        # power-of-ten log boxes (spec["decades"][i] = exponents of lb, plb, pub, ub): the images of the bounds sit exactly on the mesh
        dec = spec.get("decades") or [[-2, -1, 0, 1]] * D
        lb = [10.0 ** d[0] for d in dec]; plb = [10.0 ** d[1] for d in dec]; pub = [10.0 ** d[2] for d in dec]; ub = [10.0 ** d[3] for d in dec]
    elif g == "log_unbounded":
        # a log-transformed variable next to a fully unbounded one in the same problem
        lb = [0.001 if i % 2 == 0 else -inf for i in range(D)]
        ub = [10.0 if i % 2 == 0 else inf for i in range(D)]
        plb = [0.05 if i % 2 == 0 else -2.0 for i in range(D)]
        pub = [5.0 if i % 2 == 0 else 3.0 for i in range(D)]
    elif g == "decimal":
        # decimal hard bounds that are not representable in single precision, their internal images (+-2) on the mesh
        lb, ub, plb, pub = [-0.2] * D, [0.2] * D, [-0.1] * D, [0.1] * D
    elif g == "farbasin":
        # hard bounds far wider than the plausible box; optimum (spec["c_abs"]) and start far outside the plausible box, narrow basin
        lb, ub, plb, pub = [-1e5] * D, [1e5] * D, [-1.0] * D, [1.0] * D
    elif g == "unbounded":
        lb, ub, plb, pub = [-inf] * D, [inf] * D, [-2.0] * D, [3.0] * D
    elif g == "mixed_unbounded":
        lb = [-inf if i % 2 == 1 else -4.0 for i in range(D)]
        ub = [inf if i % 2 == 1 else 6.0 for i in range(D)]
        plb, pub = [-2.0] * D, [3.0] * D
    else:
        raise ValueError(g)

    def from_unit(t, i):
        # map t in [-1,1] to the plausible box (log-uniformly when the coordinate is log-transformed)
        if plb[i] > 0 and pub[i] / plb[i] >= 10 and lb[i] > 0:
            a, b = math.log(plb[i]), math.log(pub[i])
            return math.exp(a + (t + 1) / 2 * (b - a))
        return plb[i] + (t + 1) / 2 * (pub[i] - plb[i])

    x0 = [from_unit(spec["x0_unit"][i], i) for i in range(D)]
    if g == "x0_on_bound":
        x0[0] = lb[0]
        if D > 1:
            x0[-1] = ub[-1]
    if g in ("x0_near_bound", "logdec") and spec.get("x0_near"):
        # start points between the plausible box and a hard bound, a given fraction of the hard range away from it (per coordinate:
        # +f = below the upper bound, -f = above the lower bound, 0 = leave)
        for i, f in enumerate(spec["x0_near"][:D]):
            if f > 0:
                x0[i] = ub[i] - f * (ub[i] - lb[i])
            elif f < 0:
                x0[i] = lb[i] - f * (ub[i] - lb[i])
    c = [from_unit(spec["c_unit"][i], i) for i in range(D)]
    if spec["opt_loc"] == "on_bound":
        for i in range(D):
            if math.isfinite(ub[i]) and i % 2 == 0:
                c[i] = ub[i]
            elif math.isfinite(lb[i]):
                c[i] = lb[i]
    elif spec["opt_loc"] == "outside":
        for i in range(D):
            if math.isfinite(ub[i]):
                c[i] = ub[i] + (ub[i] - lb[i]) * 0.3 if i % 2 == 0 else lb[i] - (ub[i] - lb[i]) * 0.3
    if g == "farbasin":
        c = [float(v) for v in spec["c_abs"][:D]]
        x0 = [float(round(v)) for v in c]
    if g == "x0_absent":
        x0 = None
    return x0, lb, ub, plb, pub, c


def is_log_coord(lb, ub, plb, pub, i):
    return lb[i] > 0 and ub[i] > 0 and plb[i] > 0 and pub[i] > 0 and pub[i] / plb[i] >= 10


def build(spec, fault=None):
    """Return (fun, x0, lb, ub, plb, pub, cons_fn, options, aux).

    `fault`: optional dict {k: kind} - the target misbehaves at its k-th call (0-based)."""
    D = spec["D"]
    x0, lb, ub, plb, pub, c = geometry(spec)
    c_arr = np.array(c)
    w = np.array(spec["w"])
    logc = [is_log_coord(lb, ub, plb, pub, i) for i in range(D)]
    scale = np.array([(math.log(pub[i]) - math.log(plb[i])) if logc[i] else (pub[i] - plb[i]) for i in range(D)])
    mode, noise, kind = spec["mode"], spec["noise"], spec["target"]
    calls = {"n": 0, "xs": [], "ys": [], "rets": {}}       # rets: call index -> (value, sd) exactly as the target returned them

    def z_of(x):
        x = np.asarray(x, dtype=float).ravel()
        z = np.empty(D)
        for i in range(D):
            if logc[i]:
                z[i] = (math.log(max(x[i], 1e-300)) - math.log(max(c_arr[i], 1e-300))) / scale[i]
            else:
                z[i] = (x[i] - c_arr[i]) / scale[i]
        return z

    def clean(x):
        z = z_of(x) * 4
        if kind == "quad":
            return float(np.sum(w * z ** 2))
        if kind == "abs":
            return float(np.sum(w * np.abs(z)))
        if kind == "plateau":
            return float(np.sum(np.floor(np.abs(z) * 2.0)))
        if kind == "ties":
            return float(np.sum(np.round(z) ** 2))
        if kind == "cauchy":     # heavy-tailed narrow basin: sum log1p(((x - c) / width)^2), widths in original units (spec["w_abs"])
            return float(np.sum(np.log1p((z / 4 * scale / np.array(spec["w_abs"][:D])) ** 2)))
        raise ValueError(kind)

    def fun(x):
        k = calls["n"]
        calls["n"] += 1
        calls["xs"].append(np.array(x, dtype=float).ravel().copy())
        if fault is not None and k in fault:
            return _faulty(fault[k], mode, x)
        ys = spec.get("yscale", 1.0)
        y = ys * clean(x) + spec.get("yoffset", 0.0)
        if mode != "det":
            y = y + ys * noise * float(np.random.randn())
        calls["ys"].append(y)
        if mode == "he":
            sd = ys * noise * (1.0 + 0.5 * abs(math.sin(float(np.sum(x)))))
            if spec.get("sd_jitter"):
                sd *= 1.0 + 0.4 * ((k * 0.6180339887) % 1.0)      # deterministic in the call index, no draw from numpy's generator
            calls["rets"][k] = (y, sd)
            return y, sd
        if spec.get("ydtype"):
            # the value as a NumPy scalar of another real type (integer-valued targets: counts, discrete losses); the value itself is unchanged
            dt = getattr(np, spec["ydtype"])
            if np.issubdtype(dt, np.integer):
                info = np.iinfo(dt)
                y = min(max(y, info.min), info.max)          # a saturating cost table
            y = dt(y)
        calls["rets"][k] = (y, None)
        return y

    cons_fn = None
    ck = spec.get("cons")
    if ck:
        r = {"ball": 2.5, "halfspace": 0.4, "slab": 0.35, "ring": 3.0, "sliver": 0.04, "tinyball": 1e-4, "lattice": 0.5, "nanregion": 1.0, "openface": 0.0}[ck]
        if x0 is not None:
            x0z = z_of(x0) * 4
        else:
            # no start point given: centre the constraint on the plausible box's centre and make the
            # ball/half-space/slab wide enough to contain the whole plausible box (any drawn x0 is feasible)
            mid = [math.sqrt(plb[i] * pub[i]) if logc[i] else 0.5 * (plb[i] + pub[i]) for i in range(D)]
            x0z = z_of(mid) * 4
            r = {"ball": 2.2 * math.sqrt(D), "halfspace": 2.1 * D, "slab": 2.1, "ring": 3.0, "sliver": 2.1, "tinyball": 2.2 * math.sqrt(D), "lattice": 0.5, "nanregion": 2.5, "openface": 0.0}[ck]

        def cons_fn(X):
            X = np.atleast_2d(np.asarray(X, dtype=float))
            out = np.empty(len(X))
            for j in range(len(X)):
                z = z_of(X[j]) * 4
                if ck in ("ball", "tinyball"):      # feasible: within radius r of the start point (in scaled units)
                    out[j] = float(np.sum((z - x0z) ** 2)) - r ** 2
                elif ck == "lattice":   # feasible only near a coarse lattice through the start point: coarse poll points
                    # (mesh >= 1/8 of the plausible box) are feasible, fine-grid ES candidates almost never are
                    d = (z - x0z) / r
                    out[j] = float(np.max(np.abs(d - np.round(d)))) * r - 0.004
                elif ck == "nanregion":   # a float-valued constraint that is NaN on part of the box (square root of a negative number there)
                    s_ = float(z[0] - x0z[0]) + r
                    out[j] = abs(float(z[-1] - x0z[-1])) - (0.6 * r + (math.sqrt(s_) if s_ >= 0 else float("nan")))
                elif ck == "openface":      # the face x_0 = ub_0 of the (closed) box is excluded: feasible iff x_0 < ub_0
                    out[j] = 1.0 if X[j][0] >= ub[0] else -1.0
                elif ck == "halfspace":
                    out[j] = float(np.sum(z - x0z)) - r
                elif ck in ("slab", "sliver"):    # thin slab around the start point along the first coordinate
                    out[j] = abs(float(z[0] - x0z[0])) - r
                else:                  # non-convex ring: infeasible inside a small hole away from the start
                    out[j] = 0.3 ** 2 - float(np.sum((z - x0z - 0.8) ** 2))
            return out * spec.get("cons_scale", 1.0)

    opts = {"display": "off", "random_seed": spec["seed"]}
    if mode in ("decl", "he"):
        opts["uncertainty_handling"] = True
    if mode == "he":
        opts["specify_target_noise"] = True
    opts.update(spec.get("options", {}))
    # alternative spellings of option values (JSON cannot carry NumPy scalars): {"option": "np.bool_(False)" | "np.int64(3)" | ...}
    for k, v in (spec.get("np_options") or {}).items():
        opts[k] = eval(v, {"np": np})
    arr = lambda v: None if v is None else np.array(v, dtype=float)
    x0a = arr(x0)
    if x0a is not None and spec.get("x0_dtype"):
        x0a = x0a.astype(getattr(np, spec["x0_dtype"]))      # a start point held in another floating type (data loaded as float32, ...)
    return fun, x0a, arr(lb), arr(ub), arr(plb), arr(pub), cons_fn, opts, {"calls": calls, "clean": clean, "c": c}


class InjectedFault(Exception):
    pass


def _faulty(kind, mode, x):
    he = mode == "he"
    def wrap(v, sd=0.5):
        return (v, sd) if he else v
    if kind == "raise":
        raise InjectedFault("injected target failure")
    if kind == "raise_noargs":
        raise InjectedFault
    if kind == "raise_assert":
        assert False
    if kind == "raise_keyerror":
        raise KeyError("missing-key")
    if kind == "raise_stopiteration":       # e.g. next() on an exhausted data iterator inside the target
        raise StopIteration
    if kind == "raise_generatorexit":
        raise RuntimeError("generator raised StopIteration")
    if kind == "nan":
        return wrap(float("nan"))
    if kind == "posinf":
        return wrap(float("inf"))
    if kind == "neginf":
        return wrap(float("-inf"))
    if kind == "complex":
        return wrap(complex(1.0, 2.0))
    if kind == "vector":
        return wrap(np.array([1.0, 2.0]))
    if kind == "none":
        return wrap(None)
    # the invalid value inside a one-element container (a target that returns `[nll]` or `nll,`): unwrapped first, then judged like any other
    if kind == "wrapped_nan":
        return wrap([float("nan")])
    if kind == "wrapped_inf":
        return wrap((float("inf"),))
    if kind == "wrapped_complex":
        return wrap([complex(1.0, 2.0)])
    if kind == "wrapped_nan_array":
        return wrap(np.array([[float("nan")]]))
    if kind == "pair":           # a (value, SD) pair from a target whose noise is NOT user-specified: not a scalar value
        return (1.0, 0.5)
    if kind == "pair_bad_sd":
        return (1.0, float("nan"))
    if kind == "notpair":
        return 1.0
    if kind == "sdzero":
        return (1.0, 0.0)
    if kind == "sdneg":
        return (1.0, -1.0)
    if kind == "sdnan":
        return (1.0, float("nan"))
    if kind == "sdinf":
        return (1.0, float("inf"))
    raise ValueError(kind)


def small_options(rng, D, mode, quick=True):
    """Option corners that keep runs short but reach every controller branch."""
    o = {"n_search": rng.choice([32, 64, 128])}
    init = D if mode == "det" else 34   # noisy modes evaluate 1 + 32 Sobol points (+1 noise test) before the loop
    base = max(init, D) + rng.choice([8, 15, 25, 40])
    o["max_fun_evals"] = base
    r = rng.random()
    if r < 0.12:
        o["max_iter"] = rng.choice([1, 2, 4])
    elif r < 0.24:
        o["tol_mesh"] = rng.choice([1e-1, 1e-2])
        o["max_fun_evals"] = base + 40
    elif r < 0.34:
        o["complete_poll"] = True
    elif r < 0.44:
        o["accelerate_mesh"] = False
    if mode != "det" and rng.random() < 0.6:
        o["noise_final_samples"] = rng.choice([0, 1, 3, 5])
    # advanced options that the defaults never exercise (each leaves every property intact)
    if rng.random() < 0.3:
        o["cache_size"] = rng.choice([6, 15, 30])           # forces repeated growth of the evaluation log within a short run
    if rng.random() < 0.12:
        o["force_poll_mesh"] = True
    if rng.random() < 0.12:
        o["search_n_try"] = rng.choice([0, 1, 2])
    if rng.random() < 0.12:
        o["nonlinear_scaling"] = False
    if rng.random() < 0.12:
        o["gp_warnings"] = True
    if rng.random() < 0.1:
        o["search_grid_number"] = rng.choice([3, 5])
    if rng.random() < 0.1:
        o["fun_eval_start"] = rng.choice([1, 2 * D + 1, 16])
    if rng.random() < 0.12:
        o["noise_size"] = rng.choice([1e-3, 0.5, 1.0])          # basic option: global noise estimate (a scalar)
    return o


def boolean_options(skip=("specify_target_noise", "uncertainty_handling", "plot", "fit_lik")):
    """(name, default) of every boolean option in the two option files of the repository under test."""
    import os, re
    root = os.path.join(os.environ.get("VERIF_REPO", "/repo"), "pybads/bads/option_configs")
    out = []
    for fn in ("basic_bads_options.ini", "advanced_bads_options.ini"):
        for line in open(os.path.join(root, fn)):
            m = re.match(r"^(\w+)\s*=\s*(True|False)\b", line)
            if m and m.group(1) not in skip:
                out.append((m.group(1), m.group(2) == "True"))
    return out


def retyped_numeric_options(D=2):
    """{option: python-literal string} for every numeric option of the two option files whose default is a plain number: integral-valued floats
    spelled as int, ints spelled as float (the VALUE is the default, only the Python type differs).  Options that index or size arrays
    (and therefore must stay ints) are left alone."""
    import numpy as np
    from pybads import BADS
    keep_int = ("n_search", "n_search_iter", "max_fun_evals", "max_iter", "fun_eval_start", "noise_final_samples", "cache_size", "n_train_max", "n_train_min",
                "buffer_ntrain", "gp_train_n_init", "gp_train_n_init_final", "search_n_try", "tol_stall_iters", "restarts", "random_seed", "gp_samples",
                "k_warmup", "stable_gp_vpk", "warp_func", "min_iter", "min_fun_evals", "max_repeated_observations", "search_cache_frac", "gp_refit_period")
    b0 = BADS(lambda x: 0.0, np.full(D, 0.3), np.full(D, -4.0), np.full(D, 6.0), np.full(D, -2.0), np.full(D, 3.0), options={"display": "off"})
    out = {}
    for k in sorted(b0.options.keys()):
        v = b0.options[k]
        if k in keep_int or isinstance(v, (bool, np.bool_)) or v is None:
            continue
        if isinstance(v, (float, np.floating)) and np.isfinite(v) and float(v) == int(v):
            out[k] = repr(int(v))
        elif isinstance(v, (int, np.integer)):
            out[k] = repr(float(v))
    return out
