"""Known findings: committed file, never written at run time (DESIGN.md 2.7)."""
import json, os
from .proto import VERIF

PATH = os.path.join(VERIF, "known_findings.json")


def load():
    if not os.path.exists(PATH):
        return {"findings": [], "fixed": []}
    return json.load(open(PATH))


def match(findings, pid, v):
    """A violation matches a listed finding iff property, clause and site all agree
    (and, where the entry carries a 'where' dict, every key agrees with the violation's case tags)."""
    for k in findings.get("findings", []):
        if k["property"] != pid:
            continue
        if k["clause"] != v["clause"] or k["site"] != v["site"]:
            continue
        ok = True
        for path, want in (k.get("when") or {}).items():
            cur = v.get("case", {})
            for part in path.split("."):
                cur = cur.get(part) if isinstance(cur, dict) else None
            if cur != want:
                ok = False
        if ok:
            return k
    return None
