-- Scratch: controller skeleton + termination rank feasibility
namespace Ctl
structure Opts where
  nTry : Nat
  D : Nat
  budget : Nat
  maxIter : Nat
  skip : Bool

structure St where
  fc : Nat
  nRec : Nat
  sc : Nat
  ss : Nat
  pollIter : Nat
  finished : Bool
deriving Repr

inductive SOut | empty | fail (newRow : Bool) | succ (newRow : Bool)
structure Out where
  search : SOut
  pollEvals : Nat
  stallStop : Bool
  meshStop : Bool

def b2n (b : Bool) : Nat := if b then 1 else 0

def doSearch (o : Opts) (s : St) : Bool := s.sc < o.nTry && s.nRec > o.D

def afterSearch (o : Opts) (s : St) (out : Out) : St :=
  if doSearch o s then
    match out.search with
    | .empty => { s with sc := s.sc + 1 }
    | .fail nr => { s with sc := s.sc + 1, fc := s.fc + 1, nRec := s.nRec + b2n nr }
    | .succ nr => { s with sc := s.sc + 1, fc := s.fc + 1, nRec := s.nRec + b2n nr, ss := s.ss + 1 }
  else s

def step (o : Opts) (s : St) (out : Out) : St :=
  let s1 := afterSearch o s out
  let atEnd := s1.sc == 0 || s1.sc == o.nTry
  let doPoll := atEnd && !(s1.ss > 0 && o.skip)
  let s2 : St := if atEnd then { s1 with sc := 0, ss := 0 } else s1
  let e := min out.pollEvals (min (2 * o.D) (o.budget - s2.fc))
  let s3 : St := if doPoll then { s2 with fc := s2.fc + e, nRec := s2.nRec + e } else s2
  let fin := s3.fc ≥ o.budget || s3.pollIter + 1 ≥ o.maxIter || (doPoll && out.meshStop) || out.stallStop
  { s3 with finished := fin, pollIter := if !fin && doPoll then s3.pollIter + 1 else s3.pollIter }

def rank (o : Opts) (s : St) : Nat :=
  (o.nTry + 1) * ((o.maxIter - s.pollIter) + (o.budget - s.fc) + (if s.ss > 0 then 1 else 0)) + (o.nTry - s.sc)

def CInv (o : Opts) (s : St) : Prop :=
  s.sc ≤ o.nTry ∧ (0 < s.sc → s.sc < o.nTry → s.nRec > o.D) ∧ (s.ss > 0 → 0 < s.sc) 



def X (o : Opts) (s : St) : Nat := (o.maxIter - s.pollIter) + (o.budget - s.fc) + (if s.ss > 0 then 1 else 0)
def Y (o : Opts) (s : St) : Nat := o.nTry - s.sc

theorem lex_to_rank (n x x' y y' : Nat) (hy : y ≤ n)
    (h : (x' + 1 ≤ x ∧ y' ≤ n) ∨ (x' = x ∧ y' + 1 ≤ y)) :
    (n+1)*x' + y' + 1 ≤ (n+1)*x + y := by
  rcases h with ⟨h1, h2⟩ | ⟨h1, h2⟩
  · have : (n+1)*(x'+1) ≤ (n+1)*x := Nat.mul_le_mul_left _ h1
    rw [Nat.mul_add] at this; omega
  · subst h1; omega

theorem step_lex (o : Opts) (s : St) (out : Out) (hn : 1 ≤ o.nTry)
    (hinv : CInv o s) (hfc : s.fc < o.budget) (hpi : s.pollIter + 1 < o.maxIter)
    (hnf : (step o s out).finished = false) :
    (X o (step o s out) + 1 ≤ X o s ∧ Y o (step o s out) ≤ o.nTry) ∨
    (X o (step o s out) = X o s ∧ Y o (step o s out) + 1 ≤ Y o s) := by
  obtain ⟨h1, h2, h3⟩ := hinv
  simp only [step, afterSearch, doSearch, X, Y, b2n] at *
  grind
#print axioms step_lex
#print axioms lex_to_rank
end Ctl
