import Mathlib.LinearAlgebra.Matrix.Block
import Mathlib.LinearAlgebra.Matrix.Determinant.Basic

open Matrix

/-- LTMADS basis: strictly-lower-triangular `L` plus diagonal `d`, rows permuted by `σ`, then transposed. -/
def ltmads {n : Nat} (L : Fin n → Fin n → Int) (d : Fin n → Int) (σ : Equiv.Perm (Fin n)) :
    Matrix (Fin n) (Fin n) Int :=
  (Matrix.of fun i j => if j < σ i then L (σ i) j else if j = σ i then d (σ i) else 0)ᵀ

theorem ltmads_det {n : Nat} (L : Fin n → Fin n → Int) (d : Fin n → Int) (σ : Equiv.Perm (Fin n)) :
    (ltmads L d σ).det = Equiv.Perm.sign σ * ∏ i, d i := by
  unfold ltmads
  rw [Matrix.det_transpose]
  have : (Matrix.of fun i j => if j < σ i then L (σ i) j else if j = σ i then d (σ i) else 0)
       = (Matrix.of fun i j => if j < i then L i j else if j = i then d i else (0:Int)).submatrix σ id := by
    ext i j; simp [Matrix.submatrix]
  rw [this, Matrix.det_permute]
  congr 1
  rw [Matrix.det_of_lowerTriangular]
  · simp
  · intro i j hij
    simp only [Matrix.of_apply]
    have h1 : ¬ j < i := not_lt.mpr hij.le
    have h2 : ¬ j = i := fun h => by subst h; exact lt_irrefl _ hij
    simp [h1, h2]
#print axioms ltmads_det
