import Mathlib.Tactic.Linarith
import Mathlib.Data.Rat.Floor
import Mathlib.Tactic.FieldSimp

/-- numpy `round` : half to even, on rationals -/
def roundHE (x : Rat) : Int :=
  let f := x.floor
  let d := x - f
  if d < 1/2 then f
  else if d > 1/2 then f + 1
  else if f % 2 = 0 then f else f + 1

theorem roundHE_close (x : Rat) : |(roundHE x : Rat) - x| ≤ 1/2 := by
  unfold roundHE
  have h1 : ((x.floor : Int) : Rat) ≤ x := Rat.floor_le x
  have h2 : x < (x.floor : Rat) + 1 := by
    have := Rat.lt_floor_add_one x
    push_cast at this; exact this
  simp only
  split_ifs <;> rw [abs_le] <;> constructor <;> push_cast <;> linarith

def forceToGrid (h x : Rat) : Rat := h * roundHE (x / h)

theorem forceToGrid_close (h x : Rat) (hh : 0 < h) : |forceToGrid h x - x| ≤ h / 2 := by
  unfold forceToGrid
  have := roundHE_close (x / h)
  have e : h * (roundHE (x/h) : Rat) - x = h * ((roundHE (x/h) : Rat) - x / h) := by
    field_simp
  rw [e, abs_mul, abs_of_pos hh]
  calc h * |(roundHE (x/h) : Rat) - x/h| ≤ h * (1/2) := by
        apply mul_le_mul_of_nonneg_left this hh.le
    _ = h/2 := by ring
#print axioms forceToGrid_close
#eval forceToGrid (1/4) (37/100)
#eval roundHE (5/2)
#eval roundHE (7/2)
#eval roundHE (-5/2)
