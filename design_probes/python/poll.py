import os
os.environ['OMP_NUM_THREADS']='1'
import numpy as np, warnings, sys
warnings.filterwarnings('ignore')
from pybads import BADS
import pybads.bads.bads as bb
o_pm=bb.poll_mads_2n; o_p=bb.BADS._poll_step_; 
from pybads.function_logger import FunctionLogger
o_call=FunctionLogger.__call__
calls=[]; polls=[]
def pm(D,ps,sms,ms):
    B=o_pm(D,ps,sms,ms); polls[-1]['B']=B.copy(); polls[-1]['ps']=np.array(ps,copy=True); polls[-1]['ms']=ms; polls[-1]['sms']=sms; return B
def p(self,gp):
    polls.append({'u':self.u.copy(),'n0':len(calls)}); r=o_p(self,gp); polls[-1]['n1']=len(calls); return r
def call(self,x,record_duplicate_data=True):
    calls.append(np.array(x,copy=True).ravel()); return o_call(self,x,record_duplicate_data)
bb.poll_mads_2n=pm; bb.BADS._poll_step_=p; FunctionLogger.__call__=call
f=lambda x: float(np.sum((x-0.3)**2)*np.array([1,10,100])[:len(x)].sum())
D=3
b=BADS(f,np.zeros(D),np.full(D,-3.),np.full(D,3.),np.full(D,-1.),np.full(D,1.),options={'display':'off','random_seed':4,'max_fun_evals':150})
r=b.optimize()
worst=0
for P in polls:
    if 'B' not in P: continue
    Bs=P['B']*P['ps']   # unscaled
    isperm = np.allclose(np.abs(Bs[:D]).sum(0),1) and np.allclose(np.abs(Bs[:D]).sum(1),1) and np.allclose(Bs[D:],-Bs[:D])
    cand=P['u']+P['B']*P['ms']*P['ps']
    for c in calls[P['n0']:P['n1']]:
        d=np.min(np.max(np.abs(cand-c),axis=1)); worst=max(worst,d)
    print('ms',P['ms'],'sms',P['sms'],'nmax',max(1,round(P['sms']/P['ms'])),'signed-perm',isperm,'ps',np.round(P['ps'],3),'npolled',P['n1']-P['n0'])
print('max deviation of polled point from u+ms*dir:',worst)
