import numpy as np, warnings
warnings.filterwarnings('ignore')
from pybads.variable_transformer import VariableTransformer
rng=np.random.default_rng(0)
worst=0; bad=[]; n=0; nlog=0
for t in range(4000):
    D=int(rng.integers(1,5))
    lb=np.empty((1,D)); ub=np.empty((1,D)); plb=np.empty((1,D)); pub=np.empty((1,D)); explog=[]
    for i in range(D):
        k=rng.integers(0,4)
        if k==0:   # positive decade
            a=10.0**rng.uniform(-12,6); r=10.0**rng.uniform(1,6); pl=a*10**rng.uniform(0,1); pu=pl*r; l=a; u=pu*10**rng.uniform(0,1)
        elif k==1: # affine
            c=rng.uniform(-1e3,1e3); w=10.0**rng.uniform(-6,6); l=c-2*w; pl=c-w; pu=c+w; u=c+2*w
        elif k==2: # unbounded
            c=rng.uniform(-10,10); w=10.0**rng.uniform(-3,3); l=-np.inf; u=np.inf; pl=c-w; pu=c+w
        else:      # positive but < decade
            a=10.0**rng.uniform(-3,3); l=a; pl=a*1.5; pu=a*6; u=a*8
        lb[0,i],ub[0,i],plb[0,i],pub[0,i]=l,u,pl,pu
        explog.append(bool(l>0 and u>0 and pl>0 and pu>0 and pu/pl>=10))
    try: T=VariableTransformer(D,lb,ub,plb,pub)
    except Exception as e: bad.append(('ctor',type(e).__name__,str(e)[:50],lb,ub,plb,pub)); continue
    n+=1; nlog+=sum(explog)
    if list(T.apply_log_t.ravel())!=explog: bad.append(('flags',T.apply_log_t,explog))
    if not (np.allclose(T.plb,-1,atol=1e-12) and np.allclose(T.pub,1,atol=1e-12)): bad.append(('pb',T.plb,T.pub))
    fl=np.where(np.isfinite(lb),lb,plb-3*(pub-plb)); fu=np.where(np.isfinite(ub),ub,pub+3*(pub-plb))
    X=fl+rng.uniform(0,1,(20,D))*(fu-fl); X[0]=fl; X[1]=fu; X[2]=plb; X[3]=pub
    U=T(X); Xb=T.inverse_transf(U)
    width=np.where(np.isfinite(ub-lb),ub-lb,fu-fl)
    err=np.max(np.abs(Xb-X)/width); worst=max(worst,err)
    if np.any(U<T.lb) or np.any(U>T.ub) or np.any(Xb<lb) or np.any(Xb>ub): bad.append(('range',))
    # monotone
    for i in range(D):
        o=np.argsort(X[:,i]); 
        if np.any(np.diff(U[o,i])<0): bad.append(('mono',i))
    # outside
    Xo=np.vstack([fl-np.abs(fl)*1e-3-1e-9, fu+np.abs(fu)*1e-3+1e-9]); Uo=T(Xo)
    if np.any(Uo<T.lb) or np.any(Uo>T.ub) or np.any(~np.isfinite(Uo)): bad.append(('outside',Uo,T.lb,T.ub))
print('n',n,'log coords',nlog,'worst roundtrip/width',worst,'bad',len(bad)); 
for b in bad[:5]: print(b)
