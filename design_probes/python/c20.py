import numpy as np, warnings, logging, copy
warnings.filterwarnings('ignore'); logging.disable(logging.CRITICAL)
from pybads import BADS
f=lambda x: float(np.sum(x**2))
def mk(D,opts):
    return BADS(f,np.zeros(D),-np.ones(D)*3,np.ones(D)*3,-np.ones(D),np.ones(D),options=opts)
u={'tol_fun':0.5,'max_fun_evals':77,'display':'off','search_n_try':9,'hedge_gamma':0.2}
u0=copy.deepcopy(u)
a=mk(2,u); print('user wins', all(a.options[k]==v for k,v in u.items()), 'caller dict unchanged', u==u0)
print('dependent: tol_noise', a.options['tol_noise'], np.spacing(1.0)*0.5, 'hedge_beta', a.options['hedge_beta'], 1e-3/0.5)
snap={k:repr(v) for k,v in a.options.items()}
b=mk(5,{'display':'off','tol_fun':1e-6})
print('A unchanged by B', snap=={k:repr(v) for k,v in a.options.items()})
c=mk(2,{'display':'off'}); print('defaults for D=2 after D=5 instance: max_iter', c.options['max_iter'], 'n_try', c.options['search_n_try'], 'stall', c.options['tol_stall_iters'])
import pybads.bads.options as om; print('module global D now', om.D)
x0=np.zeros(2); lb=-np.ones(2)*3; ub=np.ones(2)*3; plb=-np.ones(2); pub=np.ones(2)
cp=[v.copy() for v in (x0,lb,ub,plb,pub)]
d=BADS(f,x0,lb,ub,plb,pub,options={'display':'off','random_seed':1,'max_fun_evals':30}); d.optimize()
print('caller arrays unchanged', all(np.array_equal(p,q) for p,q in zip(cp,(x0,lb,ub,plb,pub))))
# tight box where plb is lb (aliasing default)
lb2=-np.ones(2)*3; ub2=np.ones(2)*3; c2=[lb2.copy(),ub2.copy()]
e=BADS(f,np.zeros(2),lb2,ub2,options={'display':'off','random_seed':1,'max_fun_evals':30}); e.optimize()
print('caller lb/ub unchanged when plausible omitted', np.array_equal(lb2,c2[0]) and np.array_equal(ub2,c2[1]))
print('useroptions', sorted(a.options['useroptions']))
# user option mutated by run?
un={'display':'off','uncertainty_handling':True,'max_fun_evals':60,'noise_final_samples':5,'tol_stall_iters':3,'random_seed':1}
g=BADS(lambda x: f(x)+np.random.randn(),np.zeros(2),lb,ub,plb,pub,options=un); 
print('after construction', g.options['max_fun_evals'], g.options['tol_stall_iters']); g.optimize(); print('after run', g.options['max_fun_evals'], g.options['tol_stall_iters'], 'caller dict', un['max_fun_evals'])
