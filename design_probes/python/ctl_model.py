"""Scratch prototype of the Controller model (to become Lean). Replays ITER/SRCH/POLL events."""
import numpy as np, warnings, sys, itertools, multiprocessing as mp
warnings.filterwarnings('ignore')
from ctl import traced_run

def kind(msg):
    if msg is None: return None
    for k in ('max_fun_evals','max_iter','tol_mesh','tol_fun'):
        if "options['%s']"%k in msg: return k
    return '' if msg=='' else '?'

def replay(b, r, ev):
    o=b.options; D=b.D
    nTry=int(o['search_n_try']); cap=int(o['max_poll_grid_number']); budget=o['max_fun_evals']; maxIter=o['max_iter']
    sgm=int(o['search_grid_multiplier']); sgn=int(o['search_grid_number']); acc=o['accelerate_mesh']; accSteps=o['accelerate_mesh_steps']
    tolMesh=b.optim_state['tol_mesh']; tolFun=o['tol_fun']; stallIters=o['tol_stall_iters']; skip=o['skip_poll_after_search']
    errs=[]
    # group events per loop iteration
    iters=[]; cur=None
    for e in ev:
        if e[0]=='ITER': cur={'start':e[1],'srch':None,'poll':None}; iters.append(cur)
        elif e[0]=='SRCH': cur['srch']=e
        elif e[0]=='POLL': cur['poll']=e
        elif e[0]=='END': end=e[1]
    # model state
    s=dict(iters[0]['start']); s['sc']=int(s['sc']); finished=False
    for k,itr in enumerate(iters):
        obs=itr['start']
        for key in ('fc','nrec','sc','ss','spree','msi','it'):
            if s[key]!=obs[key]: errs.append((k,'start',key,s[key],obs[key]))
        s=dict(obs); s['sc']=int(s['sc'])
        # ssi at loop start (locked)
        ssi=min(0, s['msi']*sgm - sgn)
        do_search = s['sc']<nTry and s['nrec']>D
        if do_search != (itr['srch'] is not None): errs.append((k,'do_search',do_search)); 
        if itr['srch'] is not None:
            pre,post=itr['srch'][1],itr['srch'][2]
            ev_fc=post['fc']-pre['fc']; ev_rec=post['nrec']-pre['nrec']; succ=post['ss']-pre['ss']
            if ev_fc not in (0,1): errs.append((k,'search evals',ev_fc))
            if succ and not ev_fc: errs.append((k,'success without eval'))
            s['fc']+=ev_fc; s['nrec']+=ev_rec; s['sc']+=1; s['ss']+=succ
        if s['sc']==0 or s['sc']==nTry:
            s['sc']=0
            if s['ss']>0 and skip: do_poll=False; s['spree']+=1
            else: do_poll=True; s['spree']=0
            s['ss']=0
        else: do_poll=False
        if do_poll != (itr['poll'] is not None): errs.append((k,'do_poll',do_poll))
        if itr['poll'] is not None:
            _,pre,post,impr,thr,fq=itr['poll']
            n=post['fc']-pre['fc']
            # improvements: in poll each evaluated point calls _eval_improvement_ once; accelerate-mesh calls once more at the end
            zs=impr[:n]
            if n>2*D or (pre['fc']<budget and False): errs.append((k,'poll evals',n))
            if pre['fc']+n>max(budget,pre['fc']): errs.append((k,'poll over budget'))
            best=0.0; good=False
            for z in zs:
                if z>best: best=z; good= best>thr
            s['fc']+=n; s['nrec']+=post['nrec']-pre['nrec']
            if good: s['msi']=min(s['msi']+1,cap)
            else:
                s['msi']-=1
                if acc and s['it']>accSteps:
                    stall = impr[n] < tolFun if len(impr)>n else None
                    if stall is None: errs.append((k,'no stall impr'))
                    elif stall: s['msi']-=1
                ssi=min(ssi, s['msi']*sgm-sgn)
            if s['msi']!=post['msi']: errs.append((k,'msi',s['msi'],post['msi'],good,zs,thr))
            if ssi!=post['ssi']: errs.append((k,'ssi',ssi,post['ssi']))
        # termination
        nxt = iters[k+1]['start'] if k+1<len(iters) else end
        msg=''
        fin=False
        if s['fc']>=budget: fin=True; msg='max_fun_evals'
        if s['it']>=maxIter-1: fin=True; msg='max_iter'
        if 2.0**s['msi']<tolMesh: fin=True; msg='tol_mesh'
        if s['it']>stallIters-1:
            # oracle: stall-stop; observed via msg
            if kind(nxt['msg'])=='tol_fun': fin=True; msg='tol_fun'
        if kind(nxt['msg'])!=msg: errs.append((k,'msg',msg,kind(nxt['msg'])))
        if fin != (k+1==len(iters)): errs.append((k,'finished',fin,k+1==len(iters)))
        if not fin and do_poll: s['it']+=1
    return errs, len(iters)

def one(args):
    seed,D,mode,opt=args
    rng=np.random.default_rng(seed)
    c=rng.uniform(-1.5,1.5,D) if opt.get('_inside',True) else np.full(D,4.0)
    noise={'det':0,'auto':0.3,'decl':0.3,'he':0.3}[mode]
    def f(x):
        y=float(np.sum((x-c)**2))+(noise*np.random.randn() if noise else 0)
        return (y,noise) if mode=='he' else y
    o={'display':'off','random_seed':seed}
    o.update({k:v for k,v in opt.items() if not k.startswith('_')})
    if mode in('decl','he'): o['uncertainty_handling']=True
    if mode=='he': o['specify_target_noise']=True
    try:
        b,r,ev=traced_run(f,rng.uniform(-1,1,D),np.full(D,-3.),np.full(D,3.),np.full(D,-2.),np.full(D,2.),o)
    except Exception as e:
        return (args,'EXC %s %s'%(type(e).__name__,str(e)[:60]),0)
    errs,n=replay(b,r,ev)
    return (args,errs[:3],n)

if __name__=='__main__':
    jobs=[]
    s=0
    for D in (1,2,3):
        for mode in ('det','auto','decl','he'):
            for opt in ({'max_fun_evals':50+20*D},{'max_fun_evals':80,'accelerate_mesh':False},{'max_iter':4},{'tol_mesh':1e-2,'max_fun_evals':150},{'max_fun_evals':70,'complete_poll':True},{'max_fun_evals':60,'_inside':False}):
                s+=1; jobs.append((s,D,mode,opt))
    with mp.Pool(16) as p:
        for a,errs,n in p.imap_unordered(one,jobs):
            if errs: print(a,n,errs)
    print('done',len(jobs))
