import os
os.environ['OMP_NUM_THREADS']='1'
import numpy as np, warnings, sys, multiprocessing as mp, inspect
warnings.filterwarnings('ignore')
from pybads import BADS
import pybads.bads.bads as bb
import pybads.search.es_search as es
from pybads.function_logger import FunctionLogger
def one(args):
    seed,D,mode,geom=args
    rng=np.random.default_rng(seed)
    ev=[]
    o_cc=bb.contraints_check; o_call=FunctionLogger.__call__
    def cc(U,lb,ub,tol,fl,proj=True,nbc=None):
        out=o_cc(U,lb,ub,tol,fl,proj,nbc)
        caller=inspect.stack()[1].function
        ev.append(('FILT',caller,proj,np.array(out,copy=True),np.array(lb,copy=True),np.array(ub,copy=True))); return out
    def call(self,x,record_duplicate_data=True):
        ev.append(('CALL',np.array(x,copy=True).ravel(),record_duplicate_data)); return o_call(self,x,record_duplicate_data)
    bb.contraints_check=cc; FunctionLogger.__call__=call   # es-internal filter not traced here
    noise={'det':0,'decl':0.3}[mode]
    if geom=='log': lb,ub,plb,pub=1e-3,1e3,1e-2,1e2; c=np.full(D,30.0); x0=np.full(D,1.0)
    elif geom=='unb': lb,ub,plb,pub=-np.inf,np.inf,-2.,2.; c=np.full(D,3.0); x0=np.zeros(D)
    else: lb,ub,plb,pub=-3.,3.,-2.,2.; c=np.full(D,5.0); x0=rng.uniform(-1,1,D)
    f=lambda x: float(np.sum((x-c)**2))+(noise*np.random.randn() if noise else 0)
    o={'display':'off','random_seed':seed,'max_fun_evals':60+20*D}
    if mode=='decl': o['uncertainty_handling']=True
    try:
        b=BADS(f,x0,np.full(D,lb),np.full(D,ub),np.full(D,plb),np.full(D,pub),options=o); r=b.optimize()
    except Exception as e:
        return args,'EXC %s %s'%(type(e).__name__,str(e)[:80])
    finally:
        bb.contraints_check=o_cc; FunctionLogger.__call__=o_call
    bad=[]; last=None; ncall=0; hist_u=[np.ravel(u) for u in b.iteration_history['u']]
    LB=b.lower_bounds.ravel(); UB=b.upper_bounds.ravel()
    evaluated=[]
    for e in ev:
        if e[0]=='FILT': last=e; 
        else:
            u=e[1]; ncall+=1
            if np.any(u<LB) or np.any(u>UB): bad.append(('outside internal box',ncall))
            if ncall==1: src='start'
            elif not e[2]: src='norecord'; ok=any(np.array_equal(u,v) for v in evaluated)
            else:
                src=last[1]; ok=any(np.array_equal(u,row) for row in np.atleast_2d(last[3]))
            if ncall>1 and not ok: bad.append((ncall,src,'call not from last filter output / evaluated'))
            evaluated.append(u)
    X=b.function_logger.X[:b.function_logger.Xn+1]; XO=b.function_logger.X_orig[:b.function_logger.Xn+1]
    if not np.array_equal(b.var_transf.inverse_transf(X),XO): bad.append('X_orig != inverse(X)')
    olb=b.var_transf.orig_lb; oub=b.var_transf.orig_ub
    if np.any(XO<olb) or np.any(XO>oub) or np.any(r.x<olb) or np.any(r.x>oub): bad.append('orig box left')
    return args,bad[:3]
if __name__=='__main__':
    jobs=[(s, d, m, g) for s in range(2) for d in (1,2,3) for m in ('det','decl') for g in ('box','log','unb')]
    with mp.Pool(16) as p:
        for a,bad in p.imap_unordered(one,jobs):
            if bad: print(a,bad)
    print('done',len(jobs))
