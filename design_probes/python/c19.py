import os
os.environ['OMP_NUM_THREADS']='1'
import numpy as np, warnings, logging, multiprocessing as mp
warnings.filterwarnings('ignore'); logging.disable(logging.CRITICAL)
from scipy.special import erfcinv
from pybads import BADS
import pybads.bads.bads as bb
from pybads.utils.iteration_history import IterationHistory
from pybads.function_logger import FunctionLogger

def one(args):
    seed,D,nfs=args
    rng=np.random.default_rng(seed); c=rng.uniform(-1,1,D)
    f=lambda x: float(np.sum((x-c)**2))+0.5*np.random.randn()
    ev=[]
    o_ui=bb.BADS._update_incumbent_; o_re=bb.BADS._re_evaluate_history_; o_rec=IterationHistory.record; o_usb=bb.BADS._update_search_bounds_; o_p=bb.BADS._poll_step_; o_call=FunctionLogger.__call__
    holder={}
    def ui(self,u,y,fv,fs): ev.append(('UPD',np.array(u,copy=True),float(np.ravel(y)[0]),float(fv),float(fs))); return o_ui(self,u,y,fv,fs)
    def re(self,gp):
        holder['inre']=True; r=o_re(self,gp); holder['inre']=False; H=self.iteration_history
        ev.append(('REEVAL',[float(v) for v in H['fval']],[float(v) for v in H['fsd']])); return r
    def rec(self,key,val,it):
        if self is holder.get('H') and not holder.get('inre') and key in('u','yval','fval','fsd','func_count'): ev.append(('REC',key,np.array(val,copy=True) if key=='u' else val,it))
        return o_rec(self,key,val,it)
    def usb(self): ev.append(('ITER',self.optim_state['iter'])); return o_usb(self)
    def p(self,gp): ev.append(('POLLBEGIN',)); r=o_p(self,gp); ev.append(('POLLEND',)); return r
    def call(self,x,record_duplicate_data=True):
        r=o_call(self,x,record_duplicate_data); ev.append(('CALL',np.array(x,copy=True).ravel(),float(np.ravel(r[0])[0]),record_duplicate_data)); return r
    bb.BADS._update_incumbent_=ui; bb.BADS._re_evaluate_history_=re; IterationHistory.record=rec; bb.BADS._update_search_bounds_=usb; bb.BADS._poll_step_=p; FunctionLogger.__call__=call
    try:
        b=BADS(f,rng.uniform(-1,1,D),np.full(D,-3.),np.full(D,3.),np.full(D,-2.),np.full(D,2.),options={'display':'off','random_seed':seed,'max_fun_evals':110,'uncertainty_handling':True,'noise_final_samples':nfs})
        holder['H']=b.iteration_history
        r=b.optimize()
    except Exception as e: return args,['EXC %s %s'%(type(e).__name__,str(e)[:70])],0
    finally:
        bb.BADS._update_incumbent_=o_ui; bb.BADS._re_evaluate_history_=o_re; IterationHistory.record=o_rec; bb.BADS._update_search_bounds_=o_usb; bb.BADS._poll_step_=o_p; FunctionLogger.__call__=o_call
    # ---- model replay ----
    tol_fun=b.options['tol_fun']; errs=[]; swaps=0
    # state after init: first event is ITER; incumbent from init design
    calls=[e for e in ev if e[0]=='CALL']
    i0=next(i for i,e in enumerate(ev) if e[0]=='ITER')
    init=[e for e in ev[:i0] if e[0]=='CALL' and e[3]]
    k=int(np.argmin([e[2] for e in init])); u=init[k][1].copy(); ub=u.copy(); yval=init[k][2]; fval=yval; fsd=b.options['noise_size']
    hist={'u':[], 'yval':[], 'fval':[], 'fsd':[]}
    def sethist(key,it,val):
        L=hist[key]
        while len(L)<=it: L.append(None)
        L[it]=val
    j=i0; n=len(ev); polled=False; it=0
    while j<n:
        e=ev[j]
        if e[0]=='ITER':
            it=e[1]; polled=False; searched_done=False
            # events until next ITER
            k2=j+1
            while k2<n and ev[k2][0]!='ITER': k2+=1
            seg=ev[j+1:k2]
            # search-phase updates are those before POLLBEGIN (or all UPD if no poll)
            pb=next((q for q,x in enumerate(seg) if x[0]=='POLLBEGIN'),None)
            pe=next((q for q,x in enumerate(seg) if x[0]=='POLLEND'),None)
            first_rec=next((q for q,x in enumerate(seg) if x[0]=='REC'),len(seg))
            pre=seg[:pb] if pb is not None else seg[:first_rec]
            for x in pre:
                if x[0]=='UPD': u=x[1].copy(); ub=x[1].copy(); yval,fval,fsd=x[2],x[3],x[4]
            u=ub                                   # self.u = self.u_best
            if pb is not None:
                for x in seg[pb:pe]:
                    if x[0]=='UPD': u=x[1].copy(); ub=x[1].copy(); yval,fval,fsd=x[2],x[3],x[4]
            recs=[x for x in seg if x[0]=='REC']
            last_iter = (k2>=n)
            rest=seg[(pe+1) if pe is not None else first_rec:]
            # first batch of REC (loop-end record)
            batch=[]; 
            for x in rest:
                if x[0]=='REC': batch.append(x)
                elif x[0]=='REEVAL': break
            if batch:
                for x in batch:
                    if x[1]=='u' and not np.array_equal(x[2],u): errs.append((it,'rec u',x[2].tolist(),np.ravel(u).tolist()))
                    if x[1]=='yval' and x[2]!=yval: errs.append((it,'rec yval',x[2],yval))
                    if x[1]=='fval' and x[2]!=fval: errs.append((it,'rec fval',x[2],fval))
                    if x[1] in hist: sethist(x[1],x[3],x[2] if x[1]!='u' else x[2].copy())
            ree=[x for x in rest if x[0]=='REEVAL']
            if ree and pb is not None and it>0:
                fv,fs=ree[0][1],ree[0][2]
                for q in range(len(fv)): sethist('fval',q,fv[q]); sethist('fsd',q,fs[q])
                yval=hist['yval'][it]; fval=hist['fval'][it]; fsd=hist['fsd'][it]
                z=[fval-hist['fval'][q] for q in range(len(fv))][1:]
                if z:
                    qi=int(np.argmax(z)); impr=z[qi]; qi+=1
                    if impr>tol_fun:
                        yval=hist['yval'][qi]; fval=hist['fval'][qi]; fsd=hist['fsd'][qi]; u=hist['u'][qi].copy(); swaps+=1   # u_best NOT updated (typo)
            j=k2
        else: j+=1
    # final stage
    ree=[x for x in ev if x[0]=='REEVAL']
    if it>0 and ree:
        fv,fs=np.array(ree[-1][1]),np.array(ree[-1][2])
        sig=np.sqrt(2)*erfcinv(2*b.options['final_quantile'])
        q=fv+sig*fs; qi=int(np.argmin(q[1:]))+1
        uf=hist['u'][qi]
        if not np.array_equal(uf,np.ravel(b.u)): errs.append(('final u',uf.tolist(),np.ravel(b.u).tolist()))
        tail=[c for c in calls if not c[3]][1:] if False else [c for c in calls[-nfs:]] if nfs>0 else []
        if nfs>0:
            if not all(np.array_equal(c[1],uf) and not c[3] for c in tail): errs.append(('tail not at final u',))
            yv=np.array([c[2] for c in tail])
            if nfs==1: yv=np.array([yv[0],hist['yval'][qi]])
            if abs(r.fval-np.mean(yv))>1e-12 or abs(r.fsd-np.std(yv)/np.sqrt(yv.size))>1e-12: errs.append(('fval/fsd',r.fval,np.mean(yv)))
            if not np.array_equal(np.ravel(r.yval_vec),yv): errs.append(('yval_vec',))
    return args,errs[:3],swaps
if __name__=='__main__':
    jobs=[(s,d,n) for s in range(8) for d in (1,2) for n in (10,1,0)]
    with mp.Pool(16) as p:
        tot=0
        for a,errs,sw in p.imap_unordered(one,jobs):
            tot+=sw
            if errs: print(a,errs)
    print('done',len(jobs),'swaps',tot)
