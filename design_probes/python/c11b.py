import numpy as np, warnings
warnings.filterwarnings('ignore')
from pybads.variable_transformer import VariableTransformer
def ok(l,u,pl,pu):
    try: VariableTransformer(1,np.array([[l]]),np.array([[u]]),np.array([[pl]]),np.array([[pu]])); return True
    except ValueError as e: return str(e)[:30]
for u in [1e6,1e8,1e9,1e10,1e11,1e12]:
    print('log coord ub',u, ok(1.0,u,2.0,u/2), '| affine coord ub',u, ok(-u,u,-u/2,u/2), '| affine offset', ok(u,u+4,u+1,u+3))
# unbounded with log? (ub=inf positive lb) -> half-bounded, not valid. 
print(ok(1e-12,1e12,1e-11,1e11), ok(1e-12,1.0,1e-11,0.5))
