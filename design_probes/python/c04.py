import os
os.environ['OMP_NUM_THREADS']='1'; os.environ['OPENBLAS_NUM_THREADS']='1'
import numpy as np, warnings, multiprocessing as mp
warnings.filterwarnings('ignore')
from pybads import BADS
import pybads.bads.bads as bb
def one(args):
    seed,D,kindf=args
    rng=np.random.default_rng(seed)
    c=rng.uniform(-1.5,1.5,D) if kindf!='outside' else np.full(D,5.0)
    log=[]
    def f(x):
        if kindf=='plateau': y=float(np.sum(np.floor(np.abs(x-c)*4)))
        elif kindf=='abs': y=float(np.sum(np.abs(x-c)))
        else: y=float(np.sum((x-c)**2))
        log.append((tuple(x),y)); return y
    bad=[]
    o_s=bb.BADS._search_step_; o_p=bb.BADS._poll_step_
    def chk(self,tag):
        ys=[y for _,y in log]
        if self.fval!=min(ys): bad.append((tag,'fval not min',self.fval,min(ys)))
        x=self.var_transf.inverse_transf(np.atleast_2d(self.u_best))[0]
        if (tuple(x),self.fval) not in log: bad.append((tag,'incumbent pair not in log'))
    def s(self,gp):
        r=o_s(self,gp); chk(self,'s'); return r
    def p(self,gp):
        r=o_p(self,gp); chk(self,'p'); return r
    bb.BADS._search_step_=s; bb.BADS._poll_step_=p
    try:
        b=BADS(f,rng.uniform(-1,1,D),np.full(D,-3.),np.full(D,3.),np.full(D,-2.),np.full(D,2.),options={'display':'off','random_seed':seed,'max_fun_evals':40+30*D})
        r=b.optimize()
    except Exception as e:
        return args,'EXC %s %s'%(type(e).__name__,e)
    finally:
        bb.BADS._search_step_=o_s; bb.BADS._poll_step_=o_p
    ys=[y for _,y in log]
    if r.fval!=min(ys): bad.append(('final fval',r.fval,min(ys)))
    if (tuple(r.x),r.fval) not in log: bad.append(('final pair',))
    h=[float(v) for v in b.iteration_history['fval']]
    if any(h[i+1]>h[i] for i in range(len(h)-1)): bad.append(('hist increases',h))
    if r.fsd!=0 or r.target_type!='deterministic': bad.append(('fsd/type',r.fsd,r.target_type))
    return args,bad[:3]
if __name__=='__main__':
    jobs=[(s*7+d, d, k) for s in range(4) for d in (1,2,3) for k in ('quad','plateau','abs','outside')]
    with mp.Pool(16) as p:
        for a,bad in p.imap_unordered(one,jobs):
            if bad: print(a,bad)
    print('done',len(jobs))
