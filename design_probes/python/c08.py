import os
os.environ['OMP_NUM_THREADS']='1'
import numpy as np, warnings, itertools, logging, sys
warnings.filterwarnings('ignore')
from pybads import BADS
logging.disable(logging.CRITICAL)
inf=np.inf; nan=np.nan
calls=[0]
def f(x): calls[0]+=1; return 0.0

def spec_valid(x0,lb,ub,plb,pub):
    """Spec transcribed from the property sentence (D=1 scalars or None)."""
    # defaults
    if plb is None and lb is not None: plb=lb
    if pub is None and ub is not None: pub=ub
    if x0 is None and (plb is None or pub is None): return False,'nodim'
    if lb is None: lb=-inf
    if ub is None: ub=inf
    if plb is None: plb=lb   # N0==1 path: hard bounds
    if pub is None: pub=ub
    if not (np.isfinite(plb) and np.isfinite(pub)): return False,'pb nonfinite'
    if plb==pub: return False,'pb equal'
    if not (lb<=plb<pub<=ub): return False,'order'
    if x0 is not None and not np.isnan(x0) and (x0<lb or x0>ub): return False,'x0 outside'
    if lb==ub: return False,'identical hard'
    if np.isfinite(lb)!=np.isfinite(ub): return False,'half'
    return True,''

def impl(x0,lb,ub,plb,pub):
    calls[0]=0
    A=lambda v: None if v is None else np.array([v],dtype=float)
    try:
        b=BADS(f,A(x0),A(lb),A(ub),A(plb),A(pub),options={'display':'off','random_seed':1})
        return 'ok',(b.x0.ravel()[0], b.var_transf.orig_lb.ravel()[0], b.var_transf.orig_ub.ravel()[0], b.var_transf.orig_plb.ravel()[0], b.var_transf.orig_pub.ravel()[0]), calls[0]
    except ValueError as e: return 'ValueError',str(e)[:40],calls[0]
    except Exception as e: return type(e).__name__,str(e)[:60],calls[0]

LB=[None,-inf,-2.0,0.0,nan]; UB=[None,inf,2.0,0.0,-2.0]
PLB=[None,-1.0,0.0,-3.0,nan,-inf,-2.0]; PUB=[None,1.0,0.0,3.0,-1.0,2.0]
X0=[None,0.5,-2.0,2.0,5.0,nan,1.5]
n=0; dis={}
for x0,lb,ub,plb,pub in itertools.product(X0,LB,UB,PLB,PUB):
    n+=1
    v,why=spec_valid(x0,lb,ub,plb,pub)
    r=impl(x0,lb,ub,plb,pub)
    key=None
    if v and r[0]!='ok': key=('spec valid, impl '+r[0], r[1])
    elif (not v) and r[0]=='ok': key=('spec invalid('+why+'), impl ok','')
    elif (not v) and r[0]!='ValueError': key=('spec invalid('+why+'), impl '+r[0], r[1])
    elif v:
        x,l,u,pl,pu=r[1]
        if not (l<=pl<pu<=u): key=('norm order broken','')
        elif np.isfinite(l) and not (l<x<u): key=('x0 not strictly inside','')
    if r[2]!=0: key=('target called at construction','')
    if key: dis.setdefault(key,[]).append((x0,lb,ub,plb,pub))
print('cases',n)
for k,v in dis.items(): print(len(v),k,'e.g.',v[0])
