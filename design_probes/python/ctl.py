import numpy as np, warnings, sys
warnings.filterwarnings('ignore')
from pybads import BADS
import pybads.bads.bads as bb

def traced_run(fun, x0, lb, ub, plb, pub, opts, cons=None):
    ev=[]
    b=BADS(fun,x0,lb,ub,plb,pub,non_box_cons=cons,options=opts)
    o_usb=bb.BADS._update_search_bounds_; o_s=bb.BADS._search_step_; o_p=bb.BADS._poll_step_; o_ei=bb.BADS._eval_improvement_
    def snap(self):
        return dict(fc=self.function_logger.func_count, nrec=int(np.sum(self.function_logger.X_flag)), sc=float(self.optim_state['search_count']), ss=self.search_success, spree=self.search_spree, msi=int(self.mesh_size_integer), ssi=int(self.optim_state['search_size_integer']), it=self.optim_state['iter'], msg=self.optim_state.get('termination_msg'))
    def usb(self):
        ev.append(('ITER',snap(self))); return o_usb(self)
    def s(self,gp):
        pre=snap(self); r=o_s(self,gp); post=snap(self)
        ev.append(('SRCH',pre,post)); return r
    impr=[]
    def ei(self,*a):
        z=o_ei(self,*a); impr.append(np.copy(z)); return z
    def p(self,gp):
        pre=snap(self); n0=len(impr); r=o_p(self,gp); post=snap(self)
        ev.append(('POLL',pre,post,[float(np.ravel(z)[0]) for z in impr[n0:]], float(self.sufficient_improvement), getattr(self,'f_q_historic_improvement',None))); return r
    bb.BADS._update_search_bounds_=usb; bb.BADS._search_step_=s; bb.BADS._poll_step_=p; bb.BADS._eval_improvement_=ei
    try:
        r=b.optimize()
    finally:
        bb.BADS._update_search_bounds_=o_usb; bb.BADS._search_step_=o_s; bb.BADS._poll_step_=o_p; bb.BADS._eval_improvement_=o_ei
    ev.append(('END',snap(b)))
    return b,r,ev

if __name__=='__main__':
    f=lambda x: float(np.sum((x-0.3)**2))
    b,r,ev=traced_run(f,np.array([1.,1.]),np.array([-5.,-5]),np.array([5.,5]),np.array([-2.,-2]),np.array([2.,2]),{'display':'off','random_seed':3,'max_fun_evals':60})
    for e in ev[:30]: print(e)
    print(r.message, r.func_count)
