import os
os.environ['OMP_NUM_THREADS']='1'
import numpy as np, warnings, logging
warnings.filterwarnings('ignore'); logging.disable(logging.CRITICAL)
from pybads import BADS
def mk(seed, noisy, x0none, log):
    calls=[]
    def f(x):
        y=float(np.sum((x-0.3)**2))+(0.3*np.random.randn() if noisy else 0); calls.append((tuple(x),y)); return y
    o={'display':'off','random_seed':seed,'max_fun_evals':90}
    if noisy: o['uncertainty_handling']=True
    D=2
    b=BADS(f, None if x0none else np.array([1.,1.]), np.full(D,-5.),np.full(D,5.),np.full(D,-2.),np.full(D,2.),options=o)
    return b,calls
def foreign(k):
    if k==0: return
    for _ in range(k): np.random.rand(3)
    g=BADS(lambda x: float(np.sum(x**2)), np.zeros(3), -np.ones(3)*2, np.ones(3)*2, -np.ones(3), np.ones(3), options={'display':'off','max_fun_evals':25,'random_seed':99, 'tol_fun':1e-2})
    if k>1: g.optimize()
res={}
for noisy in (False,True):
  for x0none in (False,True):
    base=None
    for pre,mid in [(0,0),(3,0),(0,2),(2,3)]:
        foreign(pre); b,calls=mk(11,noisy,x0none,False); foreign(mid); r=b.optimize()
        sig=(calls, r.fval, r.fsd, tuple(r.x), r.func_count, r.message)
        if base is None: base=sig
        print('noisy',noisy,'x0none',x0none,'pre',pre,'mid',mid,'same as baseline:',sig==base)
