import numpy as np, warnings, logging
warnings.filterwarnings('ignore'); logging.disable(logging.CRITICAL)
from pybads.search.es_search import ESSearchWM
from pybads.bads.options import Options
from pybads.bads.option_configs import get_pybads_option_dir_path
p=get_pybads_option_dir_path()
o=Options(p+"/basic_bads_options.ini",evaluation_parameters={"D":2},user_options=None); o.load_options_file(p+"/advanced_bads_options.ini",evaluation_parameters={"D":2})
es=ESSearchWM(8,8,o)
bad=[]; short=[]; n=0
for mu in range(0,121):
    for lamb in range(1,121):
        try: m=es._get_selection_idx_mask_(mu,lamb)
        except Exception as e: bad.append((mu,lamb,type(e).__name__,str(e)[:40])); continue
        n+=1
        if m[0]!=0 or np.any(np.diff(m)<0) or np.any(np.diff(m)>1) or np.any(m>np.arange(len(m))): bad.append((mu,lamb,'shape',m[:6]))
        ll=min(lamb,mu)
        if len(m)<ll: short.append((mu,lamb,len(m)))
        if ll>0 and np.max(m[:ll])>=mu: bad.append((mu,lamb,'index>=mu'))
print('ok',n,'bad',len(bad),bad[:6],'short',len(short),short[:5])
