import os
os.environ['OMP_NUM_THREADS']='1'
import numpy as np, warnings, logging, multiprocessing as mp
warnings.filterwarnings('ignore'); logging.disable(logging.CRITICAL)
from pybads import BADS
class Boom(Exception): pass
def one(args):
    k,kind,mode=args
    n=[0]
    def f(x):
        n[0]+=1
        y=float(np.sum((x-0.3)**2))+(0.3*np.random.randn() if mode!='det' else 0)
        if n[0]==k:
            if kind=='raise': raise Boom('x')
            bad={'nan':np.nan,'inf':np.inf,'ninf':-np.inf,'complex':1+2j,'vec':np.array([1.,2.]),'none':None}.get(kind)
            if mode=='he':
                if kind=='notpair': return y
                if kind=='sd0': return y,0.0
                if kind=='sdneg': return y,-1.0
                if kind=='sdnan': return y,np.nan
                return bad,0.3
            return bad
        return (y,0.3) if mode=='he' else y
    o={'display':'off','random_seed':2,'max_fun_evals':30,'noise_final_samples':3}
    if mode!='det': o['uncertainty_handling']=True
    if mode=='he': o['specify_target_noise']=True
    b=BADS(f,np.array([1.,1.]),np.full(2,-3.),np.full(2,3.),np.full(2,-2.),np.full(2,2.),options=o)
    try:
        b.optimize(); return args,'completed',n[0],b.function_logger.func_count
    except Exception as e:
        return args,type(e).__name__,n[0],b.function_logger.func_count
if __name__=='__main__':
    jobs=[(k,kind,mode) for mode in ('det','noisy','he') for kind in (['raise','nan','inf','complex','vec','none']+(['notpair','sd0','sdneg','sdnan'] if mode=='he' else [])) for k in range(1,31)]
    from collections import Counter
    c=Counter()
    with mp.Pool(16) as p:
        for a,res,n,fc in p.imap_unordered(one,jobs):
            k,kind,mode=a
            exp='Boom' if kind=='raise' else 'ValueError'
            ok=(res==exp and n==k and fc==k-1)
            c[(mode,kind,ok,res if not ok else '')]+=1
    for key,v in sorted(c.items()): print(key,v)
