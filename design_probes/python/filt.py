import numpy as np, itertools, warnings
warnings.filterwarnings('ignore')
from pybads.function_logger import FunctionLogger, contraints_check
def rhe(x):  # round half even on exact binary fractions
    return float(np.round(x))
def model(U, lo, hi, tol_mesh, logX, proj):
    U=[list(map(float,r)) for r in U]
    if proj: V=[[max(min(x,h),l) for x,l,h in zip(r,lo,hi)] for r in U]
    else: V=[r for r in U if not any(x>h for x,h in zip(r,hi)) and not any(x<l for x,l in zip(r,lo))]
    out=[]
    for r in V:
        if r not in out: out.append(r)
    if out:
        tol=tol_mesh/2
        keyed={}
        for r in out:
            k=tuple(rhe(x/tol) for x in r)
            if k not in keyed: keyed[k]=r
        out=[keyed[k] for k in sorted(keyed)]   # lexicographic order of rounded rows; log ignored
    return out
rng=np.random.default_rng(0)
mism=0; n=0; logdep=0
for trial in range(3000):
    D=rng.integers(1,3)
    tol_mesh=2.0**-rng.integers(0,3)
    lat=np.arange(-2,3)*tol_mesh/2*rng.integers(1,3)
    nU=rng.integers(0,6); nL=rng.integers(0,4)
    U=rng.choice(lat,size=(nU,D)); L=rng.choice(lat,size=(nL,D))
    fl=FunctionLogger(lambda x:0.0,D,False,0)
    for r in L: fl(r)
    lo=np.full((1,D),rng.choice(lat)); hi=lo+abs(rng.choice(lat))
    proj=bool(rng.integers(0,2))
    if nU==0: continue
    out=contraints_check(U.copy(),lo,hi,tol_mesh,fl,proj)
    m=model(U,lo[0],hi[0],tol_mesh,L,proj)
    n+=1
    if [list(r) for r in out]!=m: mism+=1; print('MISMATCH',U.tolist(),lo,hi,tol_mesh,proj,out.tolist(),m)
    # does any output coincide with logged?
    ks={tuple(np.round(r/(tol_mesh/2))) for r in L}
    if any(tuple(np.round(r/(tol_mesh/2))) in ks for r in out): logdep+=1
print('cases',n,'mismatch',mism,'cases with output coinciding with a logged point',logdep)
