import numpy as np, warnings
warnings.filterwarnings('ignore')
from pybads.function_logger import FunctionLogger
from fractions import Fraction as Fr
class M:  # model as coded (scratch)
    def __init__(s,D,he,cap):
        s.D=D; s.he=he; s.cap=cap; s.rows=[]; s.fc=0; s.xmax=-1
        s.nev=[0]*cap
    def find_all(s,x): return [i for i,r in enumerate(s.rows) if r['x']==x]
    def call(s,x,y,sd,record):
        if not record:
            d=s.find_all(x)
            if d: s.nev[d[-1]]+=1
            s.fc+=1; return
        if s.he:
            d=s.find_all(x)
            if d:
                if len(d)>1: raise ValueError
                # as coded: first row sharing ANY coordinate with x
                idx=next(i for i,r in enumerate(s.rows) if any(a==b for a,b in zip(r['x'],x)))
                r=s.rows[idx]; tn=1/Fr(r['s'])**2 if not isinstance(r['s'],tuple) else r['s'][1]; t1=1/Fr(sd)**2
                r['y']=(tn*r['y']+t1*Fr(y))/(tn+t1); r['s']=('tau',tn+t1); s.nev[idx]+=1; s.fc+=1; return
        if len(s.rows)+1>s.cap:
            xn=len(s.rows); add=max(-(-xn//2),1); s.cap+=add; s.nev+= [0]*add
        s.rows.append({'x':x,'y':Fr(y),'s':sd}); i=len(s.rows)-1
        s.nev[i]=max(1,s.nev[i]+1); s.xmax=min(s.xmax+1,s.cap); s.fc+=1
rng=np.random.default_rng(1)
bad=0; tot=0; wrongrow=0
for trial in range(400):
    D=int(rng.integers(1,4)); he=bool(rng.integers(0,2)); cap=int(rng.integers(1,5))
    cur=[None]
    fl=FunctionLogger(lambda x:cur[0],D,he,2 if he else 0,cache_size=cap)
    m=M(D,he,cap)
    alpha=[0.0,1.0,2.0]
    try:
        for step in range(int(rng.integers(1,25))):
            x=tuple(float(v) for v in rng.choice(alpha,size=D)); y=float(rng.integers(-5,6)); sd=float(rng.choice([0.5,1.0,2.0]))
            record=bool(rng.integers(0,4)>0)
            if not he and record and m.find_all(x) and False: pass
            cur[0]=(y,sd) if he else y
            try: fl(np.array(x),record_duplicate_data=record); e1=None
            except ValueError as e: e1='VE'
            try: m.call(x,y,sd if he else None,record); e2=None
            except ValueError: e2='VE'
            if e1!=e2: bad+=1; print('exc mismatch',e1,e2); break
            if e1: break
            tot+=1
            n=len(m.rows)
            ok = fl.Xn==n-1 and fl.func_count==m.fc and fl.X_max_idx==m.xmax and fl.X.shape[0]==m.cap
            ok = ok and all(tuple(fl.X[i])==m.rows[i]['x'] for i in range(n)) and all(abs(fl.Y[i,0]-float(m.rows[i]['y']))<1e-12 for i in range(n))
            ok = ok and all(fl.n_evals[i,0]==m.nev[i] for i in range(m.cap)) and all(fl.X_flag[i] for i in range(n)) and not any(fl.X_flag[n:])
            if he: ok = ok and all(abs(1/fl.S[i,0]**2 - (float(m.rows[i]['s'][1]) if isinstance(m.rows[i]['s'],tuple) else 1/m.rows[i]['s']**2))<1e-9 for i in range(n))
            if not ok: bad+=1; print('state mismatch D',D,'he',he,'step',step, fl.Xn,n, fl.func_count,m.fc, fl.X_max_idx,m.xmax, fl.X.shape[0],m.cap, fl.n_evals.ravel()[:6], m.nev[:6]); break
    except Exception as e:
        print('harness exc',type(e).__name__,e); bad+=1
print('ops',tot,'bad',bad)
