import os
os.environ['OMP_NUM_THREADS']='1'
import numpy as np, warnings, itertools, logging, sys
warnings.filterwarnings('ignore')
from pybads import BADS
logging.disable(logging.CRITICAL)
from c08 import spec_valid
inf=np.inf; nan=np.nan
calls=[0]
def f(x): calls[0]+=1; return 0.0
# per-coordinate tuples (x0,lb,ub,plb,pub), all present (no None) to keep shapes consistent
coords=[(0.5,-2.,2.,-1.,1.),(0.5,-inf,inf,-1.,1.),(0.5,-2.,inf,-1.,1.),(0.5,-inf,2.,-1.,1.),(-2.,-2.,2.,-1.,1.),(nan,-2.,2.,-1.,1.),
        (0.5,-2.,2.,-2.,2.),(5.,-2.,2.,-1.,1.),(0.5,-2.,2.,1.,-1.),(0.5,0.,0.,0.,0.),(0.5,-2.,2.,0.,0.),(1.5,-2.,2.,-1.,1.),(0.5,-2.,2.,-3.,1.),(0.5,-inf,inf,-inf,1.)]
dis={}; n=0
for c1,c2 in itertools.product(coords,coords):
    n+=1
    v=all(spec_valid(*c)[0] for c in (c1,c2)); why=[spec_valid(*c)[1] for c in (c1,c2)]
    cols=list(zip(c1,c2)); calls[0]=0
    try:
        b=BADS(f,*[np.array(c) for c in cols],options={'display':'off','random_seed':1}); r='ok'
        l,u,pl,pu=[getattr(b.var_transf,a).ravel() for a in ('orig_lb','orig_ub','orig_plb','orig_pub')]; x=b.x0.ravel()
    except ValueError as e: r='ValueError'; msg=str(e)[:30]
    except Exception as e: r=type(e).__name__; msg=str(e)[:60]
    key=None
    if v and r!='ok': key=('spec valid, impl '+r,msg)
    elif not v and r=='ok': key=('spec invalid %s, impl ok'%why,'')
    elif not v and r!='ValueError': key=('spec invalid, impl '+r,msg)
    elif v:
        if not np.all((l<=pl)&(pl<pu)&(pu<=u)): key=('norm order','')
        fin=np.isfinite(l)
        if not np.all((l[fin]<x[fin])&(x[fin]<u[fin])): key=('x0 not strictly inside','')
        if not np.all(np.isfinite(x)): key=('x0 nonfinite','')
    if calls[0]: key=('target called','')
    if key: dis.setdefault(key,[]).append((c1,c2))
print('cases',n)
for k,v in dis.items(): print(len(v),k,'e.g.',v[0])
