import Driver.Proto
import Driver.CmdFilter
