import Driver.Proto
import Driver.CmdFilter
import Driver.CmdCtl
import Driver.CmdLog
import Driver.CmdPipe
import Driver.CmdPoll
import Driver.CmdInc
