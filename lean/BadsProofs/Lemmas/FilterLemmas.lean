import BadsModel.Filter
import BadsProofs.Lemmas.NumLemmas

namespace Bads

/-! ### Box stage -/

theorem clampPt_inBox : ∀ (lo hi : List Ext) (p : Pt), boxOK lo hi = true → p.length = lo.length →
    inBoxB lo hi (clampPt lo hi p) = true
  | [], [], [], _, _ => by simp [clampPt, inBoxB]
  | [], [], _ :: _, _, h => by simp at h
  | l :: lo, h :: hi, [], _, hl => by simp at hl
  | l :: lo, h :: hi, x :: p, hb, hl => by
    simp only [boxOK, Bool.and_eq_true] at hb
    obtain ⟨⟨⟨h1, h2⟩, h3⟩, h4⟩ := hb
    have := clampE_mem l h x h1 h2 h3
    simp only [clampPt, inBoxB, Bool.and_eq_true, decide_eq_true_eq]
    refine ⟨⟨this.1, this.2⟩, clampPt_inBox lo hi p h4 ?_⟩
    simpa using hl
  | [], _ :: _, _, hb, _ => by simp [boxOK] at hb
  | _ :: _, [], _, hb, _ => by simp [boxOK] at hb

theorem clampPt_id : ∀ (lo hi : List Ext) (p : Pt), inBoxB lo hi p = true → clampPt lo hi p = p
  | [], [], [], _ => by simp [clampPt]
  | l :: lo, h :: hi, x :: p, hb => by
    simp only [inBoxB, Bool.and_eq_true, decide_eq_true_eq] at hb
    obtain ⟨⟨h1, h2⟩, h3⟩ := hb
    simp only [clampPt, clampE_id l h x h1 h2, clampPt_id lo hi p h3]
  | [], [], _ :: _, hb => by simp [inBoxB] at hb
  | [], _ :: _, [], hb => by simp [inBoxB] at hb
  | [], _ :: _, _ :: _, hb => by simp [inBoxB] at hb
  | _ :: _, [], _, hb => by simp [inBoxB] at hb
  | _ :: _, _ :: _, [], hb => by simp [inBoxB] at hb

theorem boxStage_inBox (proj : Bool) (lo hi : List Ext) (U : List Pt)
    (h : proj = true → boxOK lo hi = true ∧ ∀ p ∈ U, p.length = lo.length) :
    ∀ p ∈ boxStage proj lo hi U, InBox lo hi p := by
  intro p hp
  unfold boxStage at hp
  cases proj with
  | true =>
    obtain ⟨hb, hl⟩ := h rfl
    simp only [if_true, List.mem_map] at hp
    obtain ⟨q, hq, rfl⟩ := hp
    exact clampPt_inBox lo hi q hb (hl q hq)
  | false =>
    simp only [Bool.false_eq_true, if_false, List.mem_filter] at hp
    exact hp.2

/-! ### De-duplication -/

theorem dedupBy_sublist {α β : Type} [DecidableEq β] (f : α → β) :
    ∀ (l : List α) (seen : List β), (dedupBy f l seen).Sublist l
  | [], _ => by simp [dedupBy]
  | a :: as, seen => by
    unfold dedupBy
    split
    · exact (dedupBy_sublist f as seen).cons a
    · exact (dedupBy_sublist f as _).cons_cons a

theorem dedupBy_not_seen {α β : Type} [DecidableEq β] (f : α → β) :
    ∀ (l : List α) (seen : List β), ∀ a ∈ dedupBy f l seen, f a ∉ seen
  | [], _, a, h => by simp [dedupBy] at h
  | b :: bs, seen, a, h => by
    unfold dedupBy at h
    split at h
    · exact dedupBy_not_seen f bs seen a h
    · rename_i hb
      rcases List.mem_cons.mp h with rfl | h
      · exact hb
      · have := dedupBy_not_seen f bs (f b :: seen) a h
        exact fun hc => this (List.mem_cons_of_mem _ hc)

theorem dedupBy_nodup {α β : Type} [DecidableEq β] (f : α → β) :
    ∀ (l : List α) (seen : List β), ((dedupBy f l seen).map f).Nodup
  | [], _ => by simp [dedupBy]
  | b :: bs, seen => by
    unfold dedupBy
    split
    · exact dedupBy_nodup f bs seen
    · rw [List.map_cons, List.nodup_cons]
      refine ⟨?_, dedupBy_nodup f bs _⟩
      intro hc
      obtain ⟨a, ha, hfa⟩ := List.mem_map.mp hc
      have := dedupBy_not_seen f bs (f b :: seen) a ha
      exact this (by rw [hfa]; exact List.mem_cons_self)

/-- Every key present in the input and not yet seen survives (by its first occurrence). -/
theorem dedupBy_complete {α β : Type} [DecidableEq β] (f : α → β) :
    ∀ (l : List α) (seen : List β), ∀ a ∈ l, f a ∉ seen → ∃ b ∈ dedupBy f l seen, f b = f a
  | [], _, a, h, _ => by simp at h
  | c :: cs, seen, a, h, hs => by
    unfold dedupBy
    rcases List.mem_cons.mp h with rfl | h
    · simp only [hs, if_false]
      exact ⟨a, List.mem_cons_self, rfl⟩
    · split
      · exact dedupBy_complete f cs seen a h hs
      · by_cases hk : f a = f c
        · exact ⟨c, List.mem_cons_self, hk.symm⟩
        · obtain ⟨b, hb, hfb⟩ := dedupBy_complete f cs (f c :: seen) a h
            (by simp only [List.mem_cons, not_or]; exact ⟨hk, hs⟩)
          exact ⟨b, List.mem_cons_of_mem _ hb, hfb⟩

/-! ### Sorting -/

theorem insertBy_perm {α : Type} (le : α → α → Bool) (a : α) :
    ∀ l : List α, (insertBy le a l).Perm (a :: l)
  | [] => List.Perm.refl _
  | b :: bs => by
    unfold insertBy
    split
    · exact List.Perm.refl _
    · exact ((insertBy_perm le a bs).cons b).trans (List.Perm.swap a b bs)

theorem sortBy_perm {α : Type} (le : α → α → Bool) : ∀ l : List α, (sortBy le l).Perm l
  | [] => List.Perm.refl _
  | a :: as => (insertBy_perm le a _).trans ((sortBy_perm le as).cons a)

/-! ### Key stage -/

theorem keyStage_perm (t : Rat) (U logX : List Pt) :
    (keyStage t U logX).Perm (dedupBy (keyOf t) U []) := by
  unfold keyStage
  exact sortBy_perm _ _

theorem keyStage_mem (t : Rat) (U logX : List Pt) (p : Pt) :
    p ∈ keyStage t U logX → p ∈ U := by
  intro h
  exact (dedupBy_sublist _ U []).subset ((keyStage_perm t U logX).mem_iff.mp h)

theorem keyStage_nodup (t : Rat) (U logX : List Pt) :
    ((keyStage t U logX).map (keyOf t)).Nodup :=
  ((keyStage_perm t U logX).map (keyOf t)).nodup_iff.mpr (dedupBy_nodup _ U [])

theorem keyStageSpec_mem (t : Rat) (U logX : List Pt) (p : Pt) :
    p ∈ keyStageSpec t U logX → p ∈ U ∧ keyOf t p ∉ logX.map (keyOf t) := by
  intro h
  unfold keyStageSpec at h
  have := (sortBy_perm _ _).mem_iff.mp h
  rw [List.mem_filter] at this
  refine ⟨(dedupBy_sublist _ U []).subset this.1, ?_⟩
  simpa using this.2

theorem keyStageSpec_nodup (t : Rat) (U logX : List Pt) :
    ((keyStageSpec t U logX).map (keyOf t)).Nodup := by
  unfold keyStageSpec
  refine ((sortBy_perm _ _).map (keyOf t)).nodup_iff.mpr ?_
  exact ((dedupBy_nodup (keyOf t) U []).sublist (List.filter_sublist.map _))

theorem consStage_sub (c : Option (Pt → Bool)) (U : List Pt) : (consStage c U).Sublist U := by
  unfold consStage
  cases c with
  | none => exact List.Sublist.refl _
  | some c => exact List.filter_sublist

end Bads
