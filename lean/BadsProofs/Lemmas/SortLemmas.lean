import BadsModel.GPSet
import Mathlib.Tactic.Linarith

namespace Bads.GP

variable {α : Type}

theorem insertBy_perm (le : α → α → Bool) (a : α) : ∀ l : List α, (insertBy le a l).Perm (a :: l)
  | [] => List.Perm.refl _
  | b :: bs => by
    unfold insertBy
    split
    · exact List.Perm.refl _
    · exact ((insertBy_perm le a bs).cons b).trans (List.Perm.swap a b bs)

theorem sortBy_perm (le : α → α → Bool) : ∀ l : List α, (sortBy le l).Perm l
  | [] => List.Perm.refl _
  | a :: as => (insertBy_perm le a _).trans ((sortBy_perm le as).cons a)

/-- sorting by a rational key -/
def keyLe (key : α → Rat) (a b : α) : Bool := decide (key a ≤ key b)

theorem insertBy_sorted (key : α → Rat) (a : α) : ∀ l : List α, l.Pairwise (fun x y => key x ≤ key y) →
    (insertBy (keyLe key) a l).Pairwise (fun x y => key x ≤ key y)
  | [], _ => by simp [insertBy]
  | b :: bs, h => by
    unfold insertBy
    have hb := List.pairwise_cons.mp h
    split
    · rename_i hle
      have hab : key a ≤ key b := by simpa [keyLe] using hle
      rw [List.pairwise_cons]
      refine ⟨?_, h⟩
      intro c hc
      rcases List.mem_cons.mp hc with rfl | hc
      · exact hab
      · exact le_trans hab (hb.1 c hc)
    · rename_i hnle
      have hba : key b ≤ key a := by
        have : ¬ key a ≤ key b := by simpa [keyLe] using hnle
        exact le_of_lt (not_le.mp this)
      rw [List.pairwise_cons]
      refine ⟨?_, insertBy_sorted key a bs hb.2⟩
      intro c hc
      have := (insertBy_perm (keyLe key) a bs).mem_iff.mp hc
      rcases List.mem_cons.mp this with rfl | hc'
      · exact hba
      · exact hb.1 c hc'

theorem sortBy_sorted (key : α → Rat) : ∀ l : List α, (sortBy (keyLe key) l).Pairwise (fun x y => key x ≤ key y)
  | [] => by simp [sortBy]
  | a :: as => insertBy_sorted key a _ (sortBy_sorted key as)

/-- In a sorted list every element of a prefix is at most every element of the rest. -/
theorem take_le_drop (key : α → Rat) (l : List α) (h : l.Pairwise (fun x y => key x ≤ key y)) (n : Nat) :
    ∀ a ∈ l.take n, ∀ b ∈ l.drop n, key a ≤ key b := by
  intro a ha b hb
  have hsplit : l = l.take n ++ l.drop n := (List.take_append_drop n l).symm
  rw [hsplit] at h
  exact (List.pairwise_append.mp h).2.2 a ha b hb

end Bads.GP
