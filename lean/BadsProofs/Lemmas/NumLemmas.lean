import BadsModel.Num
import BadsModel.Mesh
import Mathlib.Tactic.Linarith
import Mathlib.Data.Rat.Floor
import Mathlib.Tactic.FieldSimp

namespace Bads

theorem roundHE_close (x : Rat) : |(roundHE x : Rat) - x| ≤ 1/2 := by
  unfold roundHE
  have h1 : ((x.floor : Int) : Rat) ≤ x := Rat.floor_le x
  have h2 : x < (x.floor : Rat) + 1 := by
    have := Rat.lt_floor_add_one x
    push_cast at this; exact this
  simp only
  split_ifs <;> rw [abs_le] <;> constructor <;> push_cast <;> linarith

theorem forceToGrid_close (h x : Rat) (hh : 0 < h) : |forceToGrid h x - x| ≤ h / 2 := by
  unfold forceToGrid
  have := roundHE_close (x / h)
  have e : h * (roundHE (x/h) : Rat) - x = h * ((roundHE (x/h) : Rat) - x / h) := by
    field_simp
  rw [e, abs_mul, abs_of_pos hh]
  calc h * |(roundHE (x/h) : Rat) - x/h| ≤ h * (1/2) := by
        apply mul_le_mul_of_nonneg_left this hh.le
    _ = h/2 := by ring

theorem clampE_mem (l h : Ext) (x : Rat) (hl : isLo l = true) (hh : isHi h = true)
    (hlh : loLeHi l h = true) : geLo l (clampE l h x) ∧ leHi h (clampE l h x) := by
  cases l <;> cases h <;> simp_all [isLo, isHi, loLeHi, clampE, geLo, leHi] <;>
    (try split_ifs) <;> (try constructor) <;> linarith

theorem clampE_id (l h : Ext) (x : Rat) (h1 : geLo l x) (h2 : leHi h x) : clampE l h x = x := by
  cases l <;> cases h <;> simp only [clampE, geLo, leHi] at * <;>
    first
    | rfl
    | (split_ifs <;> first | rfl | linarith)

end Bads
