import BadsModel.Noisy
import Mathlib.Tactic.Linarith
import Mathlib.Tactic.FieldSimp
import Mathlib.Tactic.Ring

namespace Bads.Noisy

def pairOf (r : HRow) : Pt × Rat := (r.u, r.yval)

theorem reEstimate_pairs : ∀ (hist : List HRow) (vals : List (Rat × Rat)),
    (reEstimate hist vals).map pairOf = hist.map pairOf
  | [], vals => by simp [reEstimate]
  | r :: rs, [] => by simp [reEstimate]
  | r :: rs, v :: vs => by
    have ih := reEstimate_pairs rs vs
    simp only [reEstimate, List.zipWith_cons_cons, List.length_cons, List.drop_succ_cons, List.cons_append,
      List.map_cons] at ih ⊢
    rw [ih]
    simp [pairOf]

theorem reEstimate_length (hist : List HRow) (vals : List (Rat × Rat)) :
    (reEstimate hist vals).length = hist.length := by
  have := congrArg List.length (reEstimate_pairs hist vals)
  simpa using this

theorem mem_reEstimate_pair (hist : List HRow) (vals : List (Rat × Rat)) (r : HRow)
    (h : r ∈ reEstimate hist vals) : ∃ r' ∈ hist, pairOf r' = pairOf r := by
  have : pairOf r ∈ (reEstimate hist vals).map pairOf := List.mem_map_of_mem h
  rw [reEstimate_pairs] at this
  obtain ⟨r', hr', he⟩ := List.mem_map.mp this
  exact ⟨r', hr', he⟩

theorem getElem_reEstimate_pair (hist : List HRow) (vals : List (Rat × Rat)) (i : Nat) (r : HRow)
    (h : (reEstimate hist vals)[i]? = some r) : ∃ r', hist[i]? = some r' ∧ pairOf r' = pairOf r := by
  have h1 : ((reEstimate hist vals).map pairOf)[i]? = some (pairOf r) := by simp [h]
  rw [reEstimate_pairs] at h1
  simp only [List.getElem?_map, Option.map_eq_some_iff] at h1
  exact h1

theorem setAt_mem {α : Type} (l : List α) (i : Nat) (a b : α) (h : b ∈ setAt l i a) : b = a ∨ b ∈ l := by
  unfold setAt at h
  split at h
  · rcases List.mem_or_eq_of_mem_set h with h | h
    · exact Or.inr h
    · exact Or.inl h
  · rcases List.mem_append.mp h with h | h
    · exact Or.inr h
    · exact Or.inl (by simpa using h)

theorem setAt_get {α : Type} (l : List α) (i : Nat) (a : α) (h : i ≤ l.length) : (setAt l i a)[i]? = some a := by
  unfold setAt
  split
  · rename_i hlt; simp [hlt]
  · have : i = l.length := by omega
    subst this; simp

theorem setAt_length {α : Type} (l : List α) (i : Nat) (a : α) (h : i ≤ l.length) :
    (setAt l i a).length = max l.length (i + 1) := by
  unfold setAt
  split
  · simp; omega
  · simp; omega

theorem sumL_append (a b : List Rat) : sumL (a ++ b) = sumL a + sumL b := by
  induction a with
  | nil => simp [sumL]
  | cons x xs ih => simp [sumL, ih]; ring

end Bads.Noisy
