import BadsModel.Mesh
import BadsProofs.Lemmas.NumLemmas
import BadsProofs.Lemmas.FilterLemmas

namespace Bads

theorem forceToGrid_ge (h x : Rat) (hh : 0 < h) : x - h / 2 ≤ forceToGrid h x := by
  have := abs_le.mp (forceToGrid_close h x hh); linarith [this.1]

theorem forceToGrid_le (h x : Rat) (hh : 0 < h) : forceToGrid h x ≤ x + h / 2 := by
  have := abs_le.mp (forceToGrid_close h x hh); linarith [this.2]

/-- The lower search bound is never below the hard bound, and within one mesh step of it. -/
theorem searchLo1_ge (h a : Rat) (hh : 0 < h) :
    ∃ g, searchLo1 h (.fin a) = .fin g ∧ a ≤ g ∧ g ≤ a + h := by
  simp only [searchLo1]
  refine ⟨_, rfl, ?_, ?_⟩ <;> split <;> first
    | (have := forceToGrid_ge h a hh; linarith)
    | (have := forceToGrid_le h a hh; linarith)
    | (rename_i hlt; linarith)
    | (rename_i hlt; push_cast at hlt; linarith [not_lt.mp hlt])

theorem searchHi1_le (h b : Rat) (hh : 0 < h) :
    ∃ g, searchHi1 h (.fin b) = .fin g ∧ g ≤ b ∧ b - h ≤ g := by
  simp only [searchHi1]
  refine ⟨_, rfl, ?_, ?_⟩ <;> split <;> first
    | (have := forceToGrid_ge h b hh; linarith)
    | (have := forceToGrid_le h b hh; linarith)
    | (rename_i hlt; linarith)
    | (rename_i hlt; linarith [not_lt.mp hlt])

/-- A point inside the search box is inside the hard box. -/
theorem inBox_search_sub (h : Rat) (hh : 0 < h) : ∀ (lb ub : List Ext) (p : Pt),
    inBoxB (searchLo h lb) (searchHi h ub) p = true → inBoxB lb ub p = true
  | [], [], [], _ => by simp [inBoxB]
  | l :: lb, u :: ub, x :: p, hb => by
    simp only [searchLo, searchHi, List.map_cons, inBoxB, Bool.and_eq_true, decide_eq_true_eq] at hb
    obtain ⟨⟨h1, h2⟩, h3⟩ := hb
    simp only [inBoxB, Bool.and_eq_true, decide_eq_true_eq]
    refine ⟨⟨?_, ?_⟩, inBox_search_sub h hh lb ub p (by simpa [searchLo, searchHi] using h3)⟩
    · cases l with
      | fin a =>
        obtain ⟨g, hg, hge, _⟩ := searchLo1_ge h a hh
        rw [hg] at h1; simp only [geLo] at *; linarith
      | pinf => simp [searchLo1, geLo] at h1
      | ninf => simp [geLo]
      | nan => simp [searchLo1, geLo] at h1
    · cases u with
      | fin b =>
        obtain ⟨g, hg, hle, _⟩ := searchHi1_le h b hh
        rw [hg] at h2; simp only [leHi] at *; linarith
      | pinf => simp [leHi]
      | ninf => simp [searchHi1, leHi] at h2
      | nan => simp [searchHi1, leHi] at h2
  | [], [], _ :: _, hb => by simp [searchLo, searchHi, inBoxB] at hb
  | [], _ :: _, [], hb => by simp [searchLo, searchHi, inBoxB] at hb
  | [], _ :: _, _ :: _, hb => by simp [searchLo, searchHi, inBoxB] at hb
  | _ :: _, [], _, hb => by simp [searchLo, searchHi, inBoxB] at hb
  | _ :: _, _ :: _, [], hb => by simp [searchLo, searchHi, inBoxB] at hb

end Bads

namespace Bads

/-- Finite sides of the box are at least two mesh steps wide. -/
def wideB (h : Rat) : List Ext → List Ext → Bool
  | [], [] => true
  | .fin a :: lb, .fin b :: ub => decide (2 * h ≤ b - a) && wideB h lb ub
  | _ :: lb, _ :: ub => wideB h lb ub
  | _, _ => false

/-- The search box of a wide enough, well-formed box is itself well-formed (non-empty). -/
theorem searchBox_ok (h : Rat) (hh : 0 < h) : ∀ (lb ub : List Ext), boxOK lb ub = true → wideB h lb ub = true →
    boxOK (searchLo h lb) (searchHi h ub) = true
  | [], [], _, _ => by simp [searchLo, searchHi, boxOK]
  | l :: lb, u :: ub, hb, hw => by
    simp only [boxOK, Bool.and_eq_true] at hb
    obtain ⟨⟨⟨h1, h2⟩, h3⟩, h4⟩ := hb
    have hw' : wideB h lb ub = true := by
      cases l <;> cases u <;> simp_all [wideB]
    have ih := searchBox_ok h hh lb ub h4 hw'
    simp only [searchLo, searchHi, List.map_cons, boxOK, Bool.and_eq_true]
    refine ⟨⟨⟨?_, ?_⟩, ?_⟩, by simpa [searchLo, searchHi] using ih⟩
    · cases l <;> simp_all [searchLo1, isLo]
    · cases u <;> simp_all [searchHi1, isHi]
    · cases l with
      | fin a =>
        cases u with
        | fin b =>
          obtain ⟨g1, hg1, _, hle1⟩ := searchLo1_ge h a hh
          obtain ⟨g2, hg2, _, hge2⟩ := searchHi1_le h b hh
          have hwd : 2 * h ≤ b - a := by
            simp only [wideB, Bool.and_eq_true, decide_eq_true_eq] at hw; exact hw.1
          rw [hg1, hg2]; simp only [loLeHi, decide_eq_true_eq]; linarith
        | pinf => simp [searchLo1, searchHi1, loLeHi]
        | ninf => simp [isHi] at h2
        | nan => simp [isHi] at h2
      | ninf => cases u <;> simp [searchLo1, searchHi1, loLeHi]
      | pinf => simp [isLo] at h1
      | nan => simp [isLo] at h1
  | [], _ :: _, hb, _ => by simp [boxOK] at hb
  | _ :: _, [], hb, _ => by simp [boxOK] at hb

theorem searchLo_length (h : Rat) (lb : List Ext) : (searchLo h lb).length = lb.length := by
  simp [searchLo]

end Bads
