import BadsModel.Controller
import Mathlib.Tactic.Linarith

namespace Bads.Ctl

/-- Control invariant of the loop. -/
def CInv (o : Opts) (c : CSt) : Prop :=
  c.sc ≤ o.nTry ∧ (0 < c.sc → c.sc < o.nTry → c.nRec > o.D) ∧ (c.ss > 0 → 0 < c.sc) ∧
  (c.sc = o.nTry → c.ss = 0)

/-- Budget invariant: the count never exceeds the budget, and an unfinished state still has
    budget left - except the loop-entry state (search_count = search_n_try), which runs no search. -/
def BInv (o : Opts) (c : CSt) : Prop :=
  c.fc ≤ o.budget ∧ (c.finished = false → c.fc < o.budget ∨ c.sc = o.nTry)

def X (o : Opts) (c : CSt) : Nat :=
  (o.maxIter - c.pollIter) + (o.budget - c.fc) + (if c.ss > 0 then 1 else 0)
def Y (o : Opts) (c : CSt) : Nat := o.nTry - c.sc

/-- Scalar ranking function: lexicographic (X, Y) packed into one natural number. -/
def rank (o : Opts) (c : CSt) : Nat := (o.nTry + 1) * X o c + Y o c

theorem lex_to_rank (n x x' y y' : Nat)
    (h : (x' + 1 ≤ x ∧ y' ≤ n) ∨ (x' = x ∧ y' + 1 ≤ y)) :
    (n+1)*x' + y' + 1 ≤ (n+1)*x + y := by
  rcases h with ⟨h1, h2⟩ | ⟨h1, h2⟩
  · have : (n+1)*(x'+1) ≤ (n+1)*x := Nat.mul_le_mul_left _ h1
    rw [Nat.mul_add] at this; omega
  · subst h1; omega

theorem cstep_lex (o : Opts) (c : CSt) (co : COut) (hn : 1 ≤ o.nTry)
    (hinv : CInv o c) (hnf : (cstep o c co).finished = false) :
    (X o (cstep o c co) + 1 ≤ X o c ∧ Y o (cstep o c co) ≤ o.nTry) ∨
    (X o (cstep o c co) = X o c ∧ Y o (cstep o c co) + 1 ≤ Y o c) := by
  obtain ⟨h1, h2, h3, h4⟩ := hinv
  simp only [cstep, cAfterSearch, cReset, doSearch, doPoll, skipPoll, atEnd, nEvals, X, Y, b2n] at *
  grind

theorem cstep_rank (o : Opts) (c : CSt) (co : COut) (hn : 1 ≤ o.nTry)
    (hinv : CInv o c) (hnf : (cstep o c co).finished = false) :
    rank o (cstep o c co) + 1 ≤ rank o c :=
  lex_to_rank _ _ _ _ _ (cstep_lex o c co hn hinv hnf)

theorem cstep_inv (o : Opts) (c : CSt) (co : COut) (hn : 1 ≤ o.nTry) (hinv : CInv o c) :
    CInv o (cstep o c co) := by
  obtain ⟨h1, h2, h3, h4⟩ := hinv
  simp only [CInv, cstep, cAfterSearch, cReset, doSearch, doPoll, skipPoll, atEnd, nEvals, b2n] at *
  grind

theorem cstep_binv (o : Opts) (c : CSt) (co : COut) (_hn : 1 ≤ o.nTry)
    (hb : BInv o c) (hnf : c.finished = false) : BInv o (cstep o c co) := by
  obtain ⟨h1, h2⟩ := hb
  simp only [BInv, cstep, cAfterSearch, cReset, doSearch, doPoll, skipPoll, atEnd, nEvals, b2n] at *
  grind

theorem cstep_pollIter (o : Opts) (c : CSt) (co : COut) (h : c.pollIter + 1 ≤ max o.maxIter 1) :
    (cstep o c co).pollIter + 1 ≤ max o.maxIter 1 := by
  simp only [cstep, cAfterSearch, cReset, doSearch, doPoll, skipPoll, atEnd, nEvals, b2n] at *
  grind

theorem cstep_fc_mono (o : Opts) (c : CSt) (co : COut) : c.fc ≤ (cstep o c co).fc := by
  simp only [cstep, cAfterSearch, cReset, doSearch, doPoll, skipPoll, atEnd, nEvals, b2n]
  grind

theorem cstep_msg_sound (o : Opts) (c : CSt) (co : COut) :
    msgSound o (cstep o c co) co.meshStop co.stallStop = true := by
  simp only [msgSound, cstep, cAfterSearch, cReset, doSearch, doPoll, skipPoll, atEnd, nEvals, b2n]
  grind

theorem no_idle (o : Opts) (c : CSt) (search : SOut) (hinv : CInv o c) :
    doSearch o c = true ∨ doPoll o (cAfterSearch o c search) = true := by
  obtain ⟨h1, h2, h3, h4⟩ := hinv
  simp only [cAfterSearch, doSearch, doPoll, skipPoll, atEnd, b2n] at *
  grind

end Bads.Ctl
