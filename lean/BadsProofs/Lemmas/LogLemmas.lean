import BadsModel.Logger
import Mathlib.Tactic.Linarith
import Mathlib.Tactic.FieldSimp
import Mathlib.Tactic.Ring

namespace Bads.Log

theorem modAt_length (f : Row → Row) : ∀ (l : List Row) (i : Nat), (modAt f l i).length = l.length
  | [], _ => rfl
  | _ :: _, 0 => rfl
  | _ :: rs, i + 1 => by simp [modAt, modAt_length f rs i]

/-- A projection that `f` preserves is preserved by `modAt`. -/
theorem modAt_map {β : Type} (f : Row → Row) (g : Row → β) (h : ∀ r, g (f r) = g r) :
    ∀ (l : List Row) (i : Nat), (modAt f l i).map g = l.map g
  | [], _ => rfl
  | r :: rs, 0 => by simp [modAt, h r]
  | r :: rs, i + 1 => by simp [modAt, modAt_map f g h rs i]

theorem modAt_get_ne (f : Row → Row) : ∀ (l : List Row) (i j : Nat), j ≠ i → (modAt f l i)[j]? = l[j]?
  | [], _, _, _ => rfl
  | r :: rs, 0, 0, h => absurd rfl h
  | r :: rs, 0, j + 1, _ => by simp [modAt]
  | r :: rs, i + 1, 0, _ => by simp [modAt]
  | r :: rs, i + 1, j + 1, h => by
    simp only [modAt, List.getElem?_cons_succ]
    exact modAt_get_ne f rs i j (by omega)

theorem modAt_get_eq (f : Row → Row) : ∀ (l : List Row) (i : Nat) (r : Row), l[i]? = some r →
    (modAt f l i)[i]? = some (f r)
  | [], _, _, h => by simp at h
  | r :: rs, 0, r', h => by simp at h; simp [modAt, h]
  | r :: rs, i + 1, r', h => by
    simp only [List.getElem?_cons_succ] at h
    simp only [modAt, List.getElem?_cons_succ]
    exact modAt_get_eq f rs i r' h

theorem firstMatch_spec (x : Pt) : ∀ (l : List Row) (i : Nat), firstMatch x l = some i →
    ∃ r, l[i]? = some r ∧ (r.x == x) = true
  | [], _, h => by simp [firstMatch] at h
  | r :: rs, i, h => by
    unfold firstMatch at h
    split at h
    · rename_i hx
      have : i = 0 := by simpa using h.symm
      subst this
      exact ⟨r, rfl, hx⟩
    · cases hf : firstMatch x rs with
      | none => simp [hf] at h
      | some k =>
        simp only [hf, Option.map_some, Option.some.injEq] at h
        subst h
        obtain ⟨r', h1, h2⟩ := firstMatch_spec x rs k hf
        exact ⟨r', by simpa using h1, h2⟩

theorem lastMatch_spec (x : Pt) : ∀ (l : List Row) (i : Nat), lastMatch x l = some i →
    ∃ r, l[i]? = some r ∧ (r.x == x) = true
  | [], _, h => by simp [lastMatch] at h
  | r :: rs, i, h => by
    unfold lastMatch at h
    cases hl : lastMatch x rs with
    | some k =>
      simp only [hl, Option.some.injEq] at h
      subst h
      obtain ⟨r', h1, h2⟩ := lastMatch_spec x rs k hl
      exact ⟨r', by simpa using h1, h2⟩
    | none =>
      simp only [hl] at h
      split at h
      · rename_i hx
        have : i = 0 := by simpa using h.symm
        subst this
        exact ⟨r, rfl, hx⟩
      · simp at h

/-! ### Observations merged into a row -/

/-- One observation: value and precision `1/sd^2`. -/
abbrev Obs := Rat × Rat

def tsum : List Obs → Rat
  | [] => 0
  | o :: os => o.2 + tsum os
def wsum : List Obs → Rat
  | [] => 0
  | o :: os => o.2 * o.1 + wsum os

theorem tsum_append (a b : List Obs) : tsum (a ++ b) = tsum a + tsum b := by
  induction a with
  | nil => simp [tsum]
  | cons o os ih => simp [tsum, ih]; ring

theorem wsum_append (a b : List Obs) : wsum (a ++ b) = wsum a + wsum b := by
  induction a with
  | nil => simp [wsum]
  | cons o os ih => simp [wsum, ih]; ring

/-- The row holds exactly the precision-weighted summary of the observations `obs`. -/
def RowOK (r : Row) (obs : List Obs) : Prop :=
  r.tau = some (tsum obs) ∧ r.y * tsum obs = wsum obs ∧ r.n = obs.length ∧ 0 < tsum obs

theorem tsum_pos_of (obs : List Obs) (h : ∀ o ∈ obs, 0 < o.2) (hne : obs ≠ []) : 0 < tsum obs := by
  induction obs with
  | nil => exact absurd rfl hne
  | cons o os ih =>
    simp only [tsum]
    have ho := h o List.mem_cons_self
    by_cases hos : os = []
    · subst hos; simp [tsum]; exact ho
    · have := ih (fun o' ho' => h o' (List.mem_cons_of_mem _ ho')) hos
      linarith

/-- If every observation lies in `[a, b]`, so does the weighted sum (scaled). -/
theorem wsum_bounds (obs : List Obs) (a b : Rat) (hp : ∀ o ∈ obs, 0 < o.2)
    (hr : ∀ o ∈ obs, a ≤ o.1 ∧ o.1 ≤ b) : a * tsum obs ≤ wsum obs ∧ wsum obs ≤ b * tsum obs := by
  induction obs with
  | nil => simp [tsum, wsum]
  | cons o os ih =>
    have ho := hp o List.mem_cons_self
    have hro := hr o List.mem_cons_self
    have := ih (fun o' ho' => hp o' (List.mem_cons_of_mem _ ho')) (fun o' ho' => hr o' (List.mem_cons_of_mem _ ho'))
    simp only [tsum, wsum]
    constructor <;> nlinarith [this.1, this.2, hro.1, hro.2]

end Bads.Log
