/-
  C03 - optimize() terminates within the evaluation budget and counts honestly.

  Theorems about `Ctl.step`/`Ctl.run`, the model of the main loop's control skeleton, for
  EVERY oracle stream of search and poll outcomes (all sequences of empty / failure /
  incremental / success searches and 0..2D-evaluation polls, including those no finite
  sample of runs exhibits).  Termination of the IMPLEMENTATION additionally needs every
  oracle call (GP fit, ES, the user's target) to return; that is outside the model.
-/
import BadsProofs.Lemmas.CtlLemmas
import Generated.Defaults

namespace Bads.Ctl

/-- Hypothesis on the option files (re-proved from the regenerated defaults on every run). -/
def HypC03 (d : Generated.Defaults) : Prop := 1 ≤ d.search_n_try ∧ d.stobads = false ∧ 1 ≤ d.max_iter

theorem defaults_satisfy_HypC03 : ∀ d ∈ Generated.defaults, HypC03 d := by
  unfold HypC03; decide

/-- The loop-entry state satisfies the invariants. -/
theorem init_inv (o : Opts) (fc0 nRec0 : Nat) (msi0 : Int) : CInv o (init o fc0 nRec0 msi0).c := by
  simp [CInv, init]

theorem init_binv (o : Opts) (fc0 nRec0 : Nat) (msi0 : Int) (h : fc0 ≤ o.budget) :
    BInv o (init o fc0 nRec0 msi0).c := by
  simp [BInv, init, h]

/-- The counters of the full model evolve by `cstep` (by construction). -/
theorem step_c (o : Opts) (s : St) (out : Out) : (step o s out).c = cstep o s.c (coutOf o s out) := rfl

theorem run_finished (o : Opts) (oracle : Nat → Out) (n : Nat) (s : St) (h : s.c.finished = true) :
    run o oracle n s = s := by
  cases n <;> simp [run, h]

/-- Invariants hold in every reachable state. -/
theorem run_inv (o : Opts) (hn : 1 ≤ o.nTry) :
    ∀ (n : Nat) (oracle : Nat → Out) (s : St), CInv o s.c → CInv o (run o oracle n s).c
  | 0, _, _, h => h
  | n + 1, oracle, s, h => by
    unfold run
    split
    · exact h
    · exact run_inv o hn n _ _ (cstep_inv o s.c _ hn h)

/-- BUDGET: in every reachable state the number of target calls is at most the budget
    (given that the initial design did not already exceed it). -/
theorem budget_inv (o : Opts) (hn : 1 ≤ o.nTry) :
    ∀ (n : Nat) (oracle : Nat → Out) (s : St), BInv o s.c → (run o oracle n s).c.fc ≤ o.budget
  | 0, _, _, h => h.1
  | n + 1, oracle, s, h => by
    unfold run
    split
    · exact h.1
    · rename_i hf
      exact budget_inv o hn n _ _ (cstep_binv o s.c _ hn h (by simpa using hf))

/-- Noisy targets reserve `reserve = min nfs (B - fc0)` evaluations before the loop and spend at
    most that many afterwards: the total never exceeds the user's budget `B`. -/
theorem total_calls_le (B fc0 nfs fcFinal finalSamples : Nat) (h0 : fc0 ≤ B)
    (hloop : fcFinal ≤ B - min nfs (B - fc0)) (hfin : finalSamples ≤ min nfs (B - fc0)) :
    fcFinal + finalSamples ≤ B := by
  omega

/-- The reserve never pushes the loop budget below the initial design size. -/
theorem reserve_keeps_init (B fc0 nfs : Nat) (h0 : fc0 ≤ B) : fc0 ≤ B - min nfs (B - fc0) := by
  omega

/-- POLL ITERATIONS: `poll_iteration ≤ max_iter - 1` in every reachable state, i.e. at most
    `max_iter` poll steps are ever executed. -/
theorem poll_iters_le (o : Opts) :
    ∀ (n : Nat) (oracle : Nat → Out) (s : St), s.c.pollIter + 1 ≤ max o.maxIter 1 →
      (run o oracle n s).c.pollIter + 1 ≤ max o.maxIter 1
  | 0, _, _, h => h
  | n + 1, oracle, s, h => by
    unfold run
    split
    · exact h
    · exact poll_iters_le o n _ _ (cstep_pollIter o s.c _ h)

/-- NO IDLE ITERATION: an iteration of the loop always runs a search or a poll. -/
theorem no_idle_iteration (o : Opts) (s : St) (out : Out) (h : CInv o s.c) :
    ranSearch o s = true ∨ ranPoll o s out = true :=
  no_idle o s.c out.search h

/-- TERMINATION with an explicit bound, for every oracle stream: after at most
    `rank + 1` iterations the loop has finished. -/
theorem terminates_from (o : Opts) (hn : 1 ≤ o.nTry) :
    ∀ (n : Nat) (oracle : Nat → Out) (s : St), CInv o s.c → rank o s.c < n →
      (run o oracle n s).c.finished = true
  | 0, _, _, _, h => by omega
  | n + 1, oracle, s, hinv, hr => by
    unfold run
    split
    · assumption
    · rename_i hf
      by_cases hf' : (step o s (oracle 0)).c.finished = true
      · rw [run_finished o _ n _ hf']; exact hf'
      · have hdec := cstep_rank o s.c (coutOf o s (oracle 0)) hn hinv (by simpa [step_c] using hf')
        exact terminates_from o hn n _ _ (cstep_inv o s.c _ hn hinv) (by rw [step_c]; omega)

theorem rank_init_le (o : Opts) (fc0 nRec0 : Nat) (msi0 : Int) :
    rank o (init o fc0 nRec0 msi0).c ≤ (o.nTry + 1) * (o.maxIter + o.budget) := by
  simp only [rank, X, Y, init]
  have : o.maxIter - 0 + (o.budget - fc0) + 0 ≤ o.maxIter + o.budget := by omega
  simp only [Nat.lt_irrefl, if_false, Nat.sub_self, Nat.add_zero]
  exact Nat.mul_le_mul_left _ this

/-- TERMINATION of a whole run: for all oracle streams the loop finishes within
    `(nTry+1)·(maxIter + budget) + 1` iterations. -/
theorem terminates (o : Opts) (hn : 1 ≤ o.nTry) (oracle : Nat → Out) (fc0 nRec0 : Nat) (msi0 : Int) :
    ∃ n ≤ (o.nTry + 1) * (o.maxIter + o.budget) + 1,
      (run o oracle n (init o fc0 nRec0 msi0)).c.finished = true :=
  ⟨_, Nat.le_refl _, terminates_from o hn _ oracle _ (init_inv o fc0 nRec0 msi0)
    (Nat.lt_succ_of_le (rank_init_le o fc0 nRec0 msi0))⟩

/-- MESSAGE: the termination message names a stopping condition that holds at exit. -/
theorem msg_sound (o : Opts) (s : St) (out : Out) :
    msgSound o (step o s out).c (decide ((step o s out).m.msi < o.tolExp)) out.stallStop = true :=
  cstep_msg_sound o s.c (coutOf o s out)

/-- The count only grows, and by at most `1 + 2D` per iteration. -/
theorem fc_mono (o : Opts) (s : St) (out : Out) : s.c.fc ≤ (step o s out).c.fc :=
  cstep_fc_mono o s.c _

/-! Non-vacuity: a concrete option set and state satisfying the hypotheses. -/
example : let o : Opts := { D := 2, nTry := 4, budget := 50, maxIter := 400, skip := true, cap := 0, sgm := 2,
                            sgn := 10, locked := true, accel := true, accelSteps := 3, stallIters := 5,
                            tolExp := -19, expand := 0, incr := 1 }
    1 ≤ o.nTry ∧ CInv o (init o 5 4 0).c ∧ BInv o (init o 5 4 0).c := by
  refine ⟨by decide, init_inv _ _ _ _, init_binv _ _ _ _ (by decide)⟩

end Bads.Ctl
