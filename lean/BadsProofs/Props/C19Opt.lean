/-
  C19 over ONE WHOLE CALL of `optimize()` (model `Opt`): the history the caller gets with the result - after the initial phase, the loop in any
  noise mode and the final choice among the recorded iterates - records only points at which the target was really called, with a value observed
  there; the returned point is one of the recorded iterates when the final choice is made; while the loop runs the recording index is right.
-/
import BadsProofs.Props.C19Run
import BadsProofs.Props.C03Opt
import BadsProofs.Props.C05Opt
import BadsProofs.Props.C05

namespace Bads.Opt
open Bads

/-- the history as the caller sees it: after the final re-estimation / choice -/
def finalHist (e : Env) (io : InitOrc) (qs : List Full.Orc) (fo : FinalOrc) : List Noisy.HRow :=
  (finalNs (init e io) (optimize e io qs fo).loop fo).hist

/-- every recorded iterate pairs a point with a value that the logger returned AT THAT POINT during the run -/
theorem optimize_recorded_iterates_observed (e : Env) (hb : boxOK e.full.pipe.lb e.full.pipe.ub = true) (hn : 1 ≤ e.full.o.nTry)
    (io : InitOrc) (hi : InitOK e io) (hf : Fits e io) (qs : List Full.Orc) (hq : RunOK e io qs) (fo : FinalOrc) :
    ∀ row ∈ finalHist e io qs fo, (row.u, row.yval) ∈ (optimize e io qs fo).loop.pairs := by
  have hinv := init_inv e hb io hi hf
  have hrinv := Full.run_inv (loopEnv e (init e io)) hb hn qs (loopStart e (init e io)) hq hinv
  intro row hr
  have h := (finalNs_pinv (init e io) _ fo hrinv.1).2.2 row hr
  simp only [Noisy.pairOf] at h
  exact h

/-- every logged pair of a whole call belongs to a target call of the call sequence, made at the same point -/
theorem optimize_pairs_called (e : Env) (io : InitOrc) (qs : List Full.Orc) (fo : FinalOrc) :
    ∀ p ∈ (optimize e io qs fo).loop.pairs, ∃ c ∈ (optimize e io qs fo).calls, c.1 = p.1 := by
  obtain ⟨l, hl⟩ := run_pairs_append (loopEnv e (init e io)) qs (loopStart e (init e io))
  have hl' : (optimize e io qs fo).loop.pairs = (init e io).pairs ++ l := hl
  intro p hp
  rw [hl'] at hp
  have hcalls : (optimize e io qs fo).calls
      = (init e io).calls ++ (l.map (fun p => (p.1, true))) ++ List.replicate (init e io).nfsEff ((finalNs (init e io) (optimize e io qs fo).loop fo).u, false) := by
    show (finish (init e io) (Full.run (loopEnv e (init e io)) qs (loopStart e (init e io))) fo).calls = _
    have hp0 : (loopStart e (init e io)).pairs = (init e io).pairs := rfl
    simp only [finish]
    rw [hl, hp0, List.drop_left]
    rfl
  rw [hcalls]
  rcases List.mem_append.mp hp with hp | hp
  · -- a pair of the initial phase
    rw [init_pairs_eq] at hp
    unfold initPairs at hp
    simp only [List.mem_append, List.mem_singleton, List.mem_map] at hp
    have hc : ∃ c ∈ initCalls e io, c.1 = p.1 := by
      unfold initCalls
      rcases hp with (hp | hp) | ⟨d, hd, rfl⟩
      · exact ⟨(io.u0, true), by simp, by rw [hp]⟩
      · split at hp
        · simp only [List.mem_singleton] at hp
          exact ⟨(io.u0, true), by simp, by rw [hp]⟩
        · cases hp
      · exact ⟨(d.1, true), by simp only [List.mem_append, List.mem_map]; exact Or.inr ⟨d, hd, rfl⟩, rfl⟩
    obtain ⟨c, hc, hc1⟩ := hc
    exact ⟨c, by rw [init_calls_eq]; simp [hc], hc1⟩
  · exact ⟨(p.1, true), by simp only [List.mem_append, List.mem_map]; exact Or.inl (Or.inr ⟨p, hp, rfl⟩), rfl⟩

/-- C19, WHOLE CALL: every recorded iterate is a point at which the target was called during this call -/
theorem optimize_recorded_iterates_called (e : Env) (hb : boxOK e.full.pipe.lb e.full.pipe.ub = true) (hn : 1 ≤ e.full.o.nTry)
    (io : InitOrc) (hi : InitOK e io) (hf : Fits e io) (qs : List Full.Orc) (hq : RunOK e io qs) (fo : FinalOrc) :
    ∀ row ∈ finalHist e io qs fo, ∃ c ∈ (optimize e io qs fo).calls, c.1 = row.u := by
  intro row hr
  exact optimize_pairs_called e io qs fo _ (optimize_recorded_iterates_observed e hb hn io hi hf qs hq fo row hr)

/-- the returned point is a point at which the target was called (recorded), in every noise mode -/
theorem optimize_returned_called (e : Env) (hb : boxOK e.full.pipe.lb e.full.pipe.ub = true) (hn : 1 ≤ e.full.o.nTry)
    (io : InitOrc) (hi : InitOK e io) (hf : Fits e io) (qs : List Full.Orc) (hq : RunOK e io qs) (fo : FinalOrc) :
    ∃ c ∈ (optimize e io qs fo).calls, c.1 = (optimize e io qs fo).u :=
  optimize_pairs_called e io qs fo _ (returned_x_evaluated e hb hn io hi hf qs hq fo)

/-- C19, WHOLE CALL, noisy modes: when the final choice is made (uncertainty handled, at least one poll iteration, the quantile argmin `i`
    inside the history) the returned point IS the `i`-th recorded iterate, with its recorded observed value -/
theorem optimize_returned_is_recorded_iterate (e : Env) (io : InitOrc) (qs : List Full.Orc) (fo : FinalOrc) (i : Nat)
    (hu : (init e io).unc > 0) (hp : (optimize e io qs fo).loop.ctl.c.pollIter > 0)
    (ha : Noisy.argminFrom1 fo.qs = some i) (hlt : i < (optimize e io qs fo).loop.ns.hist.length) :
    ∃ r, (optimize e io qs fo).loop.ns.hist[i]? = some r ∧ (optimize e io qs fo).u = r.u
      ∧ (finalNs (init e io) (optimize e io qs fo).loop fo).yval = r.yval := by
  have hfin : finalNs (init e io) (optimize e io qs fo).loop fo = Noisy.finalChoice (optimize e io qs fo).loop.ns fo.reVals fo.qs := by
    unfold finalNs
    rw [if_pos ⟨hu, hp⟩]
  have hu' : (optimize e io qs fo).u = (finalNs (init e io) (optimize e io qs fo).loop fo).u := rfl
  obtain ⟨r, hr, h1, h2⟩ := Noisy.final_point_is_iterate (optimize e io qs fo).loop.ns fo.reVals fo.qs i ha hlt
  exact ⟨r, hr, by rw [hu', hfin]; exact h1, by rw [hfin]; exact h2⟩

/-- ... and when it is not made (deterministic target, or no poll iteration) the returned point is the loop's incumbent, untouched -/
theorem optimize_returned_is_incumbent (e : Env) (io : InitOrc) (qs : List Full.Orc) (fo : FinalOrc)
    (h : ¬ ((init e io).unc > 0 ∧ (optimize e io qs fo).loop.ctl.c.pollIter > 0)) :
    (optimize e io qs fo).u = (optimize e io qs fo).loop.ns.u ∧ finalHist e io qs fo = (optimize e io qs fo).loop.ns.hist := by
  have hfin : finalNs (init e io) (optimize e io qs fo).loop fo = (optimize e io qs fo).loop.ns := by
    unfold finalNs
    rw [if_neg h]
  have hu' : (optimize e io qs fo).u = (finalNs (init e io) (optimize e io qs fo).loop fo).u := rfl
  exact ⟨by rw [hu', hfin], by unfold finalHist; rw [hfin]⟩

/-- THE RECORDING INDEX IS RIGHT in a whole call: as long as the loop has not finished, the history has exactly `poll_iteration` rows -/
theorem optimize_hist_length_while_running (e : Env) (hb : boxOK e.full.pipe.lb e.full.pipe.ub = true) (hn : 1 ≤ e.full.o.nTry)
    (io : InitOrc) (hi : InitOK e io) (hf : Fits e io) (qs : List Full.Orc) (hq : RunOK e io qs) (fo : FinalOrc)
    (hrun : (optimize e io qs fo).loop.ctl.c.finished = false) :
    (optimize e io qs fo).loop.ns.hist.length = (optimize e io qs fo).loop.ctl.c.pollIter :=
  (Full.run_inv (loopEnv e (init e io)) hb hn qs (loopStart e (init e io)) hq (init_inv e hb io hi hf)).2.2.2.2.2 hrun

/-- `func_count` of the result counts every target call of the call, and no loop state ever reported more -/
theorem optimize_func_count_final (e : Env) (hb : boxOK e.full.pipe.lb e.full.pipe.ub = true) (hn : 1 ≤ e.full.o.nTry)
    (io : InitOrc) (hi : InitOK e io) (hf : Fits e io) (qs : List Full.Orc) (hq : RunOK e io qs) (fo : FinalOrc) :
    (optimize e io qs fo).funcCount = (optimize e io qs fo).calls.length ∧ (optimize e io qs fo).loop.ctl.c.fc ≤ (optimize e io qs fo).funcCount :=
  ⟨(optimize_budget e hb hn io hi hf qs hq fo).2, Nat.le_add_right _ _⟩

namespace Example
open Bads.Full.Example
/-- non-vacuity: in the whole call of C05Opt's example run for three iterations the final choice runs (noise detected, two poll iterations, two
    recorded iterates, quantile argmin = iterate 1) and the hypotheses of `optimize_returned_is_recorded_iterate` hold -/
example : (init eX ioX).unc = 1 := by decide +kernel
example : (optimize eX ioX [q1, q2, q2] foX).loop.ctl.c.pollIter = 2 ∧ (optimize eX ioX [q1, q2, q2] foX).loop.ns.hist.length = 2 ∧
    Noisy.argminFrom1 foX.qs = some 1 ∧ (finalHist eX ioX [q1, q2, q2] foX).map (·.u) = [[1], [1]] ∧
    (optimize eX ioX [q1, q2, q2] foX).u = [1] ∧ (optimize eX ioX [q1, q2, q2] foX).loop.ctl.c.finished = false := by decide +kernel
end Example

end Bads.Opt
