/-
  C18 over ONE WHOLE CALL of `optimize()` (model `Opt` / `Full`): in every iteration of the loop the search step evaluates AT MOST ONE point,
  that point is the survivor of the filtered search set the acquisition ranking picked (`searchPick`, the oracle's argmin - `es_returns_argmin` of
  C18 says what the real strategy hands over), it is evaluated once (one logged pair), and an iteration that runs no search evaluates nothing
  in a search step.  The picked point lies in the hard box and is feasible (`optimize_calls_ok`).
-/
import BadsProofs.Props.C18
import BadsProofs.Props.C19Run
import BadsProofs.Props.C13Opt

namespace Bads.Opt
open Bads

/-- the points the search step of iteration `(s, q)` evaluates -/
def searchEvals (e : Full.Env) (s : Full.St) (q : Full.Orc) : List Pt := ((Full.searchCand e s q).map (·.1.u)).toList

/-- the filtered search set of iteration `(s, q)`: projected on the search box, snapped, de-duplicated, feasible -/
def searchSet (e : Full.Env) (s : Full.St) (q : Full.Orc) : List Pt := filterCode (Pipe.filterIn e.pipe true q.h q.searchU (Full.pts s))

/-- ONCE AT MOST -/
theorem search_evals_at_most_one (e : Full.Env) (s : Full.St) (q : Full.Orc) : (searchEvals e s q).length ≤ 1 := by
  unfold searchEvals
  cases Full.searchCand e s q <;> simp

/-- THE PICKED ONE: the evaluated point is the `searchPick`-th survivor of the filtered search set, and the search was due -/
theorem search_eval_is_pick (e : Full.Env) (s : Full.St) (q : Full.Orc) (u : Pt) (h : u ∈ searchEvals e s q) :
    (searchSet e s q)[q.searchPick]? = some u ∧ Ctl.doSearch e.o s.ctl.c = true := by
  unfold searchEvals at h
  cases hc : Full.searchCand e s q with
  | none => rw [hc] at h; simp at h
  | some cn =>
    rw [hc] at h
    simp only [Option.map_some, Option.toList_some, List.mem_singleton] at h
    subst h
    unfold Full.searchCand at hc
    by_cases hd : Ctl.doSearch e.o s.ctl.c = true
    · rw [if_pos hd] at hc
      refine ⟨?_, hd⟩
      unfold searchSet
      cases hg : (filterCode (Pipe.filterIn e.pipe true q.h q.searchU (Full.pts s)))[q.searchPick]? with
      | none => rw [hg] at hc; cases hc
      | some u' =>
        rw [hg] at hc
        cases hv : q.searchVal with
        | none => rw [hv] at hc; cases hc
        | some v =>
          rw [hv] at hc
          simp only [Option.some.injEq] at hc
          subst hc
          rfl
    · rw [if_neg hd] at hc; cases hc

/-- ... hence a member of the filtered search set -/
theorem search_eval_in_search_set (e : Full.Env) (s : Full.St) (q : Full.Orc) (u : Pt) (h : u ∈ searchEvals e s q) : u ∈ searchSet e s q :=
  List.mem_of_getElem? (search_eval_is_pick e s q u h).1

/-- no search due, or nothing proposed / nothing survives the filter: the search step evaluates nothing -/
theorem no_search_no_eval (e : Full.Env) (s : Full.St) (q : Full.Orc)
    (h : Ctl.doSearch e.o s.ctl.c = false ∨ (searchSet e s q)[q.searchPick]? = none) : searchEvals e s q = [] := by
  cases hl : searchEvals e s q with
  | nil => rfl
  | cons u us =>
    have hm : u ∈ searchEvals e s q := by rw [hl]; exact List.mem_cons_self
    obtain ⟨h1, h2⟩ := search_eval_is_pick e s q u hm
    rcases h with h | h
    · rw [h] at h2; cases h2
    · rw [h] at h1; cases h1

/-- LOGGED ONCE: the pairs an iteration logs are the search evaluation (if any) followed by the poll evaluations -/
theorem iteration_logs_search_eval_once (e : Full.Env) (s : Full.St) (q : Full.Orc) :
    ((Full.step e s q).pairs.drop s.pairs.length).map (·.1) = searchEvals e s q ++ (Full.pollCands e s q).map (·.1.u) := by
  show (List.drop s.pairs.length (s.pairs ++ Full.newPairs e s q)).map (·.1) = _
  rw [List.drop_left]
  unfold Full.newPairs searchEvals
  cases Full.searchCand e s q <;> simp [Function.comp_def]

/-- in every iteration of the loop of a WHOLE CALL (states of `Reach`): at most one search evaluation, the picked survivor -/
theorem optimize_search_step (e : Env) (io : InitOrc) (s : Full.St) (q : Full.Orc)
    (_h : Reach (loopEnv e (init e io)) (loopStart e (init e io)) s) :
    (searchEvals (loopEnv e (init e io)) s q).length ≤ 1 ∧
    ∀ u ∈ searchEvals (loopEnv e (init e io)) s q, (searchSet (loopEnv e (init e io)) s q)[q.searchPick]? = some u :=
  ⟨search_evals_at_most_one _ s q, fun u hu => (search_eval_is_pick _ s q u hu).1⟩

namespace Example
open Bads.Full.Example
/-- non-vacuity: second iteration of the example call - a search is due, two candidates survive the filter, the second is picked and evaluated -/
example : searchEvals (loopEnv eX (init eX ioX)) (Full.step (loopEnv eX (init eX ioX)) (loopStart eX (init eX ioX)) q1) q2 =
      [(searchSet (loopEnv eX (init eX ioX)) (Full.step (loopEnv eX (init eX ioX)) (loopStart eX (init eX ioX)) q1) q2).getD q2.searchPick []] ∧
    searchEvals (loopEnv eX (init eX ioX)) (loopStart eX (init eX ioX)) q1 = [] := by decide +kernel
end Example

end Bads.Opt
