/-
  C07 - A fixed random_seed makes runs reproducible, independent of process history. (PARTIAL)

  For an ARBITRARY generator, arbitrary programs and arbitrary foreign activity before the
  construction and between construction and run.  The model knows only the entropy that flows
  through the global generator state; hash randomisation, BLAS threading, wall-clock dependent
  branches or a library drawing from its own `default_rng()` are outside it - they are what the
  differential pair (same run after a foreign process history) can expose, as testing.
-/
import BadsModel.Rng

namespace Bads.Rng

variable {S X R : Type}

theorem exec_foreign_only (reseed : Nat → S) (A : Inst S X R) : ∀ (fs : List (S → S)) (p : PState S X R),
    (exec reseed A p (fs.map Ev.foreign)).x0 = p.x0 ∧ (exec reseed A p (fs.map Ev.foreign)).result = p.result
  | [], p => ⟨rfl, rfl⟩
  | f :: fs, p => by
    simp only [exec, List.map_cons, List.foldl_cons]
    have := exec_foreign_only reseed A fs (step reseed A p (.foreign f))
    simpa [exec, step] using this

/-- THE START POINT DEPENDS ONLY ON THE SEED: whatever the generator state at construction. -/
theorem x0_draw_depends_only_on_seed (reseed : Nat → S) (A : Inst S X R) (n : Nat) (hs : A.seed = some n) (p p' : PState S X R) :
    (step reseed A p .construct).x0 = (step reseed A p' .construct).x0 := by
  simp only [step, hs]
  cases A.drawX0 with
  | none => rfl
  | some d => rfl

/-- THE RUN DEPENDS ONLY ON THE SEED AND THE START POINT: whatever the generator state when
    optimize() is entered. -/
theorem optimize_depends_only_on_seed (reseed : Nat → S) (A : Inst S X R) (n : Nat) (hs : A.seed = some n)
    (p p' : PState S X R) (hx : p.x0 = p'.x0) :
    (step reseed A p .optimize).result = (step reseed A p' .optimize).result ∨ p.x0 = none := by
  cases hx0 : p.x0 with
  | none => exact Or.inr rfl
  | some x =>
    left
    have hx' : p'.x0 = some x := by rw [← hx]; exact hx0
    simp only [step, hs, hx0, hx']

/-- REPRODUCIBLE INDEPENDENT OF HISTORY: for every process history `pre` (before the instance is
    constructed) and `mid` (between constructing and running it) and every initial generator
    state, the result equals that of constructing and running the instance in a fresh process. -/
theorem run_independent_of_history (reseed : Nat → S) (A : Inst S X R) (n : Nat) (hs : A.seed = some n)
    (pre mid : List (S → S)) (g0 g0' : S) :
    (exec reseed A { g := g0, x0 := none, result := none }
        (pre.map Ev.foreign ++ [.construct] ++ mid.map Ev.foreign ++ [.optimize])).result =
    (exec reseed A { g := g0', x0 := none, result := none } [.construct, .optimize]).result := by
  simp only [exec, List.foldl_append, List.foldl_cons, List.foldl_nil]
  generalize List.foldl (step reseed A) { g := g0, x0 := none, result := none } (pre.map Ev.foreign) = p1
  have hx : (step reseed A p1 .construct).x0 = (step reseed A { g := g0', x0 := none, result := none } .construct).x0 :=
    x0_draw_depends_only_on_seed reseed A n hs _ _
  have hm : (List.foldl (step reseed A) (step reseed A p1 .construct) (mid.map Ev.foreign)).x0 = (step reseed A p1 .construct).x0 :=
    (exec_foreign_only reseed A mid _).1
  have hsome : ∃ x, (step reseed A { g := g0', x0 := none, result := none } .construct).x0 = some x := by
    simp only [step, hs]
    cases A.drawX0 with
    | none => exact ⟨_, rfl⟩
    | some d => exact ⟨_, rfl⟩
  obtain ⟨x, hx2⟩ := hsome
  generalize step reseed A { g := g0', x0 := none, result := none } .construct = c2 at hx hx2
  generalize List.foldl (step reseed A) (step reseed A p1 .construct) (mid.map Ev.foreign) = m1 at hm
  have hx1 : m1.x0 = some x := by rw [hm, hx, hx2]
  simp only [step, hs, hx1, hx2]

/-- Both seeding points are needed.  Without re-seeding at optimize() the result depends on what
    ran between construction and run ... -/
theorem depends_on_history_without_reseed_at_optimize_counterexample :
    ∃ (reseed : Nat → Nat) (A : Inst Nat Nat Nat) (f : Nat → Nat),
      A.seed = some 0 ∧
      ((([Ev.construct, .foreign f, .optimize] : List (Ev Nat)).foldl (stepNoReseedAtOptimize reseed A) { g := 5, x0 := none, result := none }).result ≠
       (([Ev.construct, .optimize] : List (Ev Nat)).foldl (stepNoReseedAtOptimize reseed A) { g := 5, x0 := none, result := none }).result) := by
  refine ⟨fun n => n, { seed := some 0, drawX0 := none, givenX0 := 0, run := fun _ g => (g, g + 1) }, fun g => g + 7, rfl, ?_⟩
  decide

/-- ... and without seeding at construction the drawn start point depends on what ran before. -/
theorem depends_on_history_without_reseed_at_construct_counterexample :
    ∃ (reseed : Nat → Nat) (A : Inst Nat Nat Nat) (f : Nat → Nat),
      A.seed = some 0 ∧
      ((([Ev.foreign f, .construct, .optimize] : List (Ev Nat)).foldl (stepNoReseedAtConstruct reseed A) { g := 5, x0 := none, result := none }).result ≠
       (([Ev.construct, .optimize] : List (Ev Nat)).foldl (stepNoReseedAtConstruct reseed A) { g := 5, x0 := none, result := none }).result) := by
  refine ⟨fun n => n, { seed := some 0, drawX0 := some (fun g => (g, g + 1)), givenX0 := 0, run := fun x g => (x, g) }, fun g => g + 7, rfl, ?_⟩
  decide

/-- Without a seed nothing is promised (and nothing holds): the run depends on the history. -/
theorem unseeded_depends_on_history_counterexample :
    ∃ (reseed : Nat → Nat) (A : Inst Nat Nat Nat) (f : Nat → Nat),
      A.seed = none ∧
      (exec reseed A { g := 5, x0 := none, result := none } [.foreign f, .construct, .optimize]).result ≠
      (exec reseed A { g := 5, x0 := none, result := none } [.construct, .optimize]).result := by
  refine ⟨fun n => n, { seed := none, drawX0 := none, givenX0 := 0, run := fun _ g => (g, g + 1) }, fun g => g + 7, rfl, ?_⟩
  decide

end Bads.Rng
