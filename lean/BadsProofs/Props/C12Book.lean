/-
  C12 - bookkeeping of the evaluation log across cache growth: in every reachable state of the logger the
  allocated capacity holds all records and `X_max_idx` is the index of the last record (so that the
  "logged points" every consumer slices with `X[:X_max_idx + 1]` are exactly the records, C15), whatever
  the initial `cache_size` (0 included) and however often the arrays had to grow.
-/
import BadsProofs.Props.C12

namespace Bads.Log

/-- capacity covers the records; `X_max_idx` points at the last one (`-1` for the empty log) -/
def BK (s : St) : Prop := s.rows.length ≤ s.cap ∧ s.xMaxIdx = (s.rows.length : Int) - 1

theorem init_bk (cache : Nat) (noise he : Bool) : BK (init cache noise he) := by
  simp [BK, init]

theorem growBy_pos (n : Nat) : 1 ≤ growBy n := by unfold growBy; omega

theorem record_bk (s : St) (xo x : Pt) (y : Rat) (sd : Option Rat) (rd : Bool) (s' : St) (v : Rat)
    (idx : Option Nat) (h : record s xo x y sd rd = .ok (s', v, idx)) (hb : BK s) : BK s' := by
  obtain ⟨h1, h2⟩ := hb
  rcases record_cases s xo x y sd rd s' v idx h with ⟨i, _, _, e, _, _⟩ | ⟨_, _, e, _, _⟩ | ⟨i, sdv, _, _, _, e, _⟩ | ⟨c, _, _, e, _, _, _, hc⟩
  · subst e; simp only [BK, bumpN, modAt_length]; exact ⟨h1, h2⟩
  · subst e; exact ⟨h1, h2⟩
  · subst e; simp only [BK, modAt_length]; exact ⟨h1, h2⟩
  · subst e
    have hg := growBy_pos s.rows.length
    simp only [BK, List.length_append, List.length_cons, List.length_nil]
    have hcap : s.rows.length + 1 ≤ c := by
      rw [hc]
      split
      · rename_i hcond
        simp only [Bool.or_eq_true, decide_eq_true_eq] at hcond
        omega
      · rename_i hcond
        simp only [Bool.or_eq_true, decide_eq_true_eq, not_or] at hcond
        omega
    refine ⟨hcap, ?_⟩
    rw [h2]
    have : ((s.rows.length : Int) - 1 + 1) ≤ (c : Int) := by omega
    omega

theorem call_bk (s : St) (xo x : Pt) (out : Outcome) (rd : Bool) (s' : St) (r : Ret)
    (h : call s xo x out rd = .ok (s', r)) (hb : BK s) : BK s' := by
  unfold call at h
  have key : ∀ (y : Rat) (sd : Option Rat),
      (match record s xo x y sd rd with
        | .error e => (Except.error e : Except Err (St × Ret))
        | .ok (s1, fval, idx) => .ok ({ s1 with fc := s1.fc + 1 }, { fval := fval, fsd := sd, idx := idx })) = .ok (s', r) → BK s' := by
    intro y sd hk
    cases hrec : record s xo x y sd rd with
    | error e => rw [hrec] at hk; cases hk
    | ok t =>
      obtain ⟨s1, v, idx⟩ := t
      rw [hrec] at hk
      simp only [Except.ok.injEq, Prod.mk.injEq] at hk
      have := record_bk s xo x y sd rd s1 v idx hrec hb
      obtain ⟨rfl, _⟩ := hk
      exact this
  cases out with
  | raises => cases h
  | otherTuple => cases h
  | scalar y? =>
    simp only at h
    split at h
    · cases h
    · cases y? with
      | none => cases h
      | some y => exact key y none h
  | pair y? sd? =>
    simp only at h
    split at h
    · cases y? with
      | none => cases h
      | some y =>
        cases sd? with
        | none => cases h
        | some sd => exact key y (some sd) h
    · cases h

theorem add_bk (s : St) (xo x : Pt) (y : Option Rat) (sd : Option (Option Rat)) (s' : St) (r : Ret)
    (h : add s xo x y sd = .ok (s', r)) (hb : BK s) : BK s' := by
  have hb' : BK { s with cacheCount := s.cacheCount + 1 } := hb
  unfold add at h
  cases y with
  | none => cases h
  | some yv =>
    simp only at h
    split at h
    · cases h
    · rename_i sdv _
      cases hrec : record { s with cacheCount := s.cacheCount + 1 } xo x yv (some sdv) true with
      | error e => rw [hrec] at h; cases h
      | ok t =>
        obtain ⟨s1, v, idx⟩ := t
        rw [hrec] at h
        simp only [Except.ok.injEq, Prod.mk.injEq] at h
        obtain ⟨rfl, _⟩ := h
        exact record_bk _ xo x yv (some sdv) true _ v idx hrec hb'
    · cases hrec : record { s with cacheCount := s.cacheCount + 1 } xo x yv none true with
      | error e => rw [hrec] at h; cases h
      | ok t =>
        obtain ⟨s1, v, idx⟩ := t
        rw [hrec] at h
        simp only [Except.ok.injEq, Prod.mk.injEq] at h
        obtain ⟨rfl, _⟩ := h
        exact record_bk _ xo x yv none true _ v idx hrec hb'

/-- EVERY REACHABLE STATE of the logger, for every operation sequence and every initial cache size. -/
theorem runOps_bk : ∀ (ops : List Op) (s : St), BK s → BK (runOps s ops)
  | [], _, h => h
  | op :: ops, s, h => by
    simp only [runOps]
    cases hs : step s op with
    | error e => simp only []; exact runOps_bk ops s h
    | ok t =>
      obtain ⟨s1, r⟩ := t
      simp only []
      apply runOps_bk ops s1
      cases op with
      | call xo x out rd => exact call_bk s xo x out rd s1 r hs h
      | add xo x y sd => exact add_bk s xo x y sd s1 r hs h

theorem reachable_bk (cache : Nat) (noise he : Bool) (ops : List Op) : BK (runOps (init cache noise he) ops) :=
  runOps_bk ops _ (init_bk cache noise he)

/-- non-vacuity: a log of cache size 1 grown twice -/
example : (runOps (init 1 false false) [.call [0] [0] (.scalar (some 1)) true, .call [1] [1] (.scalar (some 2)) true,
    .call [2] [2] (.scalar (some 3)) true]).cap = 3 ∧
    (runOps (init 1 false false) [.call [0] [0] (.scalar (some 1)) true, .call [1] [1] (.scalar (some 2)) true,
    .call [2] [2] (.scalar (some 3)) true]).xMaxIdx = 2 := by decide +kernel

end Bads.Log
