/-
  C18 - validity of the rank-selection mask for ALL (mu, lambda).

  `_get_selection_idx_mask_(mu, lamb)` (es_search.py l.44-69) is used as `us[selection_mask[0:ll]]`
  with `ll = min(lamb, us.shape[0]) = mu` rows in `us`.  The indexing is valid iff the mask has at
  least `mu` entries and each of its first `mu` entries is `< mu`.

  ORACLE: the initial integer weights `w0 = ceil(lamb * (1/sqrt(i)) / sum_j (1/sqrt(j)))`, `i = 1..mu+lamb`
  (floating point).  Assumed of them (and checked by the harness on every (mu, lambda) it enumerates):
  they are non-increasing and sum to at least `lamb`.  Everything the code does afterwards (the
  reduction loop, the trimming of the last `delta` positive weights, cumsum/scatter/cumsum) is the model.
-/
import BadsProofs.Props.C18

namespace Bads.Srch

/-- non-increasing -/
def Anti (w : List Nat) : Prop := w.Pairwise (fun a b => b ≤ a)

/-- number of positive weights (`np.sum(w > 0)`) -/
def nz (w : List Nat) : Nat := (w.filter (· > 0)).length

theorem sumN_append (a b : List Nat) : sumN (a ++ b) = sumN a + sumN b := by
  induction a with
  | nil => simp [sumN]
  | cons x xs ih => simp [sumN, ih]; omega

theorem sumN_reduceOnce (w : List Nat) : sumN (reduceOnce w) + nz w = sumN w := by
  induction w with
  | nil => simp [reduceOnce, sumN, nz]
  | cons x xs ih =>
    simp only [reduceOnce, nz, List.map_cons, sumN, List.filter_cons] at ih ⊢
    by_cases hx : x > 0
    · simp only [hx, decide_true, if_true, List.length_cons]; omega
    · simp only [hx, decide_false]; simp at hx; subst hx; simpa using ih

theorem nz_pos_of_sum_pos (w : List Nat) (h : 0 < sumN w) : 0 < nz w := by
  induction w with
  | nil => simp [sumN] at h
  | cons x xs ih =>
    simp only [nz, List.filter_cons]
    by_cases hx : x > 0
    · simp [hx]
    · simp only [hx, decide_false]
      have : x = 0 := by omega
      subst this
      simp only [sumN, Nat.zero_add] at h
      exact ih h

theorem nz_le_sumN (w : List Nat) : nz w ≤ sumN w := by
  induction w with
  | nil => simp [nz, sumN]
  | cons x xs ih =>
    simp only [nz, List.filter_cons, sumN] at ih ⊢
    by_cases hx : x > 0
    · simp only [hx, decide_true, if_true, List.length_cons]; omega
    · simp only [hx, decide_false]; simp at hx; subst hx; simpa using ih

theorem anti_reduceOnce (w : List Nat) (h : Anti w) : Anti (reduceOnce w) := by
  unfold Anti reduceOnce at *
  rw [List.pairwise_map]
  exact h.imp (fun hab => by omega)

theorem length_reduceOnce (w : List Nat) : (reduceOnce w).length = w.length := by simp [reduceOnce]

/-- THE REDUCTION LOOP keeps the weights non-increasing, keeps their number, never takes their sum
    below `lam`, and ends with at most one excess unit per positive weight. -/
theorem reduceLoop_post (lam : Nat) : ∀ (fuel : Nat) (w : List Nat), sumN w < fuel → lam ≤ sumN w → Anti w →
    Anti (reduceLoop fuel w lam) ∧ lam ≤ sumN (reduceLoop fuel w lam) ∧
    sumN (reduceLoop fuel w lam) ≤ lam + nz (reduceLoop fuel w lam) ∧ (reduceLoop fuel w lam).length = w.length
  | 0, w, hf, _, _ => by omega
  | fuel + 1, w, hf, hl, ha => by
    simp only [reduceLoop]
    have hnz : nz w = (w.filter (· > 0)).length := rfl
    rw [← hnz]
    by_cases hc : sumN w > lam + nz w
    · simp only [hc, if_true]
      have hs := sumN_reduceOnce w
      have hp : 0 < nz w := nz_pos_of_sum_pos w (by omega)
      have ih := reduceLoop_post lam fuel (reduceOnce w) (by omega) (by omega) (anti_reduceOnce w ha)
      rw [length_reduceOnce] at ih
      exact ih
    · simp only [hc, if_false]
      exact ⟨ha, hl, by omega, trivial⟩

/-- for non-increasing weights the positive ones are exactly the first `nz w` -/
theorem anti_pos_iff : ∀ (w : List Nat), Anti w → ∀ i, (0 < w.getD i 0 ↔ i < nz w)
  | [], _, i => by simp [nz]
  | a :: rest, h, i => by
    have hr : Anti rest := (List.pairwise_cons.mp h).2
    have ha : ∀ b ∈ rest, b ≤ a := (List.pairwise_cons.mp h).1
    by_cases ha0 : a > 0
    · have hn : nz (a :: rest) = nz rest + 1 := by simp [nz, ha0]
      cases i with
      | zero => simp [hn]; omega
      | succ i =>
        have := anti_pos_iff rest hr i
        simp only [List.getD_cons_succ, hn]
        omega
    · have ha0' : a = 0 := by omega
      subst ha0'
      have hall : ∀ b ∈ rest, b = 0 := fun b hb => by have := ha b hb; omega
      have hn : nz (0 :: rest) = 0 := by
        simp only [nz, List.length_eq_zero_iff, List.filter_eq_nil_iff]
        intro b hb
        rcases List.mem_cons.mp hb with rfl | hb
        · simp
        · simp [hall b hb]
      rw [hn]
      constructor
      · intro hpos
        cases i with
        | zero => simp at hpos
        | succ i =>
          simp only [List.getD_cons_succ] at hpos
          rcases hlt : rest[i]? with _ | v
          · simp [List.getD, hlt] at hpos
          · have hm : v ∈ rest := List.mem_of_getElem? hlt
            have := hall v hm
            simp [List.getD, hlt, this] at hpos
      · intro h0; omega

theorem nz_le_length (w : List Nat) : nz w ≤ w.length := by
  unfold nz; exact List.length_filter_le _ _

theorem filter_lt_range : ∀ (n k : Nat), k ≤ n → (List.range n).filter (fun i => decide (i < k)) = List.range k
  | 0, k, h => by
    have : k = 0 := by omega
    subst this; simp
  | n + 1, k, h => by
    rw [List.range_succ, List.filter_append]
    by_cases hk : k ≤ n
    · rw [filter_lt_range n k hk]
      have : ¬ n < k := by omega
      simp [this]
    · have hk' : k = n + 1 := by omega
      subst hk'
      have h1 : (List.range n).filter (fun i => decide (i < n + 1)) = List.range n := by
        rw [List.filter_eq_self]
        intro a ha
        have := List.mem_range.mp ha
        simp; omega
      rw [h1, List.range_succ]
      simp

theorem lastNonzero_anti (w : List Nat) (h : Anti w) (hp : 0 < nz w) : lastNonzero w = some (nz w - 1) := by
  unfold lastNonzero
  have hf : (List.range w.length).filter (fun i => decide (w.getD i 0 > 0))
      = (List.range w.length).filter (fun i => decide (i < nz w)) := by
    apply List.filter_congr
    intro i _
    have := anti_pos_iff w h i
    simp only [gt_iff_lt, decide_eq_decide]
    exact this
  rw [hf, filter_lt_range _ _ (nz_le_length w)]
  obtain ⟨k, hk⟩ : ∃ k, nz w = k + 1 := ⟨nz w - 1, by omega⟩
  rw [hk, List.range_succ]
  simp

theorem range_map_getD (w : List Nat) : (List.range w.length).map (fun i => w.getD i 0) = w := by
  apply List.ext_getElem
  · simp
  · intro i h1 h2
    simp only [List.getElem_map, List.getElem_range]
    simp [List.getD, List.getElem?_eq_getElem h2]

theorem sumN_map_add (l : List Nat) (f g : Nat → Nat) :
    sumN (l.map (fun i => f i + g i)) = sumN (l.map f) + sumN (l.map g) := by
  induction l with
  | nil => simp [sumN]
  | cons x xs ih => simp only [List.map_cons, sumN, ih]; omega

/-- number of indices `< n` inside the window `[a, b]` -/
theorem sumN_window (a b : Nat) : ∀ n, sumN ((List.range n).map (fun i => if a ≤ i ∧ i ≤ b then 1 else 0))
    = min n (b + 1) - min n a
  | 0 => by simp [sumN]
  | n + 1 => by
    rw [List.range_succ, List.map_append, sumN_append, sumN_window a b n]
    simp only [List.map_cons, List.map_nil, sumN]
    split <;> omega

/-- the trimmed weights, pointwise -/
def trimmed (w : List Nat) (strt last : Nat) : List Nat :=
  (List.range w.length).map (fun i => if strt ≤ i ∧ i ≤ last then w.getD i 0 - 1 else w.getD i 0)

theorem sumN_trimmed (w : List Nat) (h : Anti w) (strt last : Nat) (hl : last < nz w) (hs : strt ≤ last + 1) :
    sumN (trimmed w strt last) + (last + 1 - strt) = sumN w := by
  have hlen := nz_le_length w
  have key : (List.range w.length).map (fun i => w.getD i 0)
      = (List.range w.length).map (fun i => (if strt ≤ i ∧ i ≤ last then w.getD i 0 - 1 else w.getD i 0)
          + (if strt ≤ i ∧ i ≤ last then 1 else 0)) := by
    apply List.map_congr_left
    intro i _
    by_cases hc : strt ≤ i ∧ i ≤ last
    · have := (anti_pos_iff w h i).mpr (by omega)
      simp only [hc, and_self, if_true]; omega
    · simp [hc]
  have h1 := congrArg sumN key
  rw [range_map_getD, sumN_map_add, sumN_window] at h1
  unfold trimmed
  rw [h1]
  omega

theorem anti_trimmed (w : List Nat) (h : Anti w) (strt last : Nat) (hl : last + 1 = nz w) :
    Anti (trimmed w strt last) := by
  unfold Anti trimmed
  rw [List.pairwise_iff_getElem]
  intro i j hi hj hij
  simp only [List.getElem_map, List.getElem_range]
  simp only [List.length_map, List.length_range] at hi hj
  have hwi : w.getD i 0 = w[i] := by simp [List.getD, List.getElem?_eq_getElem hi]
  have hwj : w.getD j 0 = w[j] := by simp [List.getD, List.getElem?_eq_getElem hj]
  have hmono : w[j] ≤ w[i] := (List.pairwise_iff_getElem.mp h) i j hi hj hij
  have hpi := anti_pos_iff w h i
  have hpj := anti_pos_iff w h j
  rw [hwi] at hpi; rw [hwj] at hpj
  rw [hwi, hwj]
  split <;> split <;> omega

theorem finalWeights_post (w0 : List Nat) (lam : Nat) (hlam : 1 ≤ lam) (ha : Anti w0) (hs : lam ≤ sumN w0) :
    Anti (finalWeights w0 lam) ∧ sumN (finalWeights w0 lam) = lam ∧ (finalWeights w0 lam).length = w0.length := by
  obtain ⟨hA, hL, hU, hlen⟩ := reduceLoop_post lam (sumN w0 + 1) w0 (by omega) hs ha
  unfold finalWeights
  generalize reduceLoop (sumN w0 + 1) w0 lam = w at hA hL hU hlen
  have hp : 0 < nz w := nz_pos_of_sum_pos w (by omega)
  simp only [lastNonzero_anti w hA hp]
  have hfold : ((List.range w.length).map (fun i =>
      if (nz w - 1 + 1 - (sumN w - lam)) ≤ i ∧ i ≤ nz w - 1 then w.getD i 0 - 1 else w.getD i 0))
      = trimmed w (nz w - 1 + 1 - (sumN w - lam)) (nz w - 1) := rfl
  rw [hfold]
  refine ⟨anti_trimmed w hA _ _ (by omega), ?_, ?_⟩
  · have := sumN_trimmed w hA (nz w - 1 + 1 - (sumN w - lam)) (nz w - 1) (by omega) (by omega)
    omega
  · simp [trimmed, hlen]

theorem foldl_max_starts : ∀ (w : List Nat) (m acc : Nat), w ≠ [] →
    (starts w acc).foldl max m = max m (acc + 1 + sumN w.dropLast)
  | [], _, _, h => absurd rfl h
  | [a], m, acc, _ => by simp [starts, sumN]
  | a :: b :: r, m, acc, _ => by
    have ih := foldl_max_starts (b :: r) (max m (acc + 1)) (acc + a) (by simp)
    simp only [starts, List.foldl_cons] at ih ⊢
    rw [ih]
    simp only [List.dropLast_cons_cons, sumN]
    omega

theorem length_cumsum : ∀ (xs : List Nat) (acc : Nat), (cumsum xs acc).length = xs.length
  | [], _ => rfl
  | x :: xs, acc => by simp [cumsum, length_cumsum xs]

theorem length_maskOf (w : List Nat) (h : w ≠ []) : (maskOf w).length = 1 + sumN w.dropLast := by
  unfold maskOf marks
  simp only [length_cumsum, List.length_dropLast, List.length_map, List.length_range]
  rw [foldl_max_starts w 0 0 h]
  omega

theorem sumN_dropLast (w : List Nat) (h : w ≠ []) : sumN w.dropLast + w.getLast h = sumN w := by
  have := List.dropLast_append_getLast h
  have h2 := congrArg sumN this
  rw [sumN_append] at h2
  simp only [sumN] at h2
  omega

theorem anti_last_zero (w : List Nat) (ha : Anti w) (h : w ≠ []) (hlt : sumN w < w.length) : w.getLast h = 0 := by
  by_contra hne
  have hpos : 0 < w.getD (w.length - 1) 0 := by
    have hl : 0 < w.length := List.length_pos_iff.mpr h
    have : w.getD (w.length - 1) 0 = w.getLast h := by
      rw [List.getLast_eq_getElem]
      simp [List.getD, List.getElem?_eq_getElem (show w.length - 1 < w.length by omega)]
    omega
  have := (anti_pos_iff w ha _).mp hpos
  have := nz_le_sumN w
  omega

/-- THE MASK IS A VALID INDEX VECTOR, for every `mu, lambda ≥ 1`: it has `lambda + 1` entries (at least
    the `ll = min(lambda, mu)` that are used), and entry `k` is at most `k`; hence
    `us[selection_mask[0:ll]]` addresses existing rows of the `mu` retained parents only. -/
theorem mask_valid (w0 : List Nat) (mu lam : Nat) (hmu : 1 ≤ mu) (hlam : 1 ≤ lam)
    (hlen : w0.length = mu + lam) (ha : Anti w0) (hs : lam ≤ sumN w0) :
    (selectionMask w0 lam).length = lam + 1 ∧
    ∀ k, k < min lam mu → ∃ v, (selectionMask w0 lam)[k]? = some v ∧ v < mu := by
  obtain ⟨hA, hS, hL⟩ := finalWeights_post w0 lam hlam ha hs
  have hne : finalWeights w0 lam ≠ [] := by
    intro h0; rw [h0] at hL; simp at hL; omega
  have hlast := anti_last_zero _ hA hne (by omega)
  have hd := sumN_dropLast _ hne
  have hlenM : (selectionMask w0 lam).length = lam + 1 := by
    unfold selectionMask
    rw [length_maskOf _ hne]; omega
  refine ⟨hlenM, ?_⟩
  intro k hk
  have hk' : k < (selectionMask w0 lam).length := by omega
  refine ⟨(selectionMask w0 lam)[k], List.getElem?_eq_getElem hk', ?_⟩
  have := mask_le_index (finalWeights w0 lam) k _ (List.getElem?_eq_getElem hk')
  omega

/-- the final weights sum to exactly `lambda`: the `lambda` offspring are shared out among the parents -/
theorem final_weights_sum (w0 : List Nat) (lam : Nat) (hlam : 1 ≤ lam) (ha : Anti w0) (hs : lam ≤ sumN w0) :
    sumN (finalWeights w0 lam) = lam := (finalWeights_post w0 lam hlam ha hs).2.1

/-- the hypotheses are satisfiable: the weights the code computes for (mu, lambda) = (3, 5) -/
example : Anti [2, 1, 1, 1, 1, 1, 1, 1] ∧ 5 ≤ sumN [2, 1, 1, 1, 1, 1, 1, 1] ∧
    selectionMask [2, 1, 1, 1, 1, 1, 1, 1] 5 = [0, 1, 1, 2, 3, 4] := by
  refine ⟨by unfold Anti; decide, by decide, by decide⟩

end Bads.Srch
