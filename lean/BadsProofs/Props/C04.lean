/-
  C04 - Deterministic targets: the result is the best evaluated point, reported truthfully.

  For EVERY sequence of evaluated points and returned values (any target, plateaus and ties
  included, any candidate generation): the incumbent is always a point that was evaluated, its
  value is exactly the value observed there, and no evaluated point has a strictly lower value;
  the recorded incumbent value never increases.
-/
import BadsModel.Incumbent
import Generated.Defaults
import Mathlib.Tactic.Linarith

namespace Bads.Inc

/-- Default incumbent-update policy (re-proved from the regenerated option values). -/
def HypC04 (d : Generated.Defaults) : Prop :=
  d.sloppy_improvement = true ∧ d.improvement_quantile = 1/2 ∧ d.stobads = false

theorem defaults_satisfy_HypC04 : ∀ d ∈ Generated.defaults, HypC04 d := by
  unfold HypC04; decide +kernel

/-- The incumbent is an evaluated pair and a minimum of everything evaluated so far. -/
def Inv (s : St) (evals : List (Pt × Rat)) : Prop :=
  (s.u, s.fval) ∈ evals ∧ ∀ e ∈ evals, s.fval ≤ e.2

theorem argminFirst_spec : ∀ (evs : List (Pt × Rat)) (m : Pt × Rat), argminFirst evs = some m →
    m ∈ evs ∧ ∀ e ∈ evs, m.2 ≤ e.2
  | [], m, h => by simp [argminFirst] at h
  | e :: es, m, h => by
    unfold argminFirst at h
    cases hr : argminFirst es with
    | none =>
      simp only [hr, Option.some.injEq] at h
      subst h
      cases es with
      | nil => simp
      | cons e' es' =>
        exfalso
        unfold argminFirst at hr
        cases h2 : argminFirst es' <;> simp [h2] at hr
        split at hr <;> simp at hr
    | some m' =>
      simp only [hr] at h
      obtain ⟨hm, hmin⟩ := argminFirst_spec es m' hr
      split at h
      · rename_i hlt
        simp only [Option.some.injEq] at h; subst h
        refine ⟨List.mem_cons_of_mem _ hm, ?_⟩
        intro e' he'
        rcases List.mem_cons.mp he' with rfl | he'
        · exact le_of_lt hlt
        · exact hmin e' he'
      · rename_i hge
        simp only [Option.some.injEq] at h; subst h
        refine ⟨List.mem_cons_self, ?_⟩
        intro e' he'
        rcases List.mem_cons.mp he' with rfl | he'
        · exact le_refl _
        · exact le_trans (not_lt.mp hge) (hmin e' he')

/-- Initial incumbent: the (first) minimum of the initial design. -/
theorem inc_init (evs : List (Pt × Rat)) (s : St) (h : initInc evs = some s) : Inv s evs := by
  unfold initInc at h
  cases hm : argminFirst evs with
  | none => simp [hm] at h
  | some m =>
    simp only [hm, Option.map_some, Option.some.injEq] at h
    subst h
    exact argminFirst_spec evs m hm

theorem inc_search (s : St) (evals : List (Pt × Rat)) (e : Option (Pt × Rat)) (h : Inv s evals) :
    Inv (searchUpdate s e) (evals ++ evalsOf (.search e)) := by
  obtain ⟨h1, h2⟩ := h
  cases e with
  | none => simpa [searchUpdate, evalsOf] using ⟨h1, h2⟩
  | some e =>
    obtain ⟨u, y⟩ := e
    simp only [searchUpdate, evalsOf]
    split
    · rename_i hgt
      refine ⟨by simp, ?_⟩
      intro e' he'
      rcases List.mem_append.mp he' with he' | he'
      · have := h2 e' he'; simp only; linarith
      · simp only [List.mem_singleton] at he'; subst he'; exact le_refl _
    · rename_i hle
      refine ⟨List.mem_append_left _ h1, ?_⟩
      intro e' he'
      rcases List.mem_append.mp he' with he' | he'
      · exact h2 e' he'
      · simp only [List.mem_singleton] at he'; subst he'; simp only; linarith [not_lt.mp hle]

/-- The running best of the poll: its argument is a polled pair with `fval - y = best`, and `best`
    dominates every polled improvement (and the starting value). -/
theorem pollBest_spec (fval : Rat) : ∀ (es : List (Pt × Rat)) (best : Rat) (arg : Option (Pt × Rat)),
    (∀ a, arg = some a → fval - a.2 = best) →
    let r := pollBest fval es best arg
    best ≤ r.1 ∧ (∀ e ∈ es, fval - e.2 ≤ r.1) ∧
    (∀ a, r.2 = some a → (a ∈ es ∨ arg = some a) ∧ fval - a.2 = r.1) ∧ (r.2 = none → r.1 = best)
  | [], best, arg, h => by
    simp only [pollBest]
    exact ⟨le_refl _, by simp, fun a ha => ⟨Or.inr ha, h a ha⟩, fun _ => trivial⟩
  | (u, y) :: es, best, arg, h => by
    simp only [pollBest]
    split
    · rename_i hgt
      obtain ⟨h1, h2, h3, h4⟩ := pollBest_spec fval es (fval - y) (some (u, y)) (by intro a ha; cases ha; rfl)
      refine ⟨by linarith, ?_, ?_, ?_⟩
      · intro e he
        rcases List.mem_cons.mp he with rfl | he
        · exact h1
        · exact h2 e he
      · intro a ha
        obtain ⟨hm, hv⟩ := h3 a ha
        refine ⟨Or.inl ?_, hv⟩
        rcases hm with hm | hm
        · exact List.mem_cons_of_mem _ hm
        · cases hm; exact List.mem_cons_self
      · intro hn
        have := h3
        cases hr : (pollBest fval es (fval - y) (some (u, y))).2 with
        | none =>
          -- the argument can never become `none` again
          exfalso
          have key : ∀ (es : List (Pt × Rat)) (b : Rat) (a : Pt × Rat), (pollBest fval es b (some a)).2 ≠ none := by
            intro es
            induction es with
            | nil => intro b a; simp [pollBest]
            | cons e es ih =>
              intro b a
              obtain ⟨u', y'⟩ := e
              simp only [pollBest]
              split
              · exact ih _ _
              · exact ih _ _
          exact key es _ _ hr
        | some a => rw [hr] at hn; cases hn
    · rename_i hle
      obtain ⟨h1, h2, h3, h4⟩ := pollBest_spec fval es best arg h
      refine ⟨h1, ?_, ?_, h4⟩
      · intro e he
        rcases List.mem_cons.mp he with rfl | he
        · simp only; linarith [not_lt.mp hle]
        · exact h2 e he
      · intro a ha
        obtain ⟨hm, hv⟩ := h3 a ha
        refine ⟨?_, hv⟩
        rcases hm with hm | hm
        · exact Or.inl (List.mem_cons_of_mem _ hm)
        · exact Or.inr hm

theorem inc_poll (s : St) (evals : List (Pt × Rat)) (es : List (Pt × Rat)) (h : Inv s evals) :
    Inv (pollUpdate s es) (evals ++ evalsOf (.poll es)) := by
  obtain ⟨h1, h2⟩ := h
  have spec := pollBest_spec s.fval es 0 none (by intro a ha; cases ha)
  simp only [pollUpdate, evalsOf]
  cases hr : pollBest s.fval es 0 none with
  | mk best arg =>
    rw [hr] at spec
    obtain ⟨s1, s2, s3, s4⟩ := spec
    cases arg with
    | none =>
      simp only
      have hb : best = 0 := s4 rfl
      refine ⟨List.mem_append_left _ h1, ?_⟩
      intro e he
      rcases List.mem_append.mp he with he | he
      · exact h2 e he
      · have := s2 e he; simp only at this; linarith
    | some a =>
      obtain ⟨u, y⟩ := a
      obtain ⟨hm, hv⟩ := s3 (u, y) rfl
      simp only at hv
      simp only
      split
      · rename_i hpos
        have hmem : (u, y) ∈ es := by
          rcases hm with hm | hm
          · exact hm
          · cases hm
        refine ⟨List.mem_append_right _ hmem, ?_⟩
        intro e he
        simp only
        rcases List.mem_append.mp he with he | he
        · have := h2 e he; linarith
        · have := s2 e he; simp only at this; linarith
      · rename_i hnp
        refine ⟨List.mem_append_left _ h1, ?_⟩
        intro e he
        rcases List.mem_append.mp he with he | he
        · exact h2 e he
        · have := s2 e he; simp only at this; linarith [not_lt.mp hnp]

/-- Everything evaluated during a list of events. -/
def allEvals : List Ev → List (Pt × Rat)
  | [] => []
  | e :: es => evalsOf e ++ allEvals es

/-- EVERY REACHABLE STATE: after any sequence of search and poll steps the incumbent is an
    evaluated pair whose value is minimal among all evaluations of the run. -/
theorem inc_reachable : ∀ (evs : List Ev) (s : St) (evals : List (Pt × Rat)), Inv s evals →
    Inv (run s evs) (evals ++ allEvals evs)
  | [], s, evals, h => by simpa [run, allEvals] using h
  | e :: es, s, evals, h => by
    simp only [run, allEvals, ← List.append_assoc]
    apply inc_reachable es
    cases e with
    | search e => exact inc_search s evals e h
    | poll es' => exact inc_poll s evals es' h

/-- RESULT TRUTHFUL: the returned point was evaluated, the returned value is the value observed
    there, and nothing evaluated in the whole run is strictly better. -/
theorem result_truthful (init : List (Pt × Rat)) (s0 : St) (h0 : initInc init = some s0) (evs : List Ev) :
    let r := run s0 evs
    (r.u, r.fval) ∈ init ++ allEvals evs ∧ ∀ e ∈ init ++ allEvals evs, r.fval ≤ e.2 :=
  inc_reachable evs s0 init (inc_init init s0 h0)

theorem step_fval_le (s : St) (e : Ev) : (step s e).fval ≤ s.fval := by
  cases e with
  | search e =>
    cases e with
    | none => simp [step, searchUpdate]
    | some e =>
      obtain ⟨u, y⟩ := e
      simp only [step, searchUpdate]
      split
      · simp only; linarith
      · exact le_refl _
  | poll es =>
    simp only [step, pollUpdate]
    have spec := pollBest_spec s.fval es 0 none (by intro a ha; cases ha)
    cases hr : pollBest s.fval es 0 none with
    | mk best arg =>
      rw [hr] at spec
      cases arg with
      | none => simp
      | some a =>
        obtain ⟨u, y⟩ := a
        simp only
        split
        · rename_i hpos
          have := (spec.2.2.1 (u, y) rfl).2
          simp only at this ⊢
          linarith
        · exact le_refl _

/-- The recorded incumbent value never increases. -/
theorem hist_fval_antitone : ∀ (evs : List Ev) (s : St), List.Pairwise (fun a b => b ≤ a) (s.fval :: fvals s evs)
  | [], s => by simp [fvals]
  | e :: es, s => by
    have ih := hist_fval_antitone es (step s e)
    have hle := step_fval_le s e
    simp only [fvals]
    rw [List.pairwise_cons]
    refine ⟨?_, ih⟩
    intro b hb
    rcases List.mem_cons.mp hb with rfl | hb
    · exact hle
    · have := (List.pairwise_cons.mp ih).1 b hb
      linarith

/-- NEVER WORSE THAN THE START (the per-run clause of C06): the final value is at most the value
    at the (mesh-snapped) starting point, which is the first evaluation. -/
theorem never_worse_than_start (u0 : Pt) (y0 : Rat) (rest : List (Pt × Rat)) (s0 : St)
    (h0 : initInc ((u0, y0) :: rest) = some s0) (evs : List Ev) : (run s0 evs).fval ≤ y0 :=
  (result_truthful ((u0, y0) :: rest) s0 h0 evs).2 (u0, y0) (by simp)

/-! Non-vacuity: a plateau with ties - the first minimal point is kept, an equal value does not move the incumbent. -/
example :
    initInc [([0], 3), ([1], 2), ([2], 2)] = some { u := [1], fval := 2 } ∧
    run { u := [1], fval := 2 } [.search (some ([5], 2)), .poll [([6], 2), ([7], 1), ([8], 1)], .search none] = { u := [7], fval := 1 } := by
  constructor <;> decide +kernel

end Bads.Inc
