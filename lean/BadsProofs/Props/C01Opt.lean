/-
  C01 over ONE WHOLE CALL of `optimize()` (model `Opt`): every target call, every logged point and the returned solution of a whole call -
  initial phase (start point, noise test, filtered Sobol design), loop (any noise mode) and final re-sampling - lie in the hard box; the returned
  solution in ORIGINAL coordinates (`Pipe.inverse` = clamp ∘ ginv) lies in the original hard box.
-/
import BadsProofs.Props.C01
import BadsProofs.Props.C03Opt
import BadsProofs.Props.C05Opt

namespace Bads.Opt
open Bads

/-- every target call of a whole call is made inside the hard box -/
theorem optimize_calls_in_box (e : Env) (hb : boxOK e.full.pipe.lb e.full.pipe.ub = true) (hn : 1 ≤ e.full.o.nTry)
    (io : InitOrc) (hi : InitOK e io) (hf : Fits e io) (qs : List Full.Orc) (hq : RunOK e io qs) (fo : FinalOrc) :
    ∀ c ∈ (optimize e io qs fo).calls, InBox e.full.pipe.lb e.full.pipe.ub c.1 :=
  fun c hc => (optimize_calls_ok e hb hn io hi hf qs hq fo c hc).1

/-- every logged point (internal coordinates) of a whole call is inside the transformed hard box -/
theorem optimize_logged_points_in_box (e : Env) (hb : boxOK e.full.pipe.lb e.full.pipe.ub = true) (hn : 1 ≤ e.full.o.nTry)
    (io : InitOrc) (hi : InitOK e io) (hf : Fits e io) (qs : List Full.Orc) (hq : RunOK e io qs) (fo : FinalOrc) :
    ∀ p ∈ (optimize e io qs fo).loop.pairs, InBox e.full.pipe.lb e.full.pipe.ub p.1 :=
  (Full.full_run_spec (loopEnv e (init e io)) hb hn qs hq (loopStart e (init e io)) (init_inv e hb io hi hf)).2.2.1

/-- the returned point (internal coordinates) is inside the hard box: it is a point that was evaluated -/
theorem optimize_returned_in_box (e : Env) (hb : boxOK e.full.pipe.lb e.full.pipe.ub = true) (hn : 1 ≤ e.full.o.nTry)
    (io : InitOrc) (hi : InitOK e io) (hf : Fits e io) (qs : List Full.Orc) (hq : RunOK e io qs) (fo : FinalOrc) :
    InBox e.full.pipe.lb e.full.pipe.ub (optimize e io qs fo).u :=
  optimize_logged_points_in_box e hb hn io hi hf qs hq fo _ (returned_x_evaluated e hb hn io hi hf qs hq fo)

/-- THE RETURNED SOLUTION `x` of a whole call, in the user's coordinates, is inside the original hard box - for any inverse transform `ginv`
    (affine or logarithmic, exact or rounded): the clamp of `inverse_transform` is what guarantees it. -/
theorem optimize_returned_x_in_orig_box (e : Env) (io : InitOrc) (qs : List Full.Orc) (fo : FinalOrc)
    (hb : boxOK e.full.pipe.origLo e.full.pipe.origHi = true)
    (hl : (e.full.pipe.ginv (optimize e io qs fo).u).length = e.full.pipe.origLo.length) :
    InBox e.full.pipe.origLo e.full.pipe.origHi (Pipe.inverse e.full.pipe (optimize e io qs fo).u) :=
  Pipe.result_in_box e.full.pipe _ hb hl

/-- ... and so is the original-space image of EVERY point at which the target was called -/
theorem optimize_calls_x_in_orig_box (e : Env) (io : InitOrc) (qs : List Full.Orc) (fo : FinalOrc)
    (hb : boxOK e.full.pipe.origLo e.full.pipe.origHi = true)
    (hl : ∀ c ∈ (optimize e io qs fo).calls, (e.full.pipe.ginv c.1).length = e.full.pipe.origLo.length) :
    ∀ c ∈ (optimize e io qs fo).calls, InBox e.full.pipe.origLo e.full.pipe.origHi (Pipe.inverse e.full.pipe c.1) :=
  fun c hc => Pipe.result_in_box e.full.pipe _ hb (hl c hc)

namespace Example
open Bads.Full.Example
/-- non-vacuity: the whole call of C05Opt's example; all nine calls in the box [-4, 4], returned point 1 -/
example : (optimize eX ioX [q1, q2] foX).u = [1] ∧ Pipe.inverse eX.full.pipe (optimize eX ioX [q1, q2] foX).u = [1] ∧
    (optimize eX ioX [q1, q2] foX).calls.length = 9 ∧ boxOK eX.full.pipe.origLo eX.full.pipe.origHi = true := by decide +kernel
end Example

end Bads.Opt
