/-
  C09 - Every valid problem runs to completion in every supported mode. (PARTIAL)

  "No internal error anywhere in pybads' NumPy code" is not a theorem about any model one could
  write.  Proved here: DEFINEDNESS of the rare internal paths the property names, in the
  definedness model `Defined.lean` (and in the models of C03/C10/C16/C18 where those already carry
  it).  Everything else is covered only as far as runs are executed (see the check).
-/
import BadsModel.Defined
import BadsProofs.Props.C18
import BadsProofs.Props.C16
import BadsProofs.Props.C10

namespace Bads.Def

def isOk {α : Type} : Except Err α → Bool
  | .ok _ => true
  | .error _ => false

/-- (a) EVERY ES CANDIDATE INFEASIBLE: whatever the number of survivors (0 included) the strategy
    returns, and the search step is defined on what it returns. -/
theorem es_loop_defined (n : Nat) : ∃ r, esReturn n = .ok r ∧ isOk (searchStep r) = true := by
  unfold esReturn
  split
  · exact ⟨Option.none, rfl, rfl⟩
  · exact ⟨some 0, rfl, rfl⟩

/-- ... and in the ES model of C18 an empty population proposes nothing (no `us[0]` on nothing). -/
theorem es_empty_proposes_nothing (lam : Nat) (gens : List (List Srch.Cand)) (h : gens.flatten = []) :
    Srch.esResult lam gens = Option.none := Srch.es_empty lam gens h

/-- (b) REPEATED OBSERVATION UNDER SPECIFIED NOISE: every value the logger returns is a scalar, so
    the GP-calibration statistics and the history record are defined for every sequence of calls. -/
theorem record_value_kind (b : RecBranch) : recordValueKind b = .pyfloat := by cases b <;> rfl

theorem gp_stats_defined (bs : List RecBranch) : isOk (statsAsFloat (bs.map recordValueKind)) = true := by
  unfold statsAsFloat
  have : (bs.map recordValueKind).all (fun k => k == Kind.pyfloat || k == Kind.npscalar) = true := by
    rw [List.all_eq_true]
    intro k hk
    obtain ⟨b, _, rfl⟩ := List.mem_map.mp hk
    rw [record_value_kind]; rfl
  simp [this, isOk]

theorem history_record_defined (b : RecBranch) : isOk (floatOf (recordValueKind b)) = true := by
  rw [record_value_kind]; rfl

/-- (c) BUDGET AT THE EDGE OF THE INITIAL DESIGN: the training schedule is defined for every budget,
    including `min(budget, n_train_max) = number of initial points` (0/0 before the fix). -/
theorem train_opts_defined (nEff eff budget nTrainMax : Int) : isOk (trainOpts nEff eff budget nTrainMax) = true := by
  unfold trainOpts schedX
  simp only
  split <;> rfl

/-- (d) NON-FINITE GP PREDICTION AT THE INCUMBENT: the fallback value supports `.item()`. -/
theorem target_fallback_defined (predFinite : Bool) : isOk (itemOf (targetMu predFinite)) = true := by
  cases predFinite <;> rfl

/-- (e) NOISY RUN ENDING IN ITS FIRST ITERATION: whenever the result reads `yval_vec` it has been
    set - for every poll iteration count, 0 included. -/
theorem result_defined (unc pollIter nfs : Nat) : isOk (buildResult unc pollIter nfs) = true := by
  unfold buildResult yvalVecSet resultReadsYvalVec
  cases h1 : decide (unc > 0) <;> cases h2 : decide (nfs > 0) <;> simp [isOk]

/-- hedge draw and prior re-sampling are total -/
theorem hedge_choice_defined (f : Option Nat) (fb : Nat) : isOk (hedgeChoice f fb) = true := by
  cases f <;> rfl

theorem sample_prior_defined (p : Option Unit) : isOk (samplePrior p) = true := by
  cases p <;> rfl

/-- GP REFIT RETRIES are defined (C16): shapes agree at every attempt, and a success after fewer
    than ten consecutive failures returns. -/
theorem refit_retries_defined (ra k : Nat) (rest : List Bool) (sh : GP.Shapes) (drops : List Nat) (hk : k < 10) (hs : sh.agree = true) :
    (GP.robustFit 10 ra sh (List.replicate k true ++ false :: rest) drops 0).2 = true ∧
    ∀ s ∈ (GP.robustFit 10 ra sh (List.replicate k true ++ false :: rest) drops 0).1, s.agree = true :=
  ⟨(GP.robustFit_defined 10 ra k rest sh drops 0 (by omega)).1, GP.robustFit_shapes_agree 10 ra _ sh drops 0 hs⟩

/-- A WELL-BEHAVED TARGET is never rejected by the logger (C10's `call_valid_ok`). -/
theorem valid_call_accepted (s : Log.St) (xo x : Pt) (out : Log.Outcome) (rd : Bool) (h : out.valid s.he = true) (hinv : Log.DistinctX s) :
    ∃ s' r, Log.call s xo x out rd = .ok (s', r) := by
  obtain ⟨s', r, h1, _, _⟩ := Log.call_valid_ok s xo x out rd h hinv
  exact ⟨s', r, h1⟩

end Bads.Def
