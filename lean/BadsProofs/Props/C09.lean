/- C09 placeholder: definedness theorems are added together with Defined.lean. -/
import BadsModel
namespace Bads
theorem c09_placeholder : True := trivial
end Bads
