/-
  C16 over ONE WHOLE CALL of `optimize()` (model `Opt`): the outcome of every GP hyper-parameter fit of a whole call - the initial fit after the
  design, every periodic and local refit, success or failure, once or many times in a row, the hyper-parameters and predictions that result -
  enters the whole-call model only through ORACLE inputs that the theorems quantify universally (the estimates `(f, sd)` of the evaluated
  candidates, the acquisition picks `searchPick` / `pollOrder`, the threshold, the stall flags, the re-estimated history values, the predictive
  SD at the first incumbent).  So the whole-call guarantees hold verbatim for calls in which fits fail; they are re-exported here, in one
  statement, so that C16's audit covers them.
-/
import BadsProofs.Props.C16Run
import BadsProofs.Props.C03Opt
import BadsProofs.Props.C13Opt
import BadsProofs.Props.C19Opt

namespace Bads.Opt
open Bads

/-- WHATEVER THE FITS DO (every oracle stream `io`, `qs`, `fo`): a whole call stays within the budget and counts honestly, calls the target only
    at feasible points of the hard box, leaves its loop finished once the oracle stream is long enough, keeps its mesh invariant, and returns a
    point it evaluated. -/
theorem whole_call_guarantees_survive_fit_failures (e : Env) (hb : boxOK e.full.pipe.lb e.full.pipe.ub = true) (hn : 1 ≤ e.full.o.nTry)
    (h0 : e.msi0 ≤ e.full.o.cap) (hs : e.full.o.sgm = 2) (hc : e.full.o.cap ≤ e.full.o.sgn)
    (io : InitOrc) (hi : InitOK e io) (hf : Fits e io) (qs : List Full.Orc) (hq : RunOK e io qs) (fo : FinalOrc) :
    ((optimize e io qs fo).calls.length ≤ e.full.o.budget ∧ (optimize e io qs fo).funcCount = (optimize e io qs fo).calls.length) ∧
    (∀ c ∈ (optimize e io qs fo).calls, InBox e.full.pipe.lb e.full.pipe.ub c.1 ∧ (∀ cf, e.full.pipe.cons = some cf → cf c.1 = false)) ∧
    ((e.full.o.nTry + 1) * (e.full.o.maxIter + e.full.o.budget) < qs.length → (optimize e io qs fo).loop.ctl.c.finished = true) ∧
    ((optimize e io qs fo).loop.ctl.m.msi ≤ e.full.o.cap ∧
      (2 : Rat) ^ (optimize e io qs fo).loop.ctl.m.ssi ≤ (2 : Rat) ^ (optimize e io qs fo).loop.ctl.m.msi) ∧
    (∃ c ∈ (optimize e io qs fo).calls, c.1 = (optimize e io qs fo).u) :=
  ⟨optimize_budget e hb hn io hi hf qs hq fo,
   optimize_calls_ok e hb hn io hi hf qs hq fo,
   fun hlen => optimize_terminates e hn io qs fo hlen,
   optimize_mesh_inv e io h0 hs hc _ (optimize_reach e io qs fo),
   optimize_returned_called e hb hn io hi hf qs hq fo⟩

end Bads.Opt
