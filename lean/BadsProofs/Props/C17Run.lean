/-
  C17, the "consequently" clause at run level: with a filter that does what the property says
  (`filterSpec`: drops candidates whose key is already in the log), a run in which the log handed to the
  filter is the list of points evaluated so far never evaluates two points with the same key - whatever
  the candidate sets and whatever is picked from the survivors.  With the filter AS CODED (`filterCode`)
  this fails: `code_filter_repeats_counterexample` (known finding C17-evaluated-twice, the run-level
  consequence of C17-fresh).
-/
import BadsProofs.Props.C17
import BadsModel.Pipeline

namespace Bads.Pipe
open Bads

/-- one candidate-set step with the documented filter, the log being the evaluations so far -/
def stepSpec (e : Env) (evals : List Pt) (proj : Bool) (h : Rat) (U : List Pt) (picks : List Nat) : List Pt :=
  evals ++ pickAll (filterSpec (filterIn e proj h U evals)) picks

theorem pickAll_keys_nodup (t : Rat) (out : List Pt) (hout : (out.map (keyOf t)).Nodup) :
    ∀ picks : List Nat, picks.Nodup → ((pickAll out picks).map (keyOf t)).Nodup
  | [], _ => by simp [pickAll]
  | i :: is, hp => by
    have hi : i ∉ is := (List.nodup_cons.mp hp).1
    have ih := pickAll_keys_nodup t out hout is (List.nodup_cons.mp hp).2
    simp only [pickAll]
    cases hget : out[i]? with
    | none => simpa using ih
    | some p =>
      simp only [List.singleton_append, List.map_cons, List.nodup_cons]
      refine ⟨?_, ih⟩
      intro hmem
      -- some later pick j ≠ i yields a point with the same key: contradicts distinct keys in `out`
      have : ∀ js : List Nat, i ∉ js → keyOf t p ∈ (pickAll out js).map (keyOf t) → False := by
        intro js
        induction js with
        | nil => intro _ h; simp [pickAll] at h
        | cons j js ihj =>
          intro hij h
          have hne : i ≠ j := fun h' => hij (h' ▸ List.mem_cons_self)
          have hij' : i ∉ js := fun h' => hij (List.mem_cons_of_mem _ h')
          simp only [pickAll] at h
          cases hj : out[j]? with
          | none => rw [hj] at h; exact ihj hij' (by simpa using h)
          | some q =>
            rw [hj] at h
            simp only [List.singleton_append, List.map_cons, List.mem_cons] at h
            rcases h with h | h
            · -- keyOf p = keyOf q at different positions
              have hi' : i < out.length := by
                by_contra hc
                have := List.getElem?_eq_none (Nat.le_of_not_lt hc)
                rw [this] at hget; cases hget
              have hj' : j < out.length := by
                by_contra hc
                have := List.getElem?_eq_none (Nat.le_of_not_lt hc)
                rw [this] at hj; cases hj
              have e1 : out[i] = p := by
                have := List.getElem?_eq_getElem hi'; rw [this] at hget; exact Option.some.inj hget
              have e2 : out[j] = q := by
                have := List.getElem?_eq_getElem hj'; rw [this] at hj; exact Option.some.inj hj
              have hmi : i < (out.map (keyOf t)).length := by simpa using hi'
              have hmj : j < (out.map (keyOf t)).length := by simpa using hj'
              have heq : (out.map (keyOf t))[i] = (out.map (keyOf t))[j] := by
                simp only [List.getElem_map, e1, e2, h]
              exact hne ((List.getElem_inj hout).mp heq)
            · exact ihj hij' h
      exact this is hi hmem

theorem pickAll_mem_out (out : List Pt) : ∀ picks : List Nat, ∀ p ∈ pickAll out picks, p ∈ out
  | [], p, h => by simp [pickAll] at h
  | i :: is, p, h => by
    simp only [pickAll, List.mem_append] at h
    rcases h with h | h
    · cases hget : out[i]? with
      | none => rw [hget] at h; simp at h
      | some q =>
        rw [hget] at h
        simp only [List.mem_singleton] at h
        subst h
        exact List.mem_of_getElem? hget
    · exact pickAll_mem_out out is p h

/-- WITH THE DOCUMENTED FILTER NO POINT IS EVALUATED TWICE: distinct keys are preserved by every
    candidate-set step, for all candidate sets, meshes and (repetition-free) picks. -/
theorem spec_filter_never_repeats (e : Env) (evals : List Pt) (proj : Bool) (h : Rat) (U : List Pt)
    (picks : List Nat) (hp : picks.Nodup)
    (hev : (evals.map (keyOf (e.tolMesh / 2))).Nodup) :
    ((stepSpec e evals proj h U picks).map (keyOf (e.tolMesh / 2))).Nodup := by
  unfold stepSpec
  rw [List.map_append, List.nodup_append]
  have hI : (filterIn e proj h U evals).tolMesh = e.tolMesh := rfl
  have hL : (filterIn e proj h U evals).logX = evals := rfl
  have hnd := filterSpec_pairwise_distinct_keys (filterIn e proj h U evals)
  rw [hI] at hnd
  refine ⟨hev, pickAll_keys_nodup _ _ hnd picks hp, ?_⟩
  intro a ha b hb hab
  subst hab
  obtain ⟨p, hpmem, rfl⟩ := List.mem_map.mp hb
  have hps := pickAll_mem_out _ picks p hpmem
  have hfresh := filterSpec_fresh (filterIn e proj h U evals) p hps
  rw [hI, hL] at hfresh
  exact hfresh ha

/-- ... and for whole runs of such steps -/
theorem spec_filter_run_never_repeats (e : Env) :
    ∀ (steps : List (Bool × Rat × List Pt × List Nat)) (evals : List Pt),
      (∀ s ∈ steps, s.2.2.2.Nodup) → (evals.map (keyOf (e.tolMesh / 2))).Nodup →
      ((steps.foldl (fun ev s => stepSpec e ev s.1 s.2.1 s.2.2.1 s.2.2.2) evals).map (keyOf (e.tolMesh / 2))).Nodup
  | [], evals, _, h => h
  | s :: ss, evals, hs, h => by
    simp only [List.foldl_cons]
    exact spec_filter_run_never_repeats e ss _ (fun s' hs' => hs s' (List.mem_cons_of_mem _ hs'))
      (spec_filter_never_repeats e evals s.1 s.2.1 s.2.2.1 s.2.2.2 (hs s List.mem_cons_self) h)

/-- THE CODE'S FILTER DOES LET A REPEAT THROUGH: a one-dimensional run that has evaluated the point 1 and is
    offered the candidate 1 again evaluates it a second time. -/
theorem code_filter_repeats_counterexample :
    ∃ (e : Env) (evals : List Pt) (s : Step),
      (evals.map (keyOf (e.tolMesh / 2))).Nodup ∧ ¬ ((step e evals s).map (keyOf (e.tolMesh / 2))).Nodup := by
  refine ⟨{ lb := [.fin 0], ub := [.fin 2], origLo := [.fin 0], origHi := [.fin 2], tolMesh := 1, cons := none, ginv := id },
          [[1]], .filt false 1 [[1]] [[1]] [0], ?_, ?_⟩ <;> decide +kernel

end Bads.Pipe
