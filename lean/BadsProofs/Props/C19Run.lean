/-
  End-to-end theorems about `Full.run`, the composed model of a whole run in any noise mode (FullRun.lean):
  for EVERY stream of candidate sets, acquisition rankings, returned values, GP estimates, thresholds, stall
  flags and re-estimates, and every number of iterations,

    * every recorded iterate and the incumbent are (point, value) pairs that were observed together (C19) -
      WITHOUT the hypothesis `it ≤ hist.length` that the component theorem `Noisy.iterStep_pinv` needs: in the
      composed model the recording index is the controller's `poll_iteration`, and `hist.length = poll_iteration`
      is an invariant of the composition (`full_hist_length`);
    * every evaluated point lies in the hard box and satisfies the non-box constraint (C01, C02);
    * the count of target calls follows the evaluations and respects the loop budget (C03).
-/
import BadsModel.FullRun
import BadsProofs.Props.C01
import BadsProofs.Props.C02
import BadsProofs.Props.C03
import BadsProofs.Props.C19

namespace Bads.Full
open Bads

def OrcOK (e : Env) (q : Orc) : Prop :=
  0 < q.h ∧ wideB q.h e.pipe.lb e.pipe.ub = true ∧ ∀ p ∈ q.searchU, p.length = e.pipe.lb.length

def Inv (e : Env) (s : St) : Prop :=
  Noisy.PInv s.ns s.pairs ∧
  (∀ p ∈ s.pairs, InBox e.pipe.lb e.pipe.ub p.1) ∧
  (∀ c, e.pipe.cons = some c → ∀ p ∈ s.pairs, c p.1 = false) ∧
  Ctl.CInv e.o s.ctl.c ∧ Ctl.BInv e.o s.ctl.c ∧
  (s.ctl.c.finished = false → s.ns.hist.length = s.ctl.c.pollIter)

theorem step_ctl (e : Env) (s : St) (q : Orc) : (step e s q).ctl = Ctl.step e.o s.ctl (outOf e s q) := rfl
theorem step_ns (e : Env) (s : St) (q : Orc) : (step e s q).ns = Noisy.iterStep e.tolFun s.ns (iterOf e s q) := rfl
theorem step_pairs (e : Env) (s : St) (q : Orc) : (step e s q).pairs = s.pairs ++ newPairs e s q := rfl

/-! ### the evaluated points -/

theorem searchCand_spec (e : Env) (s : St) (q : Orc) (c : Noisy.Cand) (nr : Bool) (h : searchCand e s q = some (c, nr)) :
    Ctl.doSearch e.o s.ctl.c = true ∧ c.u ∈ filterCode (Pipe.filterIn e.pipe true q.h q.searchU (pts s)) := by
  unfold searchCand at h
  by_cases hd : Ctl.doSearch e.o s.ctl.c = true
  · rw [if_pos hd] at h
    cases hg : (filterCode (Pipe.filterIn e.pipe true q.h q.searchU (pts s)))[q.searchPick]? with
    | none => rw [hg] at h; cases h
    | some u =>
      rw [hg] at h
      cases hv : q.searchVal with
      | none => rw [hv] at h; cases h
      | some v =>
        rw [hv] at h
        simp only [Option.some.injEq, Prod.mk.injEq] at h
        obtain ⟨rfl, _⟩ := h
        exact ⟨hd, List.mem_of_getElem? hg⟩
  · rw [if_neg hd] at h; cases h

theorem zipCands_u : ∀ (us : List Pt) (vs : List Val) (c : Noisy.Cand × Bool), c ∈ zipCands us vs → c.1.u ∈ us
  | [], _, c, h => by simp [zipCands] at h
  | _ :: _, [], c, h => by simp [zipCands] at h
  | u :: us, v :: vs, c, h => by
    simp only [zipCands, List.mem_cons] at h
    rcases h with rfl | h
    · simp [mkCand]
    · exact List.mem_cons_of_mem _ (zipCands_u us vs c h)

theorem zipCands_length : ∀ (us : List Pt) (vs : List Val), (zipCands us vs).length ≤ us.length
  | [], _ => by simp [zipCands]
  | _ :: _, [] => by simp [zipCands]
  | u :: us, v :: vs => by simp only [zipCands, List.length_cons]; have := zipCands_length us vs; omega

theorem pollCands_spec (e : Env) (s : St) (q : Orc) (c : Noisy.Cand × Bool) (h : c ∈ pollCands e s q) :
    c.1.u ∈ filterCode (Pipe.filterIn e.pipe false q.h q.pollU (pts s ++ ((searchCand e s q).map (·.1.u)).toList)) := by
  unfold pollCands at h
  by_cases hr : pollRuns e s q = true
  · rw [if_pos hr] at h
    exact Pipe.pickAll_sub _ _ _ (zipCands_u _ _ c h)
  · rw [if_neg hr] at h; cases h

theorem pickAll_length_le (out : List Pt) : ∀ picks : List Nat, (Pipe.pickAll out picks).length ≤ picks.length
  | [] => by simp [Pipe.pickAll]
  | i :: is => by
    have ih := pickAll_length_le out is
    simp only [Pipe.pickAll, List.length_append, List.length_cons]
    cases out[i]? <;> simp <;> omega

theorem pollCands_length (e : Env) (s : St) (q : Orc) :
    (pollCands e s q).length ≤ Ctl.nEvals e.o (cBeforePoll e s q).fc q.pollOrder.length := by
  unfold pollCands
  by_cases hr : pollRuns e s q = true
  · rw [if_pos hr]
    refine le_trans (zipCands_length _ _) (le_trans (pickAll_length_le _ _) ?_)
    simp [List.length_take]
  · rw [if_neg hr]; simp

theorem newPairs_in (e : Env) (hb : boxOK e.pipe.lb e.pipe.ub = true) (s : St) (q : Orc) (hq : OrcOK e q) :
    ∀ p ∈ newPairs e s q, InBox e.pipe.lb e.pipe.ub p.1 ∧ (∀ c, e.pipe.cons = some c → c p.1 = false) := by
  obtain ⟨hh, hw, hdim⟩ := hq
  intro p hp
  unfold newPairs at hp
  simp only [List.mem_append, List.mem_map] at hp
  rcases hp with hp | ⟨c, hc, rfl⟩
  · cases hs : searchCand e s q with
    | none => rw [hs] at hp; simp at hp
    | some cn =>
      obtain ⟨c, nr⟩ := cn
      rw [hs] at hp
      simp only [Option.map_some, Option.toList, List.mem_singleton] at hp
      subst hp
      obtain ⟨_, hmem⟩ := searchCand_spec e s q c nr hs
      refine ⟨?_, fun cf hcf => Pipe.filtered_feasible e.pipe cf hcf true q.h q.searchU _ c.u hmem⟩
      have hbox := searchBox_ok q.h hh e.pipe.lb e.pipe.ub hb hw
      have hin := filter_in_box (Pipe.filterIn e.pipe true q.h q.searchU (pts s))
        (by intro _; exact ⟨by simpa [Pipe.filterIn] using hbox, by intro p hp; simpa [Pipe.filterIn, searchLo_length] using hdim p hp⟩) c.u hmem
      have hin' : inBoxB (searchLo q.h e.pipe.lb) (searchHi q.h e.pipe.ub) c.u = true := by simpa [Pipe.filterIn, InBox] using hin
      exact inBox_search_sub q.h hh e.pipe.lb e.pipe.ub c.u hin'
  · have hmem := pollCands_spec e s q c hc
    refine ⟨?_, fun cf hcf => Pipe.filtered_feasible e.pipe cf hcf false q.h q.pollU _ c.1.u hmem⟩
    have hin := filter_in_box (Pipe.filterIn e.pipe false q.h q.pollU _) (by intro hc; simp [Pipe.filterIn] at hc) c.1.u hmem
    simpa [Pipe.filterIn] using hin

/-- the pairs the incumbent logic is told about are exactly the new evaluations -/
theorem candsOf_iterOf (e : Env) (s : St) (q : Orc) : Noisy.candsOf (iterOf e s q) = newPairs e s q := by
  have hsnone : searchCand e s q ≠ none → Ctl.doSearch e.o s.ctl.c = true := by
    intro hne
    cases hs : searchCand e s q with
    | none => exact absurd hs hne
    | some cn => exact (searchCand_spec e s q cn.1 cn.2 hs).1
  have hpnil : pollRuns e s q = false → pollCands e s q = [] := by
    intro h; unfold pollCands; rw [h]; simp
  unfold Noisy.candsOf Noisy.sCands Noisy.pCands iterOf newPairs
  congr 1
  · by_cases hd : Ctl.doSearch e.o s.ctl.c = true
    · simp only [hd, if_true]
      cases searchCand e s q with
      | none => rfl
      | some cn => simp [Noisy.candPair]
    · simp only [hd]
      cases hs : searchCand e s q with
      | none => rfl
      | some cn => exact absurd (hsnone (by rw [hs]; simp)) hd
  · by_cases hp : pollRuns e s q = true
    · simp only [hp, if_true, List.map_map]
      rfl
    · have hp0 : pollRuns e s q = false := by simpa using hp
      simp [hp0, hpnil hp0]

/-! ### history length -/

theorem reEstimate_length (hist : List Noisy.HRow) (vals : List (Rat × Rat)) :
    (Noisy.reEstimate hist vals).length = hist.length := by
  unfold Noisy.reEstimate
  simp only [List.length_append, List.length_zipWith, List.length_drop]
  omega

theorem reEvalSwap_hist_length (s : Noisy.St) (it : Nat) (vals : List (Rat × Rat)) (tol : Rat) :
    (Noisy.reEvalSwap s it vals tol).hist.length = s.hist.length := by
  unfold Noisy.reEvalSwap
  simp only
  split
  · simp [reEstimate_length]
  · split
    · split
      · split <;> simp [reEstimate_length]
      · simp [reEstimate_length]
    · simp [reEstimate_length]

theorem setAt_length {α : Type} (l : List α) (i : Nat) (a : α) :
    (Noisy.setAt l i a).length = if i < l.length then l.length else l.length + 1 := by
  unfold Noisy.setAt
  split <;> simp

theorem iterStep_hist_length (tol : Rat) (s : Noisy.St) (i : Noisy.Iter) :
    (Noisy.iterStep tol s i).hist.length =
      if (i.poll.isSome || i.finished) = true then (if i.it < s.hist.length then s.hist.length else s.hist.length + 1)
      else s.hist.length := by
  rw [Noisy.iterStep_eq]
  have hlen : (Noisy.st3 (Noisy.st1 s i) i).hist.length = s.hist.length := by rw [Noisy.st3_hist, Noisy.st1_hist]
  simp only
  by_cases hrec : (i.poll.isSome || i.finished) = true
  · simp only [hrec, if_true]
    have hr : (Noisy.recordIter (Noisy.st3 (Noisy.st1 s i) i) i.it).hist.length =
        if i.it < s.hist.length then s.hist.length else s.hist.length + 1 := by
      simp only [Noisy.recordIter, setAt_length, hlen]
    cases i.reVals with
    | none => exact hr
    | some vals =>
      simp only
      split
      · rw [reEvalSwap_hist_length]; exact hr
      · exact hr
  · simp only [hrec]
    cases i.reVals with
    | none => simpa using hlen
    | some vals =>
      have hq : i.poll.isSome = false := by
        cases hq : i.poll.isSome
        · rfl
        · simp [hq] at hrec
      simpa [hq] using hlen

theorem cAfterSearch_pollIter (o : Ctl.Opts) (c : Ctl.CSt) (so : Ctl.SOut) : (Ctl.cAfterSearch o c so).pollIter = c.pollIter := by
  unfold Ctl.cAfterSearch
  split
  · cases so <;> rfl
  · rfl

theorem cReset_pollIter (o : Ctl.Opts) (c : Ctl.CSt) : (Ctl.cReset o c).pollIter = c.pollIter := by
  unfold Ctl.cReset; split <;> rfl

/-- `poll_iteration` advances exactly after a poll that did not end the run -/
theorem cstep_pollIter_eq (o : Ctl.Opts) (c : Ctl.CSt) (co : Ctl.COut) :
    (Ctl.cstep o c co).pollIter =
      if (!(Ctl.cstep o c co).finished && Ctl.doPoll o (Ctl.cAfterSearch o c co.search)) = true then c.pollIter + 1
      else c.pollIter := by
  simp only [Ctl.cstep, Ctl.cAfterSearch, Ctl.cReset, Ctl.doSearch, Ctl.doPoll, Ctl.skipPoll, Ctl.atEnd, Ctl.nEvals, Ctl.b2n]
  grind

/-- THE RECORDING INDEX IS RIGHT: while the loop runs, the history has exactly `poll_iteration` rows. -/
theorem full_hist_length (e : Env) (s : St) (q : Orc) (h : s.ns.hist.length = s.ctl.c.pollIter)
    (hnf : (step e s q).ctl.c.finished = false) : (step e s q).ns.hist.length = (step e s q).ctl.c.pollIter := by
  rw [step_ns, iterStep_hist_length]
  have hfin : (iterOf e s q).finished = (step e s q).ctl.c.finished := rfl
  have hit : (iterOf e s q).it = s.ctl.c.pollIter := rfl
  have hpoll : (iterOf e s q).poll.isSome = pollRuns e s q := by
    unfold iterOf; simp only; split <;> simp_all
  rw [hfin, hnf, hit, hpoll, h]
  have hc : (step e s q).ctl.c = Ctl.cstep e.o s.ctl.c (Ctl.coutOf e.o s.ctl (outOf e s q)) := rfl
  have hsearch : (Ctl.coutOf e.o s.ctl (outOf e s q)).search = searchOut e s q := rfl
  rw [hc] at hnf ⊢
  rw [cstep_pollIter_eq, hnf, hsearch]
  have hpr : pollRuns e s q = Ctl.doPoll e.o (Ctl.cAfterSearch e.o s.ctl.c (searchOut e s q)) := rfl
  rw [← hpr]
  cases pollRuns e s q <;> simp

/-! ### the invariant -/

theorem step_inv (e : Env) (hb : boxOK e.pipe.lb e.pipe.ub = true) (hn : 1 ≤ e.o.nTry) (s : St) (q : Orc)
    (hq : OrcOK e q) (h : Inv e s) (hnf : s.ctl.c.finished = false) : Inv e (step e s q) := by
  obtain ⟨hp, hbox, hcons, hci, hbi, hlen⟩ := h
  have hl := hlen hnf
  have hnew := newPairs_in e hb s q hq
  refine ⟨?_, ?_, ?_, ?_, ?_, ?_⟩
  · rw [step_ns, step_pairs, ← candsOf_iterOf]
    exact Noisy.iterStep_pinv e.tolFun s.ns s.pairs (iterOf e s q) hp (by
      have : (iterOf e s q).it = s.ctl.c.pollIter := rfl
      rw [this, hl])
  · intro p hp'
    rw [step_pairs] at hp'
    rcases List.mem_append.mp hp' with hp' | hp'
    · exact hbox p hp'
    · exact (hnew p hp').1
  · intro c hc p hp'
    rw [step_pairs] at hp'
    rcases List.mem_append.mp hp' with hp' | hp'
    · exact hcons c hc p hp'
    · exact (hnew p hp').2 c hc
  · rw [step_ctl]; exact Ctl.cstep_inv e.o s.ctl.c _ hn hci
  · rw [step_ctl]; exact Ctl.cstep_binv e.o s.ctl.c _ hn hbi hnf
  · intro hnf'
    exact full_hist_length e s q hl hnf'

/-- EVERY REACHABLE STATE of a run in any noise mode satisfies the invariant. -/
theorem run_inv (e : Env) (hb : boxOK e.pipe.lb e.pipe.ub = true) (hn : 1 ≤ e.o.nTry) :
    ∀ (qs : List Orc) (s : St), (∀ q ∈ qs, OrcOK e q) → Inv e s → Inv e (run e qs s)
  | [], _, _, h => h
  | q :: qs, s, hq, h => by
    unfold run
    by_cases hf : s.ctl.c.finished = true
    · rw [if_pos hf]; exact h
    · rw [if_neg hf]
      exact run_inv e hb hn qs _ (fun q' hq' => hq q' (List.mem_cons_of_mem _ hq'))
        (step_inv e hb hn s q (hq q List.mem_cons_self) h (by simpa using hf))

/-- THE RECORD OF A RUN (any noise mode), for every oracle stream: the incumbent pair and every recorded iterate
    were observed together, every evaluated point is in the hard box and feasible, the call count is within the
    loop budget. -/
theorem full_run_spec (e : Env) (hb : boxOK e.pipe.lb e.pipe.ub = true) (hn : 1 ≤ e.o.nTry)
    (qs : List Orc) (hq : ∀ q ∈ qs, OrcOK e q) (s0 : St) (h0 : Inv e s0) :
    let r := run e qs s0
    (r.ns.u, r.ns.yval) ∈ r.pairs ∧ (∀ row ∈ r.ns.hist, (row.u, row.yval) ∈ r.pairs) ∧
    (∀ p ∈ r.pairs, InBox e.pipe.lb e.pipe.ub p.1) ∧ (∀ c, e.pipe.cons = some c → ∀ p ∈ r.pairs, c p.1 = false) ∧
    r.ctl.c.fc ≤ e.o.budget := by
  intro r
  obtain ⟨⟨_, hinc, hrows⟩, hbox, hcons, _, hbud, _⟩ := run_inv e hb hn qs s0 hq h0
  exact ⟨hinc, fun row hr => by simpa [Noisy.pairOf] using hrows row hr, hbox, hcons, hbud.1⟩

/-! ### call count and termination of the composed model -/

theorem cReset_fc (o : Ctl.Opts) (c : Ctl.CSt) : (Ctl.cReset o c).fc = c.fc := by
  unfold Ctl.cReset; split <;> rfl

theorem cstep_fc (o : Ctl.Opts) (c : Ctl.CSt) (co : Ctl.COut) :
    (Ctl.cstep o c co).fc = (Ctl.cAfterSearch o c co.search).fc +
      (if Ctl.doPoll o (Ctl.cAfterSearch o c co.search) = true
       then Ctl.nEvals o (Ctl.cAfterSearch o c co.search).fc co.nz else 0) := by
  simp only [Ctl.cstep]
  split <;> simp [cReset_fc]

theorem afterSearch_fc (e : Env) (s : St) (q : Orc) :
    (Ctl.cAfterSearch e.o s.ctl.c (searchOut e s q)).fc = s.ctl.c.fc + ((searchCand e s q).map (fun c => (c.1.u, c.1.y))).toList.length := by
  cases hs : searchCand e s q with
  | none =>
    have hso : searchOut e s q = .empty := by unfold searchOut; rw [hs]
    rw [hso]
    simp only [Ctl.cAfterSearch, Option.map_none, Option.toList, List.length_nil, Nat.add_zero]
    split <;> rfl
  | some cn =>
    obtain ⟨c, nr⟩ := cn
    obtain ⟨hd, _⟩ := searchCand_spec e s q c nr hs
    have hso : searchOut e s q = .eval nr (status (impr s.ns.fval c.f) q.thr) := by unfold searchOut; rw [hs]
    rw [hso]
    simp [Ctl.cAfterSearch, hd]

/-- the target is called once per evaluated pair -/
theorem step_fc (e : Env) (s : St) (q : Orc) :
    (step e s q).ctl.c.fc + s.pairs.length = s.ctl.c.fc + (step e s q).pairs.length := by
  have hlen := pollCands_length e s q
  have hnr : pollRuns e s q = false → pollCands e s q = [] := by
    intro h; unfold pollCands; rw [h]; simp
  have hc : (step e s q).ctl.c = Ctl.cstep e.o s.ctl.c (Ctl.coutOf e.o s.ctl (outOf e s q)) := rfl
  have hsearch : (Ctl.coutOf e.o s.ctl (outOf e s q)).search = searchOut e s q := rfl
  have hnz : (Ctl.coutOf e.o s.ctl (outOf e s q)).nz = (pollCands e s q).length := by
    simp [Ctl.coutOf, outOf]
  rw [hc, cstep_fc, hsearch, hnz, afterSearch_fc, step_pairs]
  simp only [newPairs, List.length_append, List.length_map]
  have hcb : (cBeforePoll e s q).fc = s.ctl.c.fc + ((searchCand e s q).map (fun c => (c.1.u, c.1.y))).toList.length := by
    unfold cBeforePoll; rw [cReset_fc, afterSearch_fc]
  rw [hcb] at hlen
  by_cases hp : pollRuns e s q = true
  · have hp' : Ctl.doPoll e.o (Ctl.cAfterSearch e.o s.ctl.c (searchOut e s q)) = true := hp
    rw [if_pos hp']
    simp only [Ctl.nEvals] at hlen ⊢
    omega
  · have hp0 : pollRuns e s q = false := by simpa using hp
    have hp' : ¬ Ctl.doPoll e.o (Ctl.cAfterSearch e.o s.ctl.c (searchOut e s q)) = true := hp
    rw [if_neg hp', hnr hp0]
    simp only [List.length_nil]
    omega

theorem run_fc (e : Env) : ∀ (qs : List Orc) (s : St),
    (run e qs s).ctl.c.fc + s.pairs.length = s.ctl.c.fc + (run e qs s).pairs.length
  | [], _ => by simp [run]
  | q :: qs, s => by
    unfold run
    by_cases hf : s.ctl.c.finished = true
    · rw [if_pos hf]
    · rw [if_neg hf]
      have h1 := run_fc e qs (step e s q)
      have h2 := step_fc e s q
      omega

/-- TERMINATION of the composed model (any noise mode): whatever the oracle answers, after more than `rank`
    iterations the controller has finished. -/
theorem full_terminates (e : Env) (hn : 1 ≤ e.o.nTry) :
    ∀ (qs : List Orc) (s : St), Ctl.CInv e.o s.ctl.c → Ctl.rank e.o s.ctl.c < qs.length →
      (run e qs s).ctl.c.finished = true
  | [], _, _, h => by simp at h
  | q :: qs, s, hinv, hr => by
    unfold run
    by_cases hf : s.ctl.c.finished = true
    · rw [if_pos hf]; exact hf
    · rw [if_neg hf]
      by_cases hf' : (step e s q).ctl.c.finished = true
      · cases qs with
        | nil => simpa [run] using hf'
        | cons q' qs' => unfold run; rw [if_pos hf']; exact hf'
      · have hdec := Ctl.cstep_rank e.o s.ctl.c (Ctl.coutOf e.o s.ctl (outOf e s q)) hn hinv
          (by simpa [step_ctl, Ctl.step] using hf')
        refine full_terminates e hn qs _ (by rw [step_ctl]; exact Ctl.cstep_inv e.o s.ctl.c _ hn hinv) ?_
        rw [step_ctl]
        simp only [Ctl.step, List.length_cons] at hr ⊢
        omega


/-! ### non-vacuity: a concrete noisy run meets the hypotheses, and the composed model computes it -/
namespace Example
def o1 : Ctl.Opts := { D := 1, nTry := 2, budget := 12, maxIter := 5, skip := true, cap := 0, sgm := 2, sgn := 10, locked := true,
                       accel := true, accelSteps := 3, stallIters := 4, tolExp := -20, expand := 0, incr := 1 }
def e1 : Env := { pipe := { lb := [.fin (-4)], ub := [.fin 4], origLo := [.fin (-4)], origHi := [.fin 4], tolMesh := 1/1024, cons := none, ginv := id },
                  o := o1, tolFun := 1/1000 }
def s0 : St := { pairs := [([0], 1), ([2], 3/2), ([-2], 9)], ns := { u := [0], uBest := [0], yval := 1, fval := 1, fsd := 1/8, hist := [] },
                 ctl := Ctl.init o1 4 3 0 }
def v1 : Val := { y := 1/4, f := 1/2, sd := 1/8, newRow := true }
def v2 : Val := { y := 4, f := 7/2, sd := 1/4, newRow := true }
def v3 : Val := { y := 1/8, f := 1/4, sd := 1/8, newRow := true }
def v4 : Val := { y := 0, f := 1/8, sd := 1/8, newRow := true }
def q1 : Orc := { h := 1/4, searchU := [[1/2], [3]], searchPick := 0, searchVal := some v1,
                  pollU := [[1], [-1]], pollOrder := [0, 1], pollVals := [v2, v3],
                  thr := 1/2, stallMesh := false, stallStop := false, reVals := none }
def q2 : Orc := { h := 1/4, searchU := [[1], [3/4]], searchPick := 1, searchVal := some v4,
                  pollU := [[3/2], [1/2]], pollOrder := [1, 0], pollVals := [v2, v3],
                  thr := 1/8, stallMesh := false, stallStop := false, reVals := some [(1/4, 1/16)] }

example : Inv e1 s0 ∧ OrcOK e1 q1 ∧ OrcOK e1 q2 ∧ boxOK e1.pipe.lb e1.pipe.ub = true ∧ 1 ≤ e1.o.nTry := by
  refine ⟨⟨⟨rfl, by decide +kernel, by intro r hr; cases hr⟩, by decide +kernel, ?_, ?_, ?_, ?_⟩, ?_, ?_, by decide +kernel, by decide⟩
  · intro c hc; simp [e1] at hc
  · unfold Ctl.CInv; decide +kernel
  · unfold Ctl.BInv; decide +kernel
  · intro _; rfl
  · unfold OrcOK; decide +kernel
  · unfold OrcOK; decide +kernel

example : (run e1 [q1, q2] s0).ns.hist.length = (run e1 [q1, q2] s0).ctl.c.pollIter ∧
    (run e1 [q1, q2] s0).pairs.length = 6 ∧ (run e1 [q1, q2] s0).ctl.c.fc = 7 := by decide +kernel
end Example

end Bads.Full
