/-
  C02 - Non-box constraints: no infeasible point is evaluated or returned.

  `cons u = true` means: the user's constraint function reports a violation at `inverse u`.
  The constraint oracle is an arbitrary DETERMINISTIC function; candidate sets and picks are
  arbitrary.
-/
import BadsProofs.Props.C01

namespace Bads.Pipe

/-- Every row a filter hands on satisfies the constraint. -/
theorem filtered_feasible (e : Env) (c : Pt → Bool) (hc : e.cons = some c) (proj : Bool) (h : Rat) (U logX : List Pt) :
    ∀ p ∈ filterCode (filterIn e proj h U logX), c p = false :=
  filter_feasible (filterIn e proj h U logX) c (by simp [filterIn, hc])

theorem step_feasible (e : Env) (c : Pt → Bool) (hc : e.cons = some c) (evals : List Pt) (s : Step)
    (h : ∀ u ∈ evals, c u = false) : ∀ u ∈ step e evals s, c u = false := by
  intro u hu
  cases s with
  | revisit k =>
    simp only [step, List.mem_append] at hu
    rcases hu with hu | hu
    · exact h u hu
    · cases hk : evals[k]? with
      | none => simp [hk] at hu
      | some q =>
        simp only [hk, List.mem_singleton] at hu
        subst hu
        exact h _ (List.mem_of_getElem? hk)
  | filt proj hm U logX picks =>
    simp only [step, List.mem_append] at hu
    rcases hu with hu | hu
    · exact h u hu
    · exact filtered_feasible e c hc proj hm U logX u (pickAll_sub _ picks u hu)

/-- For every sequence of candidate sets and picks: every evaluated point (initial design, every
    search and poll step, the final re-sampling) is feasible, provided the start point is. -/
theorem pipeline_calls_feasible (e : Env) (c : Pt → Bool) (hc : e.cons = some c) :
    ∀ (steps : List Step) (evals : List Pt), (∀ u ∈ evals, c u = false) → ∀ u ∈ run e evals steps, c u = false
  | [], evals, h => by simpa [run] using h
  | s :: ss, evals, h => by
    simp only [run]
    exact pipeline_calls_feasible e c hc ss _ (step_feasible e c hc evals s h)

/-- Construction yields a start point only if it is inside the box AND feasible after snapping ... -/
theorem construct_ok (e : Env) (h : Rat) (u0 g : Pt) (hg : construct e h u0 = some g) :
    InBox e.lb e.ub g ∧ ∀ c, e.cons = some c → c g = false := by
  unfold construct at hg
  cases hgs : gridStart h e.lb e.ub u0 with
  | none => simp [hgs] at hg
  | some g' =>
    simp only [hgs] at hg
    have hbox := gridStart_ok_or_error h e.lb e.ub u0 g' hgs
    cases hcons : e.cons with
    | none =>
      simp only [hcons] at hg
      cases hg
      exact ⟨hbox, by intro c hc; cases hc⟩
    | some c =>
      simp only [hcons] at hg
      split at hg
      · cases hg
      · cases hg
        refine ⟨hbox, ?_⟩
        intro c' hc'
        cases hc'
        simpa using ‹¬ c g = true›

/-- ... and an infeasible (snapped) start point is rejected: no start point, hence no target call. -/
theorem construct_rejects_infeasible_start (e : Env) (h : Rat) (u0 g : Pt) (c : Pt → Bool)
    (hc : e.cons = some c) (hg : gridStart h e.lb e.ub u0 = some g) (hv : c g = true) :
    construct e h u0 = none := by
  simp [construct, hg, hc, hv]

/-- Whole run: construction followed by any steps evaluates only feasible points. -/
theorem run_from_construct_feasible (e : Env) (c : Pt → Bool) (hc : e.cons = some c) (h : Rat) (u0 g : Pt)
    (hg : construct e h u0 = some g) (steps : List Step) : ∀ u ∈ run e [g] steps, c u = false :=
  pipeline_calls_feasible e c hc steps [g] (by
    intro u hu
    simp only [List.mem_singleton] at hu
    subst hu
    exact (construct_ok e h u0 u hg).2 c hc)

/-! Non-vacuity: a ball constraint with a candidate set straddling it. -/
example :
    let e : Env := { lb := [.fin (-2), .fin (-2)], ub := [.fin 2, .fin 2], origLo := [.fin (-2), .fin (-2)], origHi := [.fin 2, .fin 2],
                     tolMesh := 1/1024, cons := some (fun p => decide ((p.map (fun x => x * x)).sum > 1)), ginv := id }
    construct e (1/4) [1/10, 1/10] = some [0, 0] ∧
    run e [[0, 0]] [.filt false 1 [[1/2, 1/2], [1, 1], [3, 0], [0, 3/4]] [] [0, 1, 2]] = [[0, 0], [0, 3/4], [1/2, 1/2]] := by
  constructor <;> decide +kernel

end Bads.Pipe
