/-
  C17 - Candidate filtering: no duplicates, nothing infeasible or already evaluated.

  Property theorems about `Filter.filterCode` (the transcription of `contraints_check`)
  for ALL candidate arrays, boxes, mesh tolerances, logs and constraint functions.
  The clause "not coinciding with any point already evaluated" is FALSE of the code as it
  stands (`filter_fresh_counterexample`); what does hold is stated in
  `filter_fresh_partial`, and the documented behaviour `filterSpec` satisfies the full
  statement (`filterSpec_fresh`).
-/
import BadsProofs.Lemmas.FilterLemmas

namespace Bads

/-- Hypothesis of the projected mode: a well-formed box and rows of the box's dimension.
    (The drop mode needs no hypothesis.) -/
def ProjOK (I : FilterIn) : Prop :=
  I.proj = true → boxOK I.lo I.hi = true ∧ ∀ p ∈ I.U, p.length = I.lo.length

/-- No invented points: every output row is a row of the box stage's output. -/
theorem filter_sub_input (I : FilterIn) :
    ∀ p ∈ filterCode I, p ∈ boxStage I.proj I.lo I.hi I.U := by
  intro p hp
  unfold filterCode at hp
  have h1 := (consStage_sub _ _).subset hp
  have h2 := keyStage_mem _ _ _ _ h1
  exact (dedupBy_sublist _ _ _).subset h2

/-- Every output row lies in the box it was filtered against. -/
theorem filter_in_box (I : FilterIn) (h : ProjOK I) :
    ∀ p ∈ filterCode I, InBox I.lo I.hi p :=
  fun p hp => boxStage_inBox I.proj I.lo I.hi I.U h p (filter_sub_input I p hp)

/-- Every output row satisfies the non-box constraint. -/
theorem filter_feasible (I : FilterIn) (c : Pt → Bool) (hc : I.cons = some c) :
    ∀ p ∈ filterCode I, c p = false := by
  intro p hp
  unfold filterCode at hp
  rw [hc] at hp
  simp only [consStage, List.mem_filter] at hp
  simpa using hp.2

/-- Output rows are pairwise distinct, even after rounding to half the mesh tolerance. -/
theorem filter_pairwise_distinct_keys (I : FilterIn) :
    ((filterCode I).map (keyOf (I.tolMesh / 2))).Nodup := by
  unfold filterCode
  exact (keyStage_nodup _ _ _).sublist ((consStage_sub _ _).map _)

/-- The evaluation log has no influence on the code's output. -/
theorem filterCode_ignores_log (I : FilterIn) (L : List Pt) :
    filterCode I = filterCode { I with logX := L } := rfl

/-- FULL STATEMENT of the freshness clause - not provable for the code as it stands:
    `∀ I, ∀ p ∈ filterCode I, keyOf (I.tolMesh/2) p ∉ I.logX.map (keyOf (I.tolMesh/2))`.
    Its negation, with a concrete witness (one candidate equal to the single logged point): -/
theorem filter_fresh_counterexample :
    ∃ I : FilterIn, ∃ p ∈ filterCode I,
      keyOf (I.tolMesh / 2) p ∈ I.logX.map (keyOf (I.tolMesh / 2)) := by
  refine ⟨{ U := [[1]], lo := [.fin 0], hi := [.fin 2], tolMesh := 1, logX := [[1]],
            proj := true, cons := none }, [1], ?_, ?_⟩ <;> decide +kernel

/-- What holds of the code: freshness whenever no surviving candidate key is in the log,
    i.e. the code agrees with the documented behaviour exactly on those inputs. -/
theorem filter_fresh_partial (I : FilterIn)
    (h : ∀ p ∈ boxStage I.proj I.lo I.hi I.U,
          keyOf (I.tolMesh / 2) p ∉ I.logX.map (keyOf (I.tolMesh / 2))) :
    ∀ p ∈ filterCode I, keyOf (I.tolMesh / 2) p ∉ I.logX.map (keyOf (I.tolMesh / 2)) :=
  fun p hp => h p (filter_sub_input I p hp)

/-- The documented behaviour satisfies the full freshness clause ... -/
theorem filterSpec_fresh (I : FilterIn) :
    ∀ p ∈ filterSpec I, keyOf (I.tolMesh / 2) p ∉ I.logX.map (keyOf (I.tolMesh / 2)) := by
  intro p hp
  unfold filterSpec at hp
  exact (keyStageSpec_mem _ _ _ _ ((consStage_sub _ _).subset hp)).2

/-- ... keeps the other clauses ... -/
theorem filterSpec_pairwise_distinct_keys (I : FilterIn) :
    ((filterSpec I).map (keyOf (I.tolMesh / 2))).Nodup := by
  unfold filterSpec
  exact (keyStageSpec_nodup _ _ _).sublist ((consStage_sub _ _).map _)

theorem filterSpec_sub_input (I : FilterIn) :
    ∀ p ∈ filterSpec I, p ∈ boxStage I.proj I.lo I.hi I.U := by
  intro p hp
  unfold filterSpec at hp
  exact (dedupBy_sublist _ _ _).subset (keyStageSpec_mem _ _ _ _ ((consStage_sub _ _).subset hp)).1

/-- ... and drops nothing else: a feasible box-stage row whose key is not in the log is
    represented in the output by a row with the same key (when constraints depend only
    on the key-representative chosen, i.e. here: for `cons = none`). -/
theorem filterSpec_complete (I : FilterIn) (hc : I.cons = none) (p : Pt)
    (hp : p ∈ boxStage I.proj I.lo I.hi I.U)
    (hfresh : keyOf (I.tolMesh / 2) p ∉ I.logX.map (keyOf (I.tolMesh / 2))) :
    ∃ q ∈ filterSpec I, keyOf (I.tolMesh / 2) q = keyOf (I.tolMesh / 2) p := by
  unfold filterSpec
  rw [hc]
  simp only [consStage]
  -- p survives exact de-duplication (as itself)
  obtain ⟨p', hp', hpe⟩ := dedupBy_complete (fun p : Pt => p) _ [] p hp (by simp)
  subst hpe
  obtain ⟨q, hq, hqk⟩ := dedupBy_complete (keyOf (I.tolMesh / 2)) _ [] p' hp' (by simp)
  refine ⟨q, ?_, hqk⟩
  unfold keyStageSpec
  rw [(sortBy_perm _ _).mem_iff, List.mem_filter]
  refine ⟨hq, ?_⟩
  rw [hqk]
  simpa using hfresh

/-- The code and the documented behaviour agree whenever no candidate coincides with a
    logged point - so every disagreement between them is a C17 freshness violation. -/
theorem filterCode_eq_spec_of_fresh (I : FilterIn)
    (h : ∀ p ∈ boxStage I.proj I.lo I.hi I.U,
          keyOf (I.tolMesh / 2) p ∉ I.logX.map (keyOf (I.tolMesh / 2))) :
    filterCode I = filterSpec I := by
  simp only [filterCode, filterSpec, keyStage, keyStageSpec]
  congr 2
  symm
  rw [List.filter_eq_self]
  intro p hp
  have := h p ((dedupBy_sublist _ _ _).subset ((dedupBy_sublist _ _ _).subset hp))
  simpa using this

/-! Non-vacuity: a concrete box cutting the candidate set, a log, a constraint. -/
example :
    let I : FilterIn := { U := [[3, 0], [1/2, 1/2], [1/2, 1/2], [5, 5]], lo := [.fin 0, .fin 0],
                          hi := [.fin 2, .pinf], tolMesh := 1/4, logX := [[1, 1]],
                          proj := true, cons := some (fun p => p.sum > 6) }
    ProjOK I ∧ filterCode I = [[1/2, 1/2], [2, 0]] := by
  refine ⟨?_, by decide +kernel⟩
  intro _
  refine ⟨by decide +kernel, ?_⟩
  intro p hp
  simp only [List.mem_cons, List.mem_nil_iff, or_false] at hp
  rcases hp with rfl | rfl | rfl | rfl <;> rfl

end Bads
