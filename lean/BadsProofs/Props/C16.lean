/-
  C16 - A numerical failure of a GP hyper-parameter fit never aborts the optimisation.

  Whether a fit raises LinAlgError, and which rows a retry drops, are oracle inputs.
-/
import BadsModel.GPSet
import BadsProofs.Props.C01
import BadsProofs.Props.C03
import BadsProofs.Props.C04

namespace Bads.GP

theorem agree_shrink (sh : Shapes) (d : Nat) (h : sh.agree = true) :
    ({ nX := sh.nX - d, nY := sh.nY - d, nS2 := sh.nS2.map (· - d) } : Shapes).agree = true := by
  unfold Shapes.agree at *
  simp only [Bool.and_eq_true, beq_iff_eq] at h ⊢
  obtain ⟨h1, h2⟩ := h
  refine ⟨by rw [h1], ?_⟩
  cases hs : sh.nS2 with
  | none => simp
  | some k => simp only [hs, beq_iff_eq] at h2; simp [h2]

/-- SHAPES AGREE AT EVERY ATTEMPT: X, Y and the noise vector handed to each retry have the same
    number of rows (the rows a retry drops are dropped from all three). -/
theorem robustFit_shapes_agree (nTry ra : Nat) : ∀ (outs : List Bool) (sh : Shapes) (drops : List Nat) (i : Nat),
    sh.agree = true → ∀ s ∈ (robustFit nTry ra sh outs drops i).1, s.agree = true
  | [], _, _, _, _, s, hs => by simp [robustFit] at hs
  | fail :: outs, sh, drops, i, h, s, hs => by
    unfold robustFit at hs
    split at hs
    · simp at hs
    · split at hs
      · simp only [List.mem_singleton] at hs; subst hs; exact h
      · simp only at hs
        rcases List.mem_cons.mp hs with rfl | hs
        · exact h
        · exact robustFit_shapes_agree nTry ra outs _ drops.tail (i + 1) (agree_shrink sh _ h) s hs

/-- DEFINED: after `k` consecutive failures followed by a success - with fewer than `nTry`
    attempts in total - the routine returns successfully after exactly `k + 1` attempts. -/
theorem robustFit_defined (nTry ra : Nat) : ∀ (k : Nat) (rest : List Bool) (sh : Shapes) (drops : List Nat) (i : Nat),
    i + k < nTry →
    (robustFit nTry ra sh (List.replicate k true ++ false :: rest) drops i).2 = true ∧
    (robustFit nTry ra sh (List.replicate k true ++ false :: rest) drops i).1.length = k + 1
  | 0, rest, sh, drops, i, h => by
    simp only [List.replicate_zero, List.nil_append, robustFit]
    have : ¬ i ≥ nTry := by omega
    simp [this]
  | k + 1, rest, sh, drops, i, h => by
    simp only [List.replicate_succ, List.cons_append, robustFit]
    have : ¬ i ≥ nTry := by omega
    simp only [this, if_false, Bool.not_true, Bool.false_eq_true]
    have ih := robustFit_defined nTry ra k rest
      { nX := sh.nX - (if i + 1 > ra then min (drops.headD 0) sh.nX else 0), nY := sh.nY - (if i + 1 > ra then min (drops.headD 0) sh.nX else 0),
        nS2 := sh.nS2.map (· - (if i + 1 > ra then min (drops.headD 0) sh.nX else 0)) } drops.tail (i + 1) (by omega)
    generalize robustFit nTry ra _ (List.replicate k true ++ false :: rest) drops.tail (i + 1) = r at ih
    obtain ⟨r1, r2⟩ := r
    exact ⟨ih.1, by simp only [List.length_cons]; rw [ih.2]⟩

/-- INITIAL TRAINING: `k` consecutive failures mean `k + 1` attempts on identical data, then success. -/
theorem initFit_terminates (sh : Shapes) : ∀ (k : Nat) (rest : List Bool),
    initFit sh (List.replicate k true ++ false :: rest) = (List.replicate (k + 1) sh, true)
  | 0, rest => by simp [initFit]
  | k + 1, rest => by
    simp only [List.replicate_succ, List.cons_append, initFit, Bool.not_true, Bool.false_eq_true, if_false]
    rw [initFit_terminates sh k rest]
    simp [List.replicate_succ]

/-- POSTERIOR UPDATE FALLBACK: a failing update restores the previous hyper-parameters and flags
    the failure; the caller continues. -/
theorem updateFallback_restores (oldH newH : List Rat) :
    updateFallback oldH newH true = (oldH, -2) ∧ updateFallback oldH newH false = (newH, 0) := ⟨rfl, rfl⟩

/-- ALL OTHER GUARANTEES SURVIVE FIT FAULTS: in the models of C01, C03 and C04 every GP result
    (fit success or failure, predictions, hyper-parameters) is an oracle input that is universally
    quantified, so those theorems hold verbatim on runs with fit failures.  Re-exported here. -/
theorem guarantees_survive_faults :
    (∀ (e : Pipe.Env), boxOK e.lb e.ub = true → ∀ (steps : List Pipe.Step) (evals : List Pt),
        (∀ s ∈ steps, Pipe.StepOK e s) → (∀ u ∈ evals, InBox e.lb e.ub u) → ∀ u ∈ Pipe.run e evals steps, InBox e.lb e.ub u) ∧
    (∀ (o : Ctl.Opts), 1 ≤ o.nTry → ∀ (n : Nat) (oracle : Nat → Ctl.Out) (s : Ctl.St), Ctl.BInv o s.c → (Ctl.run o oracle n s).c.fc ≤ o.budget) ∧
    (∀ (evs : List Inc.Ev) (s : Inc.St) (evals : List (Pt × Rat)), Inc.Inv s evals → Inc.Inv (Inc.run s evs) (evals ++ Inc.allEvals evs)) :=
  ⟨Pipe.pipeline_calls_in_box, Ctl.budget_inv, Inc.inc_reachable⟩

/-! Non-vacuity: two failures in a row in a noisy mode (a noise vector accompanies the training set). -/
example :
    robustFit 10 1 { nX := 20, nY := 20, nS2 := some 20 } [true, true, false] [0, 3, 0] 0 =
      ([{ nX := 20, nY := 20, nS2 := some 20 }, { nX := 20, nY := 20, nS2 := some 20 }, { nX := 17, nY := 17, nS2 := some 17 }], true) := by
  decide

end Bads.GP
