/-
  C05 - Noisy targets: the reported estimate is the mean of fresh samples at the returned x.
-/
import BadsProofs.Props.C19
import Generated.Defaults

namespace Bads.Noisy

/-- The returned point of a noisy run is one of the recorded iterates (hence a point evaluated
    earlier, by `finalChoice_pinv`/`run_pinv` of C19), chosen as the first minimiser of the
    quantile values over iterates `1..`. -/
theorem final_point_is_iterate (s : St) (vals : List (Rat × Rat)) (qs : List Rat) (i : Nat)
    (ha : argminFrom1 qs = some i) (hlt : i < s.hist.length) :
    ∃ r, s.hist[i]? = some r ∧ (finalChoice s vals qs).u = r.u ∧ (finalChoice s vals qs).yval = r.yval := by
  simp only [finalChoice, ha]
  cases hi : (reEstimate s.hist vals)[i]? with
  | none =>
    rw [List.getElem?_eq_none_iff, reEstimate_length] at hi
    omega
  | some r =>
    obtain ⟨r', hr', he⟩ := getElem_reEstimate_pair _ _ _ _ hi
    refine ⟨r', hr', ?_, ?_⟩
    · simpa [pairOf] using (congrArg Prod.fst he).symm
    · simpa [pairOf] using (congrArg Prod.snd he).symm

theorem argmaxFrom1_go_spec : ∀ (ks : List Rat) (i : Nat) (acc : Option (Nat × Rat)) (r : Nat × Rat),
    argmaxFrom1.go ks i acc = some r →
    (acc = some r ∨ (i ≤ r.1 ∧ r.1 < i + ks.length ∧ ks[r.1 - i]? = some r.2)) ∧
    (∀ a, acc = some a → a.2 ≤ r.2) ∧ (∀ k ∈ ks, k ≤ r.2)
  | [], i, acc, r, h => by
    simp only [argmaxFrom1.go] at h
    exact ⟨Or.inl h, by intro a ha; rw [ha] at h; cases h; exact le_refl _, by simp⟩
  | k :: ks, i, none, r, h => by
    simp only [argmaxFrom1.go] at h
    obtain ⟨h1, h2, h3⟩ := argmaxFrom1_go_spec ks (i + 1) (some (i, k)) r h
    refine ⟨Or.inr ?_, ?_, ?_⟩
    · rcases h1 with h1 | ⟨h1, h1', h1''⟩
      · cases h1; simp
      · refine ⟨by omega, by simp only [List.length_cons]; omega, ?_⟩
        have : r.1 - i = (r.1 - (i + 1)) + 1 := by omega
        rw [this, List.getElem?_cons_succ]; exact h1''
    · intro a ha; cases ha
    · intro k' hk'
      rcases List.mem_cons.mp hk' with rfl | hk'
      · exact h2 (i, k') rfl
      · exact h3 k' hk'
  | k :: ks, i, some (j, m), r, h => by
    simp only [argmaxFrom1.go] at h
    split at h
    · rename_i hgt
      obtain ⟨h1, h2, h3⟩ := argmaxFrom1_go_spec ks (i + 1) (some (i, k)) r h
      have hk := h2 (i, k) rfl
      refine ⟨Or.inr ?_, ?_, ?_⟩
      · rcases h1 with h1 | ⟨h1, h1', h1''⟩
        · cases h1; simp
        · refine ⟨by omega, by simp only [List.length_cons]; omega, ?_⟩
          have : r.1 - i = (r.1 - (i + 1)) + 1 := by omega
          rw [this, List.getElem?_cons_succ]; exact h1''
      · intro a ha; cases ha; simp only at hk ⊢; linarith
      · intro k' hk'
        rcases List.mem_cons.mp hk' with rfl | hk'
        · exact hk
        · exact h3 k' hk'
    · rename_i hle
      obtain ⟨h1, h2, h3⟩ := argmaxFrom1_go_spec ks (i + 1) (some (j, m)) r h
      have hm := h2 (j, m) rfl
      refine ⟨?_, ?_, ?_⟩
      · rcases h1 with h1 | ⟨h1, h1', h1''⟩
        · exact Or.inl h1
        · refine Or.inr ⟨by omega, by simp only [List.length_cons]; omega, ?_⟩
          have : r.1 - i = (r.1 - (i + 1)) + 1 := by omega
          rw [this, List.getElem?_cons_succ]; exact h1''
      · intro a ha; cases ha; exact hm
      · intro k' hk'
        rcases List.mem_cons.mp hk' with rfl | hk'
        · simp only at hm; linarith [not_lt.mp hle]
        · exact h3 k' hk'

/-- The chosen index is ≥ 1, within range, and minimises the quantile value over iterates `1..`. -/
theorem argminFrom1_spec (qs : List Rat) (i : Nat) (h : argminFrom1 qs = some i) :
    1 ≤ i ∧ i < qs.length ∧ ∀ j q, 1 ≤ j → qs[j]? = some q → ∃ qi, qs[i]? = some qi ∧ qi ≤ q := by
  simp only [argminFrom1, argmaxFrom1, Option.map_eq_some_iff] at h
  obtain ⟨r, hg, h⟩ := h
  · obtain ⟨h1, _, h3⟩ := argmaxFrom1_go_spec _ 1 none r hg
    rcases h1 with h1 | ⟨h1, h1', h1''⟩
    · cases h1
    · subst h
      simp only [List.length_drop, List.length_map] at h1'
      have hget : (qs.map (fun q => -q))[r.1]? = some r.2 := by
        rw [List.getElem?_drop] at h1''
        have : 1 + (r.1 - 1) = r.1 := by omega
        rwa [this] at h1''
      simp only [List.getElem?_map, Option.map_eq_some_iff] at hget
      obtain ⟨qi, hqi, hneg⟩ := hget
      refine ⟨h1, by omega, ?_⟩
      intro j q hj hq
      refine ⟨qi, hqi, ?_⟩
      have hmem : -q ∈ (qs.map (fun q => -q)).drop 1 := by
        have : ((qs.map (fun q => -q)).drop 1)[j - 1]? = some (-q) := by
          rw [List.getElem?_drop]
          have : 1 + (j - 1) = j := by omega
          rw [this]; simp [hq]
        exact List.mem_of_getElem? this
      have := h3 (-q) hmem
      linarith

/-- `fval` is the mean of `yval_vec`: `n · fval = Σ yval_vec`. -/
theorem fval_is_mean (ys : List Rat) (h : ys ≠ []) : meanOf ys * ys.length = sumL ys := by
  unfold meanOf
  have : (ys.length : Rat) ≠ 0 := by
    have : 0 < ys.length := List.length_pos_iff.mpr h
    exact_mod_cast Nat.pos_iff_ne_zero.mp this
  field_simp

/-- `yval_vec` consists of the fresh samples, supplemented by the iterate's earlier observation
    exactly when a single final sample is configured. -/
theorem yvec_single_supplemented (s : St) (y : Rat) : yvalVec s [y] = [y, s.yval] := rfl

theorem yvec_several (s : St) (ys : List Rat) (h : ys.length ≠ 1) : yvalVec s ys = ys := by
  simp [yvalVec, h]

/-- The squared standard error: `n² · fsd² = Σ (y - mean)²` is non-negative and zero for identical samples. -/
theorem sqDev_nonneg (ys : List Rat) : 0 ≤ sqDev ys := by
  unfold sqDev
  generalize meanOf ys = m
  induction ys with
  | nil => simp [sumL]
  | cons y ys ih => simp only [List.map_cons, sumL]; nlinarith [mul_self_nonneg (y - m)]

/-- A target whose two evaluations at the start point differ by more than `tol_noise` is treated as
    stochastic; one that returns identical values is not (for `tol_noise ≥ 0`). -/
theorem noise_detected_iff (y1 y2 tol : Rat) : noiseDetected y1 y2 tol = true ↔ |y1 - y2| > tol := by
  unfold noiseDetected
  simp only [Bool.or_eq_true, decide_eq_true_eq]
  constructor
  · rintro (h | h)
    · exact lt_of_lt_of_le h (le_abs_self _)
    · have := neg_abs_le (y1 - y2); linarith [neg_le_abs (y1 - y2)]
  · intro h
    rcases le_total 0 (y1 - y2) with h0 | h0
    · left; rwa [abs_of_nonneg h0] at h
    · right; rw [abs_of_nonpos h0] at h; linarith

theorem identical_values_not_noisy (y tol : Rat) (h : 0 ≤ tol) : noiseDetected y y tol = false := by
  unfold noiseDetected; simp; exact h

/-- Defaults: a non-negative number of final samples, default incumbent policy. -/
theorem defaults_C05 : ∀ d ∈ Generated.defaults, 0 ≤ d.noise_final_samples ∧ d.improvement_quantile = 1/2 ∧ d.stobads = false := by
  decide +kernel

/-! Non-vacuity: three iterates, the second minimises the quantile value; one final sample. -/
example :
    let s : St := { u := [0], uBest := [0], yval := 5, fval := 5, fsd := 1,
                    hist := [{ u := [9], yval := 1, fval := 1, fsd := 1 }, { u := [1], yval := 4, fval := 4, fsd := 1 }, { u := [2], yval := 6, fval := 6, fsd := 1 }] }
    let f := finalChoice s [] [0, 7, 9]
    f.u = [1] ∧ yvalVec f [3] = [3, 4] ∧ meanOf (yvalVec f [3]) = 7/2 ∧ sqDev (yvalVec f [3]) = 1/2 := by
  decide +kernel

end Bads.Noisy
