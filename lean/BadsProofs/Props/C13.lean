/-
  C13 - Mesh size doubles after a successful poll (up to a cap), shrinks after a failure.

  Theorems about `Ctl.mstep`, the mesh part of the loop model: `mesh_size = 2 ^ msi`,
  `search_mesh_size = 2 ^ ssi`.
-/
import BadsProofs.Lemmas.CtlLemmas
import Generated.Defaults
import Mathlib.Algebra.Order.Field.Power
import Mathlib.Tactic.NormNum

namespace Bads.Ctl

/-- Hypotheses on the option files (re-proved from the regenerated defaults on every run):
    multiplier 2, cap 0 (mesh size at most 1), start at 1, search-grid rule `2·msi - number`,
    no search-driven mesh expansion, default (non-StoBADS) success rule. -/
def HypC13 (d : Generated.Defaults) : Prop :=
  d.poll_mesh_multiplier = 2 ∧ d.max_poll_grid_number = 0 ∧ d.init_mesh_size_integer = 0 ∧
  d.search_grid_multiplier = 2 ∧ d.max_poll_grid_number ≤ d.search_grid_number ∧
  d.search_mesh_expand = 0 ∧ d.stobads = false

theorem defaults_satisfy_HypC13 : ∀ d ∈ Generated.defaults, HypC13 d := by
  unfold HypC13; decide +kernel

/-- The running-best loop, characterised. -/
theorem pollGood_iff (thr : Rat) : ∀ (zs : List Rat) (best : Rat) (good : Bool),
    pollGood thr zs best good = true ↔
      (∃ z ∈ zs, z > best ∧ z > thr) ∨ (good = true ∧ ∀ z ∈ zs, z ≤ best)
  | [], best, good => by simp [pollGood]
  | z :: zs, best, good => by
    unfold pollGood
    split
    · rename_i hz
      rw [pollGood_iff thr zs z (decide (z > thr))]
      constructor
      · rintro (⟨w, hw, h1, h2⟩ | ⟨h1, _⟩)
        · exact Or.inl ⟨w, List.mem_cons_of_mem _ hw, by linarith, h2⟩
        · exact Or.inl ⟨z, List.mem_cons_self, hz, by simpa using h1⟩
      · rintro (⟨w, hw, h1, h2⟩ | ⟨_, h2⟩)
        · have hzthr_or : z > thr ∨ w > z := by
            rcases List.mem_cons.mp hw with rfl | _
            · exact Or.inl h2
            · by_cases h : w > z
              · exact Or.inr h
              · exact Or.inl (by linarith)
          by_cases hall : ∀ v ∈ zs, v ≤ z
          · rcases hzthr_or with h | h
            · exact Or.inr ⟨by simpa using h, hall⟩
            · rcases List.mem_cons.mp hw with rfl | hw'
              · exact absurd h (lt_irrefl _)
              · exact absurd (hall w hw') (not_le.mpr h)
          · push Not at hall
            obtain ⟨v, hv, hvz⟩ := hall
            rcases hzthr_or with h | h
            · exact Or.inl ⟨v, hv, hvz, by linarith⟩
            · rcases List.mem_cons.mp hw with rfl | hw'
              · exact absurd h (lt_irrefl _)
              · exact Or.inl ⟨w, hw', h, h2⟩
        · exact absurd (h2 z List.mem_cons_self) (not_le.mpr hz)
    · rename_i hz
      rw [pollGood_iff thr zs best good]
      constructor
      · rintro (⟨w, hw, h1, h2⟩ | ⟨h1, h2⟩)
        · exact Or.inl ⟨w, List.mem_cons_of_mem _ hw, h1, h2⟩
        · refine Or.inr ⟨h1, ?_⟩
          intro v hv
          rcases List.mem_cons.mp hv with rfl | hv
          · exact not_lt.mp hz
          · exact h2 v hv
      · rintro (⟨w, hw, h1, h2⟩ | ⟨h1, h2⟩)
        · rcases List.mem_cons.mp hw with rfl | hw
          · exact absurd h1 hz
          · exact Or.inl ⟨w, hw, h1, h2⟩
        · exact Or.inr ⟨h1, fun v hv => h2 v (List.mem_cons_of_mem _ hv)⟩

/-- A poll is judged successful exactly when some evaluated point improved by more than the
    threshold (for a non-negative threshold, as `max(tol_improvement·mesh^1.5, tol_fun)` is). -/
theorem running_best_good_iff (thr : Rat) (hthr : 0 ≤ thr) (zs : List Rat) :
    pollGood thr zs 0 false = true ↔ ∃ z ∈ zs, z > thr := by
  rw [pollGood_iff]
  constructor
  · rintro (⟨z, hz, _, h⟩ | ⟨h, _⟩)
    · exact ⟨z, hz, h⟩
    · exact absurd h (by simp)
  · rintro ⟨z, hz, h⟩
    exact Or.inl ⟨z, hz, by linarith, h⟩

/-- Which improvements the poll actually saw. -/
def seenZs (o : Opts) (s : St) (out : Out) : List Rat :=
  out.zs.take (nEvals o (cReset o (cAfterSearch o s.c out.search)).fc out.zs.length)

def pollWasGood (o : Opts) (s : St) (out : Out) : Bool := pollGood out.thr (seenZs o s out) 0 false

/-- After a successful poll the mesh exponent goes up by one, unless at the cap. -/
theorem poll_success_doubles (o : Opts) (s : St) (out : Out) (hexp : o.expand = 0)
    (hp : ranPoll o s out = true) (hg : pollWasGood o s out = true) :
    (mstep o s out).msi = min (s.m.msi + 1) o.cap := by
  simp only [ranPoll, pollWasGood, seenZs] at hp hg
  simp only [mstep, hp, if_true, hg, pollMesh, meshLoopStart, meshSkip, hexp]
  simp only [doPoll] at hp
  grind

/-- After any other poll it goes down by one - or by two exactly when mesh acceleration is on,
    more than `accelerate_mesh_steps` poll iterations have passed and the run is stalling. -/
theorem poll_failure_halves_or_quarters (o : Opts) (s : St) (out : Out) (hexp : o.expand = 0)
    (hp : ranPoll o s out = true) (hg : pollWasGood o s out = false) :
    (mstep o s out).msi =
      (if o.accel && decide (s.c.pollIter > o.accelSteps) && out.stallMesh then s.m.msi - 2 else s.m.msi - 1) := by
  simp only [ranPoll, pollWasGood, seenZs] at hp hg
  simp only [mstep, hp, if_true, hg, pollMesh, meshLoopStart, meshSkip, hexp]
  simp only [doPoll] at hp
  grind

/-- Outside polls the mesh size never changes. -/
theorem msi_changes_only_in_poll (o : Opts) (s : St) (out : Out) (hexp : o.expand = 0)
    (hp : ranPoll o s out = false) : (mstep o s out).msi = s.m.msi := by
  simp only [ranPoll] at hp
  simp only [mstep, hp, meshLoopStart, meshSkip, hexp]
  grind

/-- Mesh invariant: exponent at most the cap; search mesh never above the poll mesh. -/
def MInv (o : Opts) (m : MSt) : Prop := m.msi ≤ o.cap ∧ m.ssi ≤ m.msi

theorem init_minv (o : Opts) (fc0 nRec0 : Nat) (msi0 : Int) (h0 : msi0 ≤ o.cap)
    (hs : o.sgm = 2) (hc : o.cap ≤ o.sgn) : MInv o (init o fc0 nRec0 msi0).m := by
  simp only [MInv, init]
  refine ⟨h0, ?_⟩
  rw [hs]; omega

theorem mstep_minv (o : Opts) (s : St) (out : Out) (hs : o.sgm = 2) (hc : o.cap ≤ o.sgn)
    (h : MInv o s.m) : MInv o (mstep o s out) := by
  obtain ⟨h1, h2⟩ := h
  simp only [MInv, mstep, pollMesh, meshLoopStart, meshSkip, overflowBump, hs] at *
  grind

/-- In every reachable state: `msi ≤ cap` and `ssi ≤ msi`. -/
theorem msi_le_cap_and_ssi_le_msi (o : Opts) (hs : o.sgm = 2) (hc : o.cap ≤ o.sgn) :
    ∀ (n : Nat) (oracle : Nat → Out) (s : St), MInv o s.m → MInv o (run o oracle n s).m
  | 0, _, _, h => h
  | n + 1, oracle, s, h => by
    unfold run
    split
    · exact h
    · exact msi_le_cap_and_ssi_le_msi o hs hc n _ _ (mstep_minv o s _ hs hc h)

/-- With the default cap 0 the mesh size `2^msi` is a power of two not exceeding 1, and the
    search mesh `2^ssi` does not exceed it. -/
theorem mesh_le_one (msi : Int) (h : msi ≤ 0) : (2 : Rat) ^ msi ≤ 1 :=
  zpow_le_one_of_nonpos₀ (by norm_num) h

theorem search_mesh_le_mesh (ssi msi : Int) (h : ssi ≤ msi) : (2 : Rat) ^ ssi ≤ (2 : Rat) ^ msi :=
  zpow_le_zpow_right₀ (by norm_num) h

/-- EVERY REACHABLE STATE OF A RUN WITH THE SHIPPED DEFAULTS (for every dimension in the generated table, every
    oracle stream, every number of iterations): the mesh size never exceeds 1 and the search mesh is never
    coarser than the poll mesh.  The option values enter only through `HypC13`, re-proved from the regenerated
    defaults on every run. -/
theorem default_run_mesh_bounded (d : Generated.Defaults) (hd : d ∈ Generated.defaults) (o : Opts)
    (hcap : o.cap = d.max_poll_grid_number) (hsgm : o.sgm = d.search_grid_multiplier)
    (hsgn : o.sgn = d.search_grid_number) (fc0 nRec0 n : Nat) (oracle : Nat → Out) :
    (2 : Rat) ^ (run o oracle n (init o fc0 nRec0 d.init_mesh_size_integer)).m.msi ≤ 1 ∧
    (2 : Rat) ^ (run o oracle n (init o fc0 nRec0 d.init_mesh_size_integer)).m.ssi
      ≤ (2 : Rat) ^ (run o oracle n (init o fc0 nRec0 d.init_mesh_size_integer)).m.msi := by
  obtain ⟨_, h2, h3, h4, h5, _, _⟩ := defaults_satisfy_HypC13 d hd
  have hs : o.sgm = 2 := by rw [hsgm, h4]
  have hc : o.cap ≤ o.sgn := by rw [hcap, hsgn]; exact h5
  have h0 : d.init_mesh_size_integer ≤ o.cap := by rw [hcap, h2, h3]
  have hinv := msi_le_cap_and_ssi_le_msi o hs hc n oracle _ (init_minv o fc0 nRec0 _ h0 hs hc)
  obtain ⟨ha, hb⟩ := hinv
  have hcap0 : o.cap = 0 := by rw [hcap, h2]
  exact ⟨mesh_le_one _ (by omega), search_mesh_le_mesh _ _ hb⟩


/-- A run reported as stopped by the mesh tolerance has mesh size below `tol_mesh`. -/
theorem tolmesh_msg_sound (o : Opts) (s : St) (out : Out) (h : (step o s out).c.msg = .tolMesh) :
    (2 : Rat) ^ (step o s out).m.msi < (2 : Rat) ^ o.tolExp := by
  have hm := cstep_msg_sound o s.c (coutOf o s out)
  have hc : (step o s out).c = cstep o s.c (coutOf o s out) := rfl
  rw [hc] at h
  unfold msgSound at hm
  rw [h] at hm
  have hlt : (mstep o s out).msi < o.tolExp := by simpa [coutOf] using hm
  exact zpow_lt_zpow_right₀ (by norm_num) hlt

/-- WHY THE INTERNAL TOLERANCE IS ROUNDED UP: the run stops when the mesh `2^m` falls below the internal tolerance `2^k`, where `k` is the
    smallest exponent with `tol_mesh ≤ 2^k` (`k = ceil(log2 tol_mesh)`, i.e. `2^(k-1) < tol_mesh`).  Then the mesh at that stop is below the
    USER's `tol_mesh` as well - also when `tol_mesh` is itself a power of two (`tol_mesh = 2^k`).  (With `k + 1` in place of `k`, as
    `floor + 1` gives for exact powers of two, the hypothesis `2^(k-1) < tol_mesh` fails and the run can stop ON the tolerance.) -/
theorem below_internal_tol_below_user_tol (tol : Rat) (k m : Int) (h1 : (2 : Rat) ^ (k - 1) < tol) (h2 : m < k) :
    (2 : Rat) ^ m < tol := by
  have hle : (2 : Rat) ^ m ≤ (2 : Rat) ^ (k - 1) := zpow_le_zpow_right₀ (by norm_num) (by omega)
  exact lt_of_le_of_lt hle h1

/-- ... and the rounding loses nothing: a mesh that is not yet below the internal tolerance is not below the user's either. -/
theorem not_below_internal_tol_not_below_user_tol (tol : Rat) (k m : Int) (h1 : tol ≤ (2 : Rat) ^ k) (h2 : k ≤ m) :
    tol ≤ (2 : Rat) ^ m :=
  le_trans h1 (zpow_le_zpow_right₀ (by norm_num) h2)

/-- two mesh states that differ at most in the overflow counter -/
def SameMesh (m m' : MSt) : Prop := m.msi = m'.msi ∧ m.ssi = m'.ssi ∧ m.spree = m'.spree

theorem meshLoopStart_same (o : Opts) (m m' : MSt) (h : SameMesh m m') : SameMesh (meshLoopStart o m) (meshLoopStart o m') := by
  obtain ⟨h1, h2, h3⟩ := h
  unfold meshLoopStart
  split
  · exact ⟨h1, by simp [h1], h3⟩
  · exact ⟨h1, h2, h3⟩

theorem meshSkip_same (o : Opts) (m m' : MSt) (h : SameMesh m m') : SameMesh (meshSkip o m) (meshSkip o m') := by
  obtain ⟨h1, h2, h3⟩ := h
  unfold meshSkip
  refine ⟨?_, h2, by simp [h3]⟩
  simp only [h1, h3]

theorem pollMesh_same (o : Opts) (m m' : MSt) (it : Nat) (good stall : Bool) (h : SameMesh m m') :
    SameMesh (pollMesh o m it good stall) (pollMesh o m' it good stall) := by
  obtain ⟨h1, h2, h3⟩ := h
  unfold pollMesh
  split
  · exact ⟨by simp [h1], h2, h3⟩
  · exact ⟨by simp [h1], by simp [h1, h2], h3⟩

/-- THE OVERFLOW COUNTER IS BOOKKEEPING ONLY: how often the mesh has already tried to grow beyond its cap (the count behind the
    `bads:meshOverflow` warning) has no influence on the mesh exponents - a successful poll below the cap doubles the mesh whether or not
    the warning was issued before. -/
theorem mesh_ignores_overflow_count (o : Opts) (s : St) (out : Out) (k : Nat) :
    (mstep o { s with m := { s.m with overflows := k } } out).msi = (mstep o s out).msi ∧
    (mstep o { s with m := { s.m with overflows := k } } out).ssi = (mstep o s out).ssi := by
  have h0 : SameMesh { s.m with overflows := k } s.m := ⟨rfl, rfl, rfl⟩
  have h1 := meshLoopStart_same o _ _ h0
  have key : SameMesh (mstep o { s with m := { s.m with overflows := k } } out) (mstep o s out) := by
    unfold mstep
    simp only
    split
    · apply pollMesh_same
      split
      · exact meshSkip_same o _ _ h1
      · split
        · exact ⟨h1.1, h1.2.1, rfl⟩
        · exact h1
    · split
      · exact meshSkip_same o _ _ h1
      · split
        · exact ⟨h1.1, h1.2.1, rfl⟩
        · exact h1
  exact ⟨key.1, key.2.1⟩

/-! Non-vacuity: a poll with one sufficient improvement among three evaluations. -/
example : pollGood (1/10) [0, 1/4, 1/8] 0 false = true ∧ pollGood (1/10) [1/20, -1] 0 false = false := by
  constructor <;> decide +kernel

end Bads.Ctl
