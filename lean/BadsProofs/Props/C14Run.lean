/-
  C14 inside the composed model of a whole run (FullRun.lean): when the candidate set the oracle hands to a poll step IS what the generator
  builds - incumbent + mesh_size · (± a direction of `Poll.basis`) - then, in every iteration of every run and in every noise mode,

    * every point EVALUATED in the poll step is the incumbent plus mesh_size times a row of the basis (`poll_step_form`),
    * no point is evaluated twice in one poll step, hence no direction is tried twice (`poll_step_nodup`),
    * at most 2·D points are polled (`poll_step_at_most_2D`),

  whatever the feasibility filter drops, whatever order the acquisition function picks, however the budget cuts the step short;
  `run_polls_form` lifts this to every iteration a run reaches.  The hypothesis on the oracle is what C14's tie observes at every poll of
  every traced run (the directions handed out by `poll_mads_2n` and the candidate set of `_poll_step_`).
-/
import BadsProofs.Props.C14
import BadsProofs.Props.C17Run
import BadsProofs.Props.C19Run
import BadsProofs.Props.C03Opt

namespace Bads.Full
open Bads

/-- offset of one direction: `u + ms · b` -/
def shifted (u : Pt) (ms : Rat) (b : List Int) : Pt := List.zipWith (fun (ui : Rat) (bi : Int) => ui + ms * (bi : Rat)) u b

/-- the incumbent the poll step of this iteration is centred on, and the basis it polls -/
def PollSetOK (D : Nat) (mult : Rat) (e : Env) (s : St) (q : Orc) : Prop :=
  ∃ (draw : Nat → Nat → Int) (sgn : Nat → Bool) (nmax : Int) (perm : Nat → Nat),
    q.pollU = Poll.pollPoints (nsAfterSearch e s q).u (mult ^ s.ctl.m.msi) (Poll.basis D draw sgn nmax perm)

/-- the points evaluated in the poll step of this iteration, in order -/
def polled (e : Env) (s : St) (q : Orc) : List Pt := (pollCands e s q).map (·.1.u)

theorem polled_sub_out (e : Env) (s : St) (q : Orc) :
    ∀ p ∈ polled e s q, p ∈ filterCode (Pipe.filterIn e.pipe false q.h q.pollU (pts s ++ ((searchCand e s q).map (·.1.u)).toList)) := by
  intro p hp
  simp only [polled, List.mem_map] at hp
  obtain ⟨c, hc, rfl⟩ := hp
  exact pollCands_spec e s q c hc

theorem out_sub_pollU (e : Env) (h : Rat) (U L : List Pt) : ∀ p ∈ filterCode (Pipe.filterIn e.pipe false h U L), p ∈ U := by
  intro p hp
  have := filter_sub_input _ p hp
  simp only [Pipe.filterIn, boxStage, Bool.false_eq_true, if_false] at this
  exact (List.mem_filter.mp this).1

/-- EVERY POLLED POINT IS incumbent + mesh_size · (a row of the basis) -/
theorem poll_step_form (D : Nat) (mult : Rat) (e : Env) (s : St) (q : Orc) (h : PollSetOK D mult e s q) :
    ∃ (draw : Nat → Nat → Int) (sgn : Nat → Bool) (nmax : Int) (perm : Nat → Nat), ∀ p ∈ polled e s q,
      ∃ b ∈ Poll.basis D draw sgn nmax perm, p = shifted (nsAfterSearch e s q).u (mult ^ s.ctl.m.msi) b := by
  obtain ⟨draw, sgn, nmax, perm, hU⟩ := h
  refine ⟨draw, sgn, nmax, perm, fun p hp => ?_⟩
  have h1 := out_sub_pollU e q.h q.pollU _ p (polled_sub_out e s q p hp)
  rw [hU] at h1
  exact Poll.poll_points_form _ _ _ p h1

theorem zipCands_map_u : ∀ (us : List Pt) (vs : List Val), ((zipCands us vs).map (·.1.u)).Sublist us
  | [], _ => by simp [zipCands]
  | _ :: us, [] => by simp [zipCands]
  | u :: us, v :: vs => by
    simp only [zipCands, List.map_cons, mkCand]
    exact (zipCands_map_u us vs).cons_cons u

/-- NO POINT TWICE in one poll step (the acquisition function's picks are distinct indices: the code deletes a candidate once evaluated) -/
theorem poll_step_nodup (e : Env) (s : St) (q : Orc) (hnd : q.pollOrder.Nodup) : (polled e s q).Nodup := by
  unfold polled pollCands
  by_cases hr : pollRuns e s q = true
  · rw [if_pos hr]
    simp only
    have hk := filter_pairwise_distinct_keys (Pipe.filterIn e.pipe false q.h q.pollU (pts s ++ ((searchCand e s q).map (·.1.u)).toList))
    have hp := Pipe.pickAll_keys_nodup _ _ hk (q.pollOrder.take (Ctl.nEvals e.o (cBeforePoll e s q).fc q.pollOrder.length))
      (hnd.sublist (List.take_sublist _ _))
    exact ((List.Nodup.of_map _ hp).sublist (zipCands_map_u _ _))
  · rw [if_neg hr]; simp

/-- AT MOST 2·D POINTS are polled -/
theorem poll_step_at_most_2D (D : Nat) (mult : Rat) (e : Env) (s : St) (q : Orc) (h : PollSetOK D mult e s q) (hnd : q.pollOrder.Nodup) :
    (polled e s q).length ≤ 2 * D := by
  obtain ⟨draw, sgn, nmax, perm, hU⟩ := h
  have hsub : ∀ p ∈ polled e s q, p ∈ filterCode (Pipe.filterIn e.pipe false q.h q.pollU (pts s ++ ((searchCand e s q).map (·.1.u)).toList)) :=
    polled_sub_out e s q
  have hle := (List.subperm_of_subset (poll_step_nodup e s q hnd) hsub).length_le
  have h2 := Opt.filterCode_length_le (Pipe.filterIn e.pipe false q.h q.pollU (pts s ++ ((searchCand e s q).map (·.1.u)).toList))
  have h3 : q.pollU.length = 2 * D := by
    rw [hU]; simp [Poll.pollPoints, Poll.basis_length]
  have h4 : (Pipe.filterIn e.pipe false q.h q.pollU (pts s ++ ((searchCand e s q).map (·.1.u)).toList)).U = q.pollU := rfl
  rw [h4] at h2
  omega

/-! ### every iteration a run reaches -/

/-- hypothesis along the run: at every iteration that is actually executed the oracle's poll set is the generator's -/
def PollsOK (D : Nat) (mult : Rat) (e : Env) : List Orc → St → Prop
  | [], _ => True
  | q :: qs, s => if s.ctl.c.finished then True else (PollSetOK D mult e s q ∧ q.pollOrder.Nodup) ∧ PollsOK D mult e qs (step e s q)

/-- conclusion along the run -/
def AllPolls (P : St → Orc → Prop) (e : Env) : List Orc → St → Prop
  | [], _ => True
  | q :: qs, s => if s.ctl.c.finished then True else P s q ∧ AllPolls P e qs (step e s q)

def StepForm (D : Nat) (mult : Rat) (e : Env) (s : St) (q : Orc) : Prop :=
  (∃ (draw : Nat → Nat → Int) (sgn : Nat → Bool) (nmax : Int) (perm : Nat → Nat), ∀ p ∈ polled e s q,
      ∃ b ∈ Poll.basis D draw sgn nmax perm, p = shifted (nsAfterSearch e s q).u (mult ^ s.ctl.m.msi) b) ∧
  (polled e s q).Nodup ∧ (polled e s q).length ≤ 2 * D

theorem run_polls_form (D : Nat) (mult : Rat) (e : Env) : ∀ (qs : List Orc) (s : St), PollsOK D mult e qs s → AllPolls (StepForm D mult e) e qs s
  | [], _, _ => trivial
  | q :: qs, s, h => by
    unfold PollsOK at h
    unfold AllPolls
    by_cases hf : s.ctl.c.finished = true
    · simp [hf]
    · simp only [hf, Bool.false_eq_true, if_false] at h ⊢
      exact ⟨⟨poll_step_form D mult e s q h.1.1, poll_step_nodup e s q h.1.2, poll_step_at_most_2D D mult e s q h.1.1 h.1.2⟩,
        run_polls_form D mult e qs (step e s q) h.2⟩

end Bads.Full

/-! non-vacuity: in the example run of C19Run the first iteration's poll set is the generator's (D = 1, mesh 2^0, incumbent after the search),
    both candidates are evaluated -/
namespace Bads.Full.Example
example : PollSetOK 1 2 e1 s0 q1 ∧ q1.pollOrder.Nodup ∧ (polled e1 s0 q1).length = 2 := by
  refine ⟨⟨fun _ _ => 0, fun _ => true, 1, id, ?_⟩, by decide, by decide +kernel⟩
  decide +kernel
end Bads.Full.Example
