/-
  End-to-end theorems about `Det.run`, the composed model of a whole deterministic run (DetRun.lean):
  for EVERY target function `f`, every stream of candidate sets, acquisition rankings, thresholds and stall
  flags, and every number of iterations,

    * the incumbent is an evaluated point, its value is `f` there, and `f` is nowhere lower on the evaluated
      points (C04, now stated on the target itself rather than on an arbitrary list of returned values);
    * every evaluated point lies in the hard box and satisfies the non-box constraint (C01, C02);
    * the number of target calls grows exactly by the number of log entries and never exceeds the budget,
      and the loop finishes within `rank + 1` iterations (C03).

  The component theorems (C01-C04, C17) are lifted through the projections `step_ctl`, `step_log`, `step_inc`.
-/
import BadsModel.DetRun
import BadsProofs.Props.C01
import BadsProofs.Props.C02
import BadsProofs.Props.C03
import BadsProofs.Props.C04
import BadsProofs.Props.C13

namespace Bads.Det
open Bads

/-- what the real code guarantees of the search candidates of one iteration -/
def OrcOK (e : Env) (q : Orc) : Prop :=
  0 < q.h ∧ wideB q.h e.pipe.lb e.pipe.ub = true ∧ ∀ p ∈ q.searchU, p.length = e.pipe.lb.length

def Inv (e : Env) (s : St) : Prop :=
  Inc.Inv s.inc s.log ∧
  (∀ p ∈ s.log, p.2 = e.f p.1) ∧
  (∀ p ∈ s.log, InBox e.pipe.lb e.pipe.ub p.1) ∧
  (∀ c, e.pipe.cons = some c → ∀ p ∈ s.log, c p.1 = false) ∧
  Ctl.CInv e.o s.ctl.c ∧ Ctl.BInv e.o s.ctl.c

/-! ### projections onto the component models -/

theorem step_ctl (e : Env) (s : St) (q : Orc) : (step e s q).ctl = Ctl.step e.o s.ctl (outOf e s q) := rfl

theorem step_log (e : Env) (s : St) (q : Orc) :
    (step e s q).log = s.log ++ (searchEval e s q).toList ++ pollEvals e s q := rfl

theorem step_inc (e : Env) (s : St) (q : Orc) :
    (step e s q).inc = Inc.step (Inc.step s.inc (.search (searchEval e s q)))
      (if pollRuns e s q then .poll (pollEvals e s q) else .search none) := by
  unfold step incAfterSearch
  by_cases h : pollRuns e s q <;> simp [h, Inc.step, Inc.searchUpdate]

/-! ### where the evaluated points come from -/

theorem searchEval_spec (e : Env) (s : St) (q : Orc) (u : Pt) (y : Rat) (h : searchEval e s q = some (u, y)) :
    Ctl.doSearch e.o s.ctl.c = true ∧ y = e.f u ∧
    u ∈ filterCode (Pipe.filterIn e.pipe true q.h q.searchU (logPts s)) := by
  unfold searchEval at h
  by_cases hd : Ctl.doSearch e.o s.ctl.c = true
  · rw [if_pos hd] at h
    cases hg : (filterCode (Pipe.filterIn e.pipe true q.h q.searchU (logPts s)))[q.searchPick]? with
    | none => rw [hg] at h; cases h
    | some v =>
      rw [hg] at h
      simp only [Option.some.injEq, Prod.mk.injEq] at h
      obtain ⟨rfl, rfl⟩ := h
      exact ⟨hd, rfl, List.mem_of_getElem? hg⟩
  · rw [if_neg hd] at h; cases h

theorem pollEvals_spec (e : Env) (s : St) (q : Orc) (p : Pt × Rat) (h : p ∈ pollEvals e s q) :
    p.2 = e.f p.1 ∧
    p.1 ∈ filterCode (Pipe.filterIn e.pipe false q.h q.pollU (logPts s ++ (searchEval e s q).toList.map (·.1))) := by
  unfold pollEvals at h
  by_cases hr : pollRuns e s q = true
  · rw [if_pos hr] at h
    simp only [List.mem_map] at h
    obtain ⟨u, hu, rfl⟩ := h
    exact ⟨rfl, Pipe.pickAll_sub _ _ u hu⟩
  · rw [if_neg hr] at h; cases h

theorem pickAll_length_le (out : List Pt) : ∀ picks : List Nat, (Pipe.pickAll out picks).length ≤ picks.length
  | [] => by simp [Pipe.pickAll]
  | i :: is => by
    have ih := pickAll_length_le out is
    simp only [Pipe.pickAll, List.length_append, List.length_cons]
    cases out[i]? <;> simp <;> omega

/-- the poll evaluates no more points than the loop guard allows -/
theorem pollEvals_length (e : Env) (s : St) (q : Orc) :
    (pollEvals e s q).length ≤ Ctl.nEvals e.o (cBeforePoll e s q).fc q.pollOrder.length := by
  unfold pollEvals
  by_cases hr : pollRuns e s q = true
  · rw [if_pos hr]
    simp only [List.length_map]
    refine le_trans (pickAll_length_le _ _) ?_
    simp [List.length_take]
  · rw [if_neg hr]; simp

/-! ### the count of target calls follows the log -/

theorem cReset_fc (o : Ctl.Opts) (c : Ctl.CSt) : (Ctl.cReset o c).fc = c.fc := by
  unfold Ctl.cReset; split <;> rfl

theorem cstep_fc (o : Ctl.Opts) (c : Ctl.CSt) (co : Ctl.COut) :
    (Ctl.cstep o c co).fc = (Ctl.cAfterSearch o c co.search).fc +
      (if Ctl.doPoll o (Ctl.cAfterSearch o c co.search) = true
       then Ctl.nEvals o (Ctl.cAfterSearch o c co.search).fc co.nz else 0) := by
  simp only [Ctl.cstep]
  split <;> simp [cReset_fc]

theorem afterSearch_fc (e : Env) (s : St) (q : Orc) :
    (Ctl.cAfterSearch e.o s.ctl.c (searchOut e s q)).fc = s.ctl.c.fc + (searchEval e s q).toList.length := by
  cases hs : searchEval e s q with
  | none =>
    have hso : searchOut e s q = .empty := by unfold searchOut; rw [hs]
    rw [hso]
    simp only [Ctl.cAfterSearch, Option.toList, List.length_nil, Nat.add_zero]
    split <;> rfl
  | some uy =>
    obtain ⟨u, y⟩ := uy
    obtain ⟨hd, _, _⟩ := searchEval_spec e s q u y hs
    have hso : searchOut e s q = .eval true (status (impr s.inc.fval y) q.thr) := by unfold searchOut; rw [hs]
    rw [hso]
    simp [Ctl.cAfterSearch, hd]

theorem step_fc (e : Env) (s : St) (q : Orc) :
    (step e s q).ctl.c.fc + s.log.length = s.ctl.c.fc + (step e s q).log.length := by
  have hlen := pollEvals_length e s q
  have hnr : pollRuns e s q = false → pollEvals e s q = [] := by
    intro h; unfold pollEvals; rw [h]; simp
  have hc : (step e s q).ctl.c = Ctl.cstep e.o s.ctl.c (Ctl.coutOf e.o s.ctl (outOf e s q)) := rfl
  have hsearch : (Ctl.coutOf e.o s.ctl (outOf e s q)).search = searchOut e s q := rfl
  have hnz : (Ctl.coutOf e.o s.ctl (outOf e s q)).nz = (pollEvals e s q).length := by
    simp [Ctl.coutOf, outOf]
  rw [hc, cstep_fc, hsearch, hnz, afterSearch_fc, step_log]
  simp only [List.length_append]
  have hcb : (cBeforePoll e s q).fc = s.ctl.c.fc + (searchEval e s q).toList.length := by
    unfold cBeforePoll; rw [cReset_fc, afterSearch_fc]
  rw [hcb] at hlen
  by_cases hp : pollRuns e s q = true
  · have hp' : Ctl.doPoll e.o (Ctl.cAfterSearch e.o s.ctl.c (searchOut e s q)) = true := hp
    rw [if_pos hp']
    simp only [Ctl.nEvals] at hlen ⊢
    omega
  · have hp0 : pollRuns e s q = false := by simpa using hp
    have hp' : ¬ Ctl.doPoll e.o (Ctl.cAfterSearch e.o s.ctl.c (searchOut e s q)) = true := hp
    rw [if_neg hp', hnr hp0]
    simp only [List.length_nil]
    omega

/-! ### the invariant -/

theorem step_inv (e : Env) (hb : boxOK e.pipe.lb e.pipe.ub = true) (hn : 1 ≤ e.o.nTry) (s : St) (q : Orc)
    (hq : OrcOK e q) (h : Inv e s) (hnf : s.ctl.c.finished = false) : Inv e (step e s q) := by
  obtain ⟨hinc, hval, hbox, hcons, hci, hbi⟩ := h
  obtain ⟨hh, hw, hdim⟩ := hq
  -- facts about the new evaluations
  have hsv : ∀ p ∈ (searchEval e s q).toList, p.2 = e.f p.1 ∧ InBox e.pipe.lb e.pipe.ub p.1 ∧
      (∀ c, e.pipe.cons = some c → c p.1 = false) := by
    intro p hp
    cases hs : searchEval e s q with
    | none => rw [hs] at hp; cases hp
    | some uy =>
      obtain ⟨u, y⟩ := uy
      rw [hs] at hp
      simp only [Option.toList, List.mem_singleton] at hp
      subst hp
      obtain ⟨_, hy, hmem⟩ := searchEval_spec e s q u y hs
      refine ⟨hy, ?_, ?_⟩
      · have hbox := searchBox_ok q.h hh e.pipe.lb e.pipe.ub hb hw
        have hin := filter_in_box (Pipe.filterIn e.pipe true q.h q.searchU (logPts s))
          (by intro _; exact ⟨by simpa [Pipe.filterIn] using hbox, by intro p hp; simpa [Pipe.filterIn, searchLo_length] using hdim p hp⟩) u hmem
        have hin' : inBoxB (searchLo q.h e.pipe.lb) (searchHi q.h e.pipe.ub) u = true := by simpa [Pipe.filterIn, InBox] using hin
        exact inBox_search_sub q.h hh e.pipe.lb e.pipe.ub u hin'
      · intro c hc
        exact Pipe.filtered_feasible e.pipe c hc true q.h q.searchU _ u hmem
  have hpv : ∀ p ∈ pollEvals e s q, p.2 = e.f p.1 ∧ InBox e.pipe.lb e.pipe.ub p.1 ∧
      (∀ c, e.pipe.cons = some c → c p.1 = false) := by
    intro p hp
    obtain ⟨hy, hmem⟩ := pollEvals_spec e s q p hp
    refine ⟨hy, ?_, ?_⟩
    · have hin := filter_in_box (Pipe.filterIn e.pipe false q.h q.pollU _) (by intro hc; simp [Pipe.filterIn] at hc) p.1 hmem
      simpa [Pipe.filterIn] using hin
    · intro c hc
      exact Pipe.filtered_feasible e.pipe c hc false q.h q.pollU _ p.1 hmem
  refine ⟨?_, ?_, ?_, ?_, ?_, ?_⟩
  · -- incumbent
    rw [step_inc, step_log]
    have h1 := Inc.inc_search s.inc s.log (searchEval e s q) hinc
    have hev : Inc.evalsOf (.search (searchEval e s q)) = (searchEval e s q).toList := by
      cases searchEval e s q <;> rfl
    rw [hev] at h1
    by_cases hr : pollRuns e s q = true
    · rw [if_pos hr]
      have h2 := Inc.inc_poll _ _ (pollEvals e s q) h1
      simpa [Inc.step, Inc.evalsOf] using h2
    · rw [if_neg hr]
      have hnil : pollEvals e s q = [] := by unfold pollEvals; rw [if_neg hr]
      rw [hnil]
      simpa [Inc.step, Inc.searchUpdate] using h1
  · intro p hp
    rw [step_log] at hp
    simp only [List.mem_append] at hp
    rcases hp with (hp | hp) | hp
    · exact hval p hp
    · exact (hsv p hp).1
    · exact (hpv p hp).1
  · intro p hp
    rw [step_log] at hp
    simp only [List.mem_append] at hp
    rcases hp with (hp | hp) | hp
    · exact hbox p hp
    · exact (hsv p hp).2.1
    · exact (hpv p hp).2.1
  · intro c hc p hp
    rw [step_log] at hp
    simp only [List.mem_append] at hp
    rcases hp with (hp | hp) | hp
    · exact hcons c hc p hp
    · exact (hsv p hp).2.2 c hc
    · exact (hpv p hp).2.2 c hc
  · rw [step_ctl]; exact Ctl.cstep_inv e.o s.ctl.c _ hn hci
  · rw [step_ctl]; exact Ctl.cstep_binv e.o s.ctl.c _ hn hbi hnf

/-- EVERY REACHABLE STATE of a deterministic run satisfies the invariant. -/
theorem run_inv (e : Env) (hb : boxOK e.pipe.lb e.pipe.ub = true) (hn : 1 ≤ e.o.nTry) :
    ∀ (qs : List Orc) (s : St), (∀ q ∈ qs, OrcOK e q) → Inv e s → Inv e (run e qs s)
  | [], _, _, h => h
  | q :: qs, s, hq, h => by
    unfold run
    by_cases hf : s.ctl.c.finished = true
    · rw [if_pos hf]; exact h
    · rw [if_neg hf]
      exact run_inv e hb hn qs _ (fun q' hq' => hq q' (List.mem_cons_of_mem _ hq'))
        (step_inv e hb hn s q (hq q List.mem_cons_self) h (by simpa using hf))

theorem run_fc (e : Env) : ∀ (qs : List Orc) (s : St),
    (run e qs s).ctl.c.fc + s.log.length = s.ctl.c.fc + (run e qs s).log.length
  | [], _ => by simp [run]
  | q :: qs, s => by
    unfold run
    by_cases hf : s.ctl.c.finished = true
    · rw [if_pos hf]
    · rw [if_neg hf]
      have h1 := run_fc e qs (step e s q)
      have h2 := step_fc e s q
      omega

/-- THE RESULT OF A DETERMINISTIC RUN, for every target `f` and every oracle stream: the returned point was
    evaluated, lies in the hard box and is feasible; the reported value is the target's value there; no evaluated
    point has a lower target value; the target was called once per log entry (plus the calls made before the
    loop) and never more often than the budget allows. -/
theorem det_run_spec (e : Env) (hb : boxOK e.pipe.lb e.pipe.ub = true) (hn : 1 ≤ e.o.nTry)
    (qs : List Orc) (hq : ∀ q ∈ qs, OrcOK e q) (s0 : St) (h0 : Inv e s0) :
    let r := run e qs s0
    (r.inc.u, r.inc.fval) ∈ r.log ∧ r.inc.fval = e.f r.inc.u ∧ (∀ p ∈ r.log, e.f r.inc.u ≤ e.f p.1) ∧
    InBox e.pipe.lb e.pipe.ub r.inc.u ∧ (∀ c, e.pipe.cons = some c → c r.inc.u = false) ∧
    r.ctl.c.fc ≤ e.o.budget ∧ r.ctl.c.fc + s0.log.length = s0.ctl.c.fc + r.log.length := by
  intro r
  obtain ⟨⟨hmem, hmin⟩, hval, hbox, hcons, _, hbud⟩ := run_inv e hb hn qs s0 hq h0
  have hv := hval _ hmem
  simp only at hv
  refine ⟨hmem, hv, ?_, hbox _ hmem, fun c hc => hcons c hc _ hmem, hbud.1, run_fc e qs s0⟩
  intro p hp
  have := hmin p hp
  rw [hval p hp, hv] at this
  exact this

/-- TERMINATION of the composed model: whatever the oracle answers, after more than `rank` iterations the
    controller has finished. -/
theorem det_terminates (e : Env) (hn : 1 ≤ e.o.nTry) :
    ∀ (qs : List Orc) (s : St), Ctl.CInv e.o s.ctl.c → Ctl.rank e.o s.ctl.c < qs.length →
      (run e qs s).ctl.c.finished = true
  | [], _, _, h => by simp at h
  | q :: qs, s, hinv, hr => by
    unfold run
    by_cases hf : s.ctl.c.finished = true
    · rw [if_pos hf]; exact hf
    · rw [if_neg hf]
      by_cases hf' : (step e s q).ctl.c.finished = true
      · cases qs with
        | nil => simpa [run] using hf'
        | cons q' qs' => unfold run; rw [if_pos hf']; exact hf'
      · have hdec := Ctl.cstep_rank e.o s.ctl.c (Ctl.coutOf e.o s.ctl (outOf e s q)) hn hinv
          (by simpa [step_ctl, Ctl.step] using hf')
        refine det_terminates e hn qs _ (by rw [step_ctl]; exact Ctl.cstep_inv e.o s.ctl.c _ hn hinv) ?_
        rw [step_ctl]
        simp only [Ctl.step, List.length_cons] at hr ⊢
        omega


/-- MESH (C13) in the composed model: the poll mesh never exceeds its cap and the search mesh never exceeds the
    poll mesh, in every reachable state of a deterministic run. -/
theorem det_run_minv (e : Env) (hs : e.o.sgm = 2) (hc : e.o.cap ≤ e.o.sgn) :
    ∀ (qs : List Orc) (s : St), Ctl.MInv e.o s.ctl.m → Ctl.MInv e.o (run e qs s).ctl.m
  | [], _, h => h
  | q :: qs, s, h => by
    unfold run
    by_cases hf : s.ctl.c.finished = true
    · rw [if_pos hf]; exact h
    · rw [if_neg hf]
      exact det_run_minv e hs hc qs _ (Ctl.mstep_minv e.o s.ctl (outOf e s q) hs hc h)

/-- MESSAGE (C03) in the composed model: after every iteration the termination message names a condition that holds. -/
theorem det_step_msg_sound (e : Env) (s : St) (q : Orc) :
    Ctl.msgSound e.o (step e s q).ctl.c (decide ((step e s q).ctl.m.msi < e.o.tolExp)) q.stallStop = true :=
  Ctl.msg_sound e.o s.ctl (outOf e s q)


/-! ### non-vacuity: a concrete one-dimensional run meets the hypotheses, and the composed model computes it -/
namespace Example
def o1 : Ctl.Opts := { D := 1, nTry := 2, budget := 12, maxIter := 5, skip := true, cap := 0, sgm := 2, sgn := 10, locked := true,
                       accel := true, accelSteps := 3, stallIters := 4, tolExp := -20, expand := 0, incr := 1 }
def e1 : Env := { pipe := { lb := [.fin (-4)], ub := [.fin 4], origLo := [.fin (-4)], origHi := [.fin 4], tolMesh := 1/1024, cons := none, ginv := id },
                  o := o1, f := fun p => (p.headD 0 - 1) * (p.headD 0 - 1) }
def s0 : St := { log := [([0], 1), ([2], 1), ([-2], 9)], inc := { u := [0], fval := 1 }, ctl := Ctl.init o1 4 3 0 }
def q1 : Orc := { h := 1/4, searchU := [[1/2], [3]], searchPick := 0, pollU := [[1], [-1]], pollOrder := [0, 1], thr := 1/2, stallMesh := false, stallStop := false }
def q2 : Orc := { h := 1/4, searchU := [[1], [3/4]], searchPick := 1, pollU := [[3/2], [1/2]], pollOrder := [1, 0], thr := 1/8, stallMesh := false, stallStop := false }

example : Inv e1 s0 ∧ OrcOK e1 q1 ∧ OrcOK e1 q2 ∧ boxOK e1.pipe.lb e1.pipe.ub = true ∧ 1 ≤ e1.o.nTry := by
  refine ⟨⟨⟨by decide +kernel, by decide +kernel⟩, by decide +kernel, by decide +kernel, ?_, ?_, ?_⟩, ?_, ?_, by decide +kernel, by decide⟩
  · intro c hc; simp [e1] at hc
  · unfold Ctl.CInv; decide +kernel
  · unfold Ctl.BInv; decide +kernel
  · unfold OrcOK; decide +kernel
  · unfold OrcOK; decide +kernel

example : (run e1 [q1, q2] s0).inc = { u := [1], fval := 0 } ∧ (run e1 [q1, q2] s0).ctl.c.fc = 7 ∧
    (run e1 [q1, q2] s0).log.length = 6 := by decide +kernel
end Example

end Bads.Det
