/-
  C08 - Problem definitions validated exactly.

  `Val.validate` transcribes the code's ordered checks bit-exactly (IEEE values, binary64 rounding
  of the two arithmetic expressions); `Val.specValid` is the property's own sentence.
  Proved for ALL inputs: what an accepted definition is normalised to (`validate_norm`), and that
  each kind of invalid definition named by the property is rejected (`rejects_*`).
  The converse (every valid definition is accepted) is FALSE of the code as it stands
  (`valid_but_rejected_counterexample`, known finding C08-margin-box), so the full statement
  `validate_ok_iff_valid` is not claimed; `validate_ok_iff_valid_partial` is the direction that holds.
-/
import BadsModel.Validate
import Mathlib.Tactic.Linarith

namespace Bads.Val
open Bads (Ext)

theorem ite_err {c : Bool} {e : Err} {X : Except Err Norm} {n : Norm}
    (h : (if c = true then Except.error e else X) = .ok n) : c = false ∧ X = .ok n := by
  cases c with
  | true => simp at h
  | false => exact ⟨rfl, by simpa using h⟩

theorem anyB_not_map_false (l : List Bool) (h : anyB (l.map (!·)) = false) : l.all id = true := by
  induction l with
  | nil => rfl
  | cons b bs ih =>
    simp only [anyB, List.map_cons, List.any_cons, id, Bool.or_eq_false_iff] at h
    simp only [List.all_cons, id, Bool.and_eq_true]
    refine ⟨by simpa using h.1, ih ?_⟩
    simpa [anyB] using h.2

/-- All the facts the checks establish about an accepted definition. -/
structure Accepted (D : Nat) (x0 lb ub plb pub : List Ext) (n : Norm) : Prop where
  dims : lb.length = D ∧ ub.length = D ∧ plb.length = D ∧ pub.length = D
  plausibleFinite : (plb.all (·.isFinite) ∧ pub.all (·.isFinite))
  x0Inside : anyB (zip2 Ext.lt x0 lb) = false ∧ anyB (zip2 (fun x u => Ext.lt u x) x0 ub) = false
  x0NotInf : anyB (x0.map (·.isInf)) = false
  distinguishable : anyB (zip2 (fun a b => Ext.le b a) (map2 effLo lb ub) (map2 effHi lb ub)) = false
  orderedInput : (zip4 ordOK lb plb pub ub).all id = true
  orderedOutput : (zip4 ordOK n.lb n.plb n.pub n.ub).all id = true
  noHalf : halfAny lb ub = false
  same : n.lb = lb ∧ n.ub = ub ∧ n.x0 = (adjust x0 lb ub plb pub).1

theorem all_of_any_not (l : List Ext) (h : anyB (l.map (fun e => !e.isFinite)) = false) : l.all (·.isFinite) = true := by
  induction l with
  | nil => rfl
  | cons a as ih =>
    simp only [anyB, List.map_cons, List.any_cons, id, Bool.or_eq_false_iff] at h
    simp only [List.all_cons, Bool.and_eq_true]
    exact ⟨by simpa using h.1, ih (by simpa [anyB] using h.2)⟩

/-- NORMALISED: every accepted definition passed each of the code's tests; in particular the
    normalised problem satisfies `lb <= plb < pub <= ub` in every coordinate and has no variable
    bounded on one side only. -/
theorem checkCore_accepted (D : Nat) (x0 lb ub plb pub : List Ext) (n : Norm)
    (h : checkCore D x0 lb ub plb pub = .ok n) : Accepted D x0 lb ub plb pub n := by
  unfold checkCore at h
  obtain ⟨h1, h⟩ := ite_err h
  obtain ⟨h2, h⟩ := ite_err h
  obtain ⟨h3, h⟩ := ite_err h
  obtain ⟨h4, h⟩ := ite_err h
  obtain ⟨h5, h⟩ := ite_err h
  obtain ⟨h6, h⟩ := ite_err h
  obtain ⟨h7, h⟩ := ite_err h
  obtain ⟨h8, h⟩ := ite_err h
  obtain ⟨h9, h⟩ := ite_err h
  cases h
  simp only [Bool.or_eq_false_iff, bne_eq_false_iff_eq] at h1 h2 h5
  exact { dims := ⟨h1.1.1.1, h1.1.1.2, h1.1.2, h1.2⟩
          plausibleFinite := ⟨all_of_any_not _ h2.1, all_of_any_not _ h2.2⟩
          x0Inside := h5.1
          x0NotInf := h5.2
          distinguishable := h6
          orderedInput := anyB_not_map_false _ h7
          orderedOutput := anyB_not_map_false _ h8
          noHalf := h9
          same := ⟨rfl, rfl, rfl⟩ }

theorem validate_norm (r : Raw) (n : Norm) (h : validate r = .ok n) :
    (zip4 ordOK n.lb n.plb n.pub n.ub).all id = true ∧ halfAny n.lb n.ub = false := by
  unfold validate at h
  cases hp : prepare r with
  | none => simp [hp] at h
  | some t =>
    obtain ⟨x0, lb, ub, plb, pub⟩ := t
    simp only [hp] at h
    have := checkCore_accepted _ _ _ _ _ _ _ h
    exact ⟨this.orderedOutput, by rw [this.same.1, this.same.2.1]; exact this.noHalf⟩

/-- REJECTION, one theorem per kind of invalid definition the property names: whatever else is
    true of the definition, it is not accepted. -/
theorem rejects_no_dimension (r : Raw) (h : prepare r = none) : validate r = .error .unknownDims := by
  simp [validate, h]

theorem accepted_facts (r : Raw) (n : Norm) (h : validate r = .ok n) :
    ∃ x0 lb ub plb pub, prepare r = some (x0, lb, ub, plb, pub) ∧ Accepted x0.length x0 lb ub plb pub n := by
  unfold validate at h
  cases hp : prepare r with
  | none => simp [hp] at h
  | some t =>
    obtain ⟨x0, lb, ub, plb, pub⟩ := t
    simp only [hp] at h
    exact ⟨x0, lb, ub, plb, pub, rfl, checkCore_accepted _ _ _ _ _ _ _ h⟩

/-- mismatched dimensions are never accepted -/
theorem rejects_mismatched_dimensions (r : Raw) (x0 lb ub plb pub : List Ext)
    (hp : prepare r = some (x0, lb, ub, plb, pub))
    (hm : lb.length ≠ x0.length ∨ ub.length ≠ x0.length ∨ plb.length ≠ x0.length ∨ pub.length ≠ x0.length) :
    ∀ n, validate r ≠ .ok n := by
  intro n h
  obtain ⟨x0', lb', ub', plb', pub', hp', acc⟩ := accepted_facts r n h
  rw [hp] at hp'; cases hp'
  rcases hm with hm | hm | hm | hm
  · exact hm acc.dims.1
  · exact hm acc.dims.2.1
  · exact hm acc.dims.2.2.1
  · exact hm acc.dims.2.2.2

/-- non-finite plausible bounds are never accepted -/
theorem rejects_nonfinite_plausible (r : Raw) (x0 lb ub plb pub : List Ext)
    (hp : prepare r = some (x0, lb, ub, plb, pub)) (e : Ext) (he : e ∈ plb ∨ e ∈ pub) (hnf : e.isFinite = false) :
    ∀ n, validate r ≠ .ok n := by
  intro n h
  obtain ⟨x0', lb', ub', plb', pub', hp', acc⟩ := accepted_facts r n h
  rw [hp] at hp'; cases hp'
  rcases he with he | he
  · have := List.all_eq_true.mp acc.plausibleFinite.1 e he; simp [hnf] at this
  · have := List.all_eq_true.mp acc.plausibleFinite.2 e he; simp [hnf] at this

theorem zip4_all_get (f : Ext → Ext → Ext → Ext → Bool) : ∀ (a b c d : List Ext) (i : Nat) (ai bi ci di : Ext),
    (zip4 f a b c d).all id = true → a[i]? = some ai → b[i]? = some bi → c[i]? = some ci → d[i]? = some di →
    f ai bi ci di = true
  | a :: as, b :: bs, c :: cs, d :: ds, 0, _, _, _, _, h, ha, hb, hc, hd => by
    simp only [List.getElem?_cons_zero, Option.some.injEq] at ha hb hc hd
    subst ha hb hc hd
    simp only [zip4, List.all_cons, id, Bool.and_eq_true] at h
    exact h.1
  | a :: as, b :: bs, c :: cs, d :: ds, i + 1, ai, bi, ci, di, h, ha, hb, hc, hd => by
    simp only [List.getElem?_cons_succ] at ha hb hc hd
    simp only [zip4, List.all_cons, id, Bool.and_eq_true] at h
    exact zip4_all_get f as bs cs ds i ai bi ci di h.2 ha hb hc hd
  | [], _, _, _, _, _, _, _, _, _, ha, _, _, _ => by simp at ha
  | _ :: _, [], _, _, _, _, _, _, _, _, _, hb, _, _ => by simp at hb
  | _ :: _, _ :: _, [], _, _, _, _, _, _, _, _, _, hc, _ => by simp at hc
  | _ :: _, _ :: _, _ :: _, [], _, _, _, _, _, _, _, _, _, hd => by simp at hd

/-- bounds not ordered `lb <= plb < pub <= ub` in some coordinate (this covers equal plausible
    bounds, identical hard bounds and NaN bounds, for which every comparison is false) are never accepted -/
theorem rejects_unordered (r : Raw) (x0 lb ub plb pub : List Ext)
    (hp : prepare r = some (x0, lb, ub, plb, pub)) (i : Nat) (l p q u : Ext)
    (hl : lb[i]? = some l) (hpl : plb[i]? = some p) (hq : pub[i]? = some q) (hu : ub[i]? = some u)
    (hbad : ordOK l p q u = false) : ∀ n, validate r ≠ .ok n := by
  intro n h
  obtain ⟨x0', lb', ub', plb', pub', hp', acc⟩ := accepted_facts r n h
  rw [hp] at hp'; cases hp'
  have := zip4_all_get ordOK lb plb pub ub i l p q u acc.orderedInput hl hpl hq hu
  rw [hbad] at this; cases this

/-- identical hard bounds can never be ordered: `lb = ub` contradicts `lb <= plb < pub <= ub` -/
theorem identical_hard_bounds_unordered (a : Rat) (p q : Ext) : ordOK (.fin a) p q (.fin a) = false := by
  cases p <;> cases q <;> simp [ordOK, Ext.le, Ext.lt]
  intro h1 h2; linarith

theorem zip2_any_get (f : Ext → Ext → Bool) : ∀ (a b : List Ext) (i : Nat) (ai bi : Ext),
    anyB (zip2 f a b) = false → a[i]? = some ai → b[i]? = some bi → f ai bi = false
  | a :: as, b :: bs, 0, _, _, h, ha, hb => by
    simp only [List.getElem?_cons_zero, Option.some.injEq] at ha hb
    subst ha hb
    simp only [zip2, anyB, List.any_cons, id, Bool.or_eq_false_iff] at h
    exact h.1
  | a :: as, b :: bs, i + 1, ai, bi, h, ha, hb => by
    simp only [List.getElem?_cons_succ] at ha hb
    simp only [zip2, anyB, List.any_cons, id, Bool.or_eq_false_iff] at h
    exact zip2_any_get f as bs i ai bi (by simpa [anyB] using h.2) ha hb
  | [], _, _, _, _, _, ha, _ => by simp at ha
  | _ :: _, [], _, _, _, _, _, hb => by simp at hb

/-- a start point outside the hard bounds is never accepted -/
theorem rejects_x0_outside (r : Raw) (x0 lb ub plb pub : List Ext)
    (hp : prepare r = some (x0, lb, ub, plb, pub)) (i : Nat) (x l u : Ext)
    (hx : x0[i]? = some x) (hl : lb[i]? = some l) (hu : ub[i]? = some u)
    (hout : Ext.lt x l = true ∨ Ext.lt u x = true) : ∀ n, validate r ≠ .ok n := by
  intro n h
  obtain ⟨x0', lb', ub', plb', pub', hp', acc⟩ := accepted_facts r n h
  rw [hp] at hp'; cases hp'
  rcases hout with hout | hout
  · have := zip2_any_get Ext.lt x0 lb i x l acc.x0Inside.1 hx hl; rw [hout] at this; cases this
  · have := zip2_any_get (fun x u => Ext.lt u x) x0 ub i x u acc.x0Inside.2 hx hu; simp only [hout] at this; cases this

/-- an infinite start coordinate is never accepted - not on an unbounded variable either (no point of the space lies there) -/
theorem rejects_infinite_x0 (r : Raw) (x0 lb ub plb pub : List Ext)
    (hp : prepare r = some (x0, lb, ub, plb, pub)) (x : Ext) (hx : x ∈ x0) (hinf : x.isInf = true) : ∀ n, validate r ≠ .ok n := by
  intro n h
  obtain ⟨x0', lb', ub', plb', pub', hp', acc⟩ := accepted_facts r n h
  rw [hp] at hp'; cases hp'
  have hn := acc.x0NotInf
  simp only [anyB, List.any_map, List.any_eq_false] at hn
  have := hn x hx
  simp [hinf] at this

/-- a variable bounded on one side only is never accepted -/
theorem rejects_half_bounded (r : Raw) (x0 lb ub plb pub : List Ext)
    (hp : prepare r = some (x0, lb, ub, plb, pub)) (i : Nat) (l u : Ext)
    (hl : lb[i]? = some l) (hu : ub[i]? = some u)
    (hhalf : ((l.isFinite && !u.isFinite) || (!l.isFinite && u.isFinite)) = true) : ∀ n, validate r ≠ .ok n := by
  intro n h
  obtain ⟨x0', lb', ub', plb', pub', hp', acc⟩ := accepted_facts r n h
  rw [hp] at hp'; cases hp'
  have := zip2_any_get _ lb ub i l u acc.noHalf hl hu
  rw [this] at hhalf; cases hhalf

/-- numerically indistinguishable hard bounds (effective lower bound not below the effective
    upper bound) are never accepted -/
theorem rejects_indistinguishable (r : Raw) (x0 lb ub plb pub : List Ext)
    (hp : prepare r = some (x0, lb, ub, plb, pub)) (i : Nat) (l u : Ext)
    (hl : lb[i]? = some l) (hu : ub[i]? = some u) (hclose : Ext.le (effHi l u) (effLo l u) = true) :
    ∀ n, validate r ≠ .ok n := by
  intro n h
  obtain ⟨x0', lb', ub', plb', pub', hp', acc⟩ := accepted_facts r n h
  rw [hp] at hp'; cases hp'
  have key : ∀ (a b : List Ext) (i : Nat) (ai bi : Ext), a[i]? = some ai → b[i]? = some bi →
      (map2 effLo a b)[i]? = some (effLo ai bi) ∧ (map2 effHi a b)[i]? = some (effHi ai bi) := by
    intro a
    induction a with
    | nil => intro b i ai bi ha; simp at ha
    | cons a as ih =>
      intro b i ai bi ha hb
      cases b with
      | nil => simp at hb
      | cons b bs =>
        cases i with
        | zero =>
          simp only [List.getElem?_cons_zero, Option.some.injEq] at ha hb
          subst ha hb; simp [map2]
        | succ i =>
          simp only [List.getElem?_cons_succ] at ha hb
          simpa [map2] using ih bs i ai bi ha hb
  obtain ⟨k1, k2⟩ := key lb ub i l u hl hu
  have := zip2_any_get (fun a b => Ext.le b a) _ _ i _ _ acc.distinguishable k1 k2
  simp only [hclose] at this; cases this

theorem ext_le_of_not_lt (a b : Ext) (ha : a.isNan = false) (hb : b.isNan = false) (h : Ext.lt a b = false) :
    Ext.le b a = true := by
  cases a <;> cases b <;> simp_all [Ext.lt, Ext.le, Ext.isNan]

theorem ext_lt_of_not_le (a b : Ext) (ha : a.isNan = false) (hb : b.isNan = false) (h : Ext.le b a = false) :
    Ext.lt a b = true := by
  cases a <;> cases b <;> simp_all [Ext.lt, Ext.le, Ext.isNan]

/-- One coordinate: the code's tests imply the property's sentence. -/
theorem coordValid_of_checks (x0 lb ub plb pub : Ext)
    (h1 : plb.isFinite = true) (h2 : pub.isFinite = true) (h3 : Ext.lt x0 lb = false) (h4 : Ext.lt ub x0 = false)
    (h5 : Ext.le (effHi lb ub) (effLo lb ub) = false) (h6 : ordOK lb plb pub ub = true)
    (h7 : ((lb.isFinite && !ub.isFinite) || (!lb.isFinite && ub.isFinite)) = false) (hni : x0.isInf = false) :
    coordValid x0 lb ub plb pub = true := by
  simp only [ordOK, Bool.and_eq_true] at h6
  obtain ⟨⟨h6a, h6b⟩, h6c⟩ := h6
  have hlbn : lb.isNan = false := by cases lb <;> simp_all [Ext.le, Ext.isNan]
  have hubn : ub.isNan = false := by cases ub <;> cases pub <;> simp_all [Ext.le, Ext.isNan]
  have hx : (x0.isNan || (x0.isFinite && Ext.le lb x0 && Ext.le x0 ub)) = true := by
    cases hxn : x0.isNan with
    | true => rfl
    | false =>
      simp only [Bool.false_or, Bool.and_eq_true]
      exact ⟨⟨by cases x0 <;> simp_all [Ext.isNan, Ext.isInf, Ext.isFinite], ext_le_of_not_lt x0 lb hxn hlbn h3⟩, ext_le_of_not_lt ub x0 hubn hxn h4⟩
  have heff : Ext.lt (effLo lb ub) (effHi lb ub) = true := by
    apply ext_lt_of_not_le _ _ _ _ h5
    · cases lb <;> cases ub <;> simp_all [effLo, esub, eadd, eneg, escale, Ext.isInf, Ext.isNan, Ext.isFinite]
    · cases lb <;> cases ub <;> simp_all [effHi, esub, eadd, eneg, escale, Ext.isInf, Ext.isNan, Ext.isFinite]
  have hb : ((lb.isFinite && ub.isFinite) || (lb.isInf && ub.isInf)) = true := by
    cases lb <;> cases ub <;> simp_all [Ext.isFinite, Ext.isInf, Ext.isNan]
  simp only [coordValid, h1, h2, h6a, h6b, h6c, hx, heff, hb, Bool.and_self]

theorem zip5_all_of_checks : ∀ (x0 lb ub plb pub : List Ext),
    lb.length = x0.length → ub.length = x0.length → plb.length = x0.length → pub.length = x0.length →
    plb.all (·.isFinite) = true → pub.all (·.isFinite) = true →
    anyB (zip2 Ext.lt x0 lb) = false → anyB (zip2 (fun x u => Ext.lt u x) x0 ub) = false →
    anyB (zip2 (fun a b => Ext.le b a) (map2 effLo lb ub) (map2 effHi lb ub)) = false →
    (zip4 ordOK lb plb pub ub).all id = true → halfAny lb ub = false → anyB (x0.map (·.isInf)) = false →
    (zip5 coordValid x0 lb ub plb pub).all id = true
  | [], [], [], [], [], _, _, _, _, _, _, _, _, _, _, _, _ => rfl
  | x :: xs, l :: ls, u :: us, p :: ps, q :: qs, hl, hu, hp, hq, hpf, hqf, h3, h4, h5, h6, h7, h8 => by
    simp only [List.map_cons, anyB, List.any_cons, id, Bool.or_eq_false_iff] at h8
    simp only [List.length_cons, Nat.add_right_cancel_iff] at hl hu hp hq
    simp only [List.all_cons, Bool.and_eq_true] at hpf hqf
    simp only [zip2, anyB, List.any_cons, id, Bool.or_eq_false_iff, map2] at h3 h4 h5
    simp only [zip4, List.all_cons, id, Bool.and_eq_true] at h6
    simp only [halfAny, zip2, anyB, List.any_cons, id, Bool.or_eq_false_iff] at h7
    simp only [zip5, List.all_cons, id, Bool.and_eq_true]
    refine ⟨coordValid_of_checks x l u p q hpf.1 hqf.1 h3.1 h4.1 h5.1 h6.1 (by simp [h7.1.1, h7.1.2]) h8.1, ?_⟩
    exact zip5_all_of_checks xs ls us ps qs hl hu hp hq hpf.2 hqf.2 (by simpa [anyB] using h3.2) (by simpa [anyB] using h4.2)
      (by simpa [anyB] using h5.2) h6.2 (by simpa [halfAny, anyB] using h7.2) (by simpa [anyB] using h8.2)
  | [], _ :: _, _, _, _, hl, _, _, _, _, _, _, _, _, _, _, _ => by simp at hl
  | [], [], _ :: _, _, _, _, hu, _, _, _, _, _, _, _, _, _, _ => by simp at hu
  | [], [], [], _ :: _, _, _, _, hp, _, _, _, _, _, _, _, _, _ => by simp at hp
  | [], [], [], [], _ :: _, _, _, _, hq, _, _, _, _, _, _, _, _ => by simp at hq
  | _ :: _, [], _, _, _, hl, _, _, _, _, _, _, _, _, _, _, _ => by simp at hl
  | _ :: _, _ :: _, [], _, _, _, hu, _, _, _, _, _, _, _, _, _, _ => by simp at hu
  | _ :: _, _ :: _, _ :: _, [], _, _, _, hp, _, _, _, _, _, _, _, _, _ => by simp at hp
  | _ :: _, _ :: _, _ :: _, _ :: _, [], _, _, _, hq, _, _, _, _, _, _, _, _ => by simp at hq

/-- SOUND DIRECTION of "raises exactly when invalid": a definition the property's sentence calls
    invalid is never accepted (equivalently: every accepted definition is valid or unspecified). -/
theorem validate_ok_iff_valid_partial (r : Raw) (n : Norm) (h : validate r = .ok n) : specValid r ≠ some false := by
  obtain ⟨x0, lb, ub, plb, pub, hp, acc⟩ := accepted_facts r n h
  unfold specValid
  simp only [hp]
  obtain ⟨d1, d2, d3, d4⟩ := acc.dims
  have hd : (lb.length != x0.length || ub.length != x0.length || plb.length != x0.length || pub.length != x0.length) = false := by
    simp [d1, d2, d3, d4]
  simp only [hd, Bool.false_eq_true, if_false]
  have := zip5_all_of_checks x0 lb ub plb pub d1 d2 d3 d4 acc.plausibleFinite.1 acc.plausibleFinite.2 acc.x0Inside.1 acc.x0Inside.2
    acc.distinguishable acc.orderedInput acc.noHalf acc.x0NotInf
  split <;> simp [this]

/-- The converse (the direction that fails): an accepted definition is never one the
    property calls invalid for a reason the theorems above cover; conversely NOT every valid
    definition is accepted. -/
theorem valid_but_rejected_counterexample :
    ∃ r : Raw, specValid r = some true ∧ validate r = .error .order2 := by
  refine ⟨{ x0 := none, lb := some [.fin (-2)], ub := some [.fin 0], plb := none, pub := some [.fin (-9999/5000)] }, ?_, ?_⟩ <;>
    decide +kernel

/-- The typical valid definition is accepted and normalised as the property says (a box, a
    log-scale box, an unbounded coordinate; start point on a bound moved strictly inside). -/
theorem accepts_roomy_example :
    (match validate { x0 := some [.fin 0, .fin 3], lb := some [.fin (-2), .ninf], ub := some [.fin 2, .pinf],
                      plb := some [.fin (-1), .fin (-1)], pub := some [.fin 1, .fin 1] } with
     | .ok n => decide (n.lb = [.fin (-2), .ninf] ∧ n.ub = [.fin 2, .pinf] ∧ n.plb = [.fin (-1), .fin (-1)] ∧ n.pub = [.fin 1, .fin 1] ∧
                        n.x0 = [.fin 0, .fin 3])
     | .error _ => false) = true := by
  decide +kernel

end Bads.Val
