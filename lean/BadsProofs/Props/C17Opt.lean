/-
  C17 over ONE WHOLE CALL of `optimize()` (model `Opt` / `Full`): the candidate sets that the search and poll steps of every iteration of a whole
  call evaluate from are outputs of the filter - pairwise distinct (even after rounding to half the mesh tolerance), feasible - and what a step
  evaluates are rows of them: the search step one row, the poll step pairwise distinct rows.  (The freshness clause - "nothing already evaluated" -
  fails for the code and holds for the documented behaviour: `filter_fresh_counterexample`, `filterSpec_fresh`, known finding C17-fresh.)
-/
import BadsProofs.Props.C17
import BadsProofs.Props.C17Run
import BadsProofs.Props.C14Run
import BadsProofs.Props.C18Opt

namespace Bads.Opt
open Bads

/-- the filtered poll set of iteration `(s, q)` -/
def pollSet (e : Full.Env) (s : Full.St) (q : Full.Orc) : List Pt :=
  filterCode (Pipe.filterIn e.pipe false q.h q.pollU (Full.pts s ++ ((Full.searchCand e s q).map (·.1.u)).toList))

/-- NO DUPLICATES in the set a search step picks from, NOTHING INFEASIBLE in it -/
theorem search_set_distinct_feasible (e : Full.Env) (s : Full.St) (q : Full.Orc) :
    ((searchSet e s q).map (keyOf (e.pipe.tolMesh / 2))).Nodup ∧ ∀ c, e.pipe.cons = some c → ∀ p ∈ searchSet e s q, c p = false :=
  ⟨filter_pairwise_distinct_keys (Pipe.filterIn e.pipe true q.h q.searchU (Full.pts s)),
   fun c hc p hp => filter_feasible (Pipe.filterIn e.pipe true q.h q.searchU (Full.pts s)) c hc p hp⟩

/-- ... and in the set a poll step picks from -/
theorem poll_set_distinct_feasible (e : Full.Env) (s : Full.St) (q : Full.Orc) :
    ((pollSet e s q).map (keyOf (e.pipe.tolMesh / 2))).Nodup ∧ ∀ c, e.pipe.cons = some c → ∀ p ∈ pollSet e s q, c p = false :=
  ⟨filter_pairwise_distinct_keys (Pipe.filterIn e.pipe false q.h q.pollU _),
   fun c hc p hp => filter_feasible (Pipe.filterIn e.pipe false q.h q.pollU _) c hc p hp⟩

/-- what the steps of an iteration evaluate: rows of those sets, the polled ones pairwise distinct (the picks being distinct indices) -/
theorem iteration_evaluates_filtered_rows (e : Full.Env) (s : Full.St) (q : Full.Orc) (hnd : q.pollOrder.Nodup) :
    (∀ u ∈ searchEvals e s q, u ∈ searchSet e s q) ∧ (∀ p ∈ Full.polled e s q, p ∈ pollSet e s q) ∧ (Full.polled e s q).Nodup :=
  ⟨fun u hu => search_eval_in_search_set e s q u hu, Full.polled_sub_out e s q, Full.poll_step_nodup e s q hnd⟩

/-- every iteration of the loop of a WHOLE CALL (states of `Reach`) -/
theorem optimize_candidate_sets (e : Env) (io : InitOrc) (s : Full.St) (q : Full.Orc)
    (_h : Reach (loopEnv e (init e io)) (loopStart e (init e io)) s) (hnd : q.pollOrder.Nodup) :
    ((searchSet (loopEnv e (init e io)) s q).map (keyOf (e.full.pipe.tolMesh / 2))).Nodup ∧
    ((pollSet (loopEnv e (init e io)) s q).map (keyOf (e.full.pipe.tolMesh / 2))).Nodup ∧
    (∀ u ∈ searchEvals (loopEnv e (init e io)) s q, u ∈ searchSet (loopEnv e (init e io)) s q) ∧
    (∀ p ∈ Full.polled (loopEnv e (init e io)) s q, p ∈ pollSet (loopEnv e (init e io)) s q) ∧
    (Full.polled (loopEnv e (init e io)) s q).Nodup :=
  ⟨(search_set_distinct_feasible _ s q).1, (poll_set_distinct_feasible _ s q).1,
   (iteration_evaluates_filtered_rows _ s q hnd).1, (iteration_evaluates_filtered_rows _ s q hnd).2.1, (iteration_evaluates_filtered_rows _ s q hnd).2.2⟩

end Bads.Opt
