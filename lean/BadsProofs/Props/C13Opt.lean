/-
  C13 over ONE WHOLE CALL of `optimize()` (model `Opt`, BadsModel/Optimize.lean): the mesh laws of `Ctl.mstep` hold in EVERY state the loop
  of a whole call passes through - the loop being entered in the state the initial phase DERIVES (`Opt.init`), in any noise mode, with the
  poll outcome derived from the estimates of the evaluated candidates (`Full.outOf`).  The states are described by the inductive predicate
  `Reach`; `optimize_reach` shows that the state in which the loop of `Opt.optimize` is left is one of them.
-/
import BadsProofs.Props.C13
import BadsProofs.Props.C03Opt
import BadsProofs.Props.C05Opt

namespace Bads.Opt
open Bads

/-- the states the main loop passes through when it is entered in `s0`: `s0` itself, and `Full.step` of a state that is not finished -/
inductive Reach (e : Full.Env) (s0 : Full.St) : Full.St → Prop
  | start : Reach e s0 s0
  | next (s : Full.St) (q : Full.Orc) : Reach e s0 s → s.ctl.c.finished = false → Reach e s0 (Full.step e s q)

theorem run_reach (e : Full.Env) (s0 : Full.St) : ∀ (qs : List Full.Orc) (s : Full.St), Reach e s0 s → Reach e s0 (Full.run e qs s)
  | [], _, h => h
  | q :: qs, s, h => by
    unfold Full.run
    by_cases hf : s.ctl.c.finished = true
    · rw [if_pos hf]; exact h
    · rw [if_neg hf]
      exact run_reach e s0 qs _ (Reach.next s q h (by simpa using hf))

/-- the loop of a whole call is left in a state of `Reach` -/
theorem optimize_reach (e : Env) (io : InitOrc) (qs : List Full.Orc) (fo : FinalOrc) :
    Reach (loopEnv e (init e io)) (loopStart e (init e io)) (optimize e io qs fo).loop :=
  run_reach _ _ qs _ Reach.start

/-- conversely every state of `Reach` is the loop exit of some oracle stream (so the theorems below quantify over exactly the states of runs) -/
theorem reach_is_run (e : Full.Env) (s0 s : Full.St) (h : Reach e s0 s) : ∃ qs, Full.run e qs s0 = s := by
  induction h with
  | start => exact ⟨[], rfl⟩
  | next s q _ hf ih =>
    obtain ⟨qs, hqs⟩ := ih
    refine ⟨qs ++ [q], ?_⟩
    have key : ∀ (qs : List Full.Orc) (a : Full.St), Full.run e (qs ++ [q]) a
        = if (Full.run e qs a).ctl.c.finished then Full.run e qs a else Full.step e (Full.run e qs a) q := by
      intro qs
      induction qs with
      | nil =>
        intro a
        by_cases hfa : a.ctl.c.finished = true <;> simp [Full.run, hfa]
      | cons q' qs ih' =>
        intro a
        simp only [List.cons_append, Full.run]
        by_cases hfa : a.ctl.c.finished = true
        · simp only [hfa, if_true]
        · simp only [hfa, if_false, Bool.false_eq_true]
          exact ih' _
    rw [key, hqs, hf]
    simp

/-- the mesh state at loop entry of a whole call satisfies the invariant whenever the configured initial exponent does not exceed the cap -/
theorem loopStart_minv (e : Env) (io : InitOrc) (h0 : e.msi0 ≤ e.full.o.cap) (hs : e.full.o.sgm = 2) (hc : e.full.o.cap ≤ e.full.o.sgn) :
    Ctl.MInv (loopEnv e (init e io)).o (loopStart e (init e io)).ctl.m :=
  Ctl.init_minv (init e io).o _ _ e.msi0 h0 hs hc

/-- INVARIANT, every state of the loop: `msi ≤ cap`, `ssi ≤ msi` -/
theorem reach_minv (e : Full.Env) (hs : e.o.sgm = 2) (hc : e.o.cap ≤ e.o.sgn) (s0 : Full.St) (h0 : Ctl.MInv e.o s0.ctl.m) :
    ∀ s, Reach e s0 s → Ctl.MInv e.o s.ctl.m := by
  intro s h
  induction h with
  | start => exact h0
  | next s q _ _ ih => exact Ctl.mstep_minv e.o s.ctl (Full.outOf e s q) hs hc ih

/-- C13 IN A WHOLE CALL, every state of the loop, any noise mode: the poll mesh is a power of two with exponent at most the cap and the search
    mesh never exceeds the poll mesh. -/
theorem optimize_mesh_inv (e : Env) (io : InitOrc) (h0 : e.msi0 ≤ e.full.o.cap) (hs : e.full.o.sgm = 2) (hc : e.full.o.cap ≤ e.full.o.sgn)
    (s : Full.St) (h : Reach (loopEnv e (init e io)) (loopStart e (init e io)) s) :
    s.ctl.m.msi ≤ e.full.o.cap ∧ (2 : Rat) ^ s.ctl.m.ssi ≤ (2 : Rat) ^ s.ctl.m.msi := by
  have hm := reach_minv (loopEnv e (init e io)) hs hc _ (loopStart_minv e io h0 hs hc) s h
  exact ⟨hm.1, Ctl.search_mesh_le_mesh _ _ hm.2⟩

/-- ... with the SHIPPED DEFAULTS (regenerated from the option files on every run): the mesh size never exceeds 1 -/
theorem optimize_default_mesh_bounded (d : Generated.Defaults) (hd : d ∈ Generated.defaults) (e : Env) (io : InitOrc)
    (hcap : e.full.o.cap = d.max_poll_grid_number) (hsgm : e.full.o.sgm = d.search_grid_multiplier)
    (hsgn : e.full.o.sgn = d.search_grid_number) (hmsi : e.msi0 = d.init_mesh_size_integer)
    (s : Full.St) (h : Reach (loopEnv e (init e io)) (loopStart e (init e io)) s) :
    (2 : Rat) ^ s.ctl.m.msi ≤ 1 ∧ (2 : Rat) ^ s.ctl.m.ssi ≤ (2 : Rat) ^ s.ctl.m.msi := by
  obtain ⟨_, h2, h3, h4, h5, _, _⟩ := Ctl.defaults_satisfy_HypC13 d hd
  have hs : e.full.o.sgm = 2 := by rw [hsgm, h4]
  have hc : e.full.o.cap ≤ e.full.o.sgn := by rw [hcap, hsgn]; exact h5
  have h0 : e.msi0 ≤ e.full.o.cap := by rw [hcap, hmsi, h2, h3]
  obtain ⟨ha, hb⟩ := optimize_mesh_inv e io h0 hs hc s h
  have hcap0 : e.full.o.cap = 0 := by rw [hcap, h2]
  exact ⟨Ctl.mesh_le_one _ (by omega), hb⟩

/-- did this iteration of the composed model run a poll / find a sufficient improvement in it?  (`Ctl.ranPoll` / `Ctl.pollWasGood` on the
    outcome DERIVED from the estimates of the evaluated poll candidates) -/
def polled (e : Full.Env) (s : Full.St) (q : Full.Orc) : Bool := Ctl.ranPoll e.o s.ctl (Full.outOf e s q)
def pollGood (e : Full.Env) (s : Full.St) (q : Full.Orc) : Bool := Ctl.pollWasGood e.o s.ctl (Full.outOf e s q)

theorem polled_eq_pollRuns (e : Full.Env) (s : Full.St) (q : Full.Orc) : polled e s q = Full.pollRuns e s q := rfl

/-- THE MESH LAW of one iteration of a whole call, in one statement: doubled (up to the cap) after a poll with a sufficient improvement;
    halved - quartered exactly when acceleration is on, more than `accelerate_mesh_steps` polls have passed and the run stalls - after any other
    poll; unchanged when the iteration ran no poll. -/
theorem step_mesh_law (e : Full.Env) (hexp : e.o.expand = 0) (s : Full.St) (q : Full.Orc) :
    (Full.step e s q).ctl.m.msi =
      (if polled e s q then
         (if pollGood e s q then min (s.ctl.m.msi + 1) e.o.cap
          else if e.o.accel && decide (s.ctl.c.pollIter > e.o.accelSteps) && q.stallMesh then s.ctl.m.msi - 2 else s.ctl.m.msi - 1)
       else s.ctl.m.msi) := by
  show (Ctl.mstep e.o s.ctl (Full.outOf e s q)).msi = _
  by_cases hp : polled e s q = true
  · rw [if_pos hp]
    by_cases hg : pollGood e s q = true
    · rw [if_pos hg]; exact Ctl.poll_success_doubles e.o s.ctl _ hexp hp hg
    · rw [if_neg hg]
      have hg' : Ctl.pollWasGood e.o s.ctl (Full.outOf e s q) = false := by simpa [pollGood] using hg
      exact Ctl.poll_failure_halves_or_quarters e.o s.ctl _ hexp hp hg'
  · rw [if_neg hp]
    have hp' : Ctl.ranPoll e.o s.ctl (Full.outOf e s q) = false := by simpa [polled] using hp
    exact Ctl.msi_changes_only_in_poll e.o s.ctl _ hexp hp'

/-- the law holds at EVERY iteration of the loop of a whole call (states of `Reach`, the loop entered in the derived state) -/
theorem optimize_mesh_law (e : Env) (io : InitOrc) (hexp : e.full.o.expand = 0) (s : Full.St) (q : Full.Orc)
    (_h : Reach (loopEnv e (init e io)) (loopStart e (init e io)) s) :
    (Full.step (loopEnv e (init e io)) s q).ctl.m.msi =
      (if polled (loopEnv e (init e io)) s q then
         (if pollGood (loopEnv e (init e io)) s q then min (s.ctl.m.msi + 1) e.full.o.cap
          else if e.full.o.accel && decide (s.ctl.c.pollIter > e.full.o.accelSteps) && q.stallMesh then s.ctl.m.msi - 2 else s.ctl.m.msi - 1)
       else s.ctl.m.msi) :=
  step_mesh_law (loopEnv e (init e io)) hexp s q

/-- a state of the loop other than the entry state is the result of an iteration -/
theorem reach_cases (e : Full.Env) (s0 s : Full.St) (h : Reach e s0 s) : s = s0 ∨ ∃ s' q, Reach e s0 s' ∧ s = Full.step e s' q := by
  cases h with
  | start => exact Or.inl rfl
  | next s' q h' _ => exact Or.inr ⟨s', q, h', rfl⟩

/-- C13, LAST CLAUSE, WHOLE CALL: a call whose loop is left with the message "mesh tolerance" has a poll mesh below the internal tolerance
    `2 ^ tolExp` (which `below_internal_tol_below_user_tol` relates to the user's `tol_mesh`). -/
theorem optimize_tolmesh_sound (e : Env) (io : InitOrc) (qs : List Full.Orc) (fo : FinalOrc)
    (h : (optimize e io qs fo).loop.ctl.c.msg = .tolMesh) :
    (2 : Rat) ^ (optimize e io qs fo).loop.ctl.m.msi < (2 : Rat) ^ e.full.o.tolExp := by
  rcases reach_cases _ _ _ (optimize_reach e io qs fo) with h0 | ⟨s', q, _, hs⟩
  · rw [h0] at h
    exact absurd h (by simp [loopStart, Ctl.init])
  · rw [hs] at h ⊢
    exact Ctl.tolmesh_msg_sound (loopEnv e (init e io)).o s'.ctl (Full.outOf _ s' q) h

/-- ... and hence below the USER's tolerance when the internal exponent is the rounded-up logarithm (`2^(tolExp-1) < tol_mesh`) -/
theorem optimize_tolmesh_below_user_tol (e : Env) (io : InitOrc) (qs : List Full.Orc) (fo : FinalOrc) (tol : Rat)
    (hk : (2 : Rat) ^ (e.full.o.tolExp - 1) < tol) (h : (optimize e io qs fo).loop.ctl.c.msg = .tolMesh) :
    (2 : Rat) ^ (optimize e io qs fo).loop.ctl.m.msi < tol := by
  have h1 := optimize_tolmesh_sound e io qs fo h
  have hlt : (optimize e io qs fo).loop.ctl.m.msi < e.full.o.tolExp := by
    by_contra hge
    have := zpow_le_zpow_right₀ (show (1 : Rat) ≤ 2 by norm_num) (not_lt.mp hge)
    exact absurd h1 (not_lt.mpr this)
  exact Ctl.below_internal_tol_below_user_tol tol _ _ hk hlt

/-! ### non-vacuity: the concrete whole call of C05Opt's example meets the hypotheses; its two iterations poll, the first with a sufficient
     improvement at the cap (mesh stays 1), the second one too -/
namespace Example
open Bads.Full.Example

example : eX.msi0 ≤ eX.full.o.cap ∧ eX.full.o.sgm = 2 ∧ eX.full.o.cap ≤ eX.full.o.sgn ∧ eX.full.o.expand = 0 := by decide +kernel

example : polled (loopEnv eX (init eX ioX)) (loopStart eX (init eX ioX)) q1 = true ∧
    pollGood (loopEnv eX (init eX ioX)) (loopStart eX (init eX ioX)) q1 = true ∧
    (Full.step (loopEnv eX (init eX ioX)) (loopStart eX (init eX ioX)) q1).ctl.m.msi = 0 ∧
    (optimize eX ioX [q1, q2] foX).loop.ctl.m.msi = 0 ∧ (optimize eX ioX [q1, q2] foX).loop.ctl.m.ssi = -10 := by decide +kernel
end Example

end Bads.Opt
