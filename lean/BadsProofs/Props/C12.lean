/-
  C12 - The evaluation log records exactly what was observed, where it was observed.

  Theorems about `Log.record` / `Log.call` / `Log.add`, the state-machine model of
  FunctionLogger, for ALL operation sequences (the invariants are one-step; `runOps_*`
  lifts them to every reachable state by induction over the operation list).
-/
import BadsProofs.Lemmas.LogLemmas

namespace Bads.Log

/-- What a successful `_record` can do: exactly one of three things. -/
inductive RecCase (s : St) (xo x : Pt) (y : Rat) (sd : Option Rat) (rd : Bool) (s' : St) (v : Rat) (idx : Option Nat) : Prop
  | norecHit (i : Nat) (hrd : rd = false) (h1 : lastMatch x s.rows = some i) (h2 : s' = { s with rows := bumpN s.rows i })
      (h3 : v = y) (h4 : idx = some i)
  | norecMiss (hrd : rd = false) (h1 : lastMatch x s.rows = none) (h2 : s' = s) (h3 : v = y) (h4 : idx = none)
  | merge (i : Nat) (sdv : Rat) (hrd : rd = true) (h0 : sd = some sdv ∧ s.he = true) (h1 : firstMatch x s.rows = some i)
      (h2 : s' = { s with rows := modAt (fun r => mergeRow r y sdv) s.rows i }) (h4 : idx = some i)
  | fresh (cap' : Nat) (hrd : rd = true) (h1 : (sd = none ∨ s.he = false) ∨ firstMatch x s.rows = none)
      (h2 : s' = { s with rows := s.rows ++ [{ xo := xo, x := x, y := y, yo := y, tau := sd.map (fun v => 1 / (v * v)), n := 1 }],
                          cap := cap', xMaxIdx := min (s.xMaxIdx + 1) cap' })
      (h3 : v = y) (h4 : idx = some s.rows.length) (h5 : s.cap ≤ cap')
      (h6 : cap' = if s.rows.length > s.cap - 1 || s.cap = 0 then s.cap + growBy s.rows.length else s.cap)

theorem record_cases (s : St) (xo x : Pt) (y : Rat) (sd : Option Rat) (rd : Bool) (s' : St) (v : Rat)
    (idx : Option Nat) (h : record s xo x y sd rd = .ok (s', v, idx)) :
    RecCase s xo x y sd rd s' v idx := by
  unfold record at h
  cases rd with
  | false =>
    simp only [Bool.not_false, if_true] at h
    cases hl : lastMatch x s.rows with
    | some i =>
      simp only [hl, Except.ok.injEq, Prod.mk.injEq] at h
      exact .norecHit i rfl hl h.1.symm h.2.1.symm h.2.2.symm
    | none =>
      simp only [hl, Except.ok.injEq, Prod.mk.injEq] at h
      exact .norecMiss rfl hl h.1.symm h.2.1.symm h.2.2.symm
  | true =>
    simp only [Bool.not_true, Bool.false_eq_true, if_false] at h
    cases sd with
    | none =>
      simp only [Except.ok.injEq, Prod.mk.injEq] at h
      refine .fresh _ rfl (Or.inl (Or.inl rfl)) h.1.symm h.2.1.symm h.2.2.symm ?_ rfl
      split <;> omega
    | some sdv =>
      by_cases hhe : s.he = true
      · simp only [if_pos hhe] at h
        cases hf : firstMatch x s.rows with
        | none =>
          simp only [hf, Option.map_none, Except.ok.injEq, Prod.mk.injEq] at h
          refine .fresh _ rfl (Or.inr hf) h.1.symm h.2.1.symm h.2.2.symm ?_ rfl
          split <;> omega
        | some i =>
          simp only [hf, Option.map_some] at h
          split at h
          · exact absurd h (by simp)
          · simp only [Except.ok.injEq, Prod.mk.injEq] at h
            exact .merge i sdv rfl ⟨rfl, hhe⟩ hf h.1.symm h.2.2.symm
      · simp only [if_neg hhe, Except.ok.injEq, Prod.mk.injEq] at h
        refine .fresh _ rfl (Or.inl (Or.inr (by simpa using hhe))) h.1.symm h.2.1.symm h.2.2.symm ?_ rfl
        split <;> omega

/-- Coordinates of a record (original, internal). -/
def coords (r : Row) : Pt × Pt := (r.xo, r.x)

/-- ROWS IN CALL ORDER, COORDINATES NEVER ALTERED: a successful `_record` leaves the coordinate
    columns of all existing records untouched and appends at most one record, at the end, holding
    exactly the point it was called with. -/
theorem record_coords (s : St) (xo x : Pt) (y : Rat) (sd : Option Rat) (rd : Bool) (s' : St) (v : Rat)
    (idx : Option Nat) (h : record s xo x y sd rd = .ok (s', v, idx)) :
    s'.rows.map coords = s.rows.map coords ∨ s'.rows.map coords = s.rows.map coords ++ [(xo, x)] := by
  rcases record_cases s xo x y sd rd s' v idx h with ⟨i, _, _, h2, _, _⟩ | ⟨_, _, h2, _, _⟩ | ⟨i, sdv, _, _, _, h2, _⟩ | ⟨c, _, _, h2, _, _, _⟩
  · left; subst h2; exact modAt_map (fun r => { r with n := r.n + 1 }) coords (fun _ => rfl) s.rows i
  · left; subst h2; rfl
  · left; subst h2; exact modAt_map (fun r => mergeRow r y sdv) coords (fun _ => rfl) s.rows i
  · right; subst h2; simp [coords]

/-- FRAME: an operation at point `x` changes no record whose point is different from `x`. -/
theorem record_frame (s : St) (xo x : Pt) (y : Rat) (sd : Option Rat) (rd : Bool) (s' : St) (v : Rat)
    (idx : Option Nat) (h : record s xo x y sd rd = .ok (s', v, idx))
    (j : Nat) (r : Row) (hj : s.rows[j]? = some r) (hne : (r.x == x) = false) : s'.rows[j]? = some r := by
  rcases record_cases s xo x y sd rd s' v idx h with ⟨i, _, h1, h2, _, _⟩ | ⟨_, _, h2, _, _⟩ | ⟨i, sdv, _, _, h1, h2, _⟩ | ⟨c, _, _, h2, _, _, _⟩
  · subst h2
    obtain ⟨r', hr', hx⟩ := lastMatch_spec x s.rows i h1
    have : j ≠ i := by
      intro e; subst e; rw [hj] at hr'; cases hr'; rw [hx] at hne; cases hne
    simp only [bumpN]; rw [modAt_get_ne _ _ _ _ this]; exact hj
  · subst h2; exact hj
  · subst h2
    obtain ⟨r', hr', hx⟩ := firstMatch_spec x s.rows i h1
    have : j ≠ i := by
      intro e; subst e; rw [hj] at hr'; cases hr'; rw [hx] at hne; cases hne
    simp only; rw [modAt_get_ne _ _ _ _ this]; exact hj
  · subst h2
    have hlt : j < s.rows.length := by
      by_contra hge
      rw [List.getElem?_eq_none (by omega)] at hj; cases hj
    simp only [List.getElem?_append_left hlt]; exact hj

/-- Every record - not only those at other points - keeps its value, SD and count when the
    cache grows or an evaluation is flagged not to be recorded; only `n_evals` of the record of
    that very point may be incremented. -/
theorem norecord_changes_only_counts (s : St) (xo x : Pt) (y : Rat) (sd : Option Rat) (s' : St) (v : Rat)
    (idx : Option Nat) (h : record s xo x y sd false = .ok (s', v, idx)) :
    s'.rows.map (fun r => (r.xo, r.x, r.y, r.yo, r.tau)) = s.rows.map (fun r => (r.xo, r.x, r.y, r.yo, r.tau)) ∧
    s'.cap = s.cap ∧ s'.xMaxIdx = s.xMaxIdx ∧ v = y := by
  rcases record_cases s xo x y sd false s' v idx h with ⟨i, _, _, h2, h3, _⟩ | ⟨_, _, h2, h3, _⟩ | ⟨i, sdv, hrd, _, _, _, _⟩ | ⟨c, hrd, _, _, _, _, _⟩
  · subst h2; exact ⟨modAt_map (fun r => { r with n := r.n + 1 }) _ (fun _ => rfl) s.rows i, rfl, rfl, h3⟩
  · subst h2; exact ⟨rfl, rfl, rfl, h3⟩
  · cases hrd
  · cases hrd

/-- VALUE EXACT: without a noise value, a recorded evaluation appends a record holding exactly the
    point and the value returned there (never merged, whatever the log holds). -/
theorem value_exact (s : St) (xo x : Pt) (y : Rat) (s' : St) (v : Rat) (idx : Option Nat)
    (h : record s xo x y none true = .ok (s', v, idx)) :
    s'.rows = s.rows ++ [{ xo := xo, x := x, y := y, yo := y, tau := none, n := 1 }] ∧ v = y ∧
    idx = some s.rows.length := by
  rcases record_cases s xo x y none true s' v idx h with ⟨i, hrd, _, _, _, _⟩ | ⟨hrd, _, _, _, _⟩ | ⟨i, sdv, _, h0, _, _, _⟩ | ⟨c, _, _, h2, h3, h4, _⟩
  · cases hrd
  · cases hrd
  · cases h0.1
  · subst h2; exact ⟨rfl, h3, h4⟩

/-- VALUE EXACT WITHOUT SPECIFIED NOISE: on a logger whose noise is not user-specified, EVERY recorded observation - a call, or a pre-evaluated
    addition that comes with an SD (explicit, or the default 1 of a logger that keeps noise) - appends a record holding exactly the point and
    the value; nothing is ever merged, whatever the log holds. -/
theorem value_exact_without_specified_noise (s : St) (xo x : Pt) (y : Rat) (sd : Option Rat) (s' : St) (v : Rat) (idx : Option Nat)
    (hhe : s.he = false) (h : record s xo x y sd true = .ok (s', v, idx)) :
    s'.rows = s.rows ++ [{ xo := xo, x := x, y := y, yo := y, tau := sd.map (fun v => 1 / (v * v)), n := 1 }] ∧ v = y ∧
    idx = some s.rows.length := by
  rcases record_cases s xo x y sd true s' v idx h with ⟨i, hrd, _, _, _, _⟩ | ⟨hrd, _, _, _, _⟩ | ⟨i, sdv, _, h0, _, _, _⟩ | ⟨c, _, _, h2, h3, h4, _⟩
  · cases hrd
  · cases hrd
  · rw [hhe] at h0; cases h0.2
  · subst h2; exact ⟨rfl, h3, h4⟩

/-- MERGE = PRECISION-WEIGHTED MEAN, one step: merging `(y, sd)` into a record that summarises the
    observations `obs` yields the record summarising `obs ++ [(y, 1/sd²)]`:
    `Y · Σ 1/sⱼ² = Σ yⱼ/sⱼ²`, `1/S² = Σ 1/sⱼ²`, `n_evals = number of observations`. -/
theorem mergeRow_ok (r : Row) (obs : List Obs) (y sd : Rat) (hsd : sd ≠ 0) (h : RowOK r obs) :
    RowOK (mergeRow r y sd) (obs ++ [(y, 1 / (sd * sd))]) := by
  obtain ⟨h1, h2, h3, h4⟩ := h
  have hpos : (0 : Rat) < 1 / (sd * sd) := by
    have : 0 < sd * sd := by
      rcases lt_or_gt_of_ne hsd with h | h
      · exact mul_pos_of_neg_of_neg h h
      · exact mul_pos h h
    exact one_div_pos.mpr this
  have ht : tsum (obs ++ [(y, 1 / (sd * sd))]) = tsum obs + 1 / (sd * sd) := by
    rw [tsum_append]; simp [tsum]
  have hw : wsum (obs ++ [(y, 1 / (sd * sd))]) = wsum obs + 1 / (sd * sd) * y := by
    rw [wsum_append]; simp [wsum]
  refine ⟨?_, ?_, ?_, ?_⟩
  · simp only [mergeRow, h1, Option.getD_some, ht]
  · simp only [mergeRow, h1, Option.getD_some, ht, hw]
    have hne : tsum obs + 1 / (sd * sd) ≠ 0 := by linarith
    rw [div_mul_cancel₀ _ hne, ← h2]; ring
  · simp [mergeRow, h3]
  · rw [ht]; linarith

/-- A fresh record summarises its single observation. -/
theorem fresh_row_ok (xo x : Pt) (y sd : Rat) (hsd : sd ≠ 0) :
    RowOK { xo := xo, x := x, y := y, yo := y, tau := some (1 / (sd * sd)), n := 1 } [(y, 1 / (sd * sd))] := by
  have : 0 < sd * sd := by
    rcases lt_or_gt_of_ne hsd with h | h
    · exact mul_pos_of_neg_of_neg h h
    · exact mul_pos h h
  refine ⟨by simp [tsum], by simp [tsum, wsum]; ring, rfl, ?_⟩
  simp only [tsum, add_zero]; exact one_div_pos.mpr this

/-- MERGED VALUE WITHIN RANGE (used by C19): the stored value of a record lies between the smallest
    and the largest observation made at that point. -/
theorem merged_value_within_range (r : Row) (obs : List Obs) (a b : Rat) (h : RowOK r obs)
    (hp : ∀ o ∈ obs, 0 < o.2) (hr : ∀ o ∈ obs, a ≤ o.1 ∧ o.1 ≤ b) : a ≤ r.y ∧ r.y ≤ b := by
  obtain ⟨_, h2, _, h4⟩ := h
  have := wsum_bounds obs a b hp hr
  rw [← h2] at this
  constructor
  · exact le_of_mul_le_mul_right this.1 h4
  · exact le_of_mul_le_mul_right this.2 h4

/-- In a merge, the record that changes is the record of that very point (first record whose
    coordinates all match), and it changes by `mergeRow`. -/
theorem merge_hits_own_record (s : St) (xo x : Pt) (y sdv : Rat) (s' : St) (v : Rat) (idx : Option Nat)
    (h : record s xo x y (some sdv) true = .ok (s', v, idx)) (hhe : s.he = true) (i : Nat) (hf : firstMatch x s.rows = some i) :
    ∃ r, s.rows[i]? = some r ∧ (r.x == x) = true ∧ s'.rows[i]? = some (mergeRow r y sdv) ∧
      s'.rows.length = s.rows.length ∧ idx = some i := by
  rcases record_cases s xo x y (some sdv) true s' v idx h with ⟨_, hrd, _, _, _, _⟩ | ⟨hrd, _, _, _, _⟩ | ⟨i', sdv', _, h0, h1, h2, h4⟩ | ⟨c, _, h1, _, _, _, _⟩
  · cases hrd
  · cases hrd
  · obtain ⟨h0a, _⟩ := h0
    cases h0a
    rw [hf] at h1; cases h1
    obtain ⟨r, hr, hx⟩ := firstMatch_spec x s.rows i hf
    subst h2
    exact ⟨r, hr, hx, modAt_get_eq _ _ _ _ hr, modAt_length _ _ _, h4⟩
  · rcases h1 with (h1 | h1) | h1
    · cases h1
    · rw [hhe] at h1; cases h1
    · rw [hf] at h1; cases h1

/-! ### Counts -/

/-- COUNTS: `func_count` goes up by exactly one on every call that returned a valid value and is
    untouched by `add`; a rejected call changes nothing (the error carries no state). -/
theorem call_fc (s : St) (xo x : Pt) (out : Outcome) (rd : Bool) (s' : St) (r : Ret)
    (h : call s xo x out rd = .ok (s', r)) : s'.fc = s.fc + 1 := by
  unfold call at h
  have key : ∀ (y : Rat) (sd : Option Rat),
      (match record s xo x y sd rd with
        | .error e => (Except.error e : Except Err (St × Ret))
        | .ok (s', fval, idx) => .ok ({ s' with fc := s'.fc + 1 }, { fval := fval, fsd := sd, idx := idx })) = .ok (s', r) →
      s'.fc = s.fc + 1 := by
    intro y sd hh
    cases hrec : record s xo x y sd rd with
    | error e => simp [hrec] at hh
    | ok t =>
      obtain ⟨s1, v, idx⟩ := t
      simp only [hrec, Except.ok.injEq, Prod.mk.injEq] at hh
      have hs := hh.1
      have : s1.fc = s.fc := by
        rcases record_cases s xo x y sd rd s1 v idx hrec with ⟨_, _, _, h2, _, _⟩ | ⟨_, _, h2, _, _⟩ | ⟨_, _, _, _, _, h2, _⟩ | ⟨_, _, _, h2, _, _, _⟩ <;> subst h2 <;> rfl
      rw [← hs]; simp [this]
  cases out with
  | raises => simp at h
  | otherTuple => simp at h
  | scalar y? =>
    simp only at h
    split at h
    · simp at h
    · cases y? with
      | none => simp at h
      | some y => exact key y none h
  | pair y? sd? =>
    simp only at h
    split at h
    · cases y? <;> cases sd? <;> first | (simp at h; done) | exact key _ _ h
    · simp at h

/-- The error a rejected call surfaces: the target's own exception if it raised, `ValueError` for
    every invalid value; (shared with C10). -/
theorem call_error_kind (s : St) (xo x : Pt) (rd : Bool) :
    call s xo x .raises rd = .error .targetError ∧
    call s xo x .otherTuple rd = .error .valueError ∧
    call s xo x (.scalar none) rd = .error .valueError ∧
    (∀ sd, call s xo x (.pair none sd) rd = .error .valueError) ∧
    (∀ y, call s xo x (.pair y none) rd = .error .valueError) ∧
    (s.he = true → ∀ y, call s xo x (.scalar y) rd = .error .valueError) ∧
    (s.he = false → ∀ y sd, call s xo x (.pair y sd) rd = .error .valueError) := by
  refine ⟨rfl, rfl, ?_, ?_, ?_, ?_, ?_⟩
  · simp only [call]; split <;> rfl
  · intro sd; simp only [call]; split <;> rfl
  · intro y; simp only [call]; split
    · cases y <;> rfl
    · rfl
  · intro h y; simp [call, h]
  · intro h y sd; simp [call, h]

/-! ### Every reachable state -/

/-- Coordinates of existing records survive ANY operation sequence: the coordinate columns after
    the sequence extend those before it (records are only ever appended, in call order). -/
theorem runOps_coords_prefix : ∀ (ops : List Op) (s : St),
    ∃ ext, (runOps s ops).rows.map coords = s.rows.map coords ++ ext
  | [], s => ⟨[], by simp [runOps]⟩
  | op :: ops, s => by
    unfold runOps
    cases hstep : step s op with
    | error e => simpa using runOps_coords_prefix ops s
    | ok t =>
      obtain ⟨s1, r⟩ := t
      simp only
      obtain ⟨ext, hext⟩ := runOps_coords_prefix ops s1
      have h1 : s1.rows.map coords = s.rows.map coords ∨ ∃ p, s1.rows.map coords = s.rows.map coords ++ [p] := by
        cases op with
        | call xo x out rd =>
          simp only [step, call] at hstep
          have key : ∀ (y : Rat) (sd : Option Rat),
              (match record s xo x y sd rd with
                | .error e => (Except.error e : Except Err (St × Ret))
                | .ok (s', fval, idx) => .ok ({ s' with fc := s'.fc + 1 }, { fval := fval, fsd := sd, idx := idx })) = .ok (s1, r) →
              s1.rows.map coords = s.rows.map coords ∨ ∃ p, s1.rows.map coords = s.rows.map coords ++ [p] := by
            intro y sd hh
            cases hrec : record s xo x y sd rd with
            | error e => simp [hrec] at hh
            | ok t =>
              obtain ⟨s2, v, idx⟩ := t
              simp only [hrec, Except.ok.injEq, Prod.mk.injEq] at hh
              have := record_coords s xo x y sd rd s2 v idx hrec
              rw [← hh.1]
              rcases this with h | h
              · exact Or.inl h
              · exact Or.inr ⟨_, h⟩
          cases out with
          | raises => simp at hstep
          | otherTuple => simp at hstep
          | scalar y? =>
            simp only at hstep
            split at hstep
            · simp at hstep
            · cases y? with
              | none => simp at hstep
              | some y => exact key y none hstep
          | pair y? sd? =>
            simp only at hstep
            split at hstep
            · cases y? <;> cases sd? <;> first | (simp at hstep; done) | exact key _ _ hstep
            · simp at hstep
        | add xo x y sd =>
          simp only [step, add] at hstep
          cases y with
          | none => simp at hstep
          | some yv =>
            simp only at hstep
            split at hstep
            · simp at hstep
            · rename_i sdv _
              cases hrec : record { s with cacheCount := s.cacheCount + 1 } xo x yv (some sdv) true with
              | error e => simp [hrec] at hstep
              | ok t =>
                obtain ⟨s2, v, idx⟩ := t
                simp only [hrec, Except.ok.injEq, Prod.mk.injEq] at hstep
                have := record_coords _ xo x yv (some sdv) true s2 v idx hrec
                rw [← hstep.1]
                rcases this with h | h
                · exact Or.inl h
                · exact Or.inr ⟨_, h⟩
            · cases hrec : record { s with cacheCount := s.cacheCount + 1 } xo x yv none true with
              | error e => simp [hrec] at hstep
              | ok t =>
                obtain ⟨s2, v, idx⟩ := t
                simp only [hrec, Except.ok.injEq, Prod.mk.injEq] at hstep
                have := record_coords _ xo x yv none true s2 v idx hrec
                rw [← hstep.1]
                rcases this with h | h
                · exact Or.inl h
                · exact Or.inr ⟨_, h⟩
      rcases h1 with h1 | ⟨p, h1⟩
      · exact ⟨ext, by rw [hext, h1]⟩
      · exact ⟨p :: ext, by rw [hext, h1]; simp⟩

/-! Non-vacuity: a repeat at a logged point under specified noise, with another record sharing one
    coordinate: the merge lands in the point's own record and leaves the other one alone. -/
example :
    let s0 := init 1 true true
    let s := runOps s0 [.call [0, 1] [0, 1] (.pair (some 2) (some 1)) true,
                        .call [0, 5] [0, 5] (.pair (some 7) (some 2)) true,
                        .call [0, 5] [0, 5] (.pair (some 3) (some 2)) true]
    s.rows.map (fun r => (r.x, r.y, r.tau, r.n)) = [([0, 1], 2, some 1, 1), ([0, 5], 5, some (1/2), 2)] ∧ s.fc = 3 ∧ s.cap = 2 := by
  decide +kernel

end Bads.Log
