/-
  End-to-end theorems about `Opt.optimize`, the model of ONE WHOLE CALL of `BADS.optimize()` (Optimize.lean): initial phase (start
  point, noise test, filtered initial design, first incumbent, noisy reserve), the loop (`Full.run`) and the final re-sampling.

  For EVERY start point inside the box, every Sobol design, every value the target returns, every per-iteration oracle and every
  final re-estimate:

    * `init_inv`            the state in which the loop is entered satisfies the composed invariant `Full.Inv` - so the
                            hypothesis `Inv e s0` of `Full.full_run_spec` is no longer assumed but established from the start point;
    * `optimize_budget`     the COMPLETE sequence of target calls of the run (initial phase + loop + final samples) is no longer than
                            `max_fun_evals`, whenever the initial phase itself fits the budget (the property's proviso), and
                            `func_count` equals its length;
    * `optimize_calls_ok`   every call of the run is made at a point of the hard box that satisfies the non-box constraint;
    * `optimize_terminates` the loop is left with `finished = true` within the ranking bound.
-/
import BadsModel.Optimize
import BadsProofs.Props.C19Run
import BadsProofs.Props.C04

namespace Bads.Opt
open Bads Bads.Full

/-! ### lists -/

theorem insertBy_length {α : Type} (le : α → α → Bool) (a : α) : ∀ l : List α, (insertBy le a l).length = l.length + 1
  | [] => rfl
  | b :: bs => by
    unfold insertBy
    split
    · rfl
    · simp [insertBy_length le a bs]

theorem sortBy_length {α : Type} (le : α → α → Bool) : ∀ l : List α, (sortBy le l).length = l.length
  | [] => rfl
  | a :: as => by simp [sortBy, insertBy_length, sortBy_length le as]

theorem filterCode_length_le (I : FilterIn) : (filterCode I).length ≤ I.U.length := by
  show (consStage I.cons (keyStage (I.tolMesh / 2) (dedupRows (boxStage I.proj I.lo I.hi I.U)) I.logX)).length ≤ I.U.length
  have h1 := (consStage_sub I.cons (keyStage (I.tolMesh / 2) (dedupRows (boxStage I.proj I.lo I.hi I.U)) I.logX)).length_le
  have h2 : (keyStage (I.tolMesh / 2) (dedupRows (boxStage I.proj I.lo I.hi I.U)) I.logX).length ≤ (dedupRows (boxStage I.proj I.lo I.hi I.U)).length := by
    unfold keyStage
    rw [sortBy_length]
    exact (dedupBy_sublist _ _ _).length_le
  have h3 : (dedupRows (boxStage I.proj I.lo I.hi I.U)).length ≤ (boxStage I.proj I.lo I.hi I.U).length := by
    unfold dedupRows
    exact (dedupBy_sublist _ _ _).length_le
  have h4 : (boxStage I.proj I.lo I.hi I.U).length ≤ I.U.length := by
    unfold boxStage
    split
    · simp
    · exact List.length_filter_le _ _
  omega

theorem zip3_length : ∀ (us : List Pt) (vs : List (Rat × Bool)), (zip3 us vs).length ≤ us.length
  | [], _ => by simp [zip3]
  | _ :: _, [] => by simp [zip3]
  | u :: us, v :: vs => by simp only [zip3, List.length_cons]; have := zip3_length us vs; omega

theorem zip3_mem : ∀ (us : List Pt) (vs : List (Rat × Bool)) (d : Pt × Rat × Bool), d ∈ zip3 us vs → d.1 ∈ us
  | [], _, d, h => by simp [zip3] at h
  | _ :: _, [], d, h => by simp [zip3] at h
  | u :: us, v :: vs, d, h => by
    simp only [zip3, List.mem_cons] at h
    rcases h with rfl | h
    · simp
    · exact List.mem_cons_of_mem _ (zip3_mem us vs d h)

/-! ### the log rows after the initial phase -/

theorem updRows_mem : ∀ (rows : List (Pt × Rat)) (u : Pt) (y : Rat) (nr : Bool) (r : Pt × Rat),
    r ∈ updRows rows u y nr → r ∈ rows ∨ r = (u, y)
  | rows, u, y, true, r, h => by
    simp only [updRows, List.mem_append, List.mem_singleton] at h
    exact h
  | [], u, y, false, r, h => by simp [updRows] at h
  | r0 :: rs, u, y, false, r, h => by
    unfold updRows at h
    split at h
    · simp only [List.mem_cons] at h
      rcases h with h | h
      · exact Or.inr h
      · exact Or.inl (List.mem_cons_of_mem _ h)
    · simp only [List.mem_cons] at h
      rcases h with h | h
      · exact Or.inl (by simp [h])
      · rcases updRows_mem rs u y false r h with h' | h'
        · exact Or.inl (List.mem_cons_of_mem _ h')
        · exact Or.inr h'

theorem updRows_ne_nil (rows : List (Pt × Rat)) (u : Pt) (y : Rat) (nr : Bool) (h : rows ≠ []) : updRows rows u y nr ≠ [] := by
  cases nr with
  | true => simp [updRows]
  | false =>
    cases rows with
    | nil => exact absurd rfl h
    | cons r rs => unfold updRows; split <;> simp

theorem updRows_length : ∀ (rows : List (Pt × Rat)) (u : Pt) (y : Rat) (nr : Bool),
    (updRows rows u y nr).length = rows.length + (if nr then 1 else 0)
  | rows, u, y, true => by simp [updRows]
  | [], u, y, false => by simp [updRows]
  | r :: rs, u, y, false => by
    unfold updRows
    split
    · simp
    · have := updRows_length rs u y false
      simp only [List.length_cons, this]
      simp

theorem foldRows_mem : ∀ (es : List (Pt × Rat × Bool)) (rows : List (Pt × Rat)) (r : Pt × Rat),
    r ∈ foldRows rows es → r ∈ rows ∨ ∃ d ∈ es, r = (d.1, d.2.1)
  | [], rows, r, h => Or.inl h
  | d :: es, rows, r, h => by
    unfold foldRows at h
    rcases foldRows_mem es _ r h with h' | ⟨d', hd', he⟩
    · rcases updRows_mem rows d.1 d.2.1 d.2.2 r h' with h'' | h''
      · exact Or.inl h''
      · exact Or.inr ⟨d, List.mem_cons_self, h''⟩
    · exact Or.inr ⟨d', List.mem_cons_of_mem _ hd', he⟩

theorem foldRows_ne_nil : ∀ (es : List (Pt × Rat × Bool)) (rows : List (Pt × Rat)), rows ≠ [] → foldRows rows es ≠ []
  | [], _, h => h
  | d :: es, rows, h => by
    unfold foldRows
    exact foldRows_ne_nil es _ (updRows_ne_nil rows _ _ _ h)

theorem foldRows_length_le : ∀ (es : List (Pt × Rat × Bool)) (rows : List (Pt × Rat)),
    (foldRows rows es).length ≤ rows.length + es.length
  | [], rows => by simp [foldRows]
  | d :: es, rows => by
    unfold foldRows
    have h1 := foldRows_length_le es (updRows rows d.1 d.2.1 d.2.2)
    have h2 := updRows_length rows d.1 d.2.1 d.2.2
    simp only [List.length_cons]
    split at h2 <;> omega

/-! ### the initial phase -/

/-- hypotheses on the start of a run: the start point is the checked, gridised one (`Pipe.construct_ok`), the initial search mesh is a
    positive size on which the box is at least one cell wide, the design has the box's dimension -/
def InitOK (e : Env) (io : InitOrc) : Prop :=
  InBox e.full.pipe.lb e.full.pipe.ub io.u0 ∧ (∀ c, e.full.pipe.cons = some c → c io.u0 = false) ∧
  0 < e.h0 ∧ wideB e.h0 e.full.pipe.lb e.full.pipe.ub = true ∧ ∀ p ∈ io.design, p.length = e.full.pipe.lb.length

/-- the property's proviso: the budget is at least the size of the initial phase (start point, noise test, initial design) -/
def Fits (e : Env) (io : InitOrc) : Prop := (initCalls e io).length ≤ e.full.o.budget

theorem designEvals_mem (e : Env) (io : InitOrc) (d : Pt × Rat × Bool) (h : d ∈ designEvals e io) :
    d.1 ∈ filterCode (Pipe.filterIn e.full.pipe true e.h0 (io.design.take (sobolCount (nDesign e io) e.full.o.D)) [io.u0]) := by
  unfold designEvals at h
  split at h
  · exact zip3_mem _ _ d h
  · cases h

/-- the initial design evaluates at most as many points as `init_sobol` draws -/
theorem designEvals_length_le (e : Env) (io : InitOrc) : (designEvals e io).length ≤ sobolCount (nDesign e io) e.full.o.D := by
  unfold designEvals
  split
  · refine le_trans (zip3_length _ _) (le_trans (filterCode_length_le _) ?_)
    simp [Pipe.filterIn, List.length_take]
  · simp

theorem initCalls_length (e : Env) (io : InitOrc) :
    (initCalls e io).length = 1 + (if e.unc0 < 1 then 1 else 0) + (designEvals e io).length := by
  unfold initCalls
  split <;> simp <;> omega

theorem initPairs_length (e : Env) (io : InitOrc) : (initPairs e io).length = (initCalls e io).length := by
  unfold initPairs initCalls
  split <;> simp

/-- size of the initial phase: start point, at most one noise-test call, at most `sobolCount` design points -/
theorem initCalls_le (e : Env) (io : InitOrc) : (initCalls e io).length ≤ 2 + sobolCount (nDesign e io) e.full.o.D := by
  rw [initCalls_length]
  have := designEvals_length_le e io
  split <;> omega

/-- a declared-noisy (or specified-noise) run has no noise test: its initial phase is the start point plus the design -/
theorem initCalls_le_declared (e : Env) (io : InitOrc) (h : 1 ≤ e.unc0) :
    (initCalls e io).length ≤ 1 + sobolCount (nDesign e io) e.full.o.D := by
  rw [initCalls_length]
  have := designEvals_length_le e io
  have : ¬ e.unc0 < 1 := by omega
  simp only [this, if_false]
  omega

/-- `init_sobol` draws fewer than four times the requested number of points -/
theorem sobolCount_le (n D : Nat) (hn : 1 ≤ n) : sobolCount n D ≤ 4 * n := by
  have h2 : 2 ^ clog2 n ≤ 2 * n := by
    unfold clog2
    split
    · simp; omega
    · rename_i h1
      have hm : n - 1 ≠ 0 := by omega
      have := Nat.log2_self_le hm
      rw [Nat.pow_succ]
      omega
  unfold sobolCount
  split
  · rw [Nat.pow_succ]; omega
  · omega

/-- a sufficient size of the budget for the property's proviso: four times the (adjusted) `fun_eval_start` plus the start point and
    the noise test -/
theorem fits_of_room (e : Env) (io : InitOrc) (h : 2 + 4 * nDesign e io ≤ e.full.o.budget) : Fits e io := by
  unfold Fits
  have h1 := initCalls_length e io
  have h2 := designEvals_length_le e io
  by_cases hn : nDesign e io = 0
  · have : designEvals e io = [] := by unfold designEvals; simp [hn]
    rw [h1, this]
    split <;> simp <;> omega
  · have h3 := sobolCount_le (nDesign e io) e.full.o.D (by omega)
    rw [h1]
    split <;> omega

theorem design_point_ok (e : Env) (hb : boxOK e.full.pipe.lb e.full.pipe.ub = true) (io : InitOrc) (hi : InitOK e io)
    (d : Pt × Rat × Bool) (hd : d ∈ designEvals e io) :
    InBox e.full.pipe.lb e.full.pipe.ub d.1 ∧ (∀ c, e.full.pipe.cons = some c → c d.1 = false) := by
  obtain ⟨_, _, hh, hw, hdim⟩ := hi
  have hmem := designEvals_mem e io d hd
  refine ⟨?_, fun cf hcf => Pipe.filtered_feasible e.full.pipe cf hcf true e.h0 _ _ d.1 hmem⟩
  have hbox := searchBox_ok e.h0 hh e.full.pipe.lb e.full.pipe.ub hb hw
  have hin := filter_in_box (Pipe.filterIn e.full.pipe true e.h0 (io.design.take (sobolCount (nDesign e io) e.full.o.D)) [io.u0])
    (by intro _; exact ⟨by simpa [Pipe.filterIn] using hbox, by
          intro p hp
          have hp' : p ∈ io.design := List.mem_of_mem_take (by simpa [Pipe.filterIn] using hp)
          simpa [Pipe.filterIn, searchLo_length] using hdim p hp'⟩) d.1 hmem
  have hin' : inBoxB (searchLo e.h0 e.full.pipe.lb) (searchHi e.h0 e.full.pipe.ub) d.1 = true := by simpa [Pipe.filterIn, InBox] using hin
  exact inBox_search_sub e.h0 hh e.full.pipe.lb e.full.pipe.ub d.1 hin'

/-- every call of the initial phase is made inside the hard box at a feasible point -/
theorem initPairs_ok (e : Env) (hb : boxOK e.full.pipe.lb e.full.pipe.ub = true) (io : InitOrc) (hi : InitOK e io) :
    ∀ p ∈ initPairs e io, InBox e.full.pipe.lb e.full.pipe.ub p.1 ∧ (∀ c, e.full.pipe.cons = some c → c p.1 = false) := by
  intro p hp
  unfold initPairs at hp
  simp only [List.mem_append, List.mem_singleton, List.mem_map] at hp
  rcases hp with (hp | hp) | ⟨d, hd, rfl⟩
  · subst hp; exact ⟨hi.1, hi.2.1⟩
  · split at hp
    · simp only [List.mem_singleton] at hp; subst hp; exact ⟨hi.1, hi.2.1⟩
    · cases hp
  · exact design_point_ok e hb io hi d hd

theorem initRows_mem (e : Env) (io : InitOrc) (r : Pt × Rat) (h : r ∈ initRows e io) : r ∈ initPairs e io := by
  unfold initRows at h
  unfold initPairs
  rcases foldRows_mem _ _ r h with h' | ⟨d, hd, he⟩
  · simp only [List.mem_singleton] at h'
    subst h'
    simp
  · simp only [List.mem_append, List.mem_map]
    exact Or.inr ⟨d, hd, he.symm⟩

theorem initRows_ne_nil (e : Env) (io : InitOrc) : initRows e io ≠ [] :=
  foldRows_ne_nil _ _ (by simp)

/-- the first incumbent is a row of the log: a point that was evaluated, with the value the logger holds for it, and no row is lower -/
theorem init_incumbent (e : Env) (io : InitOrc) :
    ((init e io).ns.u, (init e io).ns.yval) ∈ initRows e io ∧ (∀ r ∈ initRows e io, (init e io).ns.yval ≤ r.2) ∧
    (init e io).ns.fval = (init e io).ns.yval := by
  cases ha : Inc.argminFirst (initRows e io) with
  | none =>
    exfalso
    cases hr : initRows e io with
    | nil => exact initRows_ne_nil e io hr
    | cons r rs =>
      rw [hr] at ha
      unfold Inc.argminFirst at ha
      cases h2 : Inc.argminFirst rs with
      | none => simp [h2] at ha
      | some m => simp only [h2] at ha; split at ha <;> cases ha
  | some m =>
    obtain ⟨hm, hmin⟩ := Inc.argminFirst_spec _ m ha
    have hu : (init e io).ns.u = m.1 := by simp [init, ha]
    have hy : (init e io).ns.yval = m.2 := by simp [init, ha]
    have hf : (init e io).ns.fval = m.2 := by simp [init, ha]
    refine ⟨by rw [hu, hy]; exact hm, fun r hr => by rw [hy]; exact hmin r hr, by rw [hf, hy]⟩

theorem init_calls_eq (e : Env) (io : InitOrc) : (init e io).calls = initCalls e io := rfl
theorem init_pairs_eq (e : Env) (io : InitOrc) : (init e io).pairs = initPairs e io := rfl
theorem init_rows_eq (e : Env) (io : InitOrc) : (init e io).rows = initRows e io := rfl

theorem init_nfsEff_le (e : Env) (io : InitOrc) : (init e io).nfsEff ≤ e.full.o.budget - (initCalls e io).length := by
  simp only [init]
  split
  · exact Nat.min_le_right _ _
  · omega

theorem init_budget (e : Env) (io : InitOrc) : (init e io).o.budget = e.full.o.budget - (init e io).nfsEff := rfl
theorem init_nTry (e : Env) (io : InitOrc) : (init e io).o.nTry = e.full.o.nTry := rfl

/-- THE LOOP IS ENTERED IN A STATE THAT SATISFIES THE COMPOSED INVARIANT -/
theorem init_inv (e : Env) (hb : boxOK e.full.pipe.lb e.full.pipe.ub = true) (io : InitOrc) (hi : InitOK e io) (hf : Fits e io) :
    Full.Inv (loopEnv e (init e io)) (loopStart e (init e io)) := by
  have hinc := init_incumbent e io
  have hok := initPairs_ok e hb io hi
  refine ⟨⟨rfl, ?_, ?_⟩, ?_, ?_, ?_, ?_, ?_⟩
  · exact initRows_mem e io _ hinc.1
  · intro r hr; cases hr
  · intro p hp; exact (hok p hp).1
  · intro c hc p hp; exact (hok p hp).2 c hc
  · exact Ctl.init_inv _ _ _ _
  · refine Ctl.init_binv _ _ _ _ ?_
    have h1 := init_nfsEff_le e io
    unfold Fits at hf
    show (init e io).calls.length ≤ (init e io).o.budget
    rw [init_budget, init_calls_eq]
    omega
  · intro _; rfl

/-! ### the whole run -/

theorem run_pairs_append (e : Full.Env) : ∀ (qs : List Full.Orc) (s : Full.St), ∃ l, (Full.run e qs s).pairs = s.pairs ++ l
  | [], s => ⟨[], by simp [Full.run]⟩
  | q :: qs, s => by
    unfold Full.run
    split
    · exact ⟨[], by simp⟩
    · obtain ⟨l, hl⟩ := run_pairs_append e qs (Full.step e s q)
      exact ⟨Full.newPairs e s q ++ l, by rw [hl, Full.step_pairs, List.append_assoc]⟩

def RunOK (e : Env) (io : InitOrc) (qs : List Full.Orc) : Prop := ∀ q ∈ qs, Full.OrcOK (loopEnv e (init e io)) q

theorem finalNs_pinv (i : Init) (s : Full.St) (fo : FinalOrc) (h : Noisy.PInv s.ns s.pairs) : Noisy.PInv (finalNs i s fo) s.pairs := by
  unfold finalNs
  split
  · exact (Noisy.finalChoice_pinv s.ns s.pairs fo.reVals fo.qs h).1
  · exact h

/-- C03, END TO END: the complete sequence of target calls of a run - initial phase, loop, final re-sampling - is no longer than
    `max_fun_evals` whenever the initial phase fits the budget, and the reported `func_count` is its length. -/
theorem optimize_budget (e : Env) (hb : boxOK e.full.pipe.lb e.full.pipe.ub = true) (hn : 1 ≤ e.full.o.nTry)
    (io : InitOrc) (hi : InitOK e io) (hf : Fits e io) (qs : List Full.Orc) (hq : RunOK e io qs) (fo : FinalOrc) :
    (optimize e io qs fo).calls.length ≤ e.full.o.budget ∧ (optimize e io qs fo).funcCount = (optimize e io qs fo).calls.length := by
  have hinv := init_inv e hb io hi hf
  have hspec := Full.full_run_spec (loopEnv e (init e io)) hb hn qs hq (loopStart e (init e io)) hinv
  have hfc := Full.run_fc (loopEnv e (init e io)) qs (loopStart e (init e io))
  obtain ⟨l, hl⟩ := run_pairs_append (loopEnv e (init e io)) qs (loopStart e (init e io))
  have hle := hspec.2.2.2.2
  have hk := init_nfsEff_le e io
  have hpl : (loopStart e (init e io)).pairs.length = (initCalls e io).length := by
    show (init e io).pairs.length = _
    rw [init_pairs_eq, initPairs_length]
  have hfc0 : (loopStart e (init e io)).ctl.c.fc = (initCalls e io).length := rfl
  have hbud : (loopEnv e (init e io)).o.budget = e.full.o.budget - (init e io).nfsEff := rfl
  have hlen : (optimize e io qs fo).calls.length
      = (initCalls e io).length + ((Full.run (loopEnv e (init e io)) qs (loopStart e (init e io))).pairs.length - (initCalls e io).length)
        + (init e io).nfsEff := by
    simp only [optimize, finish, List.length_append, List.length_map, List.length_drop, List.length_replicate, init_calls_eq, init_pairs_eq,
      initPairs_length]
  have hfcount : (optimize e io qs fo).funcCount = (Full.run (loopEnv e (init e io)) qs (loopStart e (init e io))).ctl.c.fc + (init e io).nfsEff := rfl
  have hpl2 : (Full.run (loopEnv e (init e io)) qs (loopStart e (init e io))).pairs.length = (initCalls e io).length + l.length := by
    rw [hl, List.length_append, hpl]
  unfold Fits at hf
  rw [hlen, hfcount]
  constructor <;> omega

/-- C01 / C02, END TO END: every target call of a run - initial phase, loop and final re-sampling - is made at a point of the hard box
    that satisfies the non-box constraint. -/
theorem optimize_calls_ok (e : Env) (hb : boxOK e.full.pipe.lb e.full.pipe.ub = true) (hn : 1 ≤ e.full.o.nTry)
    (io : InitOrc) (hi : InitOK e io) (hf : Fits e io) (qs : List Full.Orc) (hq : RunOK e io qs) (fo : FinalOrc) :
    ∀ c ∈ (optimize e io qs fo).calls, InBox e.full.pipe.lb e.full.pipe.ub c.1 ∧ (∀ cf, e.full.pipe.cons = some cf → cf c.1 = false) := by
  have hinv := init_inv e hb io hi hf
  have hspec := Full.full_run_spec (loopEnv e (init e io)) hb hn qs hq (loopStart e (init e io)) hinv
  have hrinv := Full.run_inv (loopEnv e (init e io)) hb hn qs (loopStart e (init e io)) hq hinv
  have hbox := hspec.2.2.1
  have hcons := hspec.2.2.2.1
  intro c hc
  simp only [optimize, finish, List.mem_append, List.mem_map, List.mem_replicate] at hc
  rcases hc with (hc | ⟨p, hp, rfl⟩) | ⟨_, rfl⟩
  · -- a call of the initial phase
    have hmem : ∃ y, (c.1, y) ∈ initPairs e io := by
      rw [init_calls_eq] at hc
      unfold initCalls at hc
      unfold initPairs
      simp only [List.mem_append, List.mem_singleton, List.mem_map] at hc ⊢
      rcases hc with (hc | hc) | ⟨d, hd, rfl⟩
      · exact ⟨io.y0, Or.inl (Or.inl (by rw [hc]))⟩
      · split at hc
        · simp only [List.mem_singleton] at hc
          exact ⟨io.y0bis, Or.inl (Or.inr (by simp [*]))⟩
        · cases hc
      · exact ⟨d.2.1, Or.inr ⟨d, hd, rfl⟩⟩
    obtain ⟨y, hy⟩ := hmem
    exact initPairs_ok e hb io hi (c.1, y) hy
  · have hp' := List.mem_of_mem_drop hp
    exact ⟨hbox p hp', fun cf hcf => hcons cf hcf p hp'⟩
  · -- the final samples are taken at the returned iterate, which was evaluated before
    have hp := finalNs_pinv (init e io) _ fo hrinv.1
    have hmem := hp.2.1
    exact ⟨hbox _ hmem, fun cf hcf => hcons cf hcf _ hmem⟩

/-- the loop of a whole run is left with `finished = true` once the oracle stream is longer than the ranking bound -/
theorem optimize_terminates (e : Env) (hn : 1 ≤ e.full.o.nTry) (io : InitOrc) (qs : List Full.Orc) (fo : FinalOrc)
    (hlen : (e.full.o.nTry + 1) * (e.full.o.maxIter + e.full.o.budget) < qs.length) :
    (optimize e io qs fo).loop.ctl.c.finished = true := by
  show (Full.run (loopEnv e (init e io)) qs (loopStart e (init e io))).ctl.c.finished = true
  refine Full.full_terminates (loopEnv e (init e io)) hn qs _ (Ctl.init_inv _ _ _ _) ?_
  have h1 := Ctl.rank_init_le (init e io).o (init e io).calls.length (init e io).rows.length e.msi0
  have h2 : (init e io).o.budget ≤ e.full.o.budget := by rw [init_budget]; omega
  have h3 : (init e io).o.maxIter = e.full.o.maxIter := rfl
  have h4 : (init e io).o.nTry = e.full.o.nTry := rfl
  have h5 : ((init e io).o.nTry + 1) * ((init e io).o.maxIter + (init e io).o.budget) ≤ (e.full.o.nTry + 1) * (e.full.o.maxIter + e.full.o.budget) := by
    rw [h3, h4]; exact Nat.mul_le_mul_left _ (by omega)
  show Ctl.rank (init e io).o (Ctl.init (init e io).o (init e io).calls.length (init e io).rows.length e.msi0).c < qs.length
  omega

end Bads.Opt
