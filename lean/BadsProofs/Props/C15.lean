/-
  C15 - The GP surrogate is always conditioned on real, nearby observations.

  For every log state (repeated points included), every vector of distances, all size options.
-/
import BadsProofs.Lemmas.SortLemmas

namespace Bads.GP

/-- the sorted (row, distance) pairs behind `neighbors` -/
def ranked (log : List Obs) (dist : List Rat) : List (Obs × Rat) :=
  sortBy (fun a b => decide (a.2 ≤ b.2)) (log.zip dist)

theorem ranked_eq (log : List Obs) (dist : List Rat) :
    ranked log dist = sortBy (keyLe (fun p : Obs × Rat => p.2)) (log.zip dist) := rfl

/-- EVERY TRAINING TRIPLE IS A LOG ROW: same input, same value, and the supplied noise enters as a
    variance - the logged SD squared. -/
theorem neighbors_sub_log (log : List Obs) (dist : List Rat) (r2 : Rat) (nMin nMax buffer : Int) :
    ∀ t ∈ neighbors log dist r2 nMin nMax buffer,
      ∃ o ∈ log, t.x = o.x ∧ t.y = o.y ∧ t.s2 = o.s.map (fun v => v * v) := by
  intro t ht
  simp only [neighbors, List.mem_map] at ht
  obtain ⟨p, hp, rfl⟩ := ht
  have h1 := List.mem_of_mem_take hp
  have h2 := (sortBy_perm _ _).mem_iff.mp h1
  exact ⟨p.1, (List.of_mem_zip h2).1, rfl, rfl, rfl⟩

/-- ORDERED BY DISTANCE -/
theorem ranked_sorted (log : List Obs) (dist : List Rat) :
    (ranked log dist).Pairwise (fun a b => a.2 ≤ b.2) := by
  rw [ranked_eq]; exact sortBy_sorted _ _

/-- NEAREST: no logged row left out of the training set is strictly closer to the reference point
    than a row that is in it. -/
theorem neighbors_nearest (log : List Obs) (dist : List Rat) (n : Nat) :
    ∀ a ∈ (ranked log dist).take n, ∀ b ∈ (ranked log dist).drop n, a.2 ≤ b.2 :=
  take_le_drop (fun p : Obs × Rat => p.2) _ (ranked_sorted log dist) n

/-- the ranked pairs are exactly the logged rows with their distances (nothing invented, nothing lost) -/
theorem ranked_perm (log : List Obs) (dist : List Rat) : (ranked log dist).Perm (log.zip dist) := sortBy_perm _ _

/-- SIZE: between the configured minimum and maximum, capped by the number of logged points. -/
theorem ntrain_bounds (nMin nMax buffer : Int) (within N : Nat) (h0 : 0 ≤ nMin) (h1 : nMin ≤ nMax) (hb : 0 ≤ buffer) :
    min nMin.toNat N ≤ ntrain nMin nMax buffer within N ∧ ntrain nMin nMax buffer within N ≤ min nMax.toNat N := by
  unfold ntrain
  simp only
  constructor <;> omega

theorem neighbors_length (log : List Obs) (dist : List Rat) (r2 : Rat) (nMin nMax buffer : Int) (hlen : dist.length = log.length) :
    (neighbors log dist r2 nMin nMax buffer).length =
      min (ntrain nMin nMax buffer (dist.filter (fun d => d ≤ r2)).length log.length) log.length := by
  simp only [neighbors, List.length_map, List.length_take]
  rw [(sortBy_perm _ _).length_eq, List.length_zip, hlen, Nat.min_self]

/-- INITIAL FIT: the whole log, SD squared. -/
theorem fevals_variance (log : List Obs) : ∀ t ∈ fevals log, ∃ o ∈ log, t = toTrain o := by
  intro t ht
  simp only [fevals, List.mem_map] at ht
  obtain ⟨o, ho, rfl⟩ := ht
  exact ⟨o, ho, rfl⟩

/-- POSTERIOR UPDATE: the appended training triple is the evaluated point with its value and the
    reported SD squared; the rest of the training set is untouched. -/
theorem addPoint_is_last (gp : List Train) (x : Pt) (y : Rat) (sd : Option Rat) :
    addPoint gp x y sd = gp ++ [toTrain { x := x, y := y, s := sd }] := rfl

/-- ACQUISITION: GP mean minus sqrt(beta_t) times GP SD; larger uncertainty never ranks worse. -/
theorem lcb_def (mu s b : Rat) : lcb mu s b = mu - b * s := rfl

theorem lcb_antitone_in_sd (mu s s' b : Rat) (hb : 0 ≤ b) (hs : s ≤ s') : lcb mu s' b ≤ lcb mu s b := by
  unfold lcb
  have := mul_le_mul_of_nonneg_left hs hb
  linarith

theorem lcb_monotone_in_mean (mu mu' s b : Rat) (h : mu ≤ mu') : lcb mu s b ≤ lcb mu' s b := by
  unfold lcb; linarith

/-! Non-vacuity: four logged rows (one repeated point), two within the radius, minimum size 3. -/
example :
    neighbors [⟨[0], 5, some 2⟩, ⟨[1], 6, some 1⟩, ⟨[1], 7, some 3⟩, ⟨[9], 1, some 1⟩] [4, 1, 1, 81] 2 3 10 100 =
      [⟨[1], 6, some 1⟩, ⟨[1], 7, some 9⟩, ⟨[0], 5, some 4⟩] := by
  decide +kernel

end Bads.GP
