/-
  C15 over WHOLE RUNS - the surrogate's training set as a state machine (GPSet.lean `Ev`/`Sur`, Surrogate.lean `JEv`/`JSt`), for every
  sequence of events:

    * `srun_train`               the training set is what the LAST (re)selection picked, followed by the observations appended since;
    * `select_keeps_selected_set`a local refit leaves the surrogate conditioned on exactly the selected neighbourhood whatever the fit attempts
                                 do (the retries of `_robust_gp_fit_` drop rows from a copy only);
    * `srun_real`                every training triple is a log record handed to some (re)selection or an appended observation;
    * `srun_attempts_agree`      every fit attempt of the run was given arrays of agreeing sizes;
    * `train_at_evaluated_points`(joint with the logger, every noise mode, merges included) every training point is the point of a log record;
    * `train_sub_log_partial`    (joint) as long as no observation is merged into an existing record, every training triple IS a log record:
                                 same point, same value, logged SD squared;
    * `merged_add_counterexample`the full statement fails after a merge (known finding C15-merged-add): the appended triple is no log record;
    * `reselect_restores`        ... but only until the next (re)selection, after which every training triple is a log record again.
-/
import BadsModel.Surrogate
import Mathlib.Data.List.Induction
import BadsProofs.Props.C15
import BadsProofs.Props.C16
import BadsProofs.Props.C12

namespace Bads.GP

theorem srun_snoc (evs : List Ev) (e : Ev) : srun (evs ++ [e]) = sstep (srun evs) e := by
  simp [srun, List.foldl_append]

/-- specification of the training set, read off the event list backwards: appended observations down to the last (re)selection -/
def trainSpec : List Ev → List Train
  | [] => []
  | .add x y sd :: before => trainSpec before ++ [toTrain { x := x, y := y, s := sd }]
  | .initial log _ :: _ => fevals log
  | .select log dist r2 nMin nMax buffer _ _ _ _ :: _ => neighbors log dist r2 nMin nMax buffer

theorem sstep_train_initial (s : Sur) (log : List Obs) (fails : List Bool) : (sstep s (.initial log fails)).train = fevals log := by
  simp only [sstep]

/-- A LOCAL REFIT KEEPS THE SELECTED SET WHOLE, for every schedule of failing attempts and every choice of dropped rows. -/
theorem select_keeps_selected_set (s : Sur) (log : List Obs) (dist : List Rat) (r2 : Rat) (nMin nMax buffer : Int) (nTry ra : Nat)
    (fails : List Bool) (drops : List Nat) :
    (sstep s (.select log dist r2 nMin nMax buffer nTry ra fails drops)).train = neighbors log dist r2 nMin nMax buffer := by
  simp only [sstep]

theorem srun_train (evs : List Ev) : (srun evs).train = trainSpec evs.reverse := by
  induction evs using List.reverseRecOn with
  | nil => rfl
  | append_singleton evs e ih =>
    rw [srun_snoc, List.reverse_append, List.reverse_singleton, List.singleton_append]
    cases e with
    | initial log fails => rw [sstep_train_initial]; rfl
    | select log dist r2 a b c n ra f d => rw [select_keeps_selected_set]; rfl
    | add x y sd => simp only [sstep, trainSpec, ih, addPoint_is_last]

/-- the log snapshots and the appended observations of an event list -/
def logsOf : List Ev → List (List Obs)
  | [] => []
  | .initial log _ :: es => log :: logsOf es
  | .select log _ _ _ _ _ _ _ _ _ :: es => log :: logsOf es
  | .add _ _ _ :: es => logsOf es

def addsOf : List Ev → List Obs
  | [] => []
  | .add x y sd :: es => { x := x, y := y, s := sd } :: addsOf es
  | _ :: es => addsOf es

theorem trainSpec_real : ∀ (rev : List Ev) (t : Train), t ∈ trainSpec rev →
    (∃ log ∈ logsOf rev, ∃ o ∈ log, t = toTrain o) ∨ (∃ o ∈ addsOf rev, t = toTrain o)
  | [], t, h => by simp [trainSpec] at h
  | .add x y sd :: before, t, h => by
    simp only [trainSpec, List.mem_append, List.mem_singleton] at h
    rcases h with h | h
    · rcases trainSpec_real before t h with ⟨log, hl, o, ho, e⟩ | ⟨o, ho, e⟩
      · exact Or.inl ⟨log, by simpa [logsOf] using hl, o, ho, e⟩
      · exact Or.inr ⟨o, by simp [addsOf, ho], e⟩
    · exact Or.inr ⟨_, by simp [addsOf], h⟩
  | .initial log f :: before, t, h => by
    obtain ⟨o, ho, e⟩ := fevals_variance log t h
    exact Or.inl ⟨log, by simp [logsOf], o, ho, e⟩
  | .select log dist r2 a b c n ra f d :: before, t, h => by
    obtain ⟨o, ho, hx, hy, hs⟩ := neighbors_sub_log log dist r2 a b c t h
    refine Or.inl ⟨log, by simp [logsOf], o, ho, ?_⟩
    cases t; simp only [toTrain, Train.mk.injEq]; exact ⟨hx, hy, hs⟩

theorem logsOf_reverse_mem (evs : List Ev) (l : List Obs) : l ∈ logsOf evs.reverse ↔ l ∈ logsOf evs := by
  have key : ∀ (a b : List Ev), logsOf (a ++ b) = logsOf a ++ logsOf b := by
    intro a b
    induction a with
    | nil => rfl
    | cons e es ih => cases e <;> simp [logsOf, ih]
  induction evs with
  | nil => simp
  | cons e es ih =>
    rw [List.reverse_cons, key, List.mem_append]
    cases e <;> simp [logsOf, ih, or_comm]

theorem addsOf_reverse_mem (evs : List Ev) (o : Obs) : o ∈ addsOf evs.reverse ↔ o ∈ addsOf evs := by
  have key : ∀ (a b : List Ev), addsOf (a ++ b) = addsOf a ++ addsOf b := by
    intro a b
    induction a with
    | nil => rfl
    | cons e es ih => cases e <;> simp [addsOf, ih]
  induction evs with
  | nil => simp
  | cons e es ih =>
    rw [List.reverse_cons, key, List.mem_append]
    cases e <;> simp [addsOf, ih, or_comm]

/-- REAL OBSERVATIONS ONLY, for every run: each training triple is a record of a log the selection was given (same point, same value,
    logged SD squared) or an observation appended after an evaluation (its SD squared). -/
theorem srun_real (evs : List Ev) : ∀ t ∈ (srun evs).train,
    (∃ log ∈ logsOf evs, ∃ o ∈ log, t = toTrain o) ∨ (∃ o ∈ addsOf evs, t = toTrain o) := by
  intro t ht
  rw [srun_train] at ht
  rcases trainSpec_real _ t ht with ⟨log, hl, o, ho, e⟩ | ⟨o, ho, e⟩
  · exact Or.inl ⟨log, (logsOf_reverse_mem evs log).mp hl, o, ho, e⟩
  · exact Or.inr ⟨o, (addsOf_reverse_mem evs o).mp ho, e⟩

theorem shapesOf_agree (t : List Train) : (shapesOf t).agree = true := by
  unfold shapesOf Shapes.agree
  split <;> simp_all

theorem initFit_shapes (sh : Shapes) : ∀ (fails : List Bool), ∀ a ∈ (initFit sh fails).1, a = sh
  | [], a, h => by simp [initFit] at h
  | f :: fs, a, h => by
    unfold initFit at h
    split at h
    · simpa using h
    · simp only [List.mem_cons] at h
      rcases h with h | h
      · exact h
      · exact initFit_shapes sh fs a h

/-- EVERY FIT ATTEMPT OF THE RUN (initial training, local refits, every retry) is given arrays of agreeing sizes. -/
theorem srun_attempts_agree (evs : List Ev) : ∀ a ∈ (srun evs).attempts, a.agree = true := by
  induction evs using List.reverseRecOn with
  | nil => intro a h; simp [srun, Sur.init] at h
  | append_singleton evs e ih =>
    rw [srun_snoc]
    intro a ha
    cases e with
    | add x y sd => exact ih a (by simpa [sstep] using ha)
    | initial log fails =>
      simp only [sstep, List.mem_append] at ha
      rcases ha with ha | ha
      · exact ih a ha
      · rw [initFit_shapes _ fails a ha]; exact shapesOf_agree _
    | select log dist r2 nMin nMax buffer nTry ra fails drops =>
      simp only [sstep, List.mem_append] at ha
      rcases ha with ha | ha
      · exact ih a ha
      · exact robustFit_shapes_agree nTry ra fails _ drops 0 (shapesOf_agree _) a ha

end Bads.GP

namespace Bads.SurRun
open Bads Bads.Log

/-- every training point is the point of a log record -/
def AtLogged (s : JSt) : Prop := ∀ t ∈ s.train, ∃ r ∈ s.log.rows, r.x = t.x

/-- every training triple is a log record: same point, same value, logged SD squared -/
def SubLog (s : JSt) : Prop := ∀ t ∈ s.train, t ∈ s.log.rows.map recOf

/-- what a successful logger call is made of -/
theorem call_ok (s : St) (xo x : Pt) (out : Outcome) (rd : Bool) (s' : St) (r : Ret) (h : call s xo x out rd = .ok (s', r)) :
    ∃ y sd s1 v idx, record s xo x y sd rd = .ok (s1, v, idx) ∧ s' = { s1 with fc := s1.fc + 1 } ∧ r = { fval := v, fsd := sd, idx := idx } := by
  unfold call at h
  have key : ∀ (y : Rat) (sd : Option Rat),
      (match record s xo x y sd rd with
        | .error e => (Except.error e : Except Err (St × Ret))
        | .ok (s', fval, idx) => .ok ({ s' with fc := s'.fc + 1 }, { fval := fval, fsd := sd, idx := idx })) = .ok (s', r) →
      ∃ y sd s1 v idx, record s xo x y sd rd = .ok (s1, v, idx) ∧ s' = { s1 with fc := s1.fc + 1 } ∧ r = { fval := v, fsd := sd, idx := idx } := by
    intro y sd hh
    cases hrec : record s xo x y sd rd with
    | error e => simp [hrec] at hh
    | ok t =>
      obtain ⟨s1, v, idx⟩ := t
      simp only [hrec, Except.ok.injEq, Prod.mk.injEq] at hh
      exact ⟨y, sd, s1, v, idx, hrec, hh.1.symm, hh.2.symm⟩
  cases out with
  | raises => simp at h
  | otherTuple => simp at h
  | scalar y? =>
    simp only at h
    split at h
    · simp at h
    · cases y? with
      | none => simp at h
      | some y => exact key y none h
  | pair y? sd? =>
    simp only at h
    split at h
    · cases y? <;> cases sd? <;> first | (simp at h; done) | exact key _ _ h
    · simp at h

theorem rows_keep_points (s : St) (xo x : Pt) (y : Rat) (sd : Option Rat) (rd : Bool) (s' : St) (v : Rat) (idx : Option Nat)
    (h : record s xo x y sd rd = .ok (s', v, idx)) : ∀ r ∈ s.rows, ∃ r' ∈ s'.rows, r'.x = r.x := by
  intro r hr
  have hm : coords r ∈ s'.rows.map coords := by
    rcases record_coords s xo x y sd rd s' v idx h with e | e <;> rw [e]
    · exact List.mem_map_of_mem hr
    · exact List.mem_append_left _ (List.mem_map_of_mem hr)
  obtain ⟨r', hr', e⟩ := List.mem_map.mp hm
  exact ⟨r', hr', by simpa [coords] using congrArg Prod.snd e⟩

theorem mem_of_getElem? {α : Type} {l : List α} {i : Nat} {a : α} (h : l[i]? = some a) : a ∈ l := by
  obtain ⟨hi, e⟩ := List.getElem?_eq_some_iff.mp h
  exact e ▸ List.getElem_mem hi

/-- after a recorded call the log holds a record at the point of the call -/
theorem recorded_point_logged (s : St) (xo x : Pt) (y : Rat) (sd : Option Rat) (s' : St) (v : Rat) (idx : Option Nat)
    (h : record s xo x y sd true = .ok (s', v, idx)) : ∃ r ∈ s'.rows, r.x = x := by
  rcases record_cases s xo x y sd true s' v idx h with ⟨_, hrd, _⟩ | ⟨hrd, _⟩ | ⟨i, sdv, _, _, h1, _, _⟩ | ⟨c, _, _, h2, _, _, _⟩
  · cases hrd
  · cases hrd
  · obtain ⟨r, hr, hx⟩ := firstMatch_spec x s.rows i h1
    obtain ⟨r', hr', e⟩ := rows_keep_points s xo x y sd true s' v idx h r (mem_of_getElem? hr)
    exact ⟨r', hr', by rw [e]; simpa using hx⟩
  · subst h2
    exact ⟨_, List.mem_append_right _ (List.mem_singleton.mpr rfl), rfl⟩

theorem neighborsOf_sub (recs : List GP.Train) (dist : List Rat) (r2 : Rat) (a b c : Int) :
    ∀ t ∈ neighborsOf recs dist r2 a b c, t ∈ recs := by
  intro t ht
  simp only [neighborsOf, List.mem_map] at ht
  obtain ⟨p, hp, rfl⟩ := ht
  exact (List.of_mem_zip ((GP.sortBy_perm _ _).mem_iff.mp (List.mem_of_mem_take hp))).1

/-- EVERY TRAINING POINT IS AN EVALUATED POINT - one step, every noise mode, merges included -/
theorem jstep_atLogged (s s' : JSt) (e : JEv) (h : jstep s e = .ok s') (hi : AtLogged s) : AtLogged s' := by
  cases e with
  | evalOnly xo x out rd =>
    simp only [jstep] at h
    cases hc : call s.log xo x out rd with
    | error err => simp [hc] at h
    | ok p =>
      obtain ⟨l', r⟩ := p
      simp only [hc, Except.ok.injEq] at h
      subst h
      obtain ⟨y, sd, s1, v, idx, hrec, hs, _⟩ := call_ok _ _ _ _ _ _ _ hc
      intro t ht
      obtain ⟨r0, hr0, e0⟩ := hi t ht
      obtain ⟨r', hr', e'⟩ := rows_keep_points _ _ _ _ _ _ _ _ _ hrec r0 hr0
      exact ⟨r', by subst hs; exact hr', e'.trans e0⟩
  | eval xo x out =>
    simp only [jstep] at h
    cases hc : call s.log xo x out true with
    | error err => simp [hc] at h
    | ok p =>
      obtain ⟨l', r⟩ := p
      simp only [hc, Except.ok.injEq] at h
      subst h
      obtain ⟨y, sd, s1, v, idx, hrec, hs, _⟩ := call_ok _ _ _ _ _ _ _ hc
      intro t ht
      simp only [GP.addPoint, List.mem_append, List.mem_singleton] at ht
      rcases ht with ht | ht
      · obtain ⟨r0, hr0, e0⟩ := hi t ht
        obtain ⟨r', hr', e'⟩ := rows_keep_points _ _ _ _ _ _ _ _ _ hrec r0 hr0
        exact ⟨r', by subst hs; exact hr', e'.trans e0⟩
      · obtain ⟨r', hr', e'⟩ := recorded_point_logged _ _ _ _ _ _ _ _ hrec
        exact ⟨r', by subst hs; exact hr', by subst ht; exact e'⟩
  | initial =>
    simp only [jstep, Except.ok.injEq] at h
    subst h
    intro t ht
    obtain ⟨r, hr, e⟩ := List.mem_map.mp ht
    exact ⟨r, hr, by subst e; rfl⟩
  | select dist r2 a b c =>
    simp only [jstep, Except.ok.injEq] at h
    subst h
    intro t ht
    obtain ⟨r, hr, e⟩ := List.mem_map.mp (neighborsOf_sub _ _ _ _ _ _ t ht)
    exact ⟨r, hr, by subst e; rfl⟩

/-- ... for every run, from any state in which it holds (the initial state has an empty training set) -/
theorem train_at_evaluated_points : ∀ (evs : List JEv) (s s' : JSt), AtLogged s → jrun s evs = .ok s' → AtLogged s'
  | [], s, s', hi, h => by simp only [jrun, Except.ok.injEq] at h; exact h ▸ hi
  | e :: es, s, s', hi, h => by
    simp only [jrun] at h
    cases hj : jstep s e with
    | error err => simp [hj] at h
    | ok s1 =>
      simp only [hj] at h
      exact train_at_evaluated_points es s1 s' (jstep_atLogged s s1 e hj hi) h

/-- A (RE)SELECTION CONDITIONS THE SURROGATE ON LOG RECORDS ONLY, whatever it held before -/
theorem reselect_restores (s s' : JSt) (e : JEv) (he : e = .initial ∨ ∃ d r a b c, e = .select d r a b c) (h : jstep s e = .ok s') : SubLog s' := by
  rcases he with rfl | ⟨d, r, a, b, c, rfl⟩
  · simp only [jstep, Except.ok.injEq] at h; subst h; intro t ht; exact ht
  · simp only [jstep, Except.ok.injEq] at h; subst h; intro t ht; exact neighborsOf_sub _ _ _ _ _ _ t ht

/-- the event does not merge an observation into an existing record -/
def Fresh (s : JSt) : JEv → Prop
  | .evalOnly _ x _ rd => rd = false ∨ s.log.he = false ∨ firstMatch x s.log.rows = none
  | .eval _ x _ => s.log.he = false ∨ firstMatch x s.log.rows = none
  | _ => True

def AllFresh : JSt → List JEv → Prop
  | _, [] => True
  | s, e :: es => Fresh s e ∧ match jstep s e with
    | .ok s' => AllFresh s' es
    | .error _ => True

instance (s : JSt) (e : JEv) : Decidable (Fresh s e) := by cases e <;> unfold Fresh <;> infer_instance

instance decAllFresh : (s : JSt) → (evs : List JEv) → Decidable (AllFresh s evs)
  | _, [] => isTrue trivial
  | s, e :: es => by
    unfold AllFresh
    cases h : jstep s e with
    | ok s' => have := decAllFresh s' es; infer_instance
    | error _ => infer_instance

theorem recOf_fresh (xo x : Pt) (y : Rat) (sd : Option Rat) :
    recOf { xo := xo, x := x, y := y, yo := y, tau := sd.map (fun v => 1 / (v * v)), n := 1 } = { x := x, y := y, s2 := sd.map (fun v => v * v) } := by
  cases sd <;> simp [recOf]

/-- without a merge, a successful `_record` leaves the records as the GP sees them untouched and appends at most the observation itself -/
theorem record_recs (s : St) (xo x : Pt) (y : Rat) (sd : Option Rat) (rd : Bool) (s' : St) (v : Rat) (idx : Option Nat)
    (h : record s xo x y sd rd = .ok (s', v, idx)) (hf : rd = false ∨ s.he = false ∨ firstMatch x s.rows = none) :
    v = y ∧ (s'.rows.map recOf = s.rows.map recOf ∨ (rd = true ∧ s'.rows.map recOf = s.rows.map recOf ++ [{ x := x, y := y, s2 := sd.map (fun v => v * v) }])) := by
  rcases record_cases s xo x y sd rd s' v idx h with ⟨i, _, _, h2, h3, _⟩ | ⟨_, _, h2, h3, _⟩ | ⟨i, sdv, hrd, h0, h1, _, _⟩ | ⟨c, hrd, _, h2, h3, _, _⟩
  · refine ⟨h3, Or.inl ?_⟩; subst h2; exact modAt_map (fun r => { r with n := r.n + 1 }) recOf (fun _ => rfl) s.rows i
  · refine ⟨h3, Or.inl ?_⟩; subst h2; rfl
  · rcases hf with hf | hf | hf
    · rw [hrd] at hf; cases hf
    · rw [h0.2] at hf; cases hf
    · rw [h1] at hf; cases hf
  · refine ⟨h3, Or.inr ⟨hrd, ?_⟩⟩
    subst h2
    simp only [List.map_append, List.map_cons, List.map_nil, recOf_fresh]

theorem jstep_subLog (s s' : JSt) (e : JEv) (h : jstep s e = .ok s') (hf : Fresh s e) (hi : SubLog s) : SubLog s' := by
  cases e with
  | evalOnly xo x out rd =>
    simp only [jstep] at h
    cases hc : call s.log xo x out rd with
    | error err => simp [hc] at h
    | ok p =>
      obtain ⟨l', r⟩ := p
      simp only [hc, Except.ok.injEq] at h
      subst h
      obtain ⟨y, sd, s1, v, idx, hrec, hs, _⟩ := call_ok _ _ _ _ _ _ _ hc
      obtain ⟨_, hr⟩ := record_recs _ _ _ _ _ _ _ _ _ hrec hf
      intro t ht
      have := hi t ht
      subst hs
      rcases hr with e | ⟨_, e⟩ <;> simp only [e] <;> simp [this]
  | eval xo x out =>
    simp only [jstep] at h
    cases hc : call s.log xo x out true with
    | error err => simp [hc] at h
    | ok p =>
      obtain ⟨l', r⟩ := p
      simp only [hc, Except.ok.injEq] at h
      subst h
      obtain ⟨y, sd, s1, v, idx, hrec, hs, hr0⟩ := call_ok _ _ _ _ _ _ _ hc
      obtain ⟨hv, hr⟩ := record_recs _ _ _ _ _ _ _ _ _ hrec (Or.inr hf)
      have hfresh : s1.rows.map recOf = s.log.rows.map recOf ++ [{ x := x, y := y, s2 := sd.map (fun v => v * v) }] := by
        rcases record_cases s.log xo x y sd true s1 v idx hrec with ⟨_, hrd, _⟩ | ⟨hrd, _⟩ | ⟨i, sdv, _, h0, h1, _, _⟩ | ⟨c, _, _, h2, _, _, _⟩
        · cases hrd
        · cases hrd
        · rcases hf with hf | hf
          · rw [h0.2] at hf; cases hf
          · rw [h1] at hf; cases hf
        · subst h2; simp only [List.map_append, List.map_cons, List.map_nil, recOf_fresh]
      intro t ht
      subst hs
      simp only [GP.addPoint, List.mem_append, List.mem_singleton] at ht
      show t ∈ s1.rows.map recOf
      rw [hfresh]
      rcases ht with ht | ht
      · exact List.mem_append_left _ (hi t ht)
      · refine List.mem_append_right _ (List.mem_singleton.mpr ?_)
        rw [ht, hr0, hv]
  | initial => exact reselect_restores s s' _ (Or.inl rfl) h
  | select d r a b c => exact reselect_restores s s' _ (Or.inr ⟨d, r, a, b, c, rfl⟩) h

/-- REAL LOG RECORDS ONLY (partial: runs in which no observation is merged into an existing record) -/
theorem train_sub_log_partial : ∀ (evs : List JEv) (s s' : JSt), SubLog s → AllFresh s evs → jrun s evs = .ok s' → SubLog s'
  | [], s, s', hi, _, h => by simp only [jrun, Except.ok.injEq] at h; exact h ▸ hi
  | e :: es, s, s', hi, hf, h => by
    simp only [jrun] at h
    cases hj : jstep s e with
    | error err => simp [hj] at h
    | ok s1 =>
      simp only [hj] at h
      exact train_sub_log_partial es s1 s' (jstep_subLog s s1 e hj hf.1 hi) (by have := hf.2; rw [hj] at this; exact this) h

theorem jstep_he (s s' : JSt) (e : JEv) (h : jstep s e = .ok s') : s'.log.he = s.log.he := by
  have key : ∀ (xo x : Pt) (out : Outcome) (rd : Bool) (l' : St) (r : Ret), call s.log xo x out rd = .ok (l', r) → l'.he = s.log.he := by
    intro xo x out rd l' r hc
    obtain ⟨y, sd, s1, v, idx, hrec, hs, _⟩ := call_ok _ _ _ _ _ _ _ hc
    subst hs
    rcases record_cases s.log xo x y sd rd s1 v idx hrec with ⟨_, _, _, h2, _, _⟩ | ⟨_, _, h2, _, _⟩ | ⟨_, _, _, _, _, h2, _⟩ | ⟨_, _, _, h2, _, _, _⟩ <;> subst h2 <;> rfl
  cases e with
  | evalOnly xo x out rd =>
    simp only [jstep] at h
    cases hc : call s.log xo x out rd with
    | error err => simp [hc] at h
    | ok p => obtain ⟨l', r⟩ := p; simp only [hc, Except.ok.injEq] at h; subst h; exact key _ _ _ _ _ _ hc
  | eval xo x out =>
    simp only [jstep] at h
    cases hc : call s.log xo x out true with
    | error err => simp [hc] at h
    | ok p => obtain ⟨l', r⟩ := p; simp only [hc, Except.ok.injEq] at h; subst h; exact key _ _ _ _ _ _ hc
  | initial => simp only [jstep, Except.ok.injEq] at h; subst h; rfl
  | select d r a b c => simp only [jstep, Except.ok.injEq] at h; subst h; rfl

theorem allFresh_of_not_he : ∀ (evs : List JEv) (s : JSt), s.log.he = false → AllFresh s evs
  | [], _, _ => trivial
  | e :: es, s, hhe => by
    refine ⟨by cases e <;> simp [Fresh, hhe], ?_⟩
    cases hj : jstep s e with
    | error _ => trivial
    | ok s' => exact allFresh_of_not_he es s' ((jstep_he s s' e hj).trans hhe)

/-- FULL STRENGTH WITHOUT SPECIFIED NOISE: for a deterministic target or one of unknown noise, in every run, at every moment, every training
    triple is a log record (same point, same value). -/
theorem train_sub_log_unspecified_noise (evs : List JEv) (s s' : JSt) (hhe : s.log.he = false) (hi : SubLog s) (h : jrun s evs = .ok s') : SubLog s' :=
  train_sub_log_partial evs s s' hi (allFresh_of_not_he evs s hhe) h

/-! ### the full statement fails after a merge (known finding C15-merged-add), until the next re-selection -/

def j0 : JSt := { log := Log.init 4 true true, train := [] }
def merging : List JEv := [.eval [0] [0] (.pair (some 1) (some 1)), .eval [0] [0] (.pair (some 3) (some 1))]

theorem merged_add_counterexample :
    ∃ s', jrun j0 merging = .ok s' ∧ ¬ SubLog s' ∧ s'.log.rows.map recOf = [{ x := [0], y := 2, s2 := some (1/2) }] ∧
      s'.train = [{ x := [0], y := 1, s2 := some 1 }, { x := [0], y := 2, s2 := some 1 }] := by
  refine ⟨_, rfl, ?_, by decide +kernel, by decide +kernel⟩
  intro h
  have := h { x := [0], y := 1, s2 := some 1 } (by decide +kernel)
  revert this
  decide +kernel

/-- ... and the next local refit puts it right -/
example : ∃ s', jrun j0 (merging ++ [.select [0] 1 1 10 5]) = .ok s' ∧ s'.train = [{ x := [0], y := 2, s2 := some (1/2) }] := ⟨_, rfl, by decide +kernel⟩

/-! non-vacuity of the partial theorem: a noisy run with distinct points, a re-selection that truncates, an unrecorded repeat -/
def fresh3 : List JEv :=
  [.evalOnly [0] [0] (.pair (some 5) (some 2)) true, .evalOnly [1] [1] (.pair (some 6) (some 1)) true, .initial,
   .eval [3] [3] (.pair (some 4) (some 1)), .select [9, 4, 0] 5 2 2 0, .eval [2] [2] (.pair (some 1) (some 3)), .evalOnly [2] [2] (.pair (some 7) (some 1)) false]

example : AllFresh j0 fresh3 ∧ SubLog j0 ∧ ∃ s', jrun j0 fresh3 = .ok s' ∧
    s'.train = [{ x := [3], y := 4, s2 := some 1 }, { x := [1], y := 6, s2 := some 1 }, { x := [2], y := 1, s2 := some 9 }] ∧ s'.log.rows.length = 4 := by
  refine ⟨by decide +kernel, fun t ht => by simp [j0] at ht, _, rfl, by decide +kernel, by decide +kernel⟩

end Bads.SurRun
