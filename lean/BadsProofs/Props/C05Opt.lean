/-
  C05 / C04 / C19 clauses stated on the model of ONE WHOLE CALL of `optimize()` (Optimize.lean), for every oracle:

    * `final_calls_at_returned_x`   the run's call sequence ends with exactly `nfsEff` unrecorded calls at the returned point, where
                                    `nfsEff = min noise_final_samples (max_fun_evals - size of the initial phase)` for a stochastic
                                    target and 0 for a deterministic one;
    * `returned_x_evaluated`        the returned point was evaluated (recorded call) before the final re-sampling, and the value kept
                                    for it (`yval`) is the value the logger returned there;
    * `yvec_spec`                   `yval_vec` is the fresh observations (supplemented by the iterate's own observation when there is
                                    exactly one), `fval` its mean; without final samples `fval` is the iterate's estimate;
    * `deterministic_untouched`     a target that repeats itself at the start point is never re-sampled at the end;
    * a concrete run (`example`) on which every hypothesis holds and every stage of the model does something.
-/
import BadsProofs.Props.C03Opt
import BadsProofs.Props.C05

namespace Bads.Opt
open Bads Bads.Full

/-- number of final samples: none for a deterministic target, otherwise what the budget leaves of `noise_final_samples` -/
theorem nfsEff_spec (e : Env) (io : InitOrc) :
    (init e io).nfsEff = if uncOf e io > 0 then min e.nfs (e.full.o.budget - (initCalls e io).length) else 0 := rfl

/-- the call sequence ends with `nfsEff` unrecorded calls at the returned point; everything before is the initial phase and the loop -/
theorem final_calls_at_returned_x (e : Env) (io : InitOrc) (qs : List Full.Orc) (fo : FinalOrc) :
    ∃ pre, (optimize e io qs fo).calls = pre ++ List.replicate (init e io).nfsEff ((optimize e io qs fo).u, false) ∧
      pre.length = (optimize e io qs fo).loop.pairs.length - (initCalls e io).length + (initCalls e io).length ∧
      (∀ c ∈ pre.drop (initCalls e io).length, c.2 = true) :=
  ⟨_, rfl, by simp [optimize, finish, init_calls_eq, init_pairs_eq, initPairs_length]; omega, by
    intro c hc
    simp only [optimize, finish, init_calls_eq] at hc
    rw [List.drop_append_of_le_length (Nat.le_refl _)] at hc
    simp only [List.drop_length, List.nil_append, List.mem_map] at hc
    obtain ⟨p, _, rfl⟩ := hc
    rfl⟩

/-- the returned point was evaluated earlier in the run, and `yval` is what the logger returned there -/
theorem returned_x_evaluated (e : Env) (hb : boxOK e.full.pipe.lb e.full.pipe.ub = true) (hn : 1 ≤ e.full.o.nTry)
    (io : InitOrc) (hi : InitOK e io) (hf : Fits e io) (qs : List Full.Orc) (hq : RunOK e io qs) (fo : FinalOrc) :
    ((optimize e io qs fo).u, (finalNs (init e io) (optimize e io qs fo).loop fo).yval) ∈ (optimize e io qs fo).loop.pairs := by
  have hinv := init_inv e hb io hi hf
  have hrinv := Full.run_inv (loopEnv e (init e io)) hb hn qs (loopStart e (init e io)) hq hinv
  exact (finalNs_pinv (init e io) _ fo hrinv.1).2.1

/-- `yval_vec`, `fval` -/
theorem yvec_spec (e : Env) (io : InitOrc) (qs : List Full.Orc) (fo : FinalOrc) :
    let r := optimize e io qs fo
    let ns1 := finalNs (init e io) r.loop fo
    let k := (init e io).nfsEff
    (k = 0 → r.yvec = [ns1.yval] ∧ r.fval = ns1.fval) ∧
    (0 < k → r.yvec = Noisy.yvalVec ns1 (fo.samples.take k) ∧ r.fval = Noisy.meanOf r.yvec) ∧
    (k = 1 → 1 ≤ fo.samples.length → r.yvec = fo.samples.take 1 ++ [ns1.yval]) ∧
    (2 ≤ k → k ≤ fo.samples.length → r.yvec = fo.samples.take k) := by
  intro r ns1 k
  have hy : r.yvec = if k > 0 then Noisy.yvalVec ns1 (fo.samples.take k) else [ns1.yval] := rfl
  have hfv : r.fval = if k > 0 then Noisy.meanOf (Noisy.yvalVec ns1 (fo.samples.take k)) else ns1.fval := rfl
  refine ⟨fun hk => ?_, fun hk => ?_, fun hk hl => ?_, fun hk hl => ?_⟩
  · rw [hy, hfv]; simp [hk]
  · rw [hfv, hy, if_pos hk, if_pos hk]; exact ⟨rfl, rfl⟩
  · rw [hy, hk]
    have h1 : (fo.samples.take 1).length = 1 := by simp [List.length_take]; omega
    simp only [Nat.lt_irrefl, gt_iff_lt, Nat.zero_lt_one, if_true]
    unfold Noisy.yvalVec
    rw [if_pos h1]
  · have h0 : k > 0 := by omega
    rw [hy, if_pos h0]
    unfold Noisy.yvalVec
    have : ¬ (fo.samples.take k).length = 1 := by
      simp only [List.length_take]
      omega
    rw [if_neg this]

/-- a target declared deterministic that returns identical values at the start point stays deterministic: no reserve, no final samples,
    the loop keeps the whole budget -/
theorem deterministic_untouched (e : Env) (io : InitOrc) (h0 : e.unc0 = 0) (ht : 0 ≤ e.tolNoise) (hy : io.y0 = io.y0bis) :
    uncOf e io = 0 ∧ (init e io).nfsEff = 0 ∧ (init e io).o.budget = e.full.o.budget ∧ (init e io).ns.fsd = 0 := by
  have hu : uncOf e io = 0 := by
    unfold uncOf
    rw [h0, ← hy, Noisy.identical_values_not_noisy io.y0 e.tolNoise ht]
    simp
  refine ⟨hu, ?_, ?_, ?_⟩
  · simp [init, hu]
  · simp [init, hu]
  · simp [init, hu]

/-- a target whose two values at the start point differ by more than `tol_noise` is treated as stochastic from then on -/
theorem noisy_detected (e : Env) (io : InitOrc) (h0 : e.unc0 = 0) (hd : io.y0 - io.y0bis > e.tolNoise ∨ io.y0bis - io.y0 > e.tolNoise) :
    uncOf e io = 1 ∧ (init e io).ns.fsd = e.noiseSize ∧ (init e io).o.stallIters = 2 * e.stallIters0 := by
  have hn : Noisy.noiseDetected io.y0 io.y0bis e.tolNoise = true := by
    unfold Noisy.noiseDetected
    rcases hd with h | h <;> simp [h]
  have hu : uncOf e io = 1 := by
    unfold uncOf
    rw [h0, hn]
    simp
  refine ⟨hu, ?_, ?_⟩
  · simp [init, hu]
  · simp [init, hu]

/-! ### non-vacuity: a concrete run of an auto-detected noisy target meets every hypothesis, and every stage of the model acts -/
namespace Example
open Bads.Full.Example
def oX : Ctl.Opts := { o1 with budget := 14 }
def eX : Env := { full := { e1 with o := oX }, unc0 := 0, tolNoise := 1/1000000, funEvalStart := 1, nfs := 2, noiseSize := 1,
                  stallIters0 := 2, h0 := 1/4, msi0 := 0 }
def ioX : InitOrc := { u0 := [0], y0 := 1, y0bis := 9/8, design := [[2], [-2], [2]], vals := [(9, true), (3/2, true)], sdAtMin := 0 }
def foX : FinalOrc := { reVals := [(1/2, 1/8), (1/4, 1/8)], qs := [3/4, 1/2], samples := [1/8, 3/8, 5] }

example : InitOK eX ioX ∧ Fits eX ioX ∧ RunOK eX ioX [q1, q2] ∧ boxOK eX.full.pipe.lb eX.full.pipe.ub = true ∧ 1 ≤ eX.full.o.nTry := by
  refine ⟨⟨by decide +kernel, ?_, by decide +kernel, by decide +kernel, by decide +kernel⟩, ?_, ?_, by decide +kernel, by decide⟩
  · intro c hc; simp [eX, e1] at hc
  · unfold Fits; decide +kernel
  · intro q hq
    simp only [List.mem_cons, List.mem_nil_iff, or_false] at hq
    rcases hq with rfl | rfl <;> (unfold Full.OrcOK; decide +kernel)

/-- start point, noise test (detected), two surviving design points, three loop evaluations, two final samples at the returned point -/
example : (optimize eX ioX [q1, q2] foX).calls =
      [([0], true), ([0], false), ([-2], true), ([2], true), ([-1], true), ([1], true), ([1], true), ([1], false), ([1], false)] ∧
    (optimize eX ioX [q1, q2] foX).yvec = [1/8, 3/8] ∧ (optimize eX ioX [q1, q2] foX).fval = 1/4 ∧
    (optimize eX ioX [q1, q2] foX).funcCount = 9 ∧ (init eX ioX).o.budget = 12 ∧ (init eX ioX).unc = 1 := by decide +kernel
end Example

end Bads.Opt
