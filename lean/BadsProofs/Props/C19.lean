/-
  C19 - Iteration history and OptimizeResult are consistent records of the run (run level).

  For EVERY sequence of evaluated candidates, GP estimates, re-estimated history values and final
  quantile values (all noise modes; incumbents re-estimated and possibly swapped for earlier
  iterates): every recorded iterate - and the incumbent itself - is a pair (point, value) that the
  evaluation log returned together, and the returned x is one of the recorded iterates.
  The container-level theorems are in `Props/C19Container.lean`.
-/
import BadsProofs.Lemmas.NoisyLemmas

namespace Bads.Noisy

/-- Pairs (point, logged value) the run has seen so far. -/
abbrev Evals := List (Pt × Rat)

def candPair (c : Cand) : Pt × Rat := (c.u, c.y)

/-- Invariant: `u` and `u_best` agree at iteration boundaries, the incumbent pair was observed
    together, and so was every recorded iterate. -/
def PInv (s : St) (ev : Evals) : Prop :=
  s.u = s.uBest ∧ (s.u, s.yval) ∈ ev ∧ ∀ r ∈ s.hist, pairOf r ∈ ev

theorem PInv_mono (s : St) (ev ev' : Evals) (h : PInv s ev) : PInv s (ev ++ ev') :=
  ⟨h.1, List.mem_append_left _ h.2.1, fun r hr => List.mem_append_left _ (h.2.2 r hr)⟩

theorem search_pinv (s : St) (ev : Evals) (c : Option Cand) (h : PInv s ev) :
    PInv (searchUpdate s c) (ev ++ (c.map candPair).toList) := by
  cases c with
  | none => simpa [searchUpdate] using h
  | some c =>
    simp only [searchUpdate, Option.map_some, Option.toList_some]
    split
    · exact ⟨rfl, by simp [move, candPair], fun r hr => List.mem_append_left _ (h.2.2 r hr)⟩
    · exact PInv_mono s ev _ h

theorem pollBest_mem (fval : Rat) : ∀ (cs : List Cand) (best : Rat) (arg : Option Cand) (c : Cand),
    (pollBest fval cs best arg).2 = some c → c ∈ cs ∨ arg = some c
  | [], _, _, _, h => Or.inr h
  | c' :: cs, best, arg, c, h => by
    simp only [pollBest] at h
    split at h
    · rcases pollBest_mem fval cs _ _ c h with h | h
      · exact Or.inl (List.mem_cons_of_mem _ h)
      · cases h; exact Or.inl List.mem_cons_self
    · rcases pollBest_mem fval cs _ _ c h with h | h
      · exact Or.inl (List.mem_cons_of_mem _ h)
      · exact Or.inr h

theorem poll_pinv (s : St) (ev : Evals) (cs : List Cand) (h : PInv s ev) :
    PInv (pollUpdate s cs) (ev ++ cs.map candPair) := by
  obtain ⟨h1, h2, h3⟩ := h
  simp only [pollUpdate]
  have base : PInv { s with u := s.uBest } (ev ++ cs.map candPair) :=
    ⟨rfl, List.mem_append_left _ (by rw [← h1]; exact h2), fun r hr => List.mem_append_left _ (h3 r hr)⟩
  cases hr : pollBest s.fval cs 0 none with
  | mk best arg =>
    cases arg with
    | none => exact base
    | some c =>
      simp only
      split
      · have hm : c ∈ cs := by
          rcases pollBest_mem s.fval cs 0 none c (by rw [hr]) with hm | hm
          · exact hm
          · cases hm
        exact ⟨rfl, List.mem_append_right _ (List.mem_map_of_mem hm), fun r hr' => List.mem_append_left _ (h3 r hr')⟩
      · exact base

theorem record_pinv (s : St) (ev : Evals) (it : Nat) (h : PInv s ev) : PInv (recordIter s it) ev := by
  obtain ⟨h1, h2, h3⟩ := h
  refine ⟨h1, h2, ?_⟩
  intro r hr
  rcases setAt_mem _ _ _ _ hr with rfl | hr
  · exact h2
  · exact h3 r hr

/-- After recording iteration `it`, re-estimating and (possibly) swapping keeps the invariant: the
    reloaded values belong to the current iterate's own row, a swap takes a whole recorded row. -/
theorem reEvalSwap_pinv (s : St) (ev : Evals) (it : Nat) (vals : List (Rat × Rat)) (tol : Rat)
    (h : PInv s ev) (hcur : ∃ r, s.hist[it]? = some r ∧ pairOf r = (s.u, s.yval)) :
    PInv (reEvalSwap s it vals tol) ev := by
  obtain ⟨h1, h2, h3⟩ := h
  have hrows : ∀ r ∈ reEstimate s.hist vals, pairOf r ∈ ev := by
    intro r hr
    obtain ⟨r', hr', he⟩ := mem_reEstimate_pair _ _ _ hr
    rw [← he]; exact h3 r' hr'
  simp only [reEvalSwap]
  cases hc : (reEstimate s.hist vals)[it]? with
  | none => exact ⟨h1, h2, hrows⟩
  | some cur =>
    simp only
    obtain ⟨r0, hr0, hp0⟩ := hcur
    obtain ⟨r1, hr1, hp1⟩ := getElem_reEstimate_pair _ _ _ _ hc
    rw [hr0] at hr1; cases hr1
    have hcy : cur.yval = s.yval := by
      have := hp1.symm.trans hp0
      simpa [pairOf] using congrArg Prod.snd this
    have base : PInv { s with hist := reEstimate s.hist vals, yval := cur.yval, fval := cur.fval, fsd := cur.fsd } ev :=
      ⟨h1, by simpa [hcy] using h2, hrows⟩
    cases ha : argmaxFrom1 (List.map (fun r => cur.fval - r.fval) (reEstimate s.hist vals)) with
    | none => exact base
    | some p =>
      obtain ⟨i, impr⟩ := p
      simp only
      split
      · cases hi : (reEstimate s.hist vals)[i]? with
        | none => exact base
        | some r =>
          simp only
          refine ⟨rfl, ?_, hrows⟩
          have := hrows r (List.mem_of_getElem? hi)
          simpa [pairOf] using this
      · exact base

def sCands (i : Iter) : Evals := match i.search with | some (some c) => [candPair c] | _ => []
def pCands (i : Iter) : Evals := match i.poll with | some cs => cs.map candPair | none => []
def candsOf (i : Iter) : Evals := sCands i ++ pCands i

def st1 (s : St) (i : Iter) : St := match i.search with | some c => searchUpdate s c | none => s
def st3 (s1 : St) (i : Iter) : St :=
  match i.poll with
  | some cs => pollUpdate { s1 with u := s1.uBest } cs
  | none => { s1 with u := s1.uBest }

theorem iterStep_eq (tol : Rat) (s : St) (i : Iter) :
    iterStep tol s i =
      (let s3 := st3 (st1 s i) i
       let s4 := if i.poll.isSome || i.finished then recordIter s3 i.it else s3
       match i.reVals with
       | some vals => if i.poll.isSome then reEvalSwap s4 i.it vals tol else s4
       | none => s4) := rfl

theorem st1_hist (s : St) (i : Iter) : (st1 s i).hist = s.hist := by
  unfold st1
  cases i.search with
  | none => rfl
  | some c =>
    cases c with
    | none => rfl
    | some c => simp only [searchUpdate]; split <;> rfl

theorem st3_hist (s1 : St) (i : Iter) : (st3 s1 i).hist = s1.hist := by
  unfold st3
  cases i.poll with
  | none => rfl
  | some cs =>
    simp only [pollUpdate]
    cases pollBest s1.fval cs 0 none with
    | mk b a => cases a with
      | none => rfl
      | some c => simp only; split <;> rfl

theorem st1_pinv (s : St) (ev : Evals) (i : Iter) (h : PInv s ev) : PInv (st1 s i) (ev ++ sCands i) := by
  unfold st1 sCands
  cases i.search with
  | none => simpa using h
  | some c =>
    cases c with
    | none => simpa [searchUpdate] using h
    | some c => simpa using search_pinv s ev (some c) h

theorem st3_pinv (s1 : St) (ev : Evals) (i : Iter) (h : PInv s1 ev) : PInv (st3 s1 i) (ev ++ pCands i) := by
  have hs2 : PInv { s1 with u := s1.uBest } ev := ⟨rfl, by rw [← h.1]; exact h.2.1, h.2.2⟩
  unfold st3 pCands
  cases i.poll with
  | none => simpa using hs2
  | some cs => exact poll_pinv _ ev cs hs2

/-- ONE LOOP ITERATION preserves the invariant (for all oracle inputs). -/
theorem iterStep_pinv (tol : Rat) (s : St) (ev : Evals) (i : Iter) (h : PInv s ev) (hit : i.it ≤ s.hist.length) :
    PInv (iterStep tol s i) (ev ++ candsOf i) := by
  rw [iterStep_eq]
  have h3 : PInv (st3 (st1 s i) i) (ev ++ candsOf i) := by
    have := st3_pinv (st1 s i) (ev ++ sCands i) i (st1_pinv s ev i h)
    simpa [candsOf, List.append_assoc] using this
  have hlen : (st3 (st1 s i) i).hist.length = s.hist.length := by rw [st3_hist, st1_hist]
  simp only
  by_cases hrec : (i.poll.isSome || i.finished) = true
  · simp only [hrec, if_true]
    have hr := record_pinv _ _ i.it h3
    cases i.reVals with
    | none => exact hr
    | some vals =>
      simp only
      split
      · apply reEvalSwap_pinv _ _ _ _ _ hr
        exact ⟨_, setAt_get _ _ _ (by rw [hlen]; exact hit), rfl⟩
      · exact hr
  · simp only [hrec]
    cases i.reVals with
    | none => simpa using h3
    | some vals =>
      have hq : i.poll.isSome = false := by
        cases hq : i.poll.isSome
        · rfl
        · simp [hq] at hrec
      simpa [hq] using h3

/-- FINAL CHOICE: the returned point is one of the recorded iterates, with that iterate's own
    observed value; the invariant is kept. -/
theorem finalChoice_pinv (s : St) (ev : Evals) (vals : List (Rat × Rat)) (qs : List Rat) (h : PInv s ev) :
    PInv (finalChoice s vals qs) ev ∧
    (∀ i, argminFrom1 qs = some i → i < s.hist.length →
      ∃ r, s.hist[i]? = some r ∧ (finalChoice s vals qs).u = r.u ∧ (finalChoice s vals qs).yval = r.yval) := by
  obtain ⟨h1, h2, h3⟩ := h
  have hrows : ∀ r ∈ reEstimate s.hist vals, pairOf r ∈ ev := by
    intro r hr
    obtain ⟨r', hr', he⟩ := mem_reEstimate_pair _ _ _ hr
    rw [← he]; exact h3 r' hr'
  simp only [finalChoice]
  cases ha : argminFrom1 qs with
  | none => exact ⟨⟨h1, h2, hrows⟩, by intro i hi; cases hi⟩
  | some i =>
    simp only
    cases hi : (reEstimate s.hist vals)[i]? with
    | none =>
      refine ⟨⟨h1, h2, hrows⟩, ?_⟩
      intro j hj hlt
      cases hj
      rw [List.getElem?_eq_none_iff, reEstimate_length] at hi
      omega
    | some r =>
      simp only
      refine ⟨⟨rfl, ?_, hrows⟩, ?_⟩
      · have := hrows r (List.mem_of_getElem? hi)
        simpa [pairOf] using this
      · intro j hj _
        cases hj
        obtain ⟨r', hr', he⟩ := getElem_reEstimate_pair _ _ _ _ hi
        refine ⟨r', hr', ?_, ?_⟩
        · simpa [pairOf] using (congrArg Prod.fst he).symm
        · simpa [pairOf] using (congrArg Prod.snd he).symm

/-- Whole run: from an initial incumbent that was observed, through any number of loop iterations. -/
theorem run_pinv (tol : Rat) : ∀ (its : List Iter) (s : St) (ev : Evals), PInv s ev →
    (∀ (pre : List Iter) (i : Iter) (post : List Iter), its = pre ++ i :: post →
        i.it ≤ (pre.foldl (iterStep tol) s).hist.length) →
    PInv (its.foldl (iterStep tol) s) (ev ++ (its.map candsOf).flatten)
  | [], s, ev, h, _ => by simpa using h
  | i :: is, s, ev, h, hit => by
    simp only [List.foldl_cons, List.map_cons, List.flatten_cons, ← List.append_assoc]
    apply run_pinv tol is
    · exact iterStep_pinv tol s ev i h (by simpa using hit [] i is rfl)
    · intro pre j post hsplit
      have := hit (i :: pre) j post (by rw [hsplit]; rfl)
      simpa using this

/-! Non-vacuity: a noisy iteration with a poll, a re-estimate and a swap back to iterate 1. -/
example :
    let s0 : St := { u := [0], uBest := [0], yval := 5, fval := 5, fsd := 1,
                     hist := [{ u := [9], yval := 7, fval := 7, fsd := 1 }, { u := [1], yval := 4, fval := 9/2, fsd := 1 }] }
    let i : Iter := { search := some (some { u := [2], y := 3, f := 4, sd := 1/2 }), poll := some [{ u := [3], y := 6, f := 5, sd := 1 }],
                      it := 2, finished := false, reVals := some [(7, 1), (2, 1/2), (4, 1/2)] }
    let s := iterStep (1/1000) s0 i
    (s.u, s.uBest, s.yval, s.fval) = ([1], [1], 4, 2) ∧ s.hist.length = 3 := by
  decide +kernel

end Bads.Noisy
