/-
  C20 - Options: user settings win, unknown names are rejected.

  For every pair of option files (any names, any default expressions), every evaluation oracle,
  every dimension and every set of user overrides.
-/
import BadsModel.Options
import Generated.Defaults

namespace Bads.Opt

variable {V T : Type}

theorem lookup_insert_same (a : Assoc V) (k : String) (v : V) : lookup (insert a k v) k = some v := by
  unfold insert lookup
  split
  · rename_i hany
    induction a with
    | nil => simp at hany
    | cons e es ih =>
      simp only [List.map_cons, List.find?_cons]
      by_cases he : (e.1 == k) = true
      · simp [he]
      · have he' : (e.1 == k) = false := by simpa using he
        simp only [he', Bool.false_eq_true, if_false]
        exact ih (by simpa [he'] using hany)
  · rename_i hany
    have hnone : a.find? (fun e => e.1 == k) = none := by
      rw [List.find?_eq_none]
      intro e he
      have := hany
      simp only [List.any_eq_true, not_exists, not_and] at this
      exact this e he
    simp [List.find?_append, hnone]

theorem find_map_other (k k' : String) (v : V) (hne : (k == k') = false) : ∀ a : Assoc V,
    ((a.map (fun e => if e.1 == k then (k, v) else e)).find? (fun e => e.1 == k')).map (·.2) =
      (a.find? (fun e => e.1 == k')).map (·.2)
  | [] => rfl
  | e :: es => by
    simp only [List.map_cons, List.find?_cons]
    by_cases he : (e.1 == k) = true
    · have hek : e.1 = k := by simpa using he
      have h2 : (e.1 == k') = false := by rw [hek]; exact hne
      simp only [he, if_true, hne, h2]
      exact find_map_other k k' v hne es
    · have he' : (e.1 == k) = false := by simpa using he
      simp only [he', Bool.false_eq_true, if_false]
      split
      · rfl
      · exact find_map_other k k' v hne es

theorem lookup_insert_other (a : Assoc V) (k k' : String) (v : V) (hne : k' ≠ k) : lookup (insert a k v) k' = lookup a k' := by
  have hb : (k == k') = false := by
    rw [Bool.eq_false_iff]; intro h; apply hne; rw [beq_iff_eq] at h; exact h.symm
  unfold insert lookup
  split
  · exact find_map_other k k' v hb a
  · simp [List.find?_append, hb]

/-- loading a file never touches a protected name -/
theorem loadFile_protected (ev : T → Assoc V → Nat → V) (D : Nat) (prot : List String) (k : String) (hk : prot.contains k = true) :
    ∀ (es : List (String × T)) (o : Assoc V), lookup (loadFile ev D prot es o) k = lookup o k
  | [], _ => rfl
  | (k', tok) :: rest, o => by
    unfold loadFile
    split
    · exact loadFile_protected ev D prot k hk rest o
    · rename_i hnp
      rw [loadFile_protected ev D prot k hk rest _]
      apply lookup_insert_other
      intro he; subst he; exact hnp hk

theorem update_last_wins : ∀ (user : Assoc V) (o : Assoc V) (k : String) (v : V),
    (∀ v', (k, v') ∈ user → v' = v) → (k, v) ∈ user → lookup (update o user) k = some v
  | [], _, _, _, _, h => by simp at h
  | (k', v') :: rest, o, k, v, huniq, hmem => by
    unfold update
    by_cases hin : (k, v) ∈ rest
    · exact update_last_wins rest _ k v (fun w hw => huniq w (List.mem_cons_of_mem _ hw)) hin
    · -- (k, v) is the head, and k does not occur later
      have hhead : (k', v') = (k, v) := by
        rcases List.mem_cons.mp hmem with h | h
        · exact h.symm
        · exact absurd h hin
      have hk : k' = k := (Prod.mk.inj hhead).1
      have hv : v' = v := (Prod.mk.inj hhead).2
      rw [hk, hv]
      have hno : ∀ w, (k, w) ∉ rest := by
        intro w hw
        have := huniq w (List.mem_cons_of_mem _ hw)
        subst this
        exact hin hw
      have key : ∀ (r : Assoc V) (o' : Assoc V), (∀ w, (k, w) ∉ r) → lookup (update o' r) k = lookup o' k := by
        intro r
        induction r with
        | nil => intro o' _; rfl
        | cons e es ih =>
          intro o' hnr
          obtain ⟨ke, ve⟩ := e
          unfold update
          rw [ih _ (fun w hw => hnr w (List.mem_cons_of_mem _ hw))]
          apply lookup_insert_other
          intro hke; subst hke
          exact hnr ve List.mem_cons_self
      rw [key rest _ hno, lookup_insert_same]

/-- USER WINS: an option supplied by the user has exactly the supplied value after loading - it is
    never overwritten by a default of either file (for a user dict, i.e. one value per name). -/
theorem user_wins (ev : T → Assoc V → Nat → V) (D : Nat) (basic adv : File T) (user : Assoc V) (k : String) (v : V)
    (hmem : (k, v) ∈ user) (huniq : ∀ v', (k, v') ∈ user → v' = v) :
    lookup (load ev D basic adv user) k = some v := by
  unfold load
  simp only
  rw [loadFile_protected ev D (user.map (·.1)) k
    (by simp only [List.contains_iff_mem, List.mem_map]; exact ⟨(k, v), hmem, rfl⟩)]
  exact update_last_wins user _ k v huniq hmem

/-- value of `k` after loading a file in which `k` is not protected and occurs (last) with token `tok`:
    its default expression evaluated in SOME environment reached while loading -/
theorem loadFile_default (ev : T → Assoc V → Nat → V) (D : Nat) (prot : List String) (k : String) (hk : prot.contains k = false) :
    ∀ (es : List (String × T)) (o : Assoc V), k ∈ es.map (·.1) →
      ∃ tok env, (k, tok) ∈ es ∧ lookup (loadFile ev D prot es o) k = some (ev tok env D)
  | [], _, h => by simp at h
  | (k', tok') :: rest, o, h => by
    unfold loadFile
    by_cases hin : k ∈ rest.map (·.1)
    · split
      · obtain ⟨tok, env, h1, h2⟩ := loadFile_default ev D prot k hk rest o hin
        exact ⟨tok, env, List.mem_cons_of_mem _ h1, h2⟩
      · obtain ⟨tok, env, h1, h2⟩ := loadFile_default ev D prot k hk rest _ hin
        exact ⟨tok, env, List.mem_cons_of_mem _ h1, h2⟩
    · have hkk : k' = k := by
        simp only [List.map_cons, List.mem_cons] at h
        rcases h with h | h
        · exact h.symm
        · exact absurd h hin
      subst hkk
      simp only [hk, Bool.false_eq_true, if_false]
      refine ⟨tok', o, List.mem_cons_self, ?_⟩
      -- later entries do not mention k
      have key : ∀ (r : List (String × T)) (o' : Assoc V), k' ∉ r.map (·.1) → lookup (loadFile ev D prot r o') k' = lookup o' k' := by
        intro r
        induction r with
        | nil => intro o' _; rfl
        | cons e es ih =>
          intro o' hnr
          obtain ⟨ke, te⟩ := e
          have hne : k' ≠ ke := by
            intro h; apply hnr; simp [h]
          have hrest : k' ∉ es.map (·.1) := fun h => hnr (by simp only [List.map_cons, List.mem_cons]; exact Or.inr h)
          unfold loadFile
          split
          · exact ih o' hrest
          · rw [ih _ hrest]; exact lookup_insert_other _ _ _ _ hne
      rw [key rest _ hin, lookup_insert_same]

/-- DEFAULT OTHERWISE: an option of the advanced file that the user did not set has its default
    expression's value for THIS instance's dimension `D` ... -/
theorem default_otherwise (ev : T → Assoc V → Nat → V) (D : Nat) (basic adv : File T) (user : Assoc V) (k : String)
    (hnu : k ∉ user.map (·.1)) (hadv : k ∈ adv.entries.map (·.1)) :
    ∃ tok env, (k, tok) ∈ adv.entries ∧ lookup (load ev D basic adv user) k = some (ev tok env D) := by
  unfold load
  exact loadFile_default ev D _ k (by
    cases hc : (user.map (·.1)).contains k with
    | false => rfl
    | true => exact absurd (by simpa using hc) hnu) adv.entries _ hadv

/-- ... and DEPENDENT DEFAULTS SEE THE USER'S VALUES: every environment in which an advanced-file
    default is evaluated already holds each user-supplied option with the user's value. -/
theorem env_has_user_values (ev : T → Assoc V → Nat → V) (D : Nat) (user : Assoc V) (k : String) (v : V)
    (hmem : (k, v) ∈ user) :
    ∀ (es : List (String × T)) (o : Assoc V), lookup o k = some v →
      lookup (loadFile ev D (user.map (·.1)) es o) k = some v := by
  intro es o ho
  rw [loadFile_protected ev D (user.map (·.1)) k
    (by simp only [List.contains_iff_mem, List.mem_map]; exact ⟨(k, v), hmem, rfl⟩)]
  exact ho

/-- UNKNOWN NAMES REJECTED: a user option whose name occurs in neither file makes validation fail. -/
theorem unknown_rejected (ev : T → Assoc V → Nat → V) (D : Nat) (basic adv : File T) (user : Assoc V) (k : String) (v : V)
    (hmem : (k, v) ∈ user) (huniq : ∀ v', (k, v') ∈ user → v' = v)
    (hunk : k ∉ basic.entries.map (·.1) ++ adv.entries.map (·.1)) :
    (validate (load ev D basic adv user) basic adv).isSome = true := by
  have hl := user_wins ev D basic adv user k v hmem huniq
  unfold validate
  simp only
  rw [List.find?_isSome]
  refine ⟨k, ?_, ?_⟩
  · -- k is a key of the loaded options because lookup succeeds
    unfold lookup at hl
    cases hf : (load ev D basic adv user).find? (fun e => e.1 == k) with
    | none => simp [hf] at hl
    | some e =>
      have hm := List.mem_of_find?_eq_some hf
      have hk : e.1 = k := by simpa using List.find?_some hf
      exact List.mem_map.mpr ⟨e, hm, hk⟩
  · simpa using hunk

/-- The shipped option files: the names the theorems' hypotheses talk about exist, and the two
    files do not define a name twice (re-proved from the regenerated name lists). -/
theorem shipped_files_wellformed :
    ("max_fun_evals" ∈ Generated.basicOptionNames ∧ "tol_fun" ∈ Generated.advancedOptionNames ∧ "tol_noise" ∈ Generated.advancedOptionNames) ∧
    (Generated.basicOptionNames ++ Generated.advancedOptionNames).Nodup := by
  decide +kernel

/-! Non-vacuity: a dependent default (`b = 2 * a`) sees the user's `a`; an unknown name is rejected. -/
example :
    let ev : String → Assoc Nat → Nat → Nat := fun tok env D =>
      if tok == "2*a" then 2 * (lookup env "a").getD 0 else if tok == "D" then D else tok.toNat!
    let basic : File String := ⟨[("a", "1")]⟩
    let adv : File String := ⟨[("b", "2*a"), ("c", "D")]⟩
    load ev 3 basic adv [("a", 10)] = [("a", 10), ("b", 20), ("c", 3)] ∧
    validate (load ev 3 basic adv [("zz", 1)]) basic adv = some "zz" ∧ validate (load ev 3 basic adv [("a", 10)]) basic adv = none := by
  decide +kernel

end Bads.Opt
