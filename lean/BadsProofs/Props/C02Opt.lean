/-
  C02 over ONE WHOLE CALL of `optimize()` (model `Opt`): no target call of a whole call - initial design, search steps, poll steps, final
  re-sampling - is made at a point for which the non-box constraint reports a violation, and the returned point is feasible.
-/
import BadsProofs.Props.C02
import BadsProofs.Props.C03Opt
import BadsProofs.Props.C05Opt

namespace Bads.Opt
open Bads

theorem optimize_calls_feasible (e : Env) (hb : boxOK e.full.pipe.lb e.full.pipe.ub = true) (hn : 1 ≤ e.full.o.nTry)
    (io : InitOrc) (hi : InitOK e io) (hf : Fits e io) (qs : List Full.Orc) (hq : RunOK e io qs) (fo : FinalOrc)
    (cf : Pt → Bool) (hcf : e.full.pipe.cons = some cf) :
    ∀ c ∈ (optimize e io qs fo).calls, cf c.1 = false :=
  fun c hc => (optimize_calls_ok e hb hn io hi hf qs hq fo c hc).2 cf hcf

theorem optimize_returned_feasible (e : Env) (hb : boxOK e.full.pipe.lb e.full.pipe.ub = true) (hn : 1 ≤ e.full.o.nTry)
    (io : InitOrc) (hi : InitOK e io) (hf : Fits e io) (qs : List Full.Orc) (hq : RunOK e io qs) (fo : FinalOrc)
    (cf : Pt → Bool) (hcf : e.full.pipe.cons = some cf) :
    cf (optimize e io qs fo).u = false :=
  (Full.full_run_spec (loopEnv e (init e io)) hb hn qs hq (loopStart e (init e io)) (init_inv e hb io hi hf)).2.2.2.1 cf hcf _
    (returned_x_evaluated e hb hn io hi hf qs hq fo)

/-- an infeasible start point is not a valid initial oracle: `InitOK` (what `BADS(...)`/`_init_mesh_` check before the first call) fails -/
theorem infeasible_start_not_initOK (e : Env) (io : InitOrc) (cf : Pt → Bool) (hcf : e.full.pipe.cons = some cf) (hbad : cf io.u0 = true) :
    ¬ InitOK e io := by
  intro h
  have := h.2.1 cf hcf
  rw [hbad] at this
  exact Bool.noConfusion this

end Bads.Opt
