/-
  C11 - The variable transform is a faithful, order-preserving bijection onto the unit box.

  Exact-arithmetic theorems for an arbitrary scale pair `(φ, ψ)`: `φ` strictly increasing on its
  domain `dom` with `ψ ∘ φ = id` there and `φ ∘ ψ = id` (instances: the identity on all rationals,
  proved here; `Real.log`/`Real.exp` on the positive reals is the intended reading for a
  log-transformed coordinate).  Floating-point error of the round trip is MEASURED by the check
  (property's bound: 1e-9 of the box width), not proved.
-/
import BadsModel.Transform
import BadsProofs.Lemmas.NumLemmas
import Mathlib.Tactic.FieldSimp
import Mathlib.Tactic.Ring

namespace Bads.Tr
open Bads

structure Scale (φ ψ : Rat → Rat) (dom : Rat → Prop) : Prop where
  mono : ∀ a b, dom a → dom b → a < b → φ a < φ b
  left : ∀ a, dom a → ψ (φ a) = a
  right : ∀ t, φ (ψ t) = t
  range : ∀ t, dom (ψ t)

/-- the affine case: `φ = ψ = id` on all rationals -/
theorem scale_id : Scale id id (fun _ => True) :=
  ⟨fun _ _ _ _ h => h, fun _ _ => rfl, fun _ => rfl, fun _ => trivial⟩

theorem scale_mono_le {φ ψ : Rat → Rat} {dom : Rat → Prop} (S : Scale φ ψ dom) (a b : Rat) (ha : dom a) (hb : dom b)
    (h : a ≤ b) : φ a ≤ φ b := by
  rcases lt_or_eq_of_le h with h | h
  · exact le_of_lt (S.mono a b ha hb h)
  · rw [h]

theorem gAff_mono (c : Coord) (hg : 0 < c.gamma) (s t : Rat) (h : s ≤ t) : gAff c s ≤ gAff c t := by
  unfold gAff
  exact div_le_div_of_nonneg_right (by linarith) (le_of_lt hg)

theorem gAff_strictMono (c : Coord) (hg : 0 < c.gamma) (s t : Rat) (h : s < t) : gAff c s < gAff c t := by
  unfold gAff
  exact div_lt_div_of_pos_right (by linarith) hg

theorem ginv_g (c : Coord) (hg : c.gamma ≠ 0) (t : Rat) : ginvAff c (gAff c t) = t := by
  unfold ginvAff gAff; field_simp; ring

/-- PLAUSIBLE BOUNDS map to -1 and +1. -/
theorem call_plb_pub (φ : Rat → Rat) (isLog : Bool) (lb ub : Ext) (plb pub : Rat) (h : φ plb < φ pub) :
    gAff (mkCoord φ isLog lb ub plb pub) (φ plb) = -1 ∧ gAff (mkCoord φ isLog lb ub plb pub) (φ pub) = 1 := by
  have hd : φ pub - φ plb ≠ 0 := by
    have : 0 < φ pub - φ plb := by linarith
    exact ne_of_gt this
  constructor
  · simp only [gAff, mkCoord]
    rw [div_eq_iff (by intro h0; apply hd; linarith)]
    ring
  · simp only [gAff, mkCoord]
    rw [div_eq_iff (by intro h0; apply hd; linarith)]
    ring

/-- the domain contains the original bounds -/
def DomBounds (dom : Rat → Prop) (c : Coord) : Prop :=
  (∀ a, c.origLo = .fin a → dom a) ∧ (∀ b, c.origHi = .fin b → dom b)

def inOrig (c : Coord) (x : Rat) : Prop := geLo c.origLo x ∧ leHi c.origHi x

theorem g_in_box {φ ψ : Rat → Rat} {dom : Rat → Prop} (S : Scale φ ψ dom) (c : Coord) (hg : 0 < c.gamma)
    (hd : DomBounds dom c) (x : Rat) (hx : dom x) (hin : inOrig c x) :
    geLo (lbT φ c) (gAff c (φ x)) ∧ leHi (ubT φ c) (gAff c (φ x)) := by
  obtain ⟨h1, h2⟩ := hin
  constructor
  · cases hlo : c.origLo with
    | fin a =>
      rw [hlo] at h1
      simp only [lbT, hlo, mapExt, geLo] at h1 ⊢
      exact gAff_mono c hg _ _ (scale_mono_le S a x (hd.1 a hlo) hx h1)
    | ninf => simp [lbT, hlo, mapExt, geLo]
    | pinf => rw [hlo] at h1; simp [geLo] at h1
    | nan => rw [hlo] at h1; simp [geLo] at h1
  · cases hhi : c.origHi with
    | fin b =>
      rw [hhi] at h2
      simp only [ubT, hhi, mapExt, leHi] at h2 ⊢
      exact gAff_mono c hg _ _ (scale_mono_le S x b hx (hd.2 b hhi) h2)
    | pinf => simp [ubT, hhi, mapExt, leHi]
    | ninf => rw [hhi] at h2; simp [leHi] at h2
    | nan => rw [hhi] at h2; simp [leHi] at h2

/-- ROUND TRIP: a point inside the hard bounds is mapped to internal coordinates and back to
    itself (exactly, in exact arithmetic). -/
theorem roundtrip {φ ψ : Rat → Rat} {dom : Rat → Prop} (S : Scale φ ψ dom) (c : Coord) (hg : 0 < c.gamma)
    (hd : DomBounds dom c) (x : Rat) (hx : dom x) (hin : inOrig c x) :
    inverse ψ c (call φ c x) = x := by
  obtain ⟨hb1, hb2⟩ := g_in_box S c hg hd x hx hin
  unfold inverse call
  rw [clampE_id _ _ _ hb1 hb2, ginv_g c (ne_of_gt hg), S.left x hx]
  exact clampE_id _ _ _ hin.1 hin.2

/-- clamp is monotone -/
theorem clampE_mono (l h : Ext) (x y : Rat) (hxy : x ≤ y) : clampE l h x ≤ clampE l h y := by
  cases l <;> cases h <;> simp only [clampE] <;> (repeat' split) <;> linarith

/-- ORDER PRESERVING: the forward map never reverses the order of two points of the domain. -/
theorem call_mono {φ ψ : Rat → Rat} {dom : Rat → Prop} (S : Scale φ ψ dom) (c : Coord) (hg : 0 < c.gamma)
    (x y : Rat) (hx : dom x) (hy : dom y) (hxy : x ≤ y) : call φ c x ≤ call φ c y := by
  unfold call
  exact clampE_mono _ _ _ _ (gAff_mono c hg _ _ (scale_mono_le S x y hx hy hxy))

/-- ... strictly inside the box ... -/
theorem call_strictMono_inside {φ ψ : Rat → Rat} {dom : Rat → Prop} (S : Scale φ ψ dom) (c : Coord) (hg : 0 < c.gamma)
    (hd : DomBounds dom c) (x y : Rat) (hx : dom x) (hy : dom y) (hix : inOrig c x) (hiy : inOrig c y) (hxy : x < y) :
    call φ c x < call φ c y := by
  obtain ⟨a1, a2⟩ := g_in_box S c hg hd x hx hix
  obtain ⟨b1, b2⟩ := g_in_box S c hg hd y hy hiy
  unfold call
  rw [clampE_id _ _ _ a1 a2, clampE_id _ _ _ b1 b2]
  exact gAff_strictMono c hg _ _ (S.mono x y hx hy hxy)

/-- ... and so is the inverse map (for an increasing `ψ`). -/
theorem inverse_mono (ψ : Rat → Rat) (hψ : ∀ s t, s ≤ t → ψ s ≤ ψ t) (c : Coord) (hg : 0 < c.gamma)
    (u v : Rat) (huv : u ≤ v) : inverse ψ c u ≤ inverse ψ c v := by
  unfold inverse
  apply clampE_mono
  apply hψ
  unfold ginvAff
  have := mul_le_mul_of_nonneg_left huv (le_of_lt hg)
  linarith

/-- RANGES: outputs of either direction never leave the respective box - for ANY input, also
    outside the box, and for ANY inner map. -/
theorem inverse_range (ψ : Rat → Rat) (c : Coord) (y : Rat) (hl : isLo c.origLo = true) (hh : isHi c.origHi = true)
    (hlh : loLeHi c.origLo c.origHi = true) :
    geLo c.origLo (inverse ψ c y) ∧ leHi c.origHi (inverse ψ c y) :=
  clampE_mem _ _ _ hl hh hlh

theorem call_range (φ : Rat → Rat) (c : Coord) (x : Rat) (hl : isLo (lbT φ c) = true) (hh : isHi (ubT φ c) = true)
    (hlh : loLeHi (lbT φ c) (ubT φ c) = true) :
    geLo (lbT φ c) (call φ c x) ∧ leHi (ubT φ c) (call φ c x) :=
  clampE_mem _ _ _ hl hh hlh

/-- DECISION RULE: a coordinate is log-transformed exactly when nonlinear scaling is enabled, all
    four of its bounds are positive and the plausible range spans at least a decade. -/
theorem applyLog_iff (nonlinear : Bool) (lb ub : Ext) (plb pub : Rat) :
    applyLog nonlinear lb ub plb pub = true ↔
      nonlinear = true ∧ extPos lb = true ∧ extPos ub = true ∧ 0 < plb ∧ 0 < pub ∧ 10 ≤ Fl.div pub plb := by
  simp only [applyLog, Bool.and_eq_true, decide_eq_true_eq, gt_iff_lt, ge_iff_le]
  tauto

theorem affine_otherwise (φ : Rat → Rat) (lb ub : Ext) (plb pub : Rat) :
    (mkCoord φ false lb ub plb pub).isLog = false := rfl

/-! Non-vacuity (affine instance): a box with an infinite upper bound, points in, on and outside it. -/
example :
    let c := mkCoord id false (.fin (-4)) .pinf (-2) 3
    0 < c.gamma ∧ call id c (-2) = -1 ∧ call id c 3 = 1 ∧ call id c (-10) = -9/5 ∧ inverse id c (call id c 1000) = 1000 ∧
    inverse id c (-7) = -4 := by
  decide +kernel

end Bads.Tr
