/-
  C16, end to end: in the composed models of a whole run (`Full`, any noise mode; `Det`, deterministic targets) the
  outcome of every GP fit - success, failure, retries, the hyper-parameters and predictions that result - enters
  only through oracle inputs that the theorems quantify universally (the acquisition ranking `searchPick` /
  `pollOrder`, the estimates `(f, sd)`, the threshold and the stall flags).  So every guarantee of
  `Full.full_run_spec`, `Full.full_terminates`, `Det.det_run_spec` holds verbatim for runs in which fits fail, once or
  many times in a row.  Re-exported here so that C16's audit covers them; the mesh invariant is lifted as well.
-/
import BadsProofs.Props.C16
import BadsProofs.Props.C19Run
import BadsProofs.Props.C04Run

namespace Bads

theorem guarantees_survive_faults_composed :
    (∀ (e : Full.Env), boxOK e.pipe.lb e.pipe.ub = true → 1 ≤ e.o.nTry → ∀ (qs : List Full.Orc), (∀ q ∈ qs, Full.OrcOK e q) →
        ∀ s0 : Full.St, Full.Inv e s0 →
          (∀ p ∈ (Full.run e qs s0).pairs, InBox e.pipe.lb e.pipe.ub p.1) ∧
          (∀ c, e.pipe.cons = some c → ∀ p ∈ (Full.run e qs s0).pairs, c p.1 = false) ∧
          (Full.run e qs s0).ctl.c.fc ≤ e.o.budget ∧
          ((Full.run e qs s0).ns.u, (Full.run e qs s0).ns.yval) ∈ (Full.run e qs s0).pairs) ∧
    (∀ (e : Full.Env), 1 ≤ e.o.nTry → ∀ (qs : List Full.Orc) (s : Full.St), Ctl.CInv e.o s.ctl.c → Ctl.rank e.o s.ctl.c < qs.length →
        (Full.run e qs s).ctl.c.finished = true) ∧
    (∀ (e : Det.Env), boxOK e.pipe.lb e.pipe.ub = true → 1 ≤ e.o.nTry → ∀ (qs : List Det.Orc), (∀ q ∈ qs, Det.OrcOK e q) →
        ∀ s0 : Det.St, Det.Inv e s0 →
          (Det.run e qs s0).inc.fval = e.f (Det.run e qs s0).inc.u ∧ ∀ p ∈ (Det.run e qs s0).log, e.f (Det.run e qs s0).inc.u ≤ e.f p.1) := by
  refine ⟨?_, ?_, ?_⟩
  · intro e hb hn qs hq s0 h0
    obtain ⟨h1, _, h3, h4, h5⟩ := Full.full_run_spec e hb hn qs hq s0 h0
    exact ⟨h3, h4, h5, h1⟩
  · intro e hn qs s hc hr
    exact Full.full_terminates e hn qs s hc hr
  · intro e hb hn qs hq s0 h0
    obtain ⟨_, h2, h3, _⟩ := Det.det_run_spec e hb hn qs hq s0 h0
    exact ⟨h2, h3⟩

/-- MESH (C13) in the composed model of any noise mode. -/
theorem full_run_minv (e : Full.Env) (hs : e.o.sgm = 2) (hc : e.o.cap ≤ e.o.sgn) :
    ∀ (qs : List Full.Orc) (s : Full.St), Ctl.MInv e.o s.ctl.m → Ctl.MInv e.o (Full.run e qs s).ctl.m
  | [], _, h => h
  | q :: qs, s, h => by
    unfold Full.run
    by_cases hf : s.ctl.c.finished = true
    · rw [if_pos hf]; exact h
    · rw [if_neg hf]
      exact full_run_minv e hs hc qs _ (Ctl.mstep_minv e.o s.ctl (Full.outOf e s q) hs hc h)

end Bads
