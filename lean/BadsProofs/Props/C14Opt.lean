/-
  C14 over ONE WHOLE CALL of `optimize()` (model `Opt`): in every iteration of the loop of a whole call - the loop entered in the state the initial
  phase derives, any noise mode - the polled points are incumbent (after this iteration's search) + mesh size × a vector of ONE basis of the
  `poll_mads_2n` form, pairwise distinct, at most 2·D of them.
-/
import BadsProofs.Props.C14Run
import BadsProofs.Props.C13Opt

namespace Bads.Opt
open Bads

/-- every iteration of the loop of a whole call (states of `Reach`), given that the candidate set handed to the filter is the generated poll set -/
theorem optimize_poll_form (D : Nat) (mult : Rat) (e : Env) (io : InitOrc) (s : Full.St) (q : Full.Orc)
    (_h : Reach (loopEnv e (init e io)) (loopStart e (init e io)) s)
    (hp : Full.PollSetOK D mult (loopEnv e (init e io)) s q) (hn : q.pollOrder.Nodup) :
    Full.StepForm D mult (loopEnv e (init e io)) s q :=
  ⟨Full.poll_step_form D mult _ s q hp, Full.poll_step_nodup _ s q hn, Full.poll_step_at_most_2D D mult _ s q hp hn⟩

/-- ... and along the whole oracle stream of the call -/
theorem optimize_polls_form (D : Nat) (mult : Rat) (e : Env) (io : InitOrc) (qs : List Full.Orc)
    (h : Full.PollsOK D mult (loopEnv e (init e io)) qs (loopStart e (init e io))) :
    Full.AllPolls (Full.StepForm D mult (loopEnv e (init e io))) (loopEnv e (init e io)) qs (loopStart e (init e io)) :=
  Full.run_polls_form D mult _ qs _ h

end Bads.Opt
