/-
  C18 - The search step evaluates the acquisition-optimal candidate, once.
-/
import BadsModel.Search
import BadsProofs.Lemmas.CtlLemmas
import Mathlib.Tactic.Linarith
import Mathlib.Tactic.FieldSimp
import Mathlib.Tactic.Ring

namespace Bads.Srch

theorem insertBy_perm (a : Cand) : ∀ l : List Cand, (insertBy a l).Perm (a :: l)
  | [] => List.Perm.refl _
  | b :: bs => by
    unfold insertBy
    split
    · exact List.Perm.refl _
    · exact ((insertBy_perm a bs).cons b).trans (List.Perm.swap a b bs)

theorem sortZ_perm : ∀ l : List Cand, (sortZ l).Perm l
  | [] => List.Perm.refl _
  | a :: as => (insertBy_perm a _).trans ((sortZ_perm as).cons a)

theorem insertBy_sorted (a : Cand) : ∀ l : List Cand, l.Pairwise (fun x y => x.2 ≤ y.2) →
    (insertBy a l).Pairwise (fun x y => x.2 ≤ y.2)
  | [], _ => by simp [insertBy]
  | b :: bs, h => by
    unfold insertBy
    have hb := List.pairwise_cons.mp h
    split
    · rename_i hab
      rw [List.pairwise_cons]
      refine ⟨?_, h⟩
      intro c hc
      rcases List.mem_cons.mp hc with rfl | hc
      · exact hab
      · exact le_trans hab (hb.1 c hc)
    · rename_i hnab
      have hba : b.2 ≤ a.2 := le_of_lt (not_le.mp hnab)
      rw [List.pairwise_cons]
      refine ⟨?_, insertBy_sorted a bs hb.2⟩
      intro c hc
      rcases List.mem_cons.mp ((insertBy_perm a bs).mem_iff.mp hc) with rfl | hc'
      · exact hba
      · exact hb.1 c hc'

theorem sortZ_sorted : ∀ l : List Cand, (sortZ l).Pairwise (fun x y => x.2 ≤ y.2)
  | [] => by simp [sortZ]
  | a :: as => insertBy_sorted a _ (sortZ_sorted as)

/-- THE PROPOSED POINT IS AN ACQUISITION-OPTIMAL SURVIVOR: it is one of the candidates that
    survived filtering in some generation, and no surviving candidate of any generation has a
    lower acquisition value (for every population size, `λ ≥ 1`). -/
theorem es_returns_argmin (lam : Nat) (hl : 1 ≤ lam) (gens : List (List Cand)) (c : Cand)
    (h : esResult lam gens = some c) :
    c ∈ gens.flatten ∧ ∀ d ∈ gens.flatten, c.2 ≤ d.2 := by
  unfold esResult esKeep at h
  simp only at h
  have hperm := sortZ_perm gens.flatten
  have hsorted := sortZ_sorted gens.flatten
  cases hs : sortZ gens.flatten with
  | nil => simp [hs] at h
  | cons a as =>
    have hlen : 0 < min gens.flatten.length lam := by
      have : (sortZ gens.flatten).length = gens.flatten.length := hperm.length_eq
      rw [hs] at this
      simp only [List.length_cons] at this
      omega
    rw [hs] at h
    obtain ⟨n, hn⟩ : ∃ n, min gens.flatten.length lam = n + 1 := ⟨_, (Nat.succ_pred_eq_of_pos hlen).symm⟩
    rw [hn] at h
    simp only [List.take_succ_cons, List.head?_cons, Option.some.injEq] at h
    subst h
    rw [hs] at hperm hsorted
    refine ⟨hperm.mem_iff.mp List.mem_cons_self, ?_⟩
    intro d hd
    rcases List.mem_cons.mp (hperm.mem_iff.mpr hd) with rfl | hd'
    · exact le_refl _
    · exact (List.pairwise_cons.mp hsorted).1 d hd'

/-- No survivors in any generation: nothing is proposed (the empty-search-set branch). -/
theorem es_empty (lam : Nat) (gens : List (List Cand)) (h : gens.flatten = []) : esResult lam gens = none := by
  simp [esResult, esKeep, h, sortZ]

/-! ### selection mask: structural facts for ARBITRARY final weights -/

/-- consecutive entries differ by 0 or +1 -/
def unitSteps : List Nat → Prop
  | a :: b :: rest => a ≤ b ∧ b ≤ a + 1 ∧ unitSteps (b :: rest)
  | _ => True

theorem cumsum_step : ∀ (xs : List Nat) (acc : Nat), (∀ x ∈ xs, x ≤ 1) → unitSteps (cumsum xs acc)
  | [], _, _ => by simp [cumsum, unitSteps]
  | [x], acc, _ => by simp [cumsum, unitSteps]
  | x :: y :: xs, acc, h => by
    have hy := h y (by simp)
    have ih := cumsum_step (y :: xs) (acc + x) (fun z hz => h z (List.mem_cons_of_mem _ hz))
    simp only [cumsum] at ih ⊢
    simp only [unitSteps]
    exact ⟨by omega, by omega, ih⟩

theorem marks_le_one (cw : List Nat) : ∀ x ∈ marks cw, x ≤ 1 := by
  intro x hx
  simp only [marks, List.mem_map] at hx
  obtain ⟨i, _, rfl⟩ := hx
  split <;> omega

/-- MONOTONE WITH UNIT STEPS: consecutive offspring take the same or the next parent. -/
theorem mask_monotone (w : List Nat) : unitSteps (maskOf w) := by
  unfold maskOf
  exact cumsum_step _ 0 (fun x hx => marks_le_one _ x (List.dropLast_subset _ hx))

theorem cumsum_le : ∀ (xs : List Nat) (acc k : Nat) (v : Nat), (∀ x ∈ xs, x ≤ 1) → (cumsum xs acc)[k]? = some v → v ≤ acc + k + 1
  | [], _, _, _, _, h => by simp [cumsum] at h
  | x :: xs, acc, 0, v, hx, h => by
    simp only [cumsum, List.getElem?_cons_zero, Option.some.injEq] at h
    have := hx x List.mem_cons_self; omega
  | x :: xs, acc, k + 1, v, hx, h => by
    simp only [cumsum, List.getElem?_cons_succ] at h
    have := cumsum_le xs (acc + x) k v (fun z hz => hx z (List.mem_cons_of_mem _ hz)) h
    have := hx x List.mem_cons_self; omega

theorem starts_pos : ∀ (w : List Nat) (acc : Nat), ∀ c ∈ starts w acc, 1 ≤ c
  | [], _, c, h => by simp [starts] at h
  | w :: ws, acc, c, h => by
    simp only [starts, List.mem_cons] at h
    rcases h with rfl | h
    · omega
    · exact starts_pos ws _ c h

/-- THE FIRST OFFSPRING COMES FROM THE BEST PARENT, and offspring `k` never skips ahead of parent
    `k`: `mask[0] = 0`, `mask[k] ≤ k`. -/
theorem mask_le_index (w : List Nat) (k v : Nat) (h : (maskOf w)[k]? = some v) : v ≤ k := by
  unfold maskOf at h
  simp only at h
  -- the first mark is 0 because every block start is ≥ 1
  have h0 : ∀ idx : List Nat, idx = marks (starts w 0) → idx.head? = some 0 := by
    intro idx hidx
    subst hidx
    simp only [marks]
    have hnot : (starts w 0).contains 0 = false := by
      cases hc : (starts w 0).contains 0 with
      | false => rfl
      | true =>
        have := starts_pos w 0 0 (by simpa using hc)
        omega
    have hmem : 0 ∉ starts w 0 := fun hc => by
      have := starts_pos w 0 0 hc
      omega
    simp [List.range_succ_eq_map, hmem]
  have hle := marks_le_one (starts w 0)
  generalize hidx : marks (starts w 0) = idx at h hle
  have hh := h0 idx hidx.symm
  cases idx with
  | nil => simp [cumsum] at h
  | cons a as =>
    simp only [List.head?_cons, Option.some.injEq] at hh
    subst hh
    cases as with
    | nil => simp [cumsum] at h
    | cons b bs =>
      have hd : (0 :: b :: bs).dropLast = 0 :: (b :: bs).dropLast := by simp [List.dropLast]
      rw [hd] at h
      cases k with
      | zero => simp [cumsum] at h; omega
      | succ k =>
        simp only [cumsum, List.getElem?_cons_succ, Nat.add_zero] at h
        have := cumsum_le (b :: bs).dropLast 0 k v
          (fun x hx => hle x (List.mem_cons_of_mem _ (List.dropLast_subset _ hx))) h
        omega

/-! ### hedge -/

theorem sumQ_map_div (e : List Rat) (s : Rat) : sumQ (e.map (fun x => x / s)) = sumQ e / s := by
  induction e with
  | nil => simp [sumQ]
  | cons a as ih => simp only [List.map_cons, sumQ, ih]; ring

theorem sumQ_affine (e : List Rat) (a b : Rat) : sumQ (e.map (fun x => x * a + b)) = sumQ e * a + (e.length : Rat) * b := by
  induction e with
  | nil => simp [sumQ]
  | cons x xs ih => simp only [List.map_cons, sumQ, ih, List.length_cons]; push_cast; ring

/-- A PROPER DISTRIBUTION: the strategy probabilities sum to 1 ... -/
theorem hedge_sum_one (e : List Rat) (gamma : Rat) (hs : sumQ e ≠ 0) : sumQ (hedgeProbs e gamma) = 1 := by
  unfold hedgeProbs
  have : (e.map (fun ei => ei / sumQ e * (1 - (e.length : Rat) * gamma) + gamma)) =
      (e.map (fun x => x / sumQ e)).map (fun x => x * (1 - (e.length : Rat) * gamma) + gamma) := by
    simp [List.map_map, Function.comp]
  rw [this, sumQ_affine, sumQ_map_div, List.length_map, div_self hs]
  ring

/-- ... and each is at least the exploration floor `gamma` (for non-negative scores and `n·gamma ≤ 1`). -/
theorem hedge_ge_floor (e : List Rat) (gamma : Rat) (hpos : ∀ x ∈ e, 0 ≤ x) (hs : 0 < sumQ e)
    (hg : (e.length : Rat) * gamma ≤ 1) : ∀ p ∈ hedgeProbs e gamma, gamma ≤ p := by
  intro p hp
  simp only [hedgeProbs, List.mem_map] at hp
  obtain ⟨x, hx, rfl⟩ := hp
  have h1 : 0 ≤ x / sumQ e := div_nonneg (hpos x hx) (le_of_lt hs)
  have h2 : 0 ≤ 1 - (e.length : Rat) * gamma := by linarith
  have := mul_nonneg h1 h2
  linarith

/-- THE DRAW IS DEFINED: a uniform draw below the total mass selects some strategy
    (`acc ≤ r` records that all earlier partial sums were not above the draw). -/
theorem choose_defined : ∀ (ps : List Rat) (acc r : Rat) (i : Nat), acc ≤ r → r < acc + sumQ ps → ∃ j, choose r ps acc i = some j
  | [], acc, r, i, hacc, h => by
    simp only [sumQ, add_zero] at h
    exact absurd h (not_lt.mpr hacc)
  | p :: ps, acc, r, i, hacc, h => by
    simp only [choose]
    split
    · exact ⟨i, rfl⟩
    · rename_i hnot
      apply choose_defined ps (acc + p) r (i + 1) (not_lt.mp hnot)
      simp only [sumQ] at h
      linarith

theorem hedge_draw_defined (e : List Rat) (gamma r : Rat) (hs : sumQ e ≠ 0) (h0 : 0 ≤ r) (h1 : r < 1) :
    ∃ j, choose r (hedgeProbs e gamma) 0 0 = some j :=
  choose_defined _ 0 r 0 h0 (by rw [hedge_sum_one e gamma hs]; linarith)

/-- ONE EVALUATION AT MOST: a search step raises the evaluation count by 0 or 1 (C03's counter model). -/
theorem search_step_at_most_one_call (o : Ctl.Opts) (c : Ctl.CSt) (search : Ctl.SOut) :
    (Ctl.cAfterSearch o c search).fc ≤ c.fc + 1 ∧ c.fc ≤ (Ctl.cAfterSearch o c search).fc := by
  unfold Ctl.cAfterSearch
  split
  · cases search <;> simp
  · simp

/-! Non-vacuity: two generations, the optimum appears in the second; a mask; hedge probabilities. -/
example :
    esResult 3 [[([1], 5), ([2], 4)], [([3], 7), ([4], 2), ([5], 9)]] = some ([4], 2) ∧
    maskOf [2, 1, 1, 0] = [0, 1, 1, 2, 3] ∧
    hedgeProbs [3, 1] (1/8) = [11/16, 5/16] ∧ choose (7/10) [11/16, 5/16] 0 0 = some 1 := by
  decide +kernel

end Bads.Srch
