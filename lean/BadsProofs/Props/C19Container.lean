/-
  C19 (container level) - IterationHistory / OptimizeResult: for arbitrary record/overwrite
  sequences (keys, iteration indices, values).
-/
import BadsModel.History
import Mathlib.Tactic.Linarith

namespace Bads.Hist

variable {V : Type}

theorem lookup_store_same (d : List (String × List (Option V))) (key : String) (slots : List (Option V)) :
    ((store d key slots).find? (fun e => e.1 == key)).map (·.2) = some slots := by
  unfold store
  split
  · rename_i hany
    induction d with
    | nil => simp at hany
    | cons e es ih =>
      simp only [List.map_cons, List.find?_cons]
      by_cases he : (e.1 == key) = true
      · simp [he]
      · have he' : (e.1 == key) = false := by simpa using he
        simp only [he', Bool.false_eq_true, if_false]
        have : es.any (fun e => e.1 == key) = true := by simpa [he'] using hany
        exact ih this
  · rename_i hany
    have hnone : d.find? (fun e => e.1 == key) = none := by
      rw [List.find?_eq_none]
      intro e he
      have := hany
      simp only [List.any_eq_true, not_exists, not_and] at this
      exact this e he
    simp [List.find?_append, hnone]

theorem find_map_other (key k' : String) (slots : List (Option V)) (hne' : (key == k') = false) :
    ∀ d : List (String × List (Option V)),
    ((d.map (fun e => if e.1 == key then (key, slots) else e)).find? (fun e => e.1 == k')).map (·.2) =
      (d.find? (fun e => e.1 == k')).map (·.2)
  | [] => rfl
  | e :: es => by
    simp only [List.map_cons, List.find?_cons]
    by_cases he : (e.1 == key) = true
    · have hek : e.1 = key := by simpa using he
      have h2 : (e.1 == k') = false := by rw [hek]; exact hne'
      simp only [he, if_true, hne', h2]
      exact find_map_other key k' slots hne' es
    · have he' : (e.1 == key) = false := by simpa using he
      simp only [he', Bool.false_eq_true, if_false]
      split
      · rfl
      · exact find_map_other key k' slots hne' es

theorem lookup_store_other (d : List (String × List (Option V))) (key k' : String) (slots : List (Option V))
    (hne : (k' == key) = false) :
    ((store d key slots).find? (fun e => e.1 == k')).map (·.2) = (d.find? (fun e => e.1 == k')).map (·.2) := by
  have hne' : (key == k') = false := by
    rw [Bool.eq_false_iff] at hne ⊢
    intro h; apply hne; rw [beq_iff_eq] at h ⊢; exact h.symm
  unfold store
  split
  · exact find_map_other key k' slots hne' d
  · simp [List.find?_append, hne']

theorem setSlot_get (l : List (Option V)) (i : Nat) (v : V) : (setSlot l i v)[i]? = some (some v) := by
  unfold setSlot
  split
  · simp [List.getElem?_set]; omega
  · rename_i h; simp [List.getElem?_set]; omega

theorem setSlot_get_ne (l : List (Option V)) (i j : Nat) (v : V) (hne : j ≠ i) :
    ((setSlot l i v)[j]?).join = (l[j]?).join := by
  unfold setSlot
  split
  · rename_i hle
    rw [List.getElem?_set_ne (Ne.symm hne)]
    by_cases hj : j < l.length
    · rw [List.getElem?_append_left hj]
    · rw [List.getElem?_append_right (by omega)]
      have : l[j]? = none := List.getElem?_eq_none (by omega)
      rw [this]
      by_cases hj2 : j - l.length < i + 1 - l.length
      · simp [List.getElem?_replicate, hj2]
      · simp [List.getElem?_replicate, hj2]
  · rw [List.getElem?_set_ne (Ne.symm hne)]

/-- READ BACK: what was recorded for `(key, it)` is what is read there afterwards. -/
theorem get_record (h h' : H V) (key : String) (v : V) (it : Int) (hr : record h key v it = .ok h') :
    get h' key it.toNat = some v := by
  unfold record at hr
  split at hr
  · cases hr
  · split at hr
    · cases hr
    · cases hr
      simp only [get, lookup, lookup_store_same, setSlot_get, Option.join_some]

/-- FRAME: recording `(key, it)` changes no other key and no other iteration of the same key. -/
theorem record_frame (h h' : H V) (key : String) (v : V) (it : Int) (hr : record h key v it = .ok h')
    (k' : String) (j : Nat) (hne : k' ≠ key ∨ j ≠ it.toNat) : get h' k' j = get h k' j := by
  unfold record at hr
  split at hr
  · cases hr
  · split at hr
    · cases hr
    · cases hr
      by_cases hk : k' = key
      · subst hk
        have hj : j ≠ it.toNat := by rcases hne with h | h; exact absurd rfl h; exact h
        simp only [get, lookup, lookup_store_same]
        rw [setSlot_get_ne _ _ _ _ hj]
        cases hl : (h.data.find? (fun e => e.1 == k')).map (·.2) with
        | none =>
          simp only [Option.getD_none]
          cases j <;> simp
        | some slots => simp
      · have hb : (k' == key) = false := by simpa using hk
        simp only [get, lookup, lookup_store_other _ _ _ _ hb]

/-- ERRORS: a negative iteration or a key that was not declared is rejected and nothing is stored. -/
theorem record_errors (h : H V) (key : String) (v : V) (it : Int) :
    (it < 0 → record h key v it = .error .valueError) ∧
    (h.keys.contains key = false → record h key v it = .error .valueError) := by
  constructor
  · intro hlt; simp [record, hlt]
  · intro hk
    have : key ∉ h.keys := by simpa using hk
    unfold record; split <;> simp [this]

/-- The declared key set never changes. -/
theorem record_keys (h h' : H V) (key : String) (v : V) (it : Int) (hr : record h key v it = .ok h') :
    h'.keys = h.keys := by
  unfold record at hr
  split at hr
  · cases hr
  · split at hr
    · cases hr
    · cases hr; rfl

/-! ### OptimizeResult -/

/-- Unknown keys are rejected with ValueError; nothing is stored. -/
theorem res_set_unknown (r : Res V) (key : String) (v : V) (h : r.allowed.contains key = false) :
    r.set key v = .error .valueError := by
  have : key ∉ r.allowed := by simpa using h
  simp [Res.set, this]

/-- A field reads the same by key and by attribute; a missing field is KeyError by key and
    AttributeError by attribute. -/
theorem res_get_agree (r : Res V) (key : String) :
    (∀ v, r.getItem key = .ok v ↔ r.getAttr key = .ok v) ∧
    (r.getItem key = .error .keyError ↔ r.getAttr key = .error .attributeError) := by
  unfold Res.getAttr
  cases hg : r.getItem key with
  | ok v => simp
  | error e =>
    unfold Res.getItem at hg
    split at hg
    · cases hg
    · cases hg; simp

theorem res_set_get (r r' : Res V) (key : String) (v : V) (h : r.set key v = .ok r') :
    r'.getItem key = .ok v := by
  unfold Res.set at h
  split at h
  · cases h
  · cases h
    simp only [Res.getItem]
    have : (List.filter (fun e => e.1 != key) r.items ++ [(key, v)]).find? (fun e => e.1 == key) = some (key, v) := by
      rw [List.find?_append]
      have : (List.filter (fun e => e.1 != key) r.items).find? (fun e => e.1 == key) = none := by
        rw [List.find?_eq_none]
        intro e he
        have := (List.mem_filter.mp he).2
        simpa using this
      simp [this]
    rw [this]

/-! Non-vacuity -/
example :
    let h0 : H Nat := { keys := ["u", "fval"], data := [] }
    (match record h0 "fval" 7 2 with
     | .ok h1 => (get h1 "fval" 2, get h1 "fval" 0, get h1 "u" 2, slotsLen h1 "fval")
     | .error _ => (none, none, none, 0)) = (some 7, none, none, 3) ∧
    (match record h0 "nokey" 1 0 with | .error e => decide (e = Err.valueError) | .ok _ => false) = true := by
  constructor <;> decide

end Bads.Hist
