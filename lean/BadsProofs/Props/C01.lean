/-
  C01 - Hard box bounds are never left.

  Theorems: (a) whatever internal point is mapped back, the original-space point handed to the
  target / constraint function / returned lies in the original hard box (`inverse_in_orig_box`);
  (b) mesh snapping and the search box (`forceToGrid_close`, `search_box_inside_hard_box`,
  `search_box_nonempty`); (c) every filtered candidate set lies in its box (`filter_in_box`, C17);
  (d) for EVERY sequence of candidate sets and picks (all seeds, landscapes, ES/poll/Sobol
  outcomes), every evaluated internal point lies in `[lb, ub]` (`pipeline_calls_in_box`).
-/
import BadsModel.Pipeline
import BadsProofs.Lemmas.MeshLemmas
import BadsProofs.Props.C17

namespace Bads.Pipe

/-- (a) The original-space image of ANY internal point is inside the original hard box. -/
theorem inverse_in_orig_box (e : Env) (u : Pt) (hb : boxOK e.origLo e.origHi = true)
    (hl : (e.ginv u).length = e.origLo.length) : InBox e.origLo e.origHi (inverse e u) :=
  clampPt_inBox e.origLo e.origHi (e.ginv u) hb hl

/-- ... and points whose un-clamped image is already inside are returned unchanged (the clamp is
    the identity inside the box, so it only ever repairs rounding at the bounds). -/
theorem inverse_id_inside (e : Env) (u : Pt) (h : InBox e.origLo e.origHi (e.ginv u)) :
    inverse e u = e.ginv u := clampPt_id _ _ _ h

/-- (b) Snapping to the mesh moves a coordinate by at most half a mesh step. -/
theorem snap_close (h x : Rat) (hh : 0 < h) : |forceToGrid h x - x| ≤ h / 2 := forceToGrid_close h x hh

/-- (b) The mesh-rounded search box lies inside the hard box ... -/
theorem search_box_inside_hard_box (h : Rat) (hh : 0 < h) (lb ub : List Ext) (p : Pt)
    (hp : InBox (searchLo h lb) (searchHi h ub) p) : InBox lb ub p := inBox_search_sub h hh lb ub p hp

/-- ... and is a well-formed (non-empty) box whenever the hard box is at least two mesh steps wide. -/
theorem search_box_nonempty (h : Rat) (hh : 0 < h) (lb ub : List Ext) (hb : boxOK lb ub = true)
    (hw : wideB h lb ub = true) : boxOK (searchLo h lb) (searchHi h ub) = true := searchBox_ok h hh lb ub hb hw

/-- The start-point routine returns an error or a point inside `[lb, ub]`. -/
theorem gridStart_ok_or_error (h : Rat) (lb ub : List Ext) (u0 g : Pt) (hg : gridStart h lb ub u0 = some g) :
    InBox lb ub g := by
  simp only [gridStart] at hg
  split at hg
  · cases hg; assumption
  · cases hg

/-- Well-formedness of an oracle step: a projected set is filtered on a positive mesh against a
    wide enough box and its rows have the box's dimension. -/
def StepOK (e : Env) : Step → Prop
  | .filt true h U _ _ => 0 < h ∧ wideB h e.lb e.ub = true ∧ ∀ p ∈ U, p.length = e.lb.length
  | _ => True

theorem pickAll_sub (out : List Pt) : ∀ (picks : List Nat), ∀ p ∈ pickAll out picks, p ∈ out
  | [], p, h => by simp [pickAll] at h
  | i :: is, p, h => by
    simp only [pickAll, List.mem_append] at h
    rcases h with h | h
    · cases hi : out[i]? with
      | none => simp [hi] at h
      | some q =>
        simp only [hi, List.mem_singleton] at h
        subst h
        exact List.mem_of_getElem? hi
    · exact pickAll_sub out is p h

theorem step_in_box (e : Env) (hb : boxOK e.lb e.ub = true) (evals : List Pt) (s : Step) (hs : StepOK e s)
    (h : ∀ u ∈ evals, InBox e.lb e.ub u) : ∀ u ∈ step e evals s, InBox e.lb e.ub u := by
  intro u hu
  cases s with
  | revisit k =>
    simp only [step, List.mem_append] at hu
    rcases hu with hu | hu
    · exact h u hu
    · cases hk : evals[k]? with
      | none => simp [hk] at hu
      | some q =>
        simp only [hk, List.mem_singleton] at hu
        subst hu
        exact h _ (List.mem_of_getElem? hk)
  | filt proj hm U logX picks =>
    simp only [step, List.mem_append] at hu
    rcases hu with hu | hu
    · exact h u hu
    · have hmem := pickAll_sub _ picks u hu
      cases proj with
      | false =>
        have := filter_in_box (filterIn e false hm U logX) (by intro hp; simp [filterIn] at hp) u hmem
        simpa [filterIn] using this
      | true =>
        obtain ⟨hpos, hw, hlen⟩ := hs
        have hbox := searchBox_ok hm hpos e.lb e.ub hb hw
        have := filter_in_box (filterIn e true hm U logX)
          (by intro _; exact ⟨by simpa [filterIn] using hbox, by intro p hp; simpa [filterIn, searchLo_length] using hlen p hp⟩) u hmem
        have this' : inBoxB (searchLo hm e.lb) (searchHi hm e.ub) u = true := by simpa [filterIn, InBox] using this
        exact inBox_search_sub hm hpos e.lb e.ub u this'

/-- (d) EVERY evaluated point, for every sequence of candidate sets and picks, lies in the hard
    box - given that the points evaluated so far (the checked start point) do. -/
theorem pipeline_calls_in_box (e : Env) (hb : boxOK e.lb e.ub = true) :
    ∀ (steps : List Step) (evals : List Pt), (∀ s ∈ steps, StepOK e s) → (∀ u ∈ evals, InBox e.lb e.ub u) →
      ∀ u ∈ run e evals steps, InBox e.lb e.ub u
  | [], evals, _, h => by simpa [run] using h
  | s :: ss, evals, hs, h => by
    simp only [run]
    exact pipeline_calls_in_box e hb ss _ (fun s' hs' => hs s' (List.mem_cons_of_mem _ hs'))
      (step_in_box e hb evals s (hs s List.mem_cons_self) h)

/-- The returned solution is the image of an evaluated point, hence inside the original box. -/
theorem result_in_box (e : Env) (u : Pt) (hb : boxOK e.origLo e.origHi = true)
    (hl : (e.ginv u).length = e.origLo.length) : InBox e.origLo e.origHi (inverse e u) :=
  inverse_in_orig_box e u hb hl

/-! Non-vacuity: a log-transformed coordinate (ginv is an arbitrary function here) with a
    candidate far outside the box. -/
example :
    let e : Env := { lb := [.fin (-2), .ninf], ub := [.fin 2, .pinf], origLo := [.fin (1/100), .ninf], origHi := [.fin 1000, .pinf],
                     tolMesh := 1/1024, cons := none, ginv := fun u => u.map (fun x => 1000 * x) }
    boxOK e.lb e.ub = true ∧ StepOK e (.filt true (1/4) [[7, 3], [1/3, -9]] [] [0, 1]) ∧
    run e [[0, 0]] [.filt true (1/4) [[7, 3], [1/3, -9]] [] [0, 1]] = [[0, 0], [1/3, -9], [2, 3]] ∧
    inverse e [2, 3] = [1000, 3000] := by
  refine ⟨by decide +kernel, ⟨by decide +kernel, by decide +kernel, ?_⟩, by decide +kernel, by decide +kernel⟩
  intro p hp
  simp only [List.mem_cons, List.mem_nil_iff, or_false] at hp
  rcases hp with rfl | rfl <;> rfl

end Bads.Pipe
