/-
  C14 - Each poll explores a positive spanning set of mesh directions at the incumbent.

  All statements are for EVERY dimension `n` and EVERY outcome of the random choices of the
  direction generator (all strictly-lower-triangular fills, all sign vectors, all permutations).
-/
import BadsModel.Poll
import Mathlib.LinearAlgebra.Matrix.Block
import Mathlib.LinearAlgebra.Matrix.Determinant.Basic
import Mathlib.LinearAlgebra.Matrix.NonsingularInverse
import Mathlib.Tactic.Linarith

open Matrix

namespace Bads.Poll

/-- The direction matrix as a Mathlib matrix: row `k` = direction `d_k` (same `dirEntry` as the
    executable `dirs`). -/
def dirMatrix {n : Nat} (draw : Nat → Nat → Int) (sgn : Nat → Bool) (nmax : Int) (σ : Equiv.Perm (Fin n)) :
    Matrix (Fin n) (Fin n) Int :=
  Matrix.of fun k r => dirEntry draw sgn nmax (fun i => if h : i < n then (σ ⟨i, h⟩).val else 0) k.val r.val

/-- The executable list of directions has exactly these entries. -/
theorem dirs_entries (n : Nat) (draw : Nat → Nat → Int) (sgn : Nat → Bool) (nmax : Int) (perm : Nat → Nat)
    (k r : Nat) (hk : k < n) (hr : r < n) :
    ((dirs n draw sgn nmax perm)[k]?.bind (·[r]?)) = some (dirEntry draw sgn nmax perm k r) := by
  simp [dirs, hk, hr]

/-- DETERMINANT: `det = sign σ · ∏ᵢ (±nmax)`. -/
theorem dirs_det {n : Nat} (draw : Nat → Nat → Int) (sgn : Nat → Bool) (nmax : Int) (σ : Equiv.Perm (Fin n)) :
    (dirMatrix draw sgn nmax σ).det =
      Equiv.Perm.sign σ * ∏ i : Fin n, (if sgn i.val then nmax else -nmax) := by
  have hT : dirMatrix draw sgn nmax σ =
      ((Matrix.of fun i j : Fin n => lowerTri draw sgn nmax i.val j.val).submatrix σ id)ᵀ := by
    ext k r
    simp [dirMatrix, dirEntry, Matrix.submatrix, Matrix.transpose]
  rw [hT, Matrix.det_transpose, Matrix.det_permute]
  congr 1
  rw [Matrix.det_of_lowerTriangular]
  · apply Finset.prod_congr rfl
    intro i _
    simp [lowerTri]
  · intro i j hij
    simp only [Matrix.of_apply, lowerTri]
    have hij' : i < j := hij
    have hlt : i.val < j.val := hij'
    have h1 : ¬ j.val < i.val := by omega
    have h2 : ¬ j.val = i.val := by omega
    simp [h1, h2]

/-- NON-SINGULAR: for `nmax ≠ 0` (the code has `nmax ≥ 1`) the determinant is not zero. -/
theorem dirs_nonsingular {n : Nat} (draw : Nat → Nat → Int) (sgn : Nat → Bool) (nmax : Int) (hn : nmax ≠ 0)
    (σ : Equiv.Perm (Fin n)) : (dirMatrix draw sgn nmax σ).det ≠ 0 := by
  rw [dirs_det]
  apply mul_ne_zero
  · exact Units.ne_zero _
  · apply Finset.prod_ne_zero_iff.mpr
    intro i _
    split <;> simpa using hn

theorem nmaxOf_pos (sms ms : Rat) : 1 ≤ nmaxOf sms ms := le_max_left _ _

/-- POSITIVE SPANNING: every rational vector is a NON-NEGATIVE combination of the `2n` directions
    `{+d_k, -d_k}`. -/
theorem dirs_positive_spanning {n : Nat} (draw : Nat → Nat → Int) (sgn : Nat → Bool) (nmax : Int) (hn : nmax ≠ 0)
    (σ : Equiv.Perm (Fin n)) (v : Fin n → ℚ) :
    ∃ cp cm : Fin n → ℚ, (∀ k, 0 ≤ cp k) ∧ (∀ k, 0 ≤ cm k) ∧
      ∀ r, v r = ∑ k, (cp k * ((dirMatrix draw sgn nmax σ k r : Int) : ℚ) + cm k * (-((dirMatrix draw sgn nmax σ k r : Int) : ℚ))) := by
  let M : Matrix (Fin n) (Fin n) ℚ := (dirMatrix draw sgn nmax σ).map (Int.cast : Int → ℚ)
  have hdet : M.det ≠ 0 := by
    have : M.det = ((dirMatrix draw sgn nmax σ).det : ℚ) := by
      simp only [M]
      exact (Int.cast_det _).symm
    rw [this]
    exact_mod_cast dirs_nonsingular draw sgn nmax hn σ
  have hu : IsUnit M.det := isUnit_iff_ne_zero.mpr hdet
  -- coefficients: c = v ᵥ* M⁻¹, so that c ᵥ* M = v
  let c : Fin n → ℚ := Matrix.vecMul v M⁻¹
  have hc : Matrix.vecMul c M = v := by
    simp only [c, Matrix.vecMul_vecMul, Matrix.nonsing_inv_mul M hu, Matrix.vecMul_one]
  refine ⟨fun k => max (c k) 0, fun k => max (-(c k)) 0, fun k => le_max_right _ _, fun k => le_max_right _ _, ?_⟩
  intro r
  have hr : v r = ∑ k, c k * M k r := by
    have := congrFun hc r
    simp only [Matrix.vecMul, dotProduct] at this
    exact this.symm
  rw [hr]
  apply Finset.sum_congr rfl
  intro k _
  have hM : M k r = ((dirMatrix draw sgn nmax σ k r : Int) : ℚ) := by simp [M]
  rw [hM]
  have hsplit : c k = max (c k) 0 - max (-(c k)) 0 := by
    rcases le_total (c k) 0 with h | h
    · rw [max_eq_right h, max_eq_left (by linarith)]; ring
    · rw [max_eq_left h, max_eq_right (by linarith)]; ring
  conv_lhs => rw [hsplit]
  ring

/-- ENTRIES BOUNDED by the mesh-ratio parameter, given draws in the generator's range. -/
theorem dirs_entries_bounded (draw : Nat → Nat → Int) (sgn : Nat → Bool) (nmax : Int) (perm : Nat → Nat)
    (hn : 1 ≤ nmax) (hd : ∀ i j, 1 - nmax ≤ draw i j ∧ draw i j ≤ nmax - 1) (k r : Nat) :
    |dirEntry draw sgn nmax perm k r| ≤ nmax := by
  simp only [dirEntry, lowerTri]
  have := hd (perm r) k
  split
  · rw [abs_le]; constructor <;> linarith [this.1, this.2]
  · split
    · split <;> simp [abs_of_nonneg, show (0:Int) ≤ nmax by linarith]
    · simp; linarith

/-- DEFAULT MESH SETTINGS (`nmax = 1`): the directions are exactly signed coordinate directions -
    entry `(k, r)` is `±1` if `perm r = k` and `0` otherwise. -/
theorem dirs_default_are_signed_unit_vectors (draw : Nat → Nat → Int) (sgn : Nat → Bool) (perm : Nat → Nat)
    (hd : ∀ i j, 1 - (1 : Int) ≤ draw i j ∧ draw i j ≤ 1 - 1) (k r : Nat) :
    dirEntry draw sgn 1 perm k r = if perm r = k then (if sgn (perm r) then 1 else -1) else 0 := by
  simp only [dirEntry, lowerTri]
  have := hd (perm r) k
  have h0 : draw (perm r) k = 0 := by omega
  by_cases h : perm r = k
  · subst h; simp
  · simp only [h, if_false]
    split
    · exact h0
    · simp [Ne.symm h]

/-- With the default options `search_mesh_size / mesh_size` rounds to at most 1 whenever the search
    mesh is not coarser than the poll mesh, so `nmax = 1`. -/
theorem nmax_default (sms ms : Rat) (h : roundHE (sms / ms) ≤ 1) : nmaxOf sms ms = 1 := by
  simp [nmaxOf, h]

/-! ### The poll loop -/

theorem removeAt_sublist {α : Type} : ∀ (l : List α) (i : Nat), (removeAt l i).Sublist l
  | [], _ => List.Sublist.refl _
  | _ :: as, 0 => List.sublist_cons_self _ as
  | a :: as, i + 1 => (removeAt_sublist as i).cons_cons a

theorem removeAt_length {α : Type} : ∀ (l : List α) (i : Nat) (a : α), l[i]? = some a → (removeAt l i).length + 1 = l.length
  | [], _, _, h => by simp at h
  | _ :: as, 0, _, _ => by simp [removeAt]
  | b :: as, i + 1, a, h => by
    simp only [List.getElem?_cons_succ] at h
    simp [removeAt, removeAt_length as i a h]

theorem removeAt_not_mem {α : Type} : ∀ (l : List α) (i : Nat) (a : α), l.Nodup → l[i]? = some a → a ∉ removeAt l i
  | [], _, _, _, h => by simp at h
  | b :: as, 0, a, hn, h => by
    simp only [List.getElem?_cons_zero, Option.some.injEq] at h
    subst h
    simpa [removeAt] using (List.nodup_cons.mp hn).1
  | b :: as, i + 1, a, hn, h => by
    simp only [List.getElem?_cons_succ] at h
    have hn' := List.nodup_cons.mp hn
    simp only [removeAt, List.mem_cons, not_or]
    refine ⟨?_, removeAt_not_mem as i a hn'.2 h⟩
    intro hab
    subst hab
    exact hn'.1 (List.mem_of_getElem? h)

/-- AT MOST `2n` POINTS, EACH AT MOST ONCE: whatever the acquisition ranking picks, the polled
    points are pairwise distinct members of the candidate set, and no more than it holds. -/
theorem pollLoop_nodup_sub {α : Type} : ∀ (picks : List Nat) (cands : List α), cands.Nodup →
    (pollLoop cands picks).Nodup ∧ (∀ p ∈ pollLoop cands picks, p ∈ cands) ∧ (pollLoop cands picks).length ≤ cands.length
  | [], _, _ => by simp [pollLoop]
  | i :: is, cands, hn => by
    unfold pollLoop
    cases hi : cands[i]? with
    | none => simp
    | some p =>
      simp only
      have hsub := removeAt_sublist cands i
      obtain ⟨h1, h2, h3⟩ := pollLoop_nodup_sub is (removeAt cands i) (hn.sublist hsub)
      refine ⟨?_, ?_, ?_⟩
      · rw [List.nodup_cons]
        exact ⟨fun hmem => removeAt_not_mem cands i p hn hi (h2 p hmem), h1⟩
      · intro q hq
        rcases List.mem_cons.mp hq with rfl | hq
        · exact List.mem_of_getElem? hi
        · exact hsub.subset (h2 q hq)
      · have := removeAt_length cands i p hi
        simp only [List.length_cons]; omega

theorem basis_length (n : Nat) (draw : Nat → Nat → Int) (sgn : Nat → Bool) (nmax : Int) (perm : Nat → Nat) :
    (basis n draw sgn nmax perm).length = 2 * n := by
  simp [basis, dirs]; omega

/-- Every candidate poll point is the incumbent plus `mesh_size` times a row of the basis. -/
theorem poll_points_form (u : Pt) (ms : Rat) (B : List (List Int)) :
    ∀ p ∈ pollPoints u ms B, ∃ b ∈ B, p = List.zipWith (fun (ui : Rat) (bi : Int) => ui + ms * (bi : Rat)) u b := by
  intro p hp
  simp only [pollPoints, List.mem_map] at hp
  obtain ⟨b, hb, rfl⟩ := hp
  exact ⟨b, hb, rfl⟩

/-! Non-vacuity: D = 3, mesh ratio 2 (so `nmax = 2`), a concrete draw. -/
example : nmaxOf (1/2) (1/4) = 2 ∧
    dirs 3 (fun i j => if i = 2 ∧ j = 0 then -1 else 1) (fun i => i == 1) 2 (fun r => [2, 0, 1].getD r 0) =
      [[-1, -2, 1], [1, 0, 2], [-2, 0, 0]] := by
  constructor <;> decide +kernel

end Bads.Poll
