/-
  C10 - Target failures and invalid target values surface immediately and unchanged.

  Model: the logger's `call` on an `Outcome` (Logger.lean) and a run as the sequence of calls
  optimize() makes; there is no handler around any target call (bads.py l.924, 934, 1013, 1649,
  2080, 1465), so the first failing call ends the run.  For EVERY position of the faulty call and
  every fault kind.
-/
import BadsProofs.Props.C12

namespace Bads.Log

/-- one target call of the run: the point (original, internal), what the target did, record flag -/
structure CallIn where
  xo : Pt
  x : Pt
  out : Outcome
  rd : Bool

/-- Make the calls in order; stop at the first failure (nothing encloses a target call). Returns
    the final logger state and, if a call failed, its index and the error that propagates. -/
def runCalls (s : St) : List CallIn → Nat → St × Option (Nat × Err)
  | [], _ => (s, none)
  | c :: cs, k =>
    match call s c.xo c.x c.out c.rd with
    | .ok (s', _) => runCalls s' cs (k + 1)
    | .error e => (s, some (k, e))

/-- an outcome the logger accepts -/
def Outcome.valid (he : Bool) : Outcome → Bool
  | .scalar (some _) => !he
  | .pair (some _) (some _) => he
  | _ => false

/-- the error an invalid outcome produces -/
def Outcome.errOf : Outcome → Err
  | .raises => .targetError
  | _ => .valueError

theorem call_invalid (s : St) (xo x : Pt) (out : Outcome) (rd : Bool) (h : out.valid s.he = false) :
    call s xo x out rd = .error out.errOf := by
  cases out with
  | raises => rfl
  | otherTuple => rfl
  | scalar y =>
    cases y with
    | none => simp only [call]; split <;> rfl
    | some y =>
      simp only [Outcome.valid, Bool.not_eq_false'] at h
      simp [call, h, Outcome.errOf]
  | pair y sd =>
    cases y <;> cases sd <;> simp_all [Outcome.valid, call, Outcome.errOf]
    all_goals (split <;> rfl)

/-- In specified-noise mode the logged points are pairwise distinct (repeats are merged). -/
def DistinctX (s : St) : Prop := s.he = true → (s.rows.map (·.x)).Nodup

theorem firstMatch_none_not_mem (x : Pt) : ∀ rows : List Row, firstMatch x rows = none → x ∉ rows.map (·.x)
  | [], _ => by simp
  | r :: rs, h => by
    unfold firstMatch at h
    split at h
    · cases h
    · rename_i hne
      have hrs : firstMatch x rs = none := by
        cases hf : firstMatch x rs with
        | none => rfl
        | some k => simp [hf] at h
      simp only [List.map_cons, List.mem_cons, not_or]
      refine ⟨?_, firstMatch_none_not_mem x rs hrs⟩
      intro hx; apply hne; simp [hx]

theorem countMatch_le_one_of_nodup (x : Pt) : ∀ rows : List Row, (rows.map (·.x)).Nodup → countMatch x rows ≤ 1
  | [], _ => by simp [countMatch]
  | r :: rs, h => by
    simp only [List.map_cons, List.nodup_cons] at h
    have ih := countMatch_le_one_of_nodup x rs h.2
    unfold countMatch at *
    simp only [List.filter_cons]
    split
    · rename_i hx
      have hx' : r.x = x := by simpa using hx
      have : (rs.filter (fun r => r.x == x)).length = 0 := by
        rw [List.length_eq_zero_iff, List.filter_eq_nil_iff]
        intro r' hr' hxr'
        apply h.1
        have : r'.x = x := by simpa using hxr'
        rw [hx', ← this]
        exact List.mem_map_of_mem hr'
      simp [this]
    · exact ih

theorem record_distinct (s : St) (xo x : Pt) (y sdv : Rat) (rd : Bool) (s' : St) (v : Rat) (idx : Option Nat)
    (h : record s xo x y (some sdv) rd = .ok (s', v, idx)) (hd : (s.rows.map (·.x)).Nodup) (hhe0 : s.he = true) :
    (s'.rows.map (·.x)).Nodup ∧ s'.he = s.he := by
  rcases record_cases s xo x y (some sdv) rd s' v idx h with ⟨i, _, _, h2, _, _⟩ | ⟨_, _, h2, _, _⟩ | ⟨i, sd', _, _, _, h2, _⟩ | ⟨c, _, h1, h2, _, _, _⟩
  · subst h2; exact ⟨by rw [show (bumpN s.rows i).map (·.x) = s.rows.map (·.x) from modAt_map (fun r => { r with n := r.n + 1 }) (fun r => r.x) (fun _ => rfl) s.rows i]; exact hd, rfl⟩
  · subst h2; exact ⟨hd, rfl⟩
  · subst h2; exact ⟨by rw [show (modAt (fun r => mergeRow r y sd') s.rows i).map (·.x) = s.rows.map (·.x) from modAt_map (fun r => mergeRow r y sd') (fun r => r.x) (fun _ => rfl) s.rows i]; exact hd, rfl⟩
  · subst h2
    rcases h1 with (h1 | h1) | h1
    · cases h1
    · rw [hhe0] at h1; cases h1
    · refine ⟨?_, rfl⟩
      simp only [List.map_append, List.map_cons, List.map_nil]
      rw [List.nodup_append]
      refine ⟨hd, by simp, ?_⟩
      intro a ha b hb
      simp only [List.mem_singleton] at hb
      subst hb
      intro hab; subst hab
      exact firstMatch_none_not_mem _ _ h1 ha

/-- a valid outcome is always accepted (the state stays in its mode, and keeps the invariant) -/
theorem call_valid_ok (s : St) (xo x : Pt) (out : Outcome) (rd : Bool) (h : out.valid s.he = true)
    (hinv : DistinctX s) : ∃ s' r, call s xo x out rd = .ok (s', r) ∧ s'.he = s.he ∧ DistinctX s' := by
  have keyNone : ∀ (y : Rat), ∃ s' v idx, record s xo x y none rd = .ok (s', v, idx) ∧ s'.he = s.he ∧
      (s.he = false → True) := by
    intro y
    unfold record
    cases rd with
    | false =>
      simp only [Bool.not_false, if_true]
      cases lastMatch x s.rows with
      | none => exact ⟨_, _, _, rfl, rfl, fun _ => trivial⟩
      | some i => exact ⟨_, _, _, rfl, rfl, fun _ => trivial⟩
    | true => exact ⟨_, _, _, rfl, rfl, fun _ => trivial⟩
  have keySome : ∀ (y sdv : Rat), (s.rows.map (·.x)).Nodup →
      ∃ s' v idx, record s xo x y (some sdv) rd = .ok (s', v, idx) := by
    intro y sdv hd
    have hc := countMatch_le_one_of_nodup x s.rows hd
    unfold record
    cases rd with
    | false =>
      simp only [Bool.not_false, if_true]
      cases lastMatch x s.rows with
      | none => exact ⟨_, _, _, rfl⟩
      | some i => exact ⟨_, _, _, rfl⟩
    | true =>
      simp only [Bool.not_true, Bool.false_eq_true, if_false]
      by_cases hhe1 : s.he = true
      · simp only [if_pos hhe1]
        cases firstMatch x s.rows with
        | none => exact ⟨_, _, _, rfl⟩
        | some i =>
          simp only [Option.map_some]
          have : ¬ countMatch x s.rows > 1 := by omega
          simp only [this, if_false]
          exact ⟨_, _, _, rfl⟩
      · simp only [if_neg hhe1]
        exact ⟨_, _, _, rfl⟩
  cases out with
  | raises => simp [Outcome.valid] at h
  | otherTuple => simp [Outcome.valid] at h
  | scalar y =>
    cases y with
    | none => simp [Outcome.valid] at h
    | some y =>
      simp only [Outcome.valid, Bool.not_eq_true'] at h
      obtain ⟨s', v, idx, hr, hhe, _⟩ := keyNone y
      refine ⟨{ s' with fc := s'.fc + 1 }, { fval := v, fsd := none, idx := idx }, by simp [call, h, hr], hhe, ?_⟩
      intro hhe'; simp only at hhe'; rw [hhe, h] at hhe'; cases hhe'
  | pair y sd =>
    cases y <;> cases sd <;> simp only [Outcome.valid] at h <;> try (cases h)
    rename_i y sd
    obtain ⟨s', v, idx, hr⟩ := keySome y sd (hinv h)
    obtain ⟨hd', hhe⟩ := record_distinct s xo x y sd rd s' v idx hr (hinv h) h
    exact ⟨{ s' with fc := s'.fc + 1 }, { fval := v, fsd := some sd, idx := idx }, by simp [call, h, hr], hhe, fun _ => hd'⟩

/-- FIRST FAULT ENDS THE RUN: if the `k`-th call is the first one whose outcome is invalid, the
    run's result is that call's own error (the target's exception for `raises`, ValueError for
    every invalid value), raised AT call `k`; no later call is made. -/
theorem stops_at_first_fault : ∀ (pre : List CallIn) (bad : CallIn) (post : List CallIn) (s : St) (k0 : Nat),
    DistinctX s → bad.out.valid s.he = false → (∀ c ∈ pre, c.out.valid s.he = true) →
    ∃ sf, runCalls s (pre ++ bad :: post) k0 = (sf, some (k0 + pre.length, bad.out.errOf)) ∧ sf.he = s.he
  | [], bad, post, s, k0, _, hb, _ => by
    refine ⟨s, ?_, rfl⟩
    simp [runCalls, call_invalid s bad.xo bad.x bad.out bad.rd hb]
  | c :: pre, bad, post, s, k0, hinv, hb, hv => by
    have hcv := hv c List.mem_cons_self
    obtain ⟨s', r, hcall, hhe, hinv'⟩ := call_valid_ok s c.xo c.x c.out c.rd hcv hinv
    simp only [List.cons_append, runCalls, hcall]
    obtain ⟨sf, hrun, hsf⟩ := stops_at_first_fault pre bad post s' (k0 + 1) hinv'
      (by rw [hhe]; exact hb)
      (by intro c' hc'; rw [hhe]; exact hv c' (List.mem_cons_of_mem _ hc'))
    refine ⟨sf, ?_, by rw [hsf, hhe]⟩
    rw [hrun]
    simp only [List.length_cons]
    congr 3; omega

theorem init_distinct (cache : Nat) (noise he : Bool) : DistinctX (init cache noise he) := by
  intro _; simp [init]

/-- COUNT: after a run that failed at call `k`, `func_count` equals the number of calls that
    returned valid values before it. -/
theorem fc_counts_valid_only : ∀ (cs : List CallIn) (s : St) (k0 : Nat) (sf : St) (res : Option (Nat × Err)),
    runCalls s cs k0 = (sf, res) →
    sf.fc + k0 = s.fc + (match res with | some (k, _) => k | none => k0 + cs.length)
  | [], s, k0, sf, res, h => by
    simp only [runCalls, Prod.mk.injEq] at h
    obtain ⟨rfl, rfl⟩ := h
    simp
  | c :: cs, s, k0, sf, res, h => by
    simp only [runCalls] at h
    cases hc : call s c.xo c.x c.out c.rd with
    | error e =>
      simp only [hc, Prod.mk.injEq] at h
      obtain ⟨rfl, rfl⟩ := h
      simp
    | ok t =>
      obtain ⟨s', r⟩ := t
      simp only [hc] at h
      have := fc_counts_valid_only cs s' (k0 + 1) sf res h
      have hfc := call_fc s c.xo c.x c.out c.rd s' r hc
      cases res with
      | none => simp only [List.length_cons] at this ⊢; omega
      | some p => simp only at this ⊢; omega

/-- NOTHING INVALID IS LOGGED: a rejected call leaves the logger state untouched (the error carries
    no state), so the records after a failed run are those of the valid calls before it. -/
theorem failed_call_logs_nothing (s : St) (c : CallIn) (cs : List CallIn) (k0 : Nat) (e : Err)
    (h : call s c.xo c.x c.out c.rd = .error e) : runCalls s (c :: cs) k0 = (s, some (k0, e)) := by
  simp [runCalls, h]

/-! Non-vacuity: a NaN at the third call of a deterministic-mode logger. -/
example :
    let s0 := init 2 false false
    let r := runCalls s0 [⟨[0], [0], .scalar (some 1), true⟩, ⟨[0], [0], .scalar (some 1), false⟩, ⟨[1], [1], .scalar none, true⟩,
                          ⟨[2], [2], .scalar (some 5), true⟩] 0
    (r.1.fc, r.1.rows.length, r.2) = (2, 1, some (2, Err.valueError)) := by
  decide +kernel

end Bads.Log
