/-
  C04 on the model of ONE WHOLE CALL of `optimize()` (Optimize.lean), for a DETERMINISTIC target:

  if the target repeats itself at the start point (so the noise test finds nothing), every GP "estimate" handed to the incumbent logic is
  the observed value itself (`f = y`, which is what the code uses at uncertainty level 0) and nothing is re-estimated, then - for every
  Sobol design, every candidate set, every acquisition ranking, every threshold and stall flag, and every number of iterations -

    * `det_optimize_best`      the returned `fval` is the value observed at the returned point, that pair is one of the run's evaluations,
                               and NO evaluation of the whole run (start point, initial design, every search and poll step) has a lower value;
    * `det_optimize_no_resampling`   nothing is re-sampled at the end: `yval_vec` is that single observation.

  (The component theorems `Inc.result_truthful` / `Det.det_run_spec` say this for the incumbent logic and for the loop started from a given
  state; here the initial phase is part of the model and the composed `Full` loop is the one that also serves the noisy modes.)
-/
import BadsProofs.Props.C05Opt

namespace Bads.Opt
open Bads Bads.Full

/-- the incumbent estimate is the incumbent's own observation, and nothing evaluated so far is lower -/
def DInv (ns : Noisy.St) (ev : List (Pt × Rat)) : Prop := ns.fval = ns.yval ∧ ∀ p ∈ ev, ns.fval ≤ p.2

def detCand (c : Noisy.Cand) : Prop := c.f = c.y

theorem pollBest_spec (fval : Rat) : ∀ (cs : List Noisy.Cand) (best : Rat) (arg : Option Noisy.Cand),
    best ≤ (Noisy.pollBest fval cs best arg).1 ∧ (∀ c ∈ cs, fval - c.f ≤ (Noisy.pollBest fval cs best arg).1) ∧
    (((Noisy.pollBest fval cs best arg).2 = arg ∧ (Noisy.pollBest fval cs best arg).1 = best) ∨
     ∃ c ∈ cs, (Noisy.pollBest fval cs best arg).2 = some c ∧ (Noisy.pollBest fval cs best arg).1 = fval - c.f)
  | [], best, arg => by simp [Noisy.pollBest]
  | c :: cs, best, arg => by
    unfold Noisy.pollBest
    split
    · rename_i hgt
      obtain ⟨h1, h2, h3⟩ := pollBest_spec fval cs (fval - c.f) (some c)
      refine ⟨le_trans (le_of_lt hgt) h1, ?_, ?_⟩
      · intro c' hc'
        simp only [List.mem_cons] at hc'
        rcases hc' with rfl | hc'
        · exact h1
        · exact h2 c' hc'
      · rcases h3 with ⟨ha, hb⟩ | ⟨c', hc', ha, hb⟩
        · exact Or.inr ⟨c, List.mem_cons_self, ha, hb⟩
        · exact Or.inr ⟨c', List.mem_cons_of_mem _ hc', ha, hb⟩
    · rename_i hle
      obtain ⟨h1, h2, h3⟩ := pollBest_spec fval cs best arg
      refine ⟨h1, ?_, ?_⟩
      · intro c' hc'
        simp only [List.mem_cons] at hc'
        rcases hc' with rfl | hc'
        · exact le_trans (not_lt.mp hle) h1
        · exact h2 c' hc'
      · rcases h3 with h3 | ⟨c', hc', ha, hb⟩
        · exact Or.inl h3
        · exact Or.inr ⟨c', List.mem_cons_of_mem _ hc', ha, hb⟩

theorem search_dinv (s : Noisy.St) (ev : List (Pt × Rat)) (c : Option Noisy.Cand) (hc : ∀ x, c = some x → detCand x) (h : DInv s ev) :
    DInv (Noisy.searchUpdate s c) (ev ++ (c.map Noisy.candPair).toList) := by
  obtain ⟨h1, h2⟩ := h
  cases c with
  | none => simpa [Noisy.searchUpdate] using ⟨h1, h2⟩
  | some x =>
    have hx : x.f = x.y := hc x rfl
    simp only [Noisy.searchUpdate, Option.map_some, Option.toList]
    split
    · rename_i hgt
      refine ⟨by simp [Noisy.move, hx], ?_⟩
      intro p hp
      simp only [List.mem_append, List.mem_singleton] at hp
      have hlt : x.f < s.fval := by linarith
      rcases hp with hp | rfl
      · simp only [Noisy.move]; exact le_trans (le_of_lt hlt) (h2 p hp)
      · simp [Noisy.move, Noisy.candPair, hx]
    · rename_i hle
      refine ⟨h1, ?_⟩
      intro p hp
      simp only [List.mem_append, List.mem_singleton] at hp
      rcases hp with hp | rfl
      · exact h2 p hp
      · simp only [Noisy.candPair]; rw [← hx]; linarith [not_lt.mp hle]

theorem poll_dinv (s : Noisy.St) (ev : List (Pt × Rat)) (cs : List Noisy.Cand) (hc : ∀ c ∈ cs, detCand c) (h : DInv s ev) :
    DInv (Noisy.pollUpdate s cs) (ev ++ cs.map Noisy.candPair) := by
  obtain ⟨h1, h2⟩ := h
  obtain ⟨hb0, hall, hsrc⟩ := pollBest_spec s.fval cs 0 none
  have hcs : ∀ c ∈ cs, ∀ m : Rat, s.fval - m ≥ (Noisy.pollBest s.fval cs 0 none).1 → m ≤ c.y := by
    intro c hcm m hm
    have := hall c hcm
    rw [← hc c hcm]; linarith
  unfold Noisy.pollUpdate
  simp only
  cases hpb : Noisy.pollBest s.fval cs 0 none with
  | mk best arg =>
    rw [hpb] at hb0 hall hsrc hcs
    simp only at hb0 hall hsrc hcs
    cases arg with
    | none =>
      simp only
      rcases hsrc with ⟨_, hbest⟩ | ⟨c, _, hsome, _⟩
      · refine ⟨h1, ?_⟩
        intro p hp
        simp only [List.mem_append, List.mem_map] at hp
        rcases hp with hp | ⟨c, hcm, rfl⟩
        · exact h2 p hp
        · simp only [Noisy.candPair]; exact hcs c hcm s.fval (by linarith)
      · cases hsome
    | some c0 =>
      simp only
      rcases hsrc with ⟨hnone, _⟩ | ⟨c, hcm, hsome, hbest⟩
      · cases hnone
      · have hcc : c0 = c := by simpa using hsome
        subst hcc
        split
        · rename_i hpos
          have hf : c0.f = c0.y := hc c0 hcm
          refine ⟨by simp [Noisy.move, hf], ?_⟩
          intro p hp
          simp only [List.mem_append, List.mem_map] at hp
          simp only [Noisy.move]
          rcases hp with hp | ⟨c', hcm', rfl⟩
          · have := h2 p hp; linarith
          · simp only [Noisy.candPair]; exact hcs c' hcm' c0.f (by linarith)
        · rename_i hnp
          refine ⟨h1, ?_⟩
          intro p hp
          simp only [List.mem_append, List.mem_map] at hp
          rcases hp with hp | ⟨c', hcm', rfl⟩
          · exact h2 p hp
          · simp only [Noisy.candPair]; exact hcs c' hcm' s.fval (by linarith)

/-- an iteration of a deterministic run: observed values as estimates, nothing re-estimated -/
def DetIter (i : Noisy.Iter) : Prop :=
  i.reVals = none ∧ (∀ c, i.search = some (some c) → detCand c) ∧ (∀ cs, i.poll = some cs → ∀ c ∈ cs, detCand c)

theorem iterStep_dinv (tol : Rat) (s : Noisy.St) (ev : List (Pt × Rat)) (i : Noisy.Iter) (hi : DetIter i) (h : DInv s ev) :
    DInv (Noisy.iterStep tol s i) (ev ++ Noisy.candsOf i) := by
  obtain ⟨hre, hs, hp⟩ := hi
  rw [Noisy.iterStep_eq, hre]
  have h1 : DInv (Noisy.st1 s i) (ev ++ Noisy.sCands i) := by
    unfold Noisy.st1 Noisy.sCands
    cases hsr : i.search with
    | none => simpa using h
    | some c =>
      cases c with
      | none => simpa [Noisy.searchUpdate] using h
      | some c =>
        have := search_dinv s ev (some c) (by intro x hx; cases hx; exact hs c hsr) h
        simpa using this
  have h3 : DInv (Noisy.st3 (Noisy.st1 s i) i) (ev ++ Noisy.candsOf i) := by
    cases hpl : i.poll with
    | none =>
      have e1 : Noisy.st3 (Noisy.st1 s i) i = { Noisy.st1 s i with u := (Noisy.st1 s i).uBest } := by unfold Noisy.st3; rw [hpl]
      have e2 : Noisy.candsOf i = Noisy.sCands i := by unfold Noisy.candsOf Noisy.pCands; rw [hpl]; simp
      rw [e1, e2]; exact ⟨h1.1, h1.2⟩
    | some cs =>
      have e1 : Noisy.st3 (Noisy.st1 s i) i = Noisy.pollUpdate { Noisy.st1 s i with u := (Noisy.st1 s i).uBest } cs := by
        unfold Noisy.st3; rw [hpl]
      have e2 : Noisy.candsOf i = Noisy.sCands i ++ cs.map Noisy.candPair := by unfold Noisy.candsOf Noisy.pCands; rw [hpl]
      rw [e1, e2, ← List.append_assoc]
      exact poll_dinv _ _ cs (hp cs hpl) ⟨h1.1, h1.2⟩
  simp only
  split
  · exact h3
  · exact h3

/-- the oracle of a deterministic loop iteration -/
def DetOrc (q : Full.Orc) : Prop :=
  q.reVals = none ∧ (∀ v, q.searchVal = some v → v.f = v.y) ∧ ∀ v ∈ q.pollVals, v.f = v.y

theorem zipCands_det : ∀ (us : List Pt) (vs : List Full.Val), (∀ v ∈ vs, v.f = v.y) → ∀ c ∈ Full.zipCands us vs, detCand c.1
  | [], _, _, c, h => by simp [Full.zipCands] at h
  | _ :: _, [], _, c, h => by simp [Full.zipCands] at h
  | u :: us, v :: vs, hv, c, h => by
    simp only [Full.zipCands, List.mem_cons] at h
    rcases h with rfl | h
    · exact hv v List.mem_cons_self
    · exact zipCands_det us vs (fun v' hv' => hv v' (List.mem_cons_of_mem _ hv')) c h

theorem searchCand_det (e : Full.Env) (s : Full.St) (q : Full.Orc) (hsv : ∀ v, q.searchVal = some v → v.f = v.y)
    (cn : Noisy.Cand × Bool) (hsc : Full.searchCand e s q = some cn) : detCand cn.1 := by
  unfold Full.searchCand at hsc
  by_cases hd : Ctl.doSearch e.o s.ctl.c = true
  · rw [if_pos hd] at hsc
    cases hg : (filterCode (Pipe.filterIn e.pipe true q.h q.searchU (Full.pts s)))[q.searchPick]? with
    | none => rw [hg] at hsc; cases hsc
    | some u =>
      cases hv : q.searchVal with
      | none => rw [hg, hv] at hsc; cases hsc
      | some v =>
        rw [hg, hv] at hsc
        simp only [Option.some.injEq] at hsc
        subst hsc
        exact hsv v hv
  · rw [if_neg hd] at hsc; cases hsc

theorem iterOf_det (e : Full.Env) (s : Full.St) (q : Full.Orc) (hq : DetOrc q) : DetIter (Full.iterOf e s q) := by
  obtain ⟨hre, hsv, hpv⟩ := hq
  refine ⟨hre, ?_, ?_⟩
  · intro c hc
    have hs : (Full.iterOf e s q).search = if Ctl.doSearch e.o s.ctl.c then some ((Full.searchCand e s q).map (·.1)) else none := rfl
    rw [hs] at hc
    by_cases hd : Ctl.doSearch e.o s.ctl.c = true
    · rw [if_pos hd] at hc
      simp only [Option.some.injEq] at hc
      cases hsc : Full.searchCand e s q with
      | none => rw [hsc] at hc; cases hc
      | some cn =>
        rw [hsc] at hc
        simp only [Option.map_some, Option.some.injEq] at hc
        subst hc
        exact searchCand_det e s q hsv cn hsc
    · rw [if_neg hd] at hc; cases hc
  · intro cs hcs c hc
    have hp : (Full.iterOf e s q).poll = if Full.pollRuns e s q then some ((Full.pollCands e s q).map (·.1)) else none := rfl
    rw [hp] at hcs
    by_cases hr : Full.pollRuns e s q = true
    · rw [if_pos hr] at hcs
      simp only [Option.some.injEq] at hcs
      subst hcs
      simp only [List.mem_map] at hc
      obtain ⟨cn, hcn, rfl⟩ := hc
      unfold Full.pollCands at hcn
      rw [if_pos hr] at hcn
      exact zipCands_det _ _ hpv cn hcn
    · rw [if_neg hr] at hcs; cases hcs

theorem step_dinv (e : Full.Env) (s : Full.St) (q : Full.Orc) (hq : DetOrc q) (h : DInv s.ns s.pairs) :
    DInv (Full.step e s q).ns (Full.step e s q).pairs := by
  rw [Full.step_ns, Full.step_pairs, ← Full.candsOf_iterOf]
  exact iterStep_dinv e.tolFun s.ns s.pairs _ (iterOf_det e s q hq) h

theorem run_dinv (e : Full.Env) : ∀ (qs : List Full.Orc) (s : Full.St), (∀ q ∈ qs, DetOrc q) → DInv s.ns s.pairs →
    DInv (Full.run e qs s).ns (Full.run e qs s).pairs
  | [], _, _, h => h
  | q :: qs, s, hq, h => by
    unfold Full.run
    split
    · exact h
    · exact run_dinv e qs _ (fun q' hq' => hq q' (List.mem_cons_of_mem _ hq')) (step_dinv e s q (hq q List.mem_cons_self) h)

theorem zip3_vals : ∀ (us : List Pt) (vs : List (Rat × Bool)) (d : Pt × Rat × Bool), d ∈ zip3 us vs → (d.2.1, d.2.2) ∈ vs
  | [], _, d, h => by simp [zip3] at h
  | _ :: _, [], d, h => by simp [zip3] at h
  | u :: us, v :: vs, d, h => by
    simp only [zip3, List.mem_cons] at h
    rcases h with rfl | h
    · simp
    · exact List.mem_cons_of_mem _ (zip3_vals us vs d h)

theorem foldRows_all_new : ∀ (es : List (Pt × Rat × Bool)) (rows : List (Pt × Rat)), (∀ d ∈ es, d.2.2 = true) →
    foldRows rows es = rows ++ es.map (fun d => (d.1, d.2.1))
  | [], rows, _ => by simp [foldRows]
  | d :: es, rows, h => by
    unfold foldRows
    have hd : d.2.2 = true := h d List.mem_cons_self
    rw [hd]
    simp only [updRows]
    rw [foldRows_all_new es _ (fun d' hd' => h d' (List.mem_cons_of_mem _ hd'))]
    simp [List.append_assoc]

/-- a deterministic target: identical values at the start point (the noise test is negative), and a logger that never merges (every
    recorded evaluation of a deterministic run is a new row): the first incumbent is the best point of the whole initial phase -/
theorem init_dinv (e : Env) (io : InitOrc) (hy : io.y0 = io.y0bis) (hnew : ∀ v ∈ io.vals, v.2 = true) :
    DInv (init e io).ns (init e io).pairs := by
  obtain ⟨_, hmin, hfv⟩ := init_incumbent e io
  have hrows : initRows e io = (io.u0, io.y0) :: (designEvals e io).map (fun d => (d.1, d.2.1)) := by
    unfold initRows
    rw [foldRows_all_new]
    · rfl
    · intro d hd
      unfold designEvals at hd
      split at hd
      · exact hnew _ (zip3_vals _ _ d hd)
      · cases hd
  refine ⟨hfv, ?_⟩
  intro p hp
  rw [hfv]
  apply hmin
  rw [hrows]
  rw [init_pairs_eq] at hp
  unfold initPairs at hp
  simp only [List.mem_append, List.mem_singleton, List.mem_map] at hp
  simp only [List.mem_cons, List.mem_map]
  rcases hp with (hp | hp) | ⟨d, hd, rfl⟩
  · exact Or.inl hp
  · split at hp
    · simp only [List.mem_singleton] at hp
      rw [← hy] at hp
      exact Or.inl hp
    · cases hp
  · exact Or.inr ⟨d, hd, rfl⟩

/-- C04, END TO END, for a deterministic target: the returned value is the value observed at the returned point, that evaluation is one of
    the run's, and no evaluation of the whole run - start point, initial design, every search and poll step - has a lower value;
    nothing is re-sampled at the end. -/
theorem det_optimize_best (e : Env) (hb : boxOK e.full.pipe.lb e.full.pipe.ub = true) (hn : 1 ≤ e.full.o.nTry)
    (io : InitOrc) (hi : InitOK e io) (hf : Fits e io) (qs : List Full.Orc) (hq : RunOK e io qs) (fo : FinalOrc)
    (h0 : e.unc0 = 0) (ht : 0 ≤ e.tolNoise) (hy : io.y0 = io.y0bis) (hnew : ∀ v ∈ io.vals, v.2 = true) (hdet : ∀ q ∈ qs, DetOrc q) :
    ((optimize e io qs fo).u, (optimize e io qs fo).fval) ∈ (optimize e io qs fo).loop.pairs ∧
    (∀ p ∈ (optimize e io qs fo).loop.pairs, (optimize e io qs fo).fval ≤ p.2) ∧
    (optimize e io qs fo).yvec = [(optimize e io qs fo).fval] ∧
    (optimize e io qs fo).calls.length = (optimize e io qs fo).loop.pairs.length := by
  obtain ⟨hu, hk, _, _⟩ := deterministic_untouched e io h0 ht hy
  have hd := run_dinv (loopEnv e (init e io)) qs (loopStart e (init e io)) hdet (init_dinv e io hy hnew)
  have hmem := returned_x_evaluated e hb hn io hi hf qs hq fo
  have hunc : (init e io).unc = 0 := hu
  have hfin : finalNs (init e io) (optimize e io qs fo).loop fo = (optimize e io qs fo).loop.ns := by
    unfold finalNs
    rw [hunc]
    simp
  have hfval : (optimize e io qs fo).fval = (optimize e io qs fo).loop.ns.fval := by
    show (finish (init e io) _ fo).fval = _
    simp only [finish, hk, Nat.lt_irrefl, gt_iff_lt, if_false]
    exact congrArg Noisy.St.fval hfin
  have hyvec : (optimize e io qs fo).yvec = [(optimize e io qs fo).loop.ns.yval] := by
    show (finish (init e io) _ fo).yvec = _
    simp only [finish, hk, Nat.lt_irrefl, gt_iff_lt, if_false]
    rw [show finalNs (init e io) (Full.run (loopEnv e (init e io)) qs (loopStart e (init e io))) fo
          = (Full.run (loopEnv e (init e io)) qs (loopStart e (init e io))).ns from hfin]
    rfl
  have hloop : (optimize e io qs fo).loop = Full.run (loopEnv e (init e io)) qs (loopStart e (init e io)) := rfl
  rw [hfin] at hmem
  rw [hloop] at hmem ⊢
  refine ⟨?_, ?_, ?_, ?_⟩
  · rw [hfval, hloop, hd.1]; exact hmem
  · intro p hp; rw [hfval, hloop]; exact hd.2 p hp
  · rw [hyvec, hfval, hloop, hd.1]
  · have hb2 := (optimize_budget e hb hn io hi hf qs hq fo).2
    have hfc := Full.run_fc (loopEnv e (init e io)) qs (loopStart e (init e io))
    have hpl : (loopStart e (init e io)).pairs.length = (initCalls e io).length := by
      show (init e io).pairs.length = _
      rw [init_pairs_eq, initPairs_length]
    have hfc0 : (loopStart e (init e io)).ctl.c.fc = (initCalls e io).length := rfl
    have hcnt : (optimize e io qs fo).funcCount = (Full.run (loopEnv e (init e io)) qs (loopStart e (init e io))).ctl.c.fc + (init e io).nfsEff := rfl
    omega

/-! ### non-vacuity: a concrete deterministic run meets every hypothesis; the model finds the best of everything it evaluated -/
namespace ExampleDet
open Bads.Full.Example
def eD : Env := { full := e1, unc0 := 0, tolNoise := 1/1000000, funEvalStart := 1, nfs := 10, noiseSize := 1, stallIters0 := 4, h0 := 1/4, msi0 := 0 }
def ioD : InitOrc := { u0 := [0], y0 := 1, y0bis := 1, design := [[2], [-2]], vals := [(9, true), (3/2, true)], sdAtMin := 0 }
def w1 : Full.Val := { y := 1/4, f := 1/4, sd := 0, newRow := true }
def w2 : Full.Val := { y := 4, f := 4, sd := 0, newRow := true }
def w3 : Full.Val := { y := 1/8, f := 1/8, sd := 0, newRow := true }
def qD1 : Full.Orc := { h := 1/4, searchU := [[1/2], [3]], searchPick := 0, searchVal := some w1, pollU := [[1], [-1]], pollOrder := [0, 1],
                        pollVals := [w2, w3], thr := 1/2, stallMesh := false, stallStop := false, reVals := none }
def qD2 : Full.Orc := { qD1 with searchU := [[1], [3/4]], searchPick := 1, searchVal := some w2, pollU := [[3/2], [1/2]], pollOrder := [1, 0], pollVals := [w2, w1] }
def foD : FinalOrc := { reVals := [], qs := [], samples := [] }

example : InitOK eD ioD ∧ Fits eD ioD ∧ RunOK eD ioD [qD1, qD2] ∧ eD.unc0 = 0 ∧ 0 ≤ eD.tolNoise ∧ ioD.y0 = ioD.y0bis ∧
    (∀ v ∈ ioD.vals, v.2 = true) ∧ (∀ q ∈ [qD1, qD2], DetOrc q) := by
  refine ⟨⟨by decide +kernel, ?_, by decide +kernel, by decide +kernel, by decide +kernel⟩, ?_, ?_, rfl, by decide +kernel, rfl, by decide +kernel, ?_⟩
  · intro c hc; simp [eD, e1] at hc
  · unfold Fits; decide +kernel
  · intro q hq
    simp only [List.mem_cons, List.mem_nil_iff, or_false] at hq
    rcases hq with rfl | rfl <;> (unfold Full.OrcOK; decide +kernel)
  · intro q hq
    simp only [List.mem_cons, List.mem_nil_iff, or_false] at hq
    rcases hq with rfl | rfl <;> (unfold DetOrc; decide +kernel)

example : (optimize eD ioD [qD1, qD2] foD).fval = 1/8 ∧ (optimize eD ioD [qD1, qD2] foD).yvec = [1/8] ∧
    (optimize eD ioD [qD1, qD2] foD).calls.length = (optimize eD ioD [qD1, qD2] foD).funcCount := by decide +kernel
end ExampleDet

end Bads.Opt
