import BadsModel.Num
import BadsModel.Mesh
import BadsModel.Filter
import BadsModel.Controller
import BadsModel.Logger
import BadsModel.Pipeline
import BadsModel.Poll
import BadsModel.Incumbent
