import Driver.Proto
open Lean Bads Bads.Poll
namespace Driver

/-- integer determinant by Laplace expansion along the first row (n ≤ 6 here) -/
partial def detInt (m : List (List Int)) : Int :=
  match m with
  | [] => 1
  | row :: rest =>
    let n := row.length
    (List.range n).foldl (fun acc j =>
      let a := row.getD j 0
      if a == 0 then acc else
      let minor := rest.map (fun r => removeAt r j)
      let s : Int := if j % 2 == 0 then 1 else -1
      acc + s * a * detInt minor) 0

def asIntRows (j : Json) : R (List (List Int)) := asList (asList asInt) j

/-- `poll.dirs`: the model's basis for given random outcomes. -/
def cmdPollDirs (j : Json) : R Json := do
  let n ← asNat (← field j "n")
  let sms ← asRat (← field j "sms")
  let ms ← asRat (← field j "ms")
  let draws ← asIntRows (← field j "draw")      -- raw randint values in [1, 2 nmax - 1]
  let sg ← asList asInt (← field j "sgn")        -- raw randint values in {1, 2}
  let perm ← asList asNat (← field j "perm")
  let nmax := nmaxOf sms ms
  let draw := fun i k => (draws.getD i []).getD k 0 - nmax
  let sgn := fun i => sg.getD i 1 == 2
  let B := basis n draw sgn nmax (fun r => perm.getD r 0)
  pure <| Json.mkObj [("nmax", jInt nmax), ("B", jList (jList jInt) B)]

/-- `prop.dirs`: the C14 predicates on an OBSERVED basis (rows already multiplied back by poll_scale). -/
def cmdPropDirs (j : Json) : R Json := do
  let B ← asList asPt (← field j "B")
  let nmax ← asInt (← field j "nmax")
  let n := B.length / 2
  let isInt := B.all (fun r => r.all (fun q => q.den == 1))
  let Bi : List (List Int) := B.map (fun r => r.map (fun q => q.num))
  let D := Bi.take n
  let negOK := Bi.drop n == D.map (fun d => d.map (fun x => -x))
  let bounded := Bi.all (fun r => r.all (fun x => decide (x.natAbs ≤ nmax.natAbs)))
  let det := detInt D
  let square := D.all (fun r => r.length == n) && B.length == 2 * n
  let signedUnit := D.all (fun r => (r.filter (fun x => x != 0)).length == 1 && r.all (fun x => x == 0 || x == 1 || x == -1))
  pure <| Json.mkObj [("integer", Json.bool isInt), ("plus_minus", Json.bool negOK), ("bounded", Json.bool bounded),
                      ("nonsingular", Json.bool (det != 0)), ("square", Json.bool square), ("det", jInt det),
                      ("signed_unit", Json.bool signedUnit)]

end Driver
