import Driver.CmdFull
import BadsModel.Optimize
open Lean Bads Bads.Opt
namespace Driver

def jCalls (cs : List (Pt × Bool)) : Json := jList (fun c => Json.mkObj [("u", jPt c.1), ("rec", Json.bool c.2)]) cs

/-- `whole.replay`: ONE WHOLE CALL of `optimize()` through `Opt.init`, `Full.step` (per iteration) and `Opt.finish`:
    the initial phase and the final re-sampling are DERIVED from the start point, the snapped design, the returned values and the options. -/
def cmdWholeReplay (j : Json) : R Json := do
  let pe ← parsePipeEnv j
  let o ← parseOpts (← field j "opts")        -- budget = the USER's max_fun_evals, stallIters = as configured
  let fe : Full.Env := { pipe := pe, o := o, tolFun := ← asRat (← field j "tolFun") }
  let wj ← field j "whole"
  let e : Opt.Env := { full := fe, unc0 := ← asNat (← field wj "unc0"), tolNoise := ← asRat (← field wj "tolNoise"),
                       funEvalStart := ← asNat (← field wj "funEvalStart"), nfs := ← asNat (← field wj "nfs"),
                       noiseSize := ← asRat (← field wj "noiseSize"), stallIters0 := o.stallIters,
                       h0 := ← asRat (← field wj "h0"), msi0 := ← asInt (← field wj "msi0") }
  let ioj ← field j "initOrc"
  let io : InitOrc := { u0 := ← asPt (← field ioj "u0"), y0 := ← asRat (← field ioj "y0"), y0bis := ← asRat (← field ioj "y0bis"),
                        design := ← asPts (← field ioj "design"),
                        vals := ← asList (fun v => do pure (← asRat (← field v "y"), ← asBool (← field v "newRow"))) (← field ioj "vals"),
                        sdAtMin := ← asRat (← field ioj "sdAtMin") }
  let i := Opt.init e io
  let (res, s) ← fullLoop pe (loopEnv e i) (loopStart e i) (← asArr (← field j "orcs"))
  let fj ← field j "finalOrc"
  let fo : FinalOrc := { reVals := ← asList asPairRat (← field fj "reVals"), qs := ← asList asRat (← field fj "qs"),
                         samples := ← asList asRat (← field fj "samples") }
  let r := Opt.finish i s fo
  pure <| Json.mkObj [
    ("init", Json.mkObj [("calls", jCalls i.calls), ("unc", jNat i.unc), ("nfsEff", jNat i.nfsEff), ("budgetLoop", jNat i.o.budget),
                          ("stallIters", jNat i.o.stallIters), ("ns", jNSt i.ns), ("fc", jNat i.calls.length), ("nRec", jNat i.rows.length),
                          ("nDesign", jNat (nDesign e io)), ("sobolCount", jNat (sobolCount (nDesign e io) o.D))]),
    ("states", Json.arr res.toArray),
    ("result", Json.mkObj [("calls", jCalls r.calls), ("u", jPt r.u), ("yvec", jList jRat r.yvec), ("fval", jRat r.fval),
                            ("funcCount", jNat r.funcCount), ("finished", Json.bool s.ctl.c.finished)])]

end Driver
