import Driver.Proto
open Lean Bads Bads.Opt
namespace Driver

/-- values travel as provenance terms: the model never evaluates Python; `ev tok env D` is the
    token tagged with the names of user options visible in `env` at evaluation time -/
def evTag (userKeys : List String) (tok : String) (env : Assoc String) (D : Nat) : String :=
  let vis := userKeys.filter (fun k => (lookup env k).isSome && ((lookup env k).getD "").startsWith "user:")
  s!"default:{tok}|D={D}|sees={",".intercalate vis}"

def asFile (j : Json) : R (File String) := do
  let es ← asList (fun e => do pure (← asStr (← field e "k"), ← asStr (← field e "tok"))) j
  pure ⟨es⟩

/-- `opt.load`: final options (as provenance terms) and the validation verdict. -/
def cmdOptLoad (j : Json) : R Json := do
  let D ← asNat (← field j "D")
  let basic ← asFile (← field j "basic")
  let adv ← asFile (← field j "adv")
  let userKeys ← asList asStr (← field j "user")
  let user : Assoc String := userKeys.map (fun k => (k, s!"user:{k}"))
  let o := load (evTag userKeys) D basic adv user
  pure <| Json.mkObj [("options", Json.mkObj (o.map (fun e => (e.1, Json.str e.2)))),
                      ("invalid", jOpt Json.str (validate o basic adv))]

end Driver
