import Driver.Proto
open Lean Bads Bads.Hist
namespace Driver

def jSlots (l : List (Option String)) : Json := jList (jOpt Json.str) l

def errStr : Err → String
  | .valueError => "ValueError" | .attributeError => "AttributeError" | .keyError => "KeyError"

/-- `hist.run`: record operations on the IterationHistory model; state dumped after every operation. -/
def cmdHistRun (j : Json) : R Json := do
  let keys ← asList asStr (← field j "keys")
  let ops ← asArr (← field j "ops")
  let mut h : H String := { keys := keys, data := [] }
  let mut out : List Json := []
  for oj in ops do
    let key ← asStr (← field oj "key")
    let v ← asStr (← field oj "val")
    let it ← asInt (← field oj "it")
    match record h key v it with
    | .ok h' =>
      h := h'
      out := out ++ [Json.mkObj [("ok", Json.bool true), ("data", Json.mkObj (h.data.map (fun e => (e.1, jSlots e.2))))]]
    | .error e =>
      out := out ++ [Json.mkObj [("err", Json.str (errStr e)), ("data", Json.mkObj (h.data.map (fun e => (e.1, jSlots e.2))))]]
  pure (Json.arr out.toArray)

/-- `res.run`: set / getitem / getattr operations on the OptimizeResult model. -/
def cmdResRun (j : Json) : R Json := do
  let allowed ← asList asStr (← field j "allowed")
  let ops ← asArr (← field j "ops")
  let mut r : Res String := { allowed := allowed, items := [] }
  let mut out : List Json := []
  for oj in ops do
    let op ← asStr (← field oj "op")
    let key ← asStr (← field oj "key")
    if op == "set" then
      let v ← asStr (← field oj "val")
      match r.set key v with
      | .ok r' => r := r'; out := out ++ [Json.str "ok"]
      | .error e => out := out ++ [Json.str (errStr e)]
    else
      let res := if op == "getitem" then r.getItem key else r.getAttr key
      match res with
      | .ok v => out := out ++ [Json.mkObj [("val", Json.str v)]]
      | .error e => out := out ++ [Json.str (errStr e)]
  pure (Json.arr out.toArray)

end Driver
