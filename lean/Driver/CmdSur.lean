import Driver.CmdGP
import Driver.CmdLog
open Lean Bads Bads.GP
namespace Driver

/-- one event of the surrogate state machine (`GP.Ev`) -/
def parseSurEv (j : Json) : R Ev := do
  let k ← asStr (← field j "ev")
  match k with
  | "initial" => do pure (.initial (← asList asObs (← field j "log")) (← asList asBool (← field j "fails")))
  | "select" => do
    pure (.select (← asList asObs (← field j "log")) (← asList asRat (← field j "dist")) (← asRat (← field j "radius2"))
      (← asInt (← field j "nMin")) (← asInt (← field j "nMax")) (← asInt (← field j "buffer")) (← asNat (fieldD j "nTry" (Json.num 10)))
      (← asNat (fieldD j "removeAfter" (Json.num 1))) (← asList asBool (← field j "fails")) (← asList asNat (← field j "drops")))
  | "add" => do pure (.add (← asPt (← field j "x")) (← asRat (← field j "y")) (← asOpt asRat (fieldD j "sd" Json.null)))
  | _ => throw s!"bad surrogate event {k}"

def runSur (s : Sur) : List Ev → List Json
  | [] => []
  | e :: es =>
    let s' := sstep s e
    let full := match e with | .add .. => false | _ => true
    Json.mkObj ([("n", jNat s'.train.length), ("nAttempts", jNat s'.attempts.length), ("fitOK", Json.bool s'.fitOK),
                 ("last", match s'.train.getLast? with | some t => jTrain t | none => Json.null)]
                ++ (if full then [("train", jList jTrain s'.train)] else [])) :: runSur s' es

/-- `gp.run`: the surrogate's training set and fit attempts over the event sequence of one run -/
def cmdGpRun (j : Json) : R Json := do
  let evs ← asList parseSurEv (← field j "events")
  pure <| Json.mkObj [("steps", Json.arr (runSur Sur.init evs).toArray), ("attempts", jList jShapes (srun evs).attempts)]

open Bads.SurRun in
def parseJEv (j : Json) : R JEv := do
  let k ← asStr (← field j "ev")
  match k with
  | "evalOnly" => do pure (.evalOnly (← asPt (← field j "xo")) (← asPt (← field j "x")) (← parseOutcome (← field j "out")) (← asBool (← field j "rd")))
  | "eval" => do pure (.eval (← asPt (← field j "xo")) (← asPt (← field j "x")) (← parseOutcome (← field j "out")))
  | "initial" => pure .initial
  | "select" => do
    pure (.select (← asList asRat (← field j "dist")) (← asRat (← field j "radius2")) (← asInt (← field j "nMin")) (← asInt (← field j "nMax"))
      (← asInt (← field j "buffer")))
  | _ => throw s!"bad joint event {k}"

open Bads.SurRun in
def runJoint (s : JSt) : List JEv → List Json
  | [] => []
  | e :: es =>
    match jstep s e with
    | .error err => [Json.mkObj [("err", Json.str (match err with | .targetError => "target" | .valueError => "ValueError"))]]
    | .ok s' =>
      let full := match e with | .initial => true | .select .. => true | _ => false
      Json.mkObj ([("n", jNat s'.train.length), ("rows", jNat s'.log.rows.length), ("fc", jNat s'.log.fc),
                   ("last", match s'.train.getLast? with | some t => jTrain t | none => Json.null)]
                  ++ (if full then [("train", jList jTrain s'.train)] else [])) :: runJoint s' es

/-- `sur.jrun`: evaluation log and surrogate together over the event sequence of one run -/
def cmdSurJrun (j : Json) : R Json := do
  let s0 : Bads.SurRun.JSt := { log := Log.init (← asNat (← field j "cache")) (← asBool (← field j "noise")) (← asBool (← field j "he")), train := [] }
  let evs ← asList parseJEv (← field j "events")
  pure <| Json.mkObj [("steps", Json.arr (runJoint s0 evs).toArray)]

end Driver
