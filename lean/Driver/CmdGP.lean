import Driver.Proto
open Lean Bads Bads.GP
namespace Driver

def asObs (j : Json) : R Obs := do
  pure { x := ← asPt (← field j "x"), y := ← asRat (← field j "y"), s := ← asOpt asRat (fieldD j "s" Json.null) }

def jTrain (t : Train) : Json := Json.mkObj [("x", jPt t.x), ("y", jRat t.y), ("s2", jOpt jRat t.s2)]

/-- `gp.neighbors`: the model's training set for a given log, distances and size options. -/
def cmdGpNeighbors (j : Json) : R Json := do
  let log ← asList asObs (← field j "log")
  let dist ← asList asRat (← field j "dist")
  let r2 ← asRat (← field j "radius2")
  let nMin ← asInt (← field j "nMin")
  let nMax ← asInt (← field j "nMax")
  let buffer ← asInt (← field j "buffer")
  let out := neighbors log dist r2 nMin nMax buffer
  pure <| Json.mkObj [("train", jList jTrain out), ("ntrain", jNat out.length)]

def asShapes (j : Json) : R Shapes := do
  pure { nX := ← asNat (← field j "nX"), nY := ← asNat (← field j "nY"), nS2 := ← asOpt asNat (fieldD j "nS2" Json.null) }

def jShapes (s : Shapes) : Json := Json.mkObj [("nX", jNat s.nX), ("nY", jNat s.nY), ("nS2", jOpt jNat s.nS2), ("agree", Json.bool s.agree)]

/-- `gp.robust`: shapes of every attempt of `_robust_gp_fit_` / the initial-fit loop for a failure schedule. -/
def cmdGpRobust (j : Json) : R Json := do
  let sh ← asShapes (← field j "shapes")
  let outs ← asList asBool (← field j "fails")
  let drops ← asList asNat (← field j "drops")
  let kind ← asStr (← field j "kind")
  let ra ← asNat (fieldD j "removeAfter" (Json.num 1))
  let (att, ok) := if kind == "init" then initFit sh outs else robustFit 10 ra sh outs drops 0
  pure <| Json.mkObj [("attempts", jList jShapes att), ("ok", Json.bool ok)]

end Driver
