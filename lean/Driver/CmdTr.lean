import Driver.Proto
open Lean Bads Bads.Tr
namespace Driver

/-- a value together with its logarithm as computed by numpy (null when not positive / infinite) -/
structure VL where
  v : Ext
  l : Option Rat

def asVL (j : Json) : R VL := do
  pure { v := ← asExt (← field j "v"), l := ← asOpt asRat (fieldD j "l" Json.null) }

def phiOf (isLog : Bool) (a : VL) : Ext :=
  if isLog then (match a.l with | some t => .fin t | none => a.v) else a.v

def finOr (e : Ext) (d : Rat) : Rat := match e with | .fin a => a | _ => d

/-- `tr.coord`: decision rule, internal bounds, forward map on given points (affine part + clamp),
    inverse map on given internal points (affine part; clamp of the harness-supplied ψ-value). -/
def cmdTrCoord (j : Json) : R Json := do
  let nonlinear ← asBool (← field j "nonlinear")
  let lb ← asVL (← field j "lb")
  let ub ← asVL (← field j "ub")
  let plb ← asVL (← field j "plb")
  let pub ← asVL (← field j "pub")
  let isLog := applyLog nonlinear lb.v ub.v (finOr plb.v 0) (finOr pub.v 0)
  let φplb := finOr (phiOf isLog plb) 0
  let φpub := finOr (phiOf isLog pub) 0
  let c : Coord := { isLog := isLog, mu := (φplb + φpub) / 2, gamma := (φpub - φplb) / 2, origLo := lb.v, origHi := ub.v }
  let lbt := mapExt (fun _ => gAff c (finOr (phiOf isLog lb) 0)) lb.v
  let ubt := mapExt (fun _ => gAff c (finOr (phiOf isLog ub) 0)) ub.v
  let xs ← asList asVL (← field j "xs")
  let calls := xs.map (fun x => clampE lbt ubt (gAff c (finOr (phiOf isLog x) 0)))
  let ysJ ← asArr (← field j "ys")
  let mut invs : List Json := []
  for yj in ysJ do
    let y ← asRat (← field yj "y")
    let w ← asRat (← field yj "w")
    invs := invs ++ [Json.mkObj [("s", jRat (ginvAff c y)), ("inv", jRat (clampE lb.v ub.v w))]]
  pure <| Json.mkObj [("isLog", Json.bool isLog), ("mu", jRat c.mu), ("gamma", jRat c.gamma), ("lbT", jExt lbt), ("ubT", jExt ubt),
                      ("calls", jList jRat calls), ("invs", Json.arr invs.toArray)]

end Driver
