import Driver.Proto
open Lean Bads Bads.Log
namespace Driver

def parseOutcome (j : Json) : R Outcome := do
  let k ← asStr (← field j "k")
  match k with
  | "raises" => pure .raises
  | "other" => pure .otherTuple
  | "scalar" => do pure (.scalar (← asOpt asRat (fieldD j "y" Json.null)))
  | "pair" => do pure (.pair (← asOpt asRat (fieldD j "y" Json.null)) (← asOpt asRat (fieldD j "sd" Json.null)))
  | _ => throw s!"bad outcome kind {k}"

def parseOp (j : Json) : R Op := do
  let o ← asStr (← field j "op")
  let xo ← asPt (← field j "xo")
  let x ← asPt (← field j "x")
  match o with
  | "call" => do pure (.call xo x (← parseOutcome (← field j "out")) (← asBool (← field j "rd")))
  | "add" => do
    let y ← asOpt asRat (fieldD j "y" Json.null)
    let sd : Option (Option Rat) ←
      match j.getObjVal? "sd" with
      | .ok v => do pure (some (← asOpt asRat v))
      | .error _ => pure none
    pure (.add xo x y sd)
  | _ => throw s!"bad op {o}"

def jRow (r : Row) : Json :=
  Json.mkObj [("xo", jPt r.xo), ("x", jPt r.x), ("y", jRat r.y), ("yo", jRat r.yo), ("tau", jOpt jRat r.tau), ("n", jNat r.n)]

def jLSt (s : St) : Json :=
  Json.mkObj [("rows", jList jRow s.rows), ("cap", jNat s.cap), ("xMaxIdx", jInt s.xMaxIdx), ("fc", jNat s.fc),
              ("cacheCount", jNat s.cacheCount)]

def runLog (s : St) : List Op → List Json
  | [] => []
  | op :: ops =>
    match step s op with
    | .ok (s', r) =>
      Json.mkObj [("ok", Json.mkObj [("fval", jRat r.fval), ("fsd", jOpt jRat r.fsd), ("idx", jOpt jNat r.idx)]), ("state", jLSt s')]
        :: runLog s' ops
    | .error e =>
      Json.mkObj [("err", Json.str (match e with | .targetError => "target" | .valueError => "ValueError")), ("state", jLSt s)]
        :: runLog s ops

/-- `log.run`: run an operation sequence through the logger model, reporting the state after every operation. -/
def cmdLogRun (j : Json) : R Json := do
  let s0 := Log.init (← asNat (← field j "cache")) (← asBool (← field j "noise")) (← asBool (← field j "he"))
  let ops ← asList parseOp (← field j "ops")
  pure (Json.arr (runLog s0 ops).toArray)

end Driver
