/-
  Line protocol helpers.  One JSON object per line in, one JSON value per line out.
  Floats travel as exact rationals in strings ("n/d" or "n"); non-finite values as
  "inf", "-inf", "nan".
-/
import Lean.Data.Json
import BadsModel
open Lean
namespace Driver

abbrev R := Except String

def parseInt (s : String) : R Int :=
  match s.toInt? with
  | some i => pure i
  | none => throw s!"bad int '{s}'"

def parseRat (s : String) : R Rat :=
  match s.splitOn "/" with
  | [n] => do let i ← parseInt n; pure (i : Rat)
  | [n, d] => do
      let i ← parseInt n
      let k ← parseInt d
      if k = 0 then throw "zero denominator" else pure ((i : Rat) / (k : Rat))
  | _ => throw s!"bad rat '{s}'"

def parseExt (s : String) : R Bads.Ext :=
  if s == "inf" then pure .pinf
  else if s == "-inf" then pure .ninf
  else if s == "nan" then pure .nan
  else do let q ← parseRat s; pure (.fin q)

def showRat (q : Rat) : String :=
  if q.den = 1 then toString q.num else s!"{q.num}/{q.den}"

def showExt : Bads.Ext → String
  | .fin q => showRat q
  | .pinf => "inf"
  | .ninf => "-inf"
  | .nan => "nan"

def field (j : Json) (k : String) : R Json :=
  match j.getObjVal? k with
  | .ok v => pure v
  | .error _ => throw s!"missing field '{k}'"

def fieldD (j : Json) (k : String) (d : Json) : Json :=
  match j.getObjVal? k with
  | .ok v => v
  | .error _ => d

def asStr (j : Json) : R String :=
  match j.getStr? with
  | .ok s => pure s
  | .error _ => throw s!"expected string, got {j.compress}"

def asArr (j : Json) : R (List Json) :=
  match j.getArr? with
  | .ok a => pure a.toList
  | .error _ => throw s!"expected array, got {j.compress}"

def asBool (j : Json) : R Bool :=
  match j.getBool? with
  | .ok b => pure b
  | .error _ => throw s!"expected bool, got {j.compress}"

def asInt (j : Json) : R Int :=
  match j.getInt? with
  | .ok b => pure b
  | .error _ => do let s ← asStr j; parseInt s

def asNat (j : Json) : R Nat := do
  let i ← asInt j
  if i < 0 then throw "expected nat" else pure i.toNat

def asRat (j : Json) : R Rat := do
  match j.getInt? with
  | .ok i => pure (i : Rat)
  | .error _ => let s ← asStr j; parseRat s

def asExt (j : Json) : R Bads.Ext := do
  match j.getInt? with
  | .ok i => pure (.fin (i : Rat))
  | .error _ => let s ← asStr j; parseExt s

def asList {α} (f : Json → R α) (j : Json) : R (List α) := do
  let a ← asArr j
  a.mapM f

def asPt : Json → R Bads.Pt := asList asRat
def asPts : Json → R (List Bads.Pt) := asList asPt
def asExts : Json → R (List Bads.Ext) := asList asExt

def asOpt {α} (f : Json → R α) (j : Json) : R (Option α) :=
  if j.isNull then pure none else do let v ← f j; pure (some v)

def jRat (q : Rat) : Json := Json.str (showRat q)
def jExt (e : Bads.Ext) : Json := Json.str (showExt e)
def jPt (p : Bads.Pt) : Json := Json.arr (p.map jRat).toArray
def jPts (ps : List Bads.Pt) : Json := Json.arr (ps.map jPt).toArray
def jExts (ps : List Bads.Ext) : Json := Json.arr (ps.map jExt).toArray
def jInt (i : Int) : Json := Json.num (JsonNumber.fromInt i)
def jNat (i : Nat) : Json := Json.num (JsonNumber.fromNat i)
def jList {α} (f : α → Json) (l : List α) : Json := Json.arr (l.map f).toArray
def jOpt {α} (f : α → Json) : Option α → Json
  | none => Json.null
  | some a => f a

end Driver
