import Driver.Proto
open Lean Bads Bads.Ctl
namespace Driver

def parseOpts (j : Json) : R Opts := do
  pure { D := ← asNat (← field j "D"), nTry := ← asNat (← field j "nTry"), budget := ← asNat (← field j "budget"),
         maxIter := ← asNat (← field j "maxIter"), skip := ← asBool (← field j "skip"), cap := ← asInt (← field j "cap"),
         sgm := ← asInt (← field j "sgm"), sgn := ← asInt (← field j "sgn"), locked := ← asBool (← field j "locked"),
         accel := ← asBool (← field j "accel"), accelSteps := ← asNat (← field j "accelSteps"),
         stallIters := ← asNat (← field j "stallIters"), tolExp := ← asInt (← field j "tolExp"),
         expand := ← asNat (← field j "expand"), incr := ← asInt (← field j "incr") }

def parseSOut (j : Json) : R SOut := do
  if j.isNull then pure .empty else
  match j.getStr? with
  | .ok "empty" => pure .empty
  | _ => do
    let nr ← asBool (← field j "newRow")
    let st ← asStr (← field j "st")
    let s ← match st with
      | "success" => pure Status.success
      | "incremental" => pure Status.incremental
      | "failure" => pure Status.failure
      | _ => throw s!"bad status {st}"
    pure (.eval nr s)

def parseOut (j : Json) : R Out := do
  pure { search := ← parseSOut (fieldD j "search" Json.null), zs := ← asList asRat (← field j "zs"),
         newRows := ← asNat (← field j "newRows"), thr := ← asRat (← field j "thr"),
         stallMesh := ← asBool (← field j "stallMesh"), stallStop := ← asBool (← field j "stallStop") }

def msgStr : Msg → String
  | .none => "none" | .maxEvals => "max_fun_evals" | .maxIter => "max_iter" | .tolMesh => "tol_mesh" | .tolFun => "tol_fun"

def jSt (o : Opts) (prev : St) (out : Out) (s : St) : Json :=
  Json.mkObj [
    ("fc", jNat s.c.fc), ("nRec", jNat s.c.nRec), ("sc", jNat s.c.sc), ("ss", jNat s.c.ss),
    ("pollIter", jNat s.c.pollIter), ("finished", Json.bool s.c.finished), ("msg", Json.str (msgStr s.c.msg)),
    ("msi", jInt s.m.msi), ("ssi", jInt s.m.ssi), ("spree", jNat s.m.spree), ("overflows", jNat s.m.overflows),
    ("ssiNextStart", jInt (meshLoopStart o s.m).ssi),
    ("ranSearch", Json.bool (ranSearch o prev)), ("ranPoll", Json.bool (ranPoll o prev out)),
    ("msgSound", Json.bool (msgSound o s.c (decide (s.m.msi < o.tolExp)) out.stallStop)),
    ("cinv", Json.bool (decide (s.c.sc ≤ o.nTry))),
    ("budgetOK", Json.bool (decide (s.c.fc ≤ max o.budget prev.c.fc))),
    ("pollIterOK", Json.bool (decide (s.c.pollIter + 1 ≤ max o.maxIter 1))),
    ("capOK", Json.bool (decide (s.m.msi ≤ o.cap))), ("ssiOK", Json.bool (decide (s.m.ssi ≤ s.m.msi)))]

def replayCtl (o : Opts) : List Out → St → List Json
  | [], _ => []
  | out :: outs, s => let s' := step o s out; jSt o s out s' :: replayCtl o outs s'

/-- `ctl.replay`: run the loop model over the oracle outcomes extracted from a traced run. -/
def cmdCtlReplay (j : Json) : R Json := do
  let o ← parseOpts (← field j "opts")
  let ij ← field j "init"
  let s0 := init o (← asNat (← field ij "fc")) (← asNat (← field ij "nRec")) (← asInt (← field ij "msi"))
  let outs ← asList parseOut (← field j "outs")
  pure <| Json.mkObj [("states", Json.arr (replayCtl o outs s0).toArray),
                      ("bound", jNat ((o.nTry + 1) * (o.maxIter + o.budget) + 1))]

end Driver
