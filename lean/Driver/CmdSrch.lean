import Driver.Proto
open Lean Bads Bads.Srch
namespace Driver

def asCandZ (j : Json) : R Cand := do
  pure (← asPt (← field j "u"), ← asRat (← field j "z"))

/-- `srch.es`: proposed candidate for the accumulated generations. -/
def cmdSrchEs (j : Json) : R Json := do
  let lam ← asNat (← field j "lam")
  let gens ← asList (asList asCandZ) (← field j "gens")
  match esResult lam gens with
  | some c => pure <| Json.mkObj [("u", jPt c.1), ("z", jRat c.2)]
  | none => pure Json.null

/-- `srch.mask`: selection mask from the integer weights `w0` and `lam`, plus its structural predicates. -/
def cmdSrchMask (j : Json) : R Json := do
  let w0 ← asList asNat (← field j "w0")
  let lam ← asNat (← field j "lam")
  pure <| Json.mkObj [("mask", jList jNat (selectionMask w0 lam)), ("w", jList jNat (finalWeights w0 lam))]

/-- `srch.hedge`: probabilities from the exponential scores, and the strategy selected by draw `r`. -/
def cmdSrchHedge (j : Json) : R Json := do
  let e ← asList asRat (← field j "e")
  let gamma ← asRat (← field j "gamma")
  let probs := hedgeProbs e gamma
  let r ← asOpt asRat (fieldD j "r" Json.null)
  pure <| Json.mkObj [("probs", jList jRat probs), ("sum", jRat (sumQ probs)),
                      ("choice", match r with | some rv => jOpt jNat (choose rv probs 0 0) | none => Json.null)]

end Driver
