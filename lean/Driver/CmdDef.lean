import Driver.Proto
open Lean Bads Bads.Def
namespace Driver

def okOf {α : Type} : Except Def.Err α → Bool
  | .ok _ => true
  | .error _ => false

/-- `def.check`: the definedness model's verdict (ok / error) for one mechanism instance. -/
def cmdDefCheck (j : Json) : R Json := do
  let kind ← asStr (← field j "kind")
  let ok ← match kind with
    | "trainopts" => do
        pure (okOf (trainOpts (← asInt (← field j "nEff")) (← asInt (← field j "eff")) (← asInt (← field j "budget")) (← asInt (← field j "nTrainMax"))))
    | "result" => do
        pure (okOf (buildResult (← asNat (← field j "unc")) (← asNat (← field j "pollIter")) (← asNat (← field j "nfs"))))
    | "es" => do
        let n ← asNat (← field j "n")
        pure (match esReturn n with | .ok r => okOf (searchStep r) | .error _ => false)
    | "merged_value" => pure (okOf (statsAsFloat [recordValueKind .merged, recordValueKind .fresh]) && okOf (floatOf (recordValueKind .merged)))
    | "target_fallback" => pure (okOf (itemOf (targetMu false)))
    | _ => throw s!"unknown mechanism {kind}"
  pure (Json.bool ok)

end Driver
