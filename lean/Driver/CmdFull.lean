import Driver.Proto
import Driver.CmdFilter
import Driver.CmdCtl
import Driver.CmdPipe
import Driver.CmdNoisy
import BadsModel.FullRun
open Lean Bads Bads.Full
namespace Driver

def asVal (j : Json) : R Val := do
  pure { y := ← asRat (← field j "y"), f := ← asRat (← field j "f"), sd := ← asRat (← field j "sd"), newRow := ← asBool (← field j "newRow") }

/-- the loop of `full.replay` / `whole.replay`: replay the per-iteration oracles of a traced run through `Full.step` from `s0` -/
def fullLoop (pe : Pipe.Env) (e : Env) (s0 : St) (orcs : List Json) : R (List Json × St) := do
  let o := e.o
  let mut s : St := s0
  let mut res : List Json := []
  for qj in orcs do
    if s.ctl.c.finished then break
    let h ← asRat (← field qj "h")
    let searchU ← asPts (← field qj "searchU")
    let pollU ← asPts (← field qj "pollU")
    let sp ← asOpt asPt (fieldD qj "searchPick" Json.null)
    let sv ← asOpt asVal (fieldD qj "searchVal" Json.null)
    let pp ← asPts (← field qj "pollPicks")
    let pv ← asList asVal (← field qj "pollVals")
    let reVals : Option (List (Rat × Rat)) ←
      match qj.getObjVal? "reVals" with
      | .ok v => if v.isNull then pure none else do pure (some (← asList asPairRat v))
      | .error _ => pure none
    let outS := filterCode (Pipe.filterIn pe true h searchU (pts s))
    let sIdx := match sp with | some p => idxOf outS p | none => none
    let q0 : Orc := { h := h, searchU := searchU, searchPick := sIdx.getD outS.length, searchVal := sv, pollU := pollU, pollOrder := [],
                      pollVals := pv, thr := ← asRat (← field qj "thr"), stallMesh := ← asBool (← field qj "stallMesh"),
                      stallStop := ← asBool (← field qj "stallStop"), reVals := reVals }
    let outP := filterCode (Pipe.filterIn pe false h pollU (pts s ++ ((searchCand e s q0).map (·.1.u)).toList))
    let pIdx := pp.map (idxOf outP)
    let q : Orc := { q0 with pollOrder := pIdx.filterMap id }
    let s' := step e s q
    res := res ++ [Json.mkObj [
      ("ctl", jSt o s.ctl (outOf e s q) s'.ctl),
      ("ns", jNSt s'.ns), ("nPairs", jNat s'.pairs.length),
      ("newEvals", jPts ((newPairs e s q).map (·.1))),
      ("searchFound", Json.bool (sp.isNone || sIdx.isSome)), ("pollFound", Json.bool (pIdx.all Option.isSome)),
      ("searchWouldEvaluate", Json.bool (Ctl.doSearch o s.ctl.c && !outS.isEmpty)),
      ("zs", jList jRat (outOf e s q).zs), ("it", jNat (iterOf e s q).it), ("histLen", jNat s'.ns.hist.length)]]
    s := s'
  pure (res, s)

def parsePipeEnv (j : Json) : R Pipe.Env := do
  let ej ← field j "env"
  let tbl ← asOpt (asList (fun e => do
      let p ← asPt (← field e "p")
      let v ← asBool (← field e "v")
      pure (p, v))) (fieldD j "cons" Json.null)
  pure { lb := ← asExts (← field ej "lb"), ub := ← asExts (← field ej "ub"), origLo := ← asExts (← field ej "origLo"),
         origHi := ← asExts (← field ej "origHi"), tolMesh := ← asRat (← field ej "tol"),
         cons := tbl.map consTable, ginv := fun u => u }

/-- `full.replay`: replay a traced run (any noise mode) through `Full.step`. -/
def cmdFullReplay (j : Json) : R Json := do
  let pe ← parsePipeEnv j
  let o ← parseOpts (← field j "opts")
  let e : Env := { pipe := pe, o := o, tolFun := ← asRat (← field j "tolFun") }
  let ij ← field j "init"
  let nj ← field ij "ns"
  let u0 ← asPt (← field nj "u")
  let pairs0 ← asList (fun p => do pure (← asPt (← field p "u"), ← asRat (← field p "y"))) (← field ij "pairs")
  let s0 : St := { pairs := pairs0,
                   ns := { u := u0, uBest := u0, yval := ← asRat (← field nj "yval"), fval := ← asRat (← field nj "fval"),
                           fsd := ← asRat (← field nj "fsd"), hist := [] },
                   ctl := Ctl.init o (← asNat (← field ij "fc")) (← asNat (← field ij "nRec")) (← asInt (← field ij "msi")) }
  let (res, _) ← fullLoop pe e s0 (← asArr (← field j "orcs"))
  pure <| Json.mkObj [("states", Json.arr res.toArray)]

end Driver
