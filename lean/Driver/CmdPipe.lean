import Driver.Proto
import Driver.CmdFilter
open Lean Bads Bads.Pipe
namespace Driver

def idxOf (out : List Pt) (p : Pt) : Option Nat := out.findIdx? (fun q => q == p)

structure StepRes where
  lo : List Ext
  hi : List Ext
  found : Bool
  nOut : Nat

/-- `pipe.run`: replay the call provenance of a traced run through `Pipe.step`; evaluate the C01/C02
    predicates on the OBSERVED calls. -/
def cmdPipeRun (j : Json) : R Json := do
  let ej ← field j "env"
  let lb ← asExts (← field ej "lb")
  let ub ← asExts (← field ej "ub")
  let olo ← asExts (← field ej "origLo")
  let ohi ← asExts (← field ej "origHi")
  let tol ← asRat (← field ej "tol")
  let tbl ← asOpt (asList (fun e => do
      let p ← asPt (← field e "p")
      let v ← asBool (← field e "v")
      pure (p, v))) (fieldD j "cons" Json.null)
  let e : Env := { lb := lb, ub := ub, origLo := olo, origHi := ohi, tolMesh := tol,
                   cons := tbl.map consTable, ginv := fun u => u }
  let u0 ← asPt (← field j "u0")
  let stepsJ ← asArr (← field j "steps")
  let mut evals : List Pt := [u0]
  let mut infos : List Json := []
  for sj in stepsJ do
    let t ← asStr (← field sj "t")
    if t == "revisit" then
      let u ← asPt (← field sj "u")
      match idxOf evals u with
      | some k =>
        evals := step e evals (.revisit k)
        infos := infos ++ [Json.mkObj [("found", Json.bool true)]]
      | none => infos := infos ++ [Json.mkObj [("found", Json.bool false)]]
    else
      let proj ← asBool (← field sj "proj")
      let h ← asRat (← field sj "h")
      let U ← asPts (← field sj "U")
      let logX ← asPts (← field sj "logX")
      let pickPts ← asPts (← field sj "picks")
      let I := filterIn e proj h U logX
      let out := filterCode I
      let idxs := pickPts.map (idxOf out)
      let found := idxs.all Option.isSome
      let picks := idxs.filterMap id
      evals := step e evals (.filt proj h U logX picks)
      infos := infos ++ [Json.mkObj [("found", Json.bool found), ("lo", jExts I.lo), ("hi", jExts I.hi), ("nOut", jNat out.length),
                                     ("out", jPts out)]]
  -- predicates on the observed calls
  let callsJ ← asArr (← field j "calls")
  let mut cres : List Json := []
  for cj in callsJ do
    let u ← asPt (← field cj "u")
    let x ← asPt (← field cj "x")
    let g ← asPt (← field cj "ginv")
    cres := cres ++ [Json.mkObj [("u_in", Json.bool (inBoxB lb ub u)), ("x_in", Json.bool (inBoxB olo ohi x)),
                                 ("x_eq", Json.bool (clampPt olo ohi g == x)),
                                 ("feasible", Json.bool (match tbl with | some tb => !consTable tb u | none => true))]]
  pure <| Json.mkObj [("evals", jPts evals), ("steps", Json.arr infos.toArray), ("calls", Json.arr cres.toArray)]

end Driver

namespace Driver
open Lean Bads
/-- `mesh.bounds`: search-box bounds for mesh size `h`. -/
def cmdMeshBounds (j : Json) : R Json := do
  let h ← asRat (← field j "h")
  let lb ← asExts (← field j "lb")
  let ub ← asExts (← field j "ub")
  pure <| Json.mkObj [("lo", jExts (searchLo h lb)), ("hi", jExts (searchHi h ub))]
end Driver
