import Driver.Proto
import Driver.CmdFilter
import Driver.CmdCtl
import Driver.CmdPipe
import BadsModel.DetRun
open Lean Bads Bads.Det
namespace Driver

def fTable (tbl : List (Pt × Rat)) (p : Pt) : Rat :=
  match tbl.find? (fun e => e.1 == p) with
  | some e => e.2
  | none => 0

def parsePairs (j : Json) : R (List (Pt × Rat)) :=
  asList (fun e => do pure (← asPt (← field e "u"), ← asRat (← field e "y"))) j

/-- `det.replay`: replay a traced deterministic run through `Det.step`.  The observed evaluated points of
    each step are translated into positions within the model's own filter outputs. -/
def cmdDetReplay (j : Json) : R Json := do
  let ej ← field j "env"
  let tbl ← asOpt (asList (fun e => do
      let p ← asPt (← field e "p")
      let v ← asBool (← field e "v")
      pure (p, v))) (fieldD j "cons" Json.null)
  let pe : Pipe.Env := { lb := ← asExts (← field ej "lb"), ub := ← asExts (← field ej "ub"), origLo := ← asExts (← field ej "origLo"),
                         origHi := ← asExts (← field ej "origHi"), tolMesh := ← asRat (← field ej "tol"),
                         cons := tbl.map consTable, ginv := fun u => u }
  let o ← parseOpts (← field j "opts")
  let ftbl ← parsePairs (← field j "f")
  let e : Env := { pipe := pe, o := o, f := fTable ftbl }
  let ij ← field j "init"
  let incj ← field ij "inc"
  let mut s : St := { log := ← parsePairs (← field ij "log"),
                      inc := { u := ← asPt (← field incj "u"), fval := ← asRat (← field incj "fval") },
                      ctl := Ctl.init o (← asNat (← field ij "fc")) (← asNat (← field ij "nRec")) (← asInt (← field ij "msi")) }
  let mut res : List Json := []
  for qj in ← asArr (← field j "orcs") do
    if s.ctl.c.finished then break
    let h ← asRat (← field qj "h")
    let searchU ← asPts (← field qj "searchU")
    let pollU ← asPts (← field qj "pollU")
    let sp ← asOpt asPt (fieldD qj "searchPick" Json.null)
    let pp ← asPts (← field qj "pollPicks")
    let outS := filterCode (Pipe.filterIn pe true h searchU (logPts s))
    let sIdx := match sp with | some p => idxOf outS p | none => none
    let q0 : Orc := { h := h, searchU := searchU, searchPick := sIdx.getD outS.length, pollU := pollU, pollOrder := [],
                      thr := ← asRat (← field qj "thr"), stallMesh := ← asBool (← field qj "stallMesh"),
                      stallStop := ← asBool (← field qj "stallStop") }
    let outP := filterCode (Pipe.filterIn pe false h pollU (logPts s ++ (searchEval e s q0).toList.map (·.1)))
    let pIdx := pp.map (idxOf outP)
    let q : Orc := { q0 with pollOrder := pIdx.filterMap id }
    let s' := step e s q
    let newEvals := (searchEval e s q).toList ++ pollEvals e s q
    res := res ++ [Json.mkObj [
      ("ctl", jSt o s.ctl (outOf e s q) s'.ctl),
      ("incU", jPt s'.inc.u), ("incF", jRat s'.inc.fval), ("logLen", jNat s'.log.length),
      ("newEvals", jPts (newEvals.map (·.1))), ("newVals", jList jRat (newEvals.map (·.2))),
      ("searchFound", Json.bool (sp.isNone || sIdx.isSome)), ("pollFound", Json.bool (pIdx.all Option.isSome)),
      ("searchWouldEvaluate", Json.bool (Ctl.doSearch o s.ctl.c && !outS.isEmpty)),
      ("zs", jList jRat (outOf e s q).zs)]]
    s := s'
  pure <| Json.mkObj [("states", Json.arr res.toArray)]

end Driver
