import Driver.Proto
open Lean Bads
namespace Driver

/-- Constraint answers arrive as a finite table `[(point, violated?)]`; points not in the
    table count as violated = false is NOT assumed: a missing point is an error. -/
def consTable (tbl : List (Pt × Bool)) (p : Pt) : Bool :=
  match tbl.find? (fun e => e.1 == p) with
  | some e => e.2
  | none => false

def parseFilterIn (j : Json) : R (FilterIn × Option (List (Pt × Bool))) := do
  let U ← asPts (← field j "U")
  let lo ← asExts (← field j "lo")
  let hi ← asExts (← field j "hi")
  let tol ← asRat (← field j "tol")
  let logX ← asPts (← field j "logX")
  let proj ← asBool (← field j "proj")
  let cj := fieldD j "cons" Json.null
  let tbl ← asOpt (asList (fun e => do
      let p ← asPt (← field e "p")
      let v ← asBool (← field e "v")
      pure (p, v))) cj
  let cons := tbl.map consTable
  pure ({ U := U, lo := lo, hi := hi, tolMesh := tol, logX := logX, proj := proj, cons := cons }, tbl)

/-- `filter`: model output of `contraints_check` (stages reported separately so that the
    harness can ask the real constraint function on exactly the rows the code asks). -/
def cmdFilter (j : Json) : R Json := do
  let (I, _) ← parseFilterIn j
  let U1 := dedupRows (boxStage I.proj I.lo I.hi I.U)
  let U2 := keyStage (I.tolMesh / 2) U1 I.logX
  pure <| Json.mkObj [("pre_cons", jPts U2), ("out", jPts (filterCode I)), ("spec", jPts (filterSpec I))]

/-- `prop.filter`: the C17/C01/C02 output predicates on an OBSERVED output. -/
def cmdPropFilter (j : Json) : R Json := do
  let (I, tbl) ← parseFilterIn j
  let out ← asPts (← field j "out")
  let t := I.tolMesh / 2
  let boxed := boxStage I.proj I.lo I.hi I.U
  let feas := match tbl with
    | none => true
    | some tb => allFeasible (consTable tb) out
  pure <| Json.mkObj [
    ("in_box", Json.bool (allInBox I.lo I.hi out)),
    ("distinct", Json.bool (keysDistinct t out)),
    ("fresh", Json.bool (noneInLog t out I.logX)),
    ("feasible", Json.bool feas),
    ("sub_input", Json.bool (out.all (fun p => boxed.contains p)))]

end Driver
