import Driver.Proto
open Lean Bads Bads.Noisy
namespace Driver

def asCand (j : Json) : R Cand := do
  pure { u := ← asPt (← field j "u"), y := ← asRat (← field j "y"), f := ← asRat (← field j "f"), sd := ← asRat (← field j "sd") }

def asPairRat (j : Json) : R (Rat × Rat) := do
  let a ← asArr j
  match a with
  | [x, y] => pure (← asRat x, ← asRat y)
  | _ => throw "expected pair"

def parseIter (j : Json) : R Iter := do
  let search : Option (Option Cand) ←
    match j.getObjVal? "search" with
    | .ok v => do pure (some (← asOpt asCand v))
    | .error _ => pure none
  let poll : Option (List Cand) ←
    match j.getObjVal? "poll" with
    | .ok v => do pure (some (← asList asCand v))
    | .error _ => pure none
  let reVals : Option (List (Rat × Rat)) ←
    match j.getObjVal? "reVals" with
    | .ok v => do pure (some (← asList asPairRat v))
    | .error _ => pure none
  pure { search := search, poll := poll, it := ← asNat (← field j "it"), finished := ← asBool (← field j "finished"), reVals := reVals }

def jHRow (r : HRow) : Json := Json.mkObj [("u", jPt r.u), ("yval", jRat r.yval), ("fval", jRat r.fval), ("fsd", jRat r.fsd)]
def jNSt (s : St) : Json :=
  Json.mkObj [("u", jPt s.u), ("uBest", jPt s.uBest), ("yval", jRat s.yval), ("fval", jRat s.fval), ("fsd", jRat s.fsd),
              ("hist", jList jHRow s.hist)]

def noisyTrace (tol : Rat) (s : St) : List Iter → List Json × St
  | [] => ([], s)
  | i :: is => let s' := iterStep tol s i; let (js, sf) := noisyTrace tol s' is; (jNSt s' :: js, sf)

/-- `noisy.run`: incumbent/history/final-estimate bookkeeping over the oracle values of a traced run. -/
def cmdNoisyRun (j : Json) : R Json := do
  let tol ← asRat (← field j "tolFun")
  let ij ← field j "init"
  let u ← asPt (← field ij "u")
  let s0 : St := { u := u, uBest := u, yval := ← asRat (← field ij "yval"), fval := ← asRat (← field ij "fval"),
                   fsd := ← asRat (← field ij "fsd"), hist := [] }
  let its ← asList parseIter (← field j "iters")
  let (js, sf) := noisyTrace tol s0 its
  let fin ← match j.getObjVal? "final" with
    | .ok fj => do
      let sel := fieldD fj "select" Json.null
      let s1 ← if sel.isNull then pure sf else do
        let vals ← asList asPairRat (← field sel "reVals")
        let qs ← asList asRat (← field sel "qs")
        pure (finalChoice sf vals qs)
      let samples ← asList asRat (← field fj "samples")
      let yv := yvalVec s1 samples
      pure <| Json.mkObj [("state", jNSt s1), ("yvec", jList jRat yv),
                          ("mean", if yv.isEmpty then Json.null else jRat (meanOf yv)),
                          ("sqdev", if yv.isEmpty then Json.null else jRat (sqDev yv))]
    | .error _ => pure Json.null
  pure <| Json.mkObj [("states", Json.arr js.toArray), ("final", fin)]

end Driver
