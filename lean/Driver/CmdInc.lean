import Driver.Proto
open Lean Bads Bads.Inc
namespace Driver

def asEval (j : Json) : R (Pt × Rat) := do
  pure (← asPt (← field j "u"), ← asRat (← field j "y"))

def parseEv (j : Json) : R Ev := do
  let t ← asStr (← field j "t")
  if t == "search" then
    pure (.search (← asOpt asEval (fieldD j "e" Json.null)))
  else
    pure (.poll (← asList asEval (← field j "es")))

def jInc (s : St) : Json := Json.mkObj [("u", jPt s.u), ("fval", jRat s.fval)]

def incTrace (s : St) : List Ev → List Json
  | [] => []
  | e :: es => let s' := step s e; jInc s' :: incTrace s' es

/-- `inc.run`: deterministic incumbent bookkeeping over the evaluations of a traced run. -/
def cmdIncRun (j : Json) : R Json := do
  let init ← asList asEval (← field j "init")
  let evs ← asList parseEv (← field j "events")
  match initInc init with
  | none => throw "empty initial design"
  | some s0 => pure <| Json.mkObj [("init", jInc s0), ("states", Json.arr (incTrace s0 evs).toArray)]

end Driver
