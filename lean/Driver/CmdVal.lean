import Driver.Proto
open Lean Bads Bads.Val
namespace Driver

def optExts (j : Json) (k : String) : R (Option (List Ext)) := asOpt asExts (fieldD j k Json.null)

def errName : Val.Err → String
  | .unknownDims => "unknownDims" | .dimMismatch => "dimMismatch" | .plausibleNotFinite => "plausibleNotFinite"
  | .fixedVariable => "fixedVariable" | .plausibleEqual => "plausibleEqual" | .x0Outside => "x0Outside"
  | .boundsTooClose => "boundsTooClose" | .order1 => "order1" | .order2 => "order2" | .halfBounded => "halfBounded"

/-- `val.run`: model verdict + normalised problem, and the property's own verdict. -/
def cmdValRun (j : Json) : R Json := do
  let r : Raw := { x0 := ← optExts j "x0", lb := ← optExts j "lb", ub := ← optExts j "ub", plb := ← optExts j "plb", pub := ← optExts j "pub" }
  let spec := match specValid r with | some true => "valid" | some false => "invalid" | none => "unspecified"
  match validate r with
  | .ok n => pure <| Json.mkObj [("ok", Json.mkObj [("x0", jExts n.x0), ("lb", jExts n.lb), ("ub", jExts n.ub), ("plb", jExts n.plb), ("pub", jExts n.pub)]),
                                 ("spec", Json.str spec)]
  | .error e => pure <| Json.mkObj [("err", Json.str (errName e)), ("spec", Json.str spec)]

/-- `fl.ops`: binary64 arithmetic of the model, for differential validation against Python floats. -/
def cmdFlOps (j : Json) : R Json := do
  let a ← asRat (← field j "a")
  let b ← asRat (← field j "b")
  pure <| Json.mkObj [("add", jRat (Fl.add a b)), ("sub", jRat (Fl.sub a b)), ("mul", jRat (Fl.mul a b)),
                      ("div", if b == 0 then Json.null else jRat (Fl.div a b))]

end Driver
