import BadsProofs.Lemmas.NumLemmas
import BadsProofs.Lemmas.FilterLemmas
import BadsProofs.Props.C17
import BadsProofs.Lemmas.CtlLemmas
import BadsProofs.Props.C03
import BadsProofs.Props.C13
import BadsProofs.Lemmas.LogLemmas
import BadsProofs.Props.C12
