import BadsProofs.Lemmas.NumLemmas
import BadsProofs.Lemmas.FilterLemmas
import BadsProofs.Props.C17
