import Generated.Defaults
