/-
  Process-level random-number discipline (bads.py `_init_random_seed_` called in `__init__` l.192 -
  before the x0 draw l.230 - and at the start of `_init_optimization_` l.1049; everything random
  in pybads and gpyreg draws from NumPy's global generator).

  The generator is ARBITRARY: a state type `S`, `reseed : Nat → S`, and programs that consume it.
  A program is a state transformer returning a result (the draws it makes are whatever it likes).
  Foreign activity (other optimisations, raw draws, constructing other instances) is an arbitrary
  state transformation.
-/
namespace Bads.Rng

/-- something that uses the global generator: returns its result and the generator state it leaves -/
abbrev Prog (S R : Type) := S → R × S

structure Inst (S X R : Type) where
  seed : Option Nat
  drawX0 : Option (Prog S X)      -- `some` when x0 is omitted and must be drawn at construction
  givenX0 : X
  run : X → Prog S R              -- optimize(), a function of the start point and of the generator state

inductive Ev (S : Type) where
  | foreign (f : S → S)           -- anything else happening in the process
  | construct                     -- BADS(...) of the instance under test
  | optimize                      -- .optimize() of the instance under test

structure PState (S X R : Type) where
  g : S
  x0 : Option X                   -- start point fixed at construction
  result : Option R

def step {S X R : Type} (reseed : Nat → S) (A : Inst S X R) (p : PState S X R) : Ev S → PState S X R
  | .foreign f => { p with g := f p.g }
  | .construct =>
    let g1 := match A.seed with | some n => reseed n | none => p.g       -- l.192
    match A.drawX0 with
    | some d => let (x, g2) := d g1; { p with g := g2, x0 := some x }     -- l.230
    | none => { p with g := g1, x0 := some A.givenX0 }
  | .optimize =>
    match p.x0 with
    | none => p
    | some x =>
      let g1 := match A.seed with | some n => reseed n | none => p.g     -- l.1049
      let (r, g2) := A.run x g1
      { p with g := g2, result := some r }

def exec {S X R : Type} (reseed : Nat → S) (A : Inst S X R) (p : PState S X R) (evs : List (Ev S)) : PState S X R :=
  evs.foldl (step reseed A) p

/-- variants with one of the two seeding points removed (what the property forbids) -/
def stepNoReseedAtOptimize {S X R : Type} (reseed : Nat → S) (A : Inst S X R) (p : PState S X R) : Ev S → PState S X R
  | .optimize =>
    match p.x0 with
    | none => p
    | some x => let (r, g2) := A.run x p.g; { p with g := g2, result := some r }
  | e => step reseed A p e

def stepNoReseedAtConstruct {S X R : Type} (reseed : Nat → S) (A : Inst S X R) (p : PState S X R) : Ev S → PState S X R
  | .construct =>
    match A.drawX0 with
    | some d => let (x, g2) := d p.g; { p with g := g2, x0 := some x }
    | none => { p with x0 := some A.givenX0 }
  | e => step reseed A p e

end Bads.Rng
