/-
  Evaluation pipeline: WHICH points reach the target (`function_logger.__call__`) and the
  non-box constraint function, and what is passed to them in original coordinates.

  Code: every candidate set (initial design l.1002, ES-internal es_search.py, search l.1613,
  poll l.1959) goes through `contraints_check` - projected onto the mesh-rounded search box
  (`proj`) or dropped outside `[lb, ub]` -; every evaluated point is the checked start point, a
  row of a filtered set, or an earlier evaluated point (noise test l.934, final re-sampling
  l.1465); every target call maps the internal point back with `inverse_transf` = clamp onto the
  original bounds after `ginv`.  Candidate generation (Sobol, ES, poll directions + GP ranking)
  is ORACLE: arbitrary candidate sets and arbitrary picks among the survivors.
-/
import BadsModel.Mesh
import BadsModel.Filter
namespace Bads.Pipe

structure Env where
  lb : List Ext              -- internal hard bounds
  ub : List Ext
  origLo : List Ext          -- original hard bounds
  origHi : List Ext
  tolMesh : Rat
  cons : Option (Pt → Bool)  -- does the user's constraint report a violation at inverse(u)?
  ginv : Pt → Pt             -- un-clamped inverse map (oracle: affine or exp of affine)

/-- `VariableTransformer.inverse_transf`: `ginv`, then clamp onto the original hard bounds. -/
def inverse (e : Env) (u : Pt) : Pt := clampPt e.origLo e.origHi (e.ginv u)

inductive Step where
  /-- a candidate set `U` is filtered against the search box of mesh `h` (`proj`) or against
      `[lb, ub]`; the survivors at positions `picks` are evaluated, in that order -/
  | filt (proj : Bool) (h : Rat) (U : List Pt) (logX : List Pt) (picks : List Nat)
  /-- the `k`-th evaluated point is evaluated again -/
  | revisit (k : Nat)

def filterIn (e : Env) (proj : Bool) (h : Rat) (U logX : List Pt) : FilterIn :=
  { U := U, lo := if proj then searchLo h e.lb else e.lb, hi := if proj then searchHi h e.ub else e.ub,
    tolMesh := e.tolMesh, logX := logX, proj := proj, cons := e.cons }

def pickAll (out : List Pt) : List Nat → List Pt
  | [] => []
  | i :: is => (match out[i]? with | some p => [p] | none => []) ++ pickAll out is

/-- Points evaluated so far (in call order) after one more step. -/
def step (e : Env) (evals : List Pt) : Step → List Pt
  | .filt proj h U logX picks => evals ++ pickAll (filterCode (filterIn e proj h U logX)) picks
  | .revisit k => evals ++ (match evals[k]? with | some p => [p] | none => [])

def run (e : Env) (evals : List Pt) : List Step → List Pt
  | [] => evals
  | s :: ss => run e (step e evals s) ss

/-- Construction (`__init__` l.242-250, `_init_optim_state_` l.652-686): the gridised start point,
    or an error (`none`) before any target call when it is outside the box or infeasible. -/
def construct (e : Env) (h : Rat) (u0raw : Pt) : Option Pt :=
  match gridStart h e.lb e.ub u0raw with
  | none => none
  | some g =>
    match e.cons with
    | some c => if c g then none else some g
    | none => some g

end Bads.Pipe
