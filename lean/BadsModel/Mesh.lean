/-
  Mesh arithmetic: `force_to_grid`, the search-mesh bounds
  (`BADS._update_search_bounds_`, `_init_optim_state_` l.634-650) and the gridised
  start point (l.652-686).
-/
import BadsModel.Num
namespace Bads

/-- Lower search bound for one coordinate: round to the grid, step inwards if that fell outside. -/
def searchLo1 (h : Rat) : Ext → Ext
  | .fin a => let g := forceToGrid h a; .fin (if g < a then g + h else g)
  | e => e

/-- Upper search bound for one coordinate. -/
def searchHi1 (h : Rat) : Ext → Ext
  | .fin b => let g := forceToGrid h b; .fin (if g > b then g - h else g)
  | e => e

def searchLo (h : Rat) (lb : List Ext) : List Ext := lb.map (searchLo1 h)
def searchHi (h : Rat) (ub : List Ext) : List Ext := ub.map (searchHi1 h)

/-- One coordinate of the gridised start point: snap, then step one mesh unit back inside. -/
def gridStart1 (h : Rat) (lo hi : Ext) (u : Rat) : Rat :=
  let g := forceToGrid h u
  let g1 := match lo with
    | .fin a => if g < a then g + h else g
    | _ => g
  match hi with
    | .fin b => if g1 > b then g1 - h else g1
    | _ => g1

def gridStartRaw (h : Rat) : List Ext → List Ext → Pt → Pt
  | l :: lo, u :: hi, x :: p => gridStart1 h l u x :: gridStartRaw h lo hi p
  | _, _, _ => []

/-- The start-point routine: the gridised point, or an error if it is (still) outside `[lb, ub]`. -/
def gridStart (h : Rat) (lb ub : List Ext) (u0 : Pt) : Option Pt :=
  let g := gridStartRaw h lb ub u0
  if inBoxB lb ub g then some g else none

end Bads
