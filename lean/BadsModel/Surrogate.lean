/-
  The evaluation log and the surrogate's training set TOGETHER over a run (function_logger.py + gaussian_process_train.py as called from
  bads.py): the initial design is logged without a surrogate; `init_and_train_gp` conditions the GP on the whole log; every search round and
  poll step re-selects the neighbourhood of the incumbent from the log (`local_gp_fitting`); every evaluation of a search or poll step goes
  through `FunctionLogger.__call__` and is then appended to the GP by `add_and_update_gp(x, fval returned by the logger, SD returned by the
  target)`; the final re-sampling calls are neither recorded nor appended.
  ORACLE: target outcomes, distances.
-/
import BadsModel.Logger
import BadsModel.GPSet
namespace Bads.SurRun
open Bads

/-- a log record as the GP receives it: point, logged value, logged SD squared (`S = 1/sqrt(tau)`, so `S^2 = 1/tau`) -/
def recOf (r : Log.Row) : GP.Train := { x := r.x, y := r.y, s2 := r.tau.map (fun t => 1 / t) }

/-- `get_grid_search_neighbors` on records: the `ntrain` nearest, by distance -/
def neighborsOf (recs : List GP.Train) (dist : List Rat) (radius2 : Rat) (nMin nMax buffer : Int) : List GP.Train :=
  let within := (dist.filter (fun d => d ≤ radius2)).length
  let n := GP.ntrain nMin nMax buffer within recs.length
  ((GP.sortBy (fun a b => decide (a.2 ≤ b.2)) (recs.zip dist)).take n).map (fun p => p.1)

inductive JEv where
  | evalOnly (xo x : Pt) (out : Log.Outcome) (record : Bool)   -- initial design (recorded), final re-sampling (not recorded): no posterior update
  | eval (xo x : Pt) (out : Log.Outcome)                       -- search / poll evaluation: logger call, then `add_and_update_gp`
  | initial                                                    -- `init_and_train_gp`
  | select (dist : List Rat) (radius2 : Rat) (nMin nMax buffer : Int)   -- `local_gp_fitting`
deriving Repr

structure JSt where
  log : Log.St
  train : List GP.Train
deriving Repr

def jstep (s : JSt) : JEv → Except Log.Err JSt
  | .evalOnly xo x out rd =>
    match Log.call s.log xo x out rd with
    | .error e => .error e
    | .ok (l', _) => .ok { s with log := l' }
  | .eval xo x out =>
    match Log.call s.log xo x out true with
    | .error e => .error e                                      -- the target's failure ends the run (C10)
    | .ok (l', r) => .ok { log := l', train := GP.addPoint s.train x r.fval r.fsd }
  | .initial => .ok { s with train := s.log.rows.map recOf }
  | .select dist r2 nMin nMax buffer => .ok { s with train := neighborsOf (s.log.rows.map recOf) dist r2 nMin nMax buffer }

def jrun : JSt → List JEv → Except Log.Err JSt
  | s, [] => .ok s
  | s, e :: es => match jstep s e with
    | .error err => .error err
    | .ok s' => jrun s' es

end Bads.SurRun
